from common import COMMON_TB

CFG = {
    "technique": "Lean 4 theorems over the symbolic write stream (Sym terms) emitted by every operation of the AddrDerive model + tap of every real Put/Delete with field-by-field decryption using keys recovered from the rows themselves + raw file image scan after every commit",
    "level_text": "For every history the model's write stream exposes no secret outside a sealed box, no public key material in the clear, seals private material only under private-class keys, and after watching-only conversion + reopen — directly or through Wallet.InitAccounts(watchOnly=true) on any start — nothing unlocks and every private accessor errors; on the whole file (waddrmgr next to wtxmgr) public material appears only in wtxmgr rows and only once a transaction is recorded; each real database row is parsed, every encrypted field is opened with the key class the model predicts and compared, and each committed file image is scanned for every secret / public item produced so far.",
    "level_note": "Partial: secretbox/scrypt are modelled as opaque constructors (cipher strength is not proved); free-page residue in the bbolt file is covered by scanning real images, i.e. empirically. The all-zero script key defect (O1) is fixed in the official tree (b81a3ff); its unfixed variant survives as a counter-example theorem and as a direct Go oracle at Unlock.",
    "lean_props": ["BtcwVerif.Props.C04"],
    "engines": ["addrmgr-derive"],
    "trusted_base": COMMON_TB + [
        "hand-written model BtcwVerif/Model/AddrSym.lean + AddrDerive*.lean (row formats of waddrmgr/db.go), tied by differential run",
        "snacl (secretbox + scrypt) is used by the harness to open the tapped rows; its strength is assumed",
        "bbolt file layout: scanned as raw bytes after every commit (no assumption on page structure)",
    ],
    "assumptions": [
        "wallet level: Wallet.InitAccounts is modelled as the composition of the manager operations it calls (opInitAccounts: NewRawAccount(a) = newAccount for a contiguous account range, then ConvertToWatchingOnly); a real wallet.Wallet is run through two starts + a probing third open by the engine op wmigrate",
        "only rows that carry key material, address-id hashes or the watching-only flag are part of the compared symbolic stream; all other rows are scanned for registered secrets/public items",
        "'until a transaction is recorded': the engine records real wtxmgr transactions (op rectx) in the same file; before the first one nothing public may be anywhere in the image, afterwards the waddrmgr namespace must still be clean and public items may sit in wtxmgr buckets only (C04_public_boundary, C04_waddrmgr_never_public)",
    ],
}
