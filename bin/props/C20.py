from common import COMMON_TB

CFG = {
    "technique": "Lean 4 theorems about an executable model of reliablyPublishTransaction / publishTransaction / resendUnminedTxs "
                 "(incl. the ordered effect list record -> subscribe -> broadcast -> roll-back, and two overlapping re-broadcasts) over an "
                 "abstract unconfirmed-transaction store + differential run of a real wallet.Wallet with scripted backend answers, "
                 "judged against the fake backend's own SendRawTransaction record",
    "level_text": "Lean theorems for every store, transaction and answer class: a failing answer (rejection, NotifyReceived failure) "
                  "forgets the transaction and exactly its unconfirmed descendants and returns an error; a new childless one leaves "
                  "the store (balances, spendable set) unchanged; 'already in mempool' keeps it once; publish is the run of its "
                  "effect list (C20_publish_effects): broadcast only after record + subscription, never after a failed one "
                  "(C20_subscribe_before_broadcast), a broadcast tx is not forgotten (C20_published_never_forgotten); every "
                  "resync, also two overlapping ones, offers every unconfirmed tx, parents first (C20_resend, "
                  "C20_resend_every_resync).",
    "level_note": "Tied to wallet/wallet.go, wtxmgr/unconfirmed.go, chain/errors.go by a differential run: raw backend texts through the "
                  "real MapRPCErr, replies carry sent=<SendRawTransaction calls>, op `resync twice=1` makes two re-broadcasts "
                  "overlap. Oracles from the fake backend's own record: publish.accepted-by-backend-but-forgotten, "
                  "resendUnminedTxs.not-offered-after-every-resync / offered-twice. Trusted: Lean kernel; hand model Publish.lean "
                  "(depth-first removeConflict proved equal to the descendant closure; tied on explored inputs only); Go scheduler "
                  "(goroutines observed after they finished).",
    "lean_props": ["BtcwVerif.Props.C20"],
    "engines": ["walletchain-tx"],
    "trusted_base": COMMON_TB + [
        "hand-written model BtcwVerif/Model/Publish.lean of wallet.reliablyPublishTransaction/publishTransaction/resendUnminedTxs, wtxmgr.removeConflict/insertMemPoolTx and the tables of chain/errors.go (tied by differential run)",
        "transaction ids identify transactions (hash collisions excluded); dependency graph acyclic (hypothesis `Acyclic`, true of hash-linked transactions)",
        "walletdb.Update atomicity (C11) for each of the two database transactions of a publish",
        "backend side of 'accepted': the fake backend's own record of SendRawTransaction calls and answers (harness/engines/walletchaintx/backend.go), independent of what the wallet returned",
        "overlapping re-broadcasts (op `resync twice=1`): the fake holds every SendRawTransaction call until the second RescanFinished was delivered; the model (Publish.resendTwice) lets both goroutines read the same untouched store, removals being idempotent - validated by the differential `state` after the op",
    ],
    "assumptions": [
        "DependencySort is modelled layer by layer; the order inside a layer (Go map order) is irrelevant to the property",
        "a NotifyReceived failure is scripted only while reliablyPublishTransaction is on the call stack; a failed subscription and a broadcast never occur in one call (theorem), so 'forgotten' is demanded only when the backend did not accept the transaction",
        "where several keys of one Go error map match a backend text the choice is Go-map-order dependent; the generator only emits texts whose matches agree on the class",
    ],
}
