from common import COMMON_TB

CFG = {
    "technique": "Lean 4 theorems about an executable model of reliablyPublishTransaction / publishTransaction / resendUnminedTxs over "
                 "an abstract unconfirmed-transaction store + differential run of a real wallet.Wallet with scripted backend answers",
    "level_text": "All clauses of C20 are Lean theorems for every store, transaction and backend answer class: a failing answer "
                  "(rejection or NotifyReceived failure) removes the transaction and exactly its unconfirmed descendants and returns an "
                  "error; for a new childless transaction the store - hence every balance and the spendable set - is unchanged; "
                  "'already in mempool' keeps it recorded exactly once; after every RescanFinished all unconfirmed transactions are "
                  "offered, parents first. Tied to wallet/wallet.go, wtxmgr/unconfirmed.go and chain/errors.go by a differential run "
                  "with raw backend error texts passed through the real MapRPCErr code.",
    "level_note": "Trusted: Lean kernel; the hand model Publish.lean (abstract store of unconfirmed records with spend edges; the literal "
                  "depth-first removeConflict is proved equal to the descendant closure the theorems use; tied to the Go code by "
                  "correspondence on explored inputs only); Go scheduler (the re-broadcast goroutine is "
                  "observed after it finished).",
    "lean_props": ["BtcwVerif.Props.C20"],
    "engines": ["walletchain-tx"],
    "trusted_base": COMMON_TB + [
        "hand-written model BtcwVerif/Model/Publish.lean of wallet.reliablyPublishTransaction/publishTransaction/resendUnminedTxs, wtxmgr.removeConflict/insertMemPoolTx and the tables of chain/errors.go (tied by differential run)",
        "transaction ids identify transactions (hash collisions excluded); dependency graph acyclic (hypothesis `Acyclic`, true of hash-linked transactions)",
        "walletdb.Update atomicity (C11) for each of the two database transactions of a publish",
    ],
    "assumptions": [
        "DependencySort is modelled layer by layer; the order inside a layer (Go map order) is irrelevant to the property",
        "where several keys of one Go error map match a backend text the choice is Go-map-order dependent; the generator only emits texts whose matches agree on the class",
    ],
}
