from common import COMMON_TB

CFG = {
    "technique": "Lean 4 invariants over all operation histories of an executable model of waddrmgr's lock state, "
                 "clear-text buffers and caches + differential run of the real Manager on a real bdb file with the "
                 "build-tagged buffer report + wallet-level model WalletRestart (passphrase ids in memory vs in the database) "
                 "with a differential run of a real wallet.Wallet against a wallet restarted on a copy of the database "
                 "after every request (engine wallet-restart)",
    "level_text": "C05's clauses (private operations refused while locked/watching-only; lock() wipes every clear-text "
                  "key buffer incl. cached derived keys and cached last addresses; the current passphrase always "
                  "unlocks, any other fails and leaves the manager locked; passphrase change) are Lean theorems over "
                  "ALL histories of the AddrLock model, proved by invariants preserved by every operation. The model is "
                  "tied to the Go code by a differential run (every private accessor probed on every managed address "
                  "in every reached state; hook buffer report compared entry by entry).",
    "level_note": "Trusted: Lean kernel; the hand model BtcwVerif/Model/AddrLock.lean (checked by correspondence on the "
                  "explored histories only); scrypt/secretbox/sha512 modelled by 'distinct passphrases give distinct "
                  "digests' (passphrase ids compared by equality); Go GC: wiping is observed as 'every buffer still "
                  "reachable from the Manager is zero/nil' through the hook. No open C05 finding on the current tree: F12 (an "
                  "EMPTY private passphrase, accepted by ChangePassphrase, made the first Unlock(correct) of an unlocked "
                  "manager fail through salt aliasing; oracle key Unlock.empty-passphrase-salt-aliased) is fixed in /repo "
                  "aeb55de and F13 (OnCommit closure cached clear-text keys after a Lock; key "
                  "OnCommit.cleartext-key-cached-after-lock) in /repo bb83ae8; the engine probes both variants (flags "
                  "f12, f13) and C05_counterexample_F12 / _F13 state the defects for trees without the fixes. "
                  "On the current tree (Cfg.allFixed: every fix flag on, as the probes report) nothing is _partial: "
                  "C05_unlock_right_histories / C05_unlock_wrong_histories / C05_unlock_histories_step hold for every "
                  "history without extra hypotheses (DouOK is an invariant of every history: C05_douOK_invariant), and "
                  "C05_wiped_histories(_all,_bufmap) state that every reachable locked or watching-only state holds no "
                  "clear-text key (stays wiped while locked, with the F13 fix). The older "
                  "C05_unlock_wrong/_right_histories_partial (hypotheses 'f12 or no EMPTY passphrase', DouOK) are kept "
                  "and superseded. 'Current passphrase' is the one held by the running manager (C05_currentPass_*); "
                  "after a rolled-back bracket with a private change it differs from the database's (observation O3). "
                  "Wallet level (engine wallet-restart, Props/C05w.lean): Wallet.Unlock / ChangePrivatePassphrase / "
                  "ChangePublicPassphrase / ChangePassphrases / restart next to every other wallet request; proved for ALL "
                  "request histories (failed commits of the address requests, dry runs, failing requests, FAILED combined "
                  "changes, restarts): the running wallet and a restarted wallet accept exactly the same private passphrase "
                  "(C05_wallet_priv_invariant, C05_wallet_unlock_current), any other is refused with ErrWrongPassphrase and "
                  "leaves the wallet locked (C05_wallet_unlock_other_fails_locked), a successful change makes the new one "
                  "current at once and after restart, a refused one changes nothing (C05_wallet_change_private_works). "
                  "False on the current tree and NOT flagged this round (public passphrase only): a combined change whose "
                  "private half fails leaves the new PUBLIC master key in the running manager "
                  "(C05_wallet_counterexample_failed_combined_change_public; fix in repo-patches/"
                  "fix-C05-changepassphrases-public-half-rollback.diff, C05_wallet_fixed_combined_change). Go oracles at the "
                  "wallet level evaluate C05's unlock sentence on the running wallet against the restarted copy "
                  "(keys <WalletOp>.current-passphrase-refused / .other-passphrase-accepted / "
                  ".running-wallet-passphrase-differs-from-restart, ImportAccountDryRun.unlock-fails-unlike-restart).",
    "lean_props": ["BtcwVerif.Props.C05", "BtcwVerif.Props.C05w"],
    "engines": ["addrmgr-lock", "wallet-restart"],
    "trusted_base": COMMON_TB + [
        "hand-written model BtcwVerif/Model/AddrLock.lean of waddrmgr/{manager,scoped_manager,address,sync,db}.go (tied by differential run)",
        "build-tagged hook waddrmgr.(*Manager).VerifBufferReport (reads unexported buffers; add-only)",
        "snacl KDF/AEAD modelled symbolically: a passphrase unlocks iff it equals the one the stored parameters were made from (C17 covers the byte level)",
        "hand-written model BtcwVerif/Model/WalletRestart.lean (wallet requests incl. passphrase changes; tied by differential run against a real "
        "wallet.Wallet and a wallet restarted on a copy of the database after every request)",
        "wallet level: the concurrent AddressInfo of op `importdry race=1` is steered by goroutine-dump observation and sync.Mutex's "
        "starvation hand-off; no verdict depends on the interleaving reached",
        "Go map iteration order inside Manager.Unlock/lock is modelled as ascending scope order (irrelevant on the fixed tree: no error path depends on it)",
    ],
    "assumptions": [
        "distinct passphrases give distinct scrypt digests (cryptographic hypothesis, stated as equality of passphrase ids)",
        "the four default key scopes; NewScopedKeyManager, NeuterRootKey and InvalidateAccountCache are outside the modelled op set",
        "uint32 indices modelled as Nat (MaxAddressesPerAccount guard modelled; no wrap-around reachable)",
        "wallet level: a failed COMMIT of a passphrase change is not generated (memory ahead of disk after a failed commit is the known C08 family); "
        "four private and three public passphrase ids, none empty",
        "memory wiping means: buffers reachable from the Manager are zero/nil (hook); copies handed to callers are the caller's",
    ],
}
