from common import COMMON_TB

CFG = {
    "technique": "Lean 4 theorems about an executable model of findEligibleOutputs / the input sources / the txauthor loop "
                 "+ differential run of a real wallet.Wallet (fake chain backend) + script-engine re-verification of every signed input",
    "level_text": "Selection clauses of C06 (inputs eligible, distinct, never reused after publication for any sequence of sends, "
                  "ineligible or repeated explicit selections refused) are Lean theorems for every wallet view, request, strategy "
                  "(every shuffle) and fee rate; the model is tied to wallet/createtx.go, wallet/txauthor and wtxmgr by a "
                  "differential run of the real Wallet on generated histories (all address types, two accounts, spends, reorgs, "
                  "locks, leases, coinbase maturity, chained sends). Signature validity is executed on the real result with "
                  "txscript.StandardVerifyFlags against the harness's own record of the spent outputs, not proved.",
    "level_note": "Partial: signatures are executed, not proved. Trusted: Lean kernel; the hand model CoinSelect.lean (tied by "
                  "correspondence on explored inputs only); the harness ledger that turns the fed history into a wallet view "
                  "(C01's statement, used here as an assumption); txscript as signature oracle.",
    "lean_props": ["BtcwVerif.Props.C06"],
    "engines": ["walletchain-tx"],
    "extractors": [{"name": "createtx-sites", "out": "CreateTxSitesGen.lean"}],
    "trusted_base": COMMON_TB + [
        "hand-written model BtcwVerif/Model/CoinSelect.lean of wallet/createtx.go + txauthor.NewUnsignedTransaction + txsizes/txrules arithmetic (tied by differential run)",
        "the view handed to the model is derived from the history the harness fed to the wallet (ledger in lean/Driver/EngWalletTx.lean), i.e. wtxmgr is assumed to report ledger truth (C01)",
        "btcd txscript engine with StandardVerifyFlags as the oracle for signature validity; secp256k1/schnorr not modelled",
        "the createTxRequests channel is taken for what it provides (one txToOutputs at a time); its structure (single sender CreateSimpleTx, single receiver = single txToOutputs caller txCreator, spawned once by Start, no nested go/closure) is re-extracted from wallet/*.go on every run (harness/cmd/vxextract/createtxsites.go, syntactic) and checked by C06_generated_serialised; the same extractor reads off that every holdUnlock() error in txCreator ends the request before txToOutputs (C06_generated_lock_guard), the source fact behind CoinSelect.txCreator",
        "wallet lock state: the model's LockState is driven by the harness's own commands (Lock, Unlock with/without timeout, timeout firing, wrong passphrase); watch-only wallets/accounts are not generated, so every simple/send result must verify",
        "backend side of 'published': the fake backend's own record of SendRawTransaction calls and answers (harness/engines/walletchaintx/backend.go), independent of what the wallet returned",
    ],
    "assumptions": [
        "amounts/heights are unbounded Int in the model (no int64/int32 overflow; generator stays far below)",
        "the wallet view lists each credited outpoint once (hypothesis of C06_inputs_distinct / C06_no_reuse)",
        "Go's unstable sort: order among equal amounts is unspecified; the generator uses pairwise distinct amounts",
        "random strategy: the shuffle is a model parameter; the differential compares success/failure and checks the chosen set against eligibility on the Go side",
    ],
}
