from common import COMMON_TB

CFG = {
    "technique": "Lean 4 theorems about an executable model of findEligibleOutputs / the input sources / the txauthor loop / the "
                 "txCreator lock guard + generated structure facts of wallet/*.go (createtx-sites extractor) + differential run of a "
                 "real wallet.Wallet (fake chain backend, wallet lock ops) + script-engine re-verification of every signed input "
                 "+ reuse oracle over the backend's own record of accepted transactions",
    "level_text": "Lean theorems for every view, request, strategy (every shuffle), fee rate and lock state: inputs eligible, "
                  "distinct, never reused after publication over any request sequence, bad explicit selections refused; a locked "
                  "non-watch-only wallet refuses every request, dry runs too (C06_locked_refused), a successful non-dry result took "
                  "the signing branch (C06_signed_or_refused; C06_txCreator_ok/_inputs). Tied to wallet/createtx.go, txauthor, "
                  "wtxmgr by a differential run of the real Wallet (all address types, reorgs, leases, maturity, chained sends, "
                  "Lock / timed Unlock / timeout / wrong passphrase x four APIs). Signatures are executed, not proved.",
    "level_note": "Partial: signature validity is executed on every simple/send result (txscript StandardVerifyFlags; key "
                  "create.unsigned-result-while-locked), not proved. 'Published' is judged from the fake backend's own "
                  "SendRawTransaction record, whatever the wallet returned (key publish.input-reused-after-backend-accepted). "
                  "Generated facts, re-extracted every run: C06_generated_serialised, C06_generated_lock_guard "
                  "(holdUnlockErrorIsFatal). Trusted: Lean kernel; hand model CoinSelect.lean (tied on explored inputs only); "
                  "harness ledger as wallet view (C01 assumed); txscript; the syntactic extractor. Concurrency is not executed.",
    "lean_props": ["BtcwVerif.Props.C06"],
    "engines": ["walletchain-tx"],
    "extractors": [{"name": "createtx-sites", "out": "CreateTxSitesGen.lean"}],
    "trusted_base": COMMON_TB + [
        "hand-written model BtcwVerif/Model/CoinSelect.lean of wallet/createtx.go + txauthor.NewUnsignedTransaction + txsizes/txrules arithmetic (tied by differential run)",
        "the view handed to the model is derived from the history the harness fed to the wallet (ledger in lean/Driver/EngWalletTx.lean), i.e. wtxmgr is assumed to report ledger truth (C01)",
        "btcd txscript engine with StandardVerifyFlags as the oracle for signature validity; secp256k1/schnorr not modelled",
        "the createTxRequests channel is taken for what it provides (one txToOutputs at a time); its structure (single sender CreateSimpleTx, single receiver = single txToOutputs caller txCreator, spawned once by Start, no nested go/closure) is re-extracted from wallet/*.go on every run (harness/cmd/vxextract/createtxsites.go, syntactic) and checked by C06_generated_serialised; the same extractor reads off that every holdUnlock() error in txCreator ends the request before txToOutputs (generated fact CreateTxSitesGen.holdUnlockErrorIsFatal, C06_generated_lock_guard), the source fact behind CoinSelect.txCreator",
        "wallet lock state: the model's LockState is driven by the harness's own commands (Lock, Unlock with/without timeout, timeout firing, wrong passphrase); watch-only wallets/accounts are not generated, so every simple/send result must verify",
        "backend side of 'published': the fake backend's own record of SendRawTransaction calls and answers (harness/engines/walletchaintx/backend.go), independent of what the wallet returned",
    ],
    "assumptions": [
        "amounts/heights are unbounded Int in the model (no int64/int32 overflow; generator stays far below)",
        "the wallet view lists each credited outpoint once (hypothesis of C06_inputs_distinct / C06_no_reuse)",
        "Go's unstable sort: order among equal amounts is unspecified; the generator uses pairwise distinct amounts",
        "random strategy: the shuffle is a model parameter; the differential compares success/failure and checks the chosen set against eligibility on the Go side",
        "lock clause: the wallet is not watch-only as a whole (hypothesis managerWatchOnly = false of C06_locked_refused / C06_signed_or_refused) and the account owns its private keys; while locked isWatchOnlyAccount is true for every account (quirk kept in the model)",
        "requests are issued one at a time (the serialisation through createTxRequests is a generated structural fact, not an executed race)",
    ],
}
