from common import COMMON_TB

CFG = {
    "technique": "Lean 4 theorems (consistency invariant Inv + index invariant IdxInv proved for Create and preserved by each of the 23 operations of the AddrDerive model (incl. DeriveFromKeyPathCache and RenameAccount); abstract HD with the laws Lawful / NoHardPub as hypotheses) + differential run of the real waddrmgr.Manager with an independent BIP32/legacy derivation and address-encoding oracle",
    "level_text": "The bookkeeping clauses of C03 (issued address = child b/i of the account key recorded for the account, address format, reported path, consecutive indices over valid children, returned private key is the key of the public key, a key is returned whenever unlocked and the account has one, imported keys/scripts unchanged, re-creation from the same seed, the DeriveFromKeyPathCache key is the child of the InternalAccount's key and equals the DeriveFromKeyPath+PrivKey key, look-ups do not interact (the answer for a path does not depend on earlier look-ups or on what their callers did with the keys), RenameAccount keeps keys / indices / overriding address schema) are Lean theorems about the executable model of waddrmgr for every history; the model is tied to the Go code op by op on random seeds / scopes / accounts / interleavings, and every address is recomputed by an independent oracle.",
    "level_note": "Partial: secp256k1, HMAC-SHA512, base58/bech32 are modelled by the abstract HD structure (law neuter(child k i) = pubChild(neuter k) i is a hypothesis); they are exercised, not proved, by the independent oracle. Invalid children cannot be provoked in Go and are covered by the model only.",
    "lean_props": ["BtcwVerif.Props.C03"],
    "engines": ["addrmgr-derive"],
    "trusted_base": COMMON_TB + [
        "hand-written model BtcwVerif/Model/AddrDerive*.lean of waddrmgr (tied by differential run on explored histories)",
        "harness/oracle/hd: independent CKDpriv/CKDpub (+btcsuite legacy serialisation rule) and P2PKH/P2WPKH/nested/P2TR encodings over btcec point arithmetic",
        "HD laws: neuter(child k i) = pubChild(neuter k) i for non-hardened i; pubChild of a hardened index fails (hypotheses of the theorems)",
    ],
    "assumptions": [
        "every operation runs in its own committed walletdb transaction (roll-backs are C08)",
        "distinct derivation paths / imported keys give distinct address ids (hash collision freeness)",
        "the model and all theorems are the official (fixed) tree; the Go engine's probes of F2/F3/O1/taproot/lastaccount are a guard only (a reverted fix is an oracle violation and a Go/Lean disagreement), the unfixed variants survive in counter-example theorems",
    ],
}
