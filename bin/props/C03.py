from common import COMMON_TB

CFG = {
    "technique": "Lean 4 theorems (invariants over all operation histories of the AddrDerive model, abstract HD with the neuter/child law as hypothesis) + differential run of the real waddrmgr.Manager with an independent BIP32/legacy derivation and address-encoding oracle",
    "level_text": "The bookkeeping clauses of C03 (issued address = child b/i of the account key recorded for the account, address format, reported path, consecutive indices over valid children, returned private key is the key of the public key, a key is returned whenever unlocked and the account has one, imported keys/scripts unchanged, re-creation from the same seed) are Lean theorems about the executable model of waddrmgr for every history; the model is tied to the Go code op by op on random seeds / scopes / accounts / interleavings, and every address is recomputed by an independent oracle.",
    "level_note": "Partial: secp256k1, HMAC-SHA512, base58/bech32 are modelled by the abstract HD structure (law neuter(child k i) = pubChild(neuter k) i is a hypothesis); they are exercised, not proved, by the independent oracle. Invalid children cannot be provoked in Go and are covered by the model only.",
    "lean_props": ["BtcwVerif.Props.C03"],
    "engines": ["addrmgr-derive"],
    "trusted_base": COMMON_TB + [
        "hand-written model BtcwVerif/Model/AddrDerive*.lean of waddrmgr (tied by differential run on explored histories)",
        "harness/oracle/hd: independent CKDpriv/CKDpub (+btcsuite legacy serialisation rule) and P2PKH/P2WPKH/nested/P2TR encodings over btcec point arithmetic",
        "HD law neuter(child k i) = pubChild(neuter k) i for non-hardened i (hypothesis of the theorems that need it)",
    ],
    "assumptions": [
        "every operation runs in its own committed walletdb transaction (roll-backs are C08)",
        "distinct derivation paths / imported keys give distinct address ids (hash collision freeness)",
        "tree-dependent behaviours (F2, F3, O1, secret taproot rows) enter the model as a configuration probed on the real code; property theorems are stated for the fixed configuration and counter-examples for the unfixed one",
    ],
}
