from common import COMMON_TB

CFG = {
    "technique": "Lean 4 theorems (whole-loop completeness by a loop invariant over the block list; branch-horizon invariant incl. invalid children and Resurrect; binary-search invariants) + differential run: BranchRecoveryState API, the full recovery loop of a real wallet restored from seed against a fake chain, locateBirthdayBlock through the start-up path",
    "level_text": "C16_complete: for every window W, every set of invalid child indices, every well-formed chain (unique tx ids, wallet outputs spent only later and at most once, paid indices valid) satisfying the look-ahead hypothesis (payments of a block measured against the next index after the EARLIER blocks), every batch size and every set of resume points (Resurrect), the modelled recovery loop (expandHorizons -> FilterBlocks -> extendFoundAddresses -> watched outpoints -> addRelevantTx) marks every paid wallet address used, leaves each branch's next index above it, records every transaction paying to or spending from the wallet at its height, and ends with exactly the expected credits and ledger balance. C16_complete_resumed: the same for a later recovery over an extended chain with any window, starting from the database any complete run left (C16_recover_leaves_pinv). C16_lookahead_is_tight / C16_same_block_jump_is_missed: a jump of W, and a jump inside one block relative to a payment of the same block, are outside the hypothesis and are missed (no re-filter of a block). C16_branch_horizon, C16_branch_invariant_reachable, C16_resume_horizon hold for every window, every set of invalid children and every reachable branch state; C16_birthday_terminates holds for every timestamp sequence, C16_birthday_not_late / C16_birthday_skips_nothing for every monotone one. The loop model is compared with the real wallet on generated chains (jumps of exactly W-1 and beyond, several payments per block, same-block and later spends, batch boundary, interrupted and resumed runs, locked and unlocked) together with a ground-truth oracle.",
    "level_note": "Trusted: Lean kernel; hand model Model/Recovery.lean (tied to the real wallet by the differential run; locked/unlocked behave identically there, so the model has no lock state); hdkeychain/address derivation (truth addresses are derived with the real waddrmgr from the same seed); invalid child keys (probability 2^-127) are exercised on the real code only through the BranchRecoveryState API, the theorem covers them in the loop. KNOWN-FINDING retry-after-failed-batch (in-process retry after a failed batch) is outside the theorem: the model's batches do not fail.",
    "lean_props": ["BtcwVerif.Props.C16"],
    "engines": ["walletchain-recovery"],
    "trusted_base": COMMON_TB + [
        "hand-written model BtcwVerif/Model/Recovery.lean of wallet/recovery.go, wallet.go (recovery, recoverScopedAddresses, expandScopeHorizons, extendFoundAddresses, locateBirthdayBlock) and chain/block_filterer.go (tied by differential run)",
        "address derivation (hdkeychain, waddrmgr.DeriveFromKeyPath) is used as ground truth, not verified",
        "wtxmgr is abstracted to tx records + credits with a spent flag (C01/C13 own the full store)",
    ],
    "assumptions": [
        "child indexes, windows and counts are Nat (uint32 in Go; indices stay far below 2^31)",
        "look-ahead hypothesis (Recovery.LookAhead): every index i a block pays on a branch satisfies i < nextAfter(earlier blocks) + W, nextAfter = one above the highest index paid earlier (0 if none); chain well-formedness Recovery.ChainWF",
        "timestamps are whole seconds; birthdayBlockDelta = 7200 s is a parameter of the theorems",
    ],
}
