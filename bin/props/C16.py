from common import COMMON_TB

CFG = {
    "technique": "Lean 4 theorems (branch-horizon invariant incl. invalid children and Resurrect; binary-search invariants) + differential run: BranchRecoveryState API, the full recovery loop of a real wallet restored from seed against a fake chain, locateBirthdayBlock through the start-up path",
    "level_text": "C16_branch_horizon, C16_branch_invariant_reachable, C16_resume_horizon hold for every window, every set of invalid children and every reachable branch state; C16_birthday_terminates holds for every timestamp sequence, C16_birthday_not_late / C16_birthday_skips_nothing for every monotone one. The batch loop (expandHorizons -> FilterBlocks -> extendFoundAddresses -> watched outpoints -> addRelevantTx, batches of 2000, resumable) is modelled and compared with the real wallet on generated chains (jumps of exactly W-1 and beyond, several payments per block, same-block and later spends, batch boundary, interrupted and resumed runs, locked and unlocked) together with a ground-truth oracle; its completeness theorem for all chains is NOT proved (C16_complete_step_partial is the per-branch core).",
    "level_note": "PARTIAL: C16_complete (whole loop, all batchings/resume points) is checked by correspondence + ground-truth oracle + the driver's resume-independence self-check, not proved. Trusted: Lean kernel; hand model Model/Recovery.lean; hdkeychain/address derivation (truth addresses are derived with the real waddrmgr from the same seed); invalid child keys (probability 2^-127) are exercised only through the BranchRecoveryState API.",
    "lean_props": ["BtcwVerif.Props.C16"],
    "engines": ["walletchain-recovery"],
    "trusted_base": COMMON_TB + [
        "hand-written model BtcwVerif/Model/Recovery.lean of wallet/recovery.go, wallet.go (recovery, recoverScopedAddresses, expandScopeHorizons, extendFoundAddresses, locateBirthdayBlock) and chain/block_filterer.go (tied by differential run)",
        "address derivation (hdkeychain, waddrmgr.DeriveFromKeyPath) is used as ground truth, not verified",
        "wtxmgr is abstracted to tx records + credits with a spent flag (C01/C13 own the full store)",
    ],
    "assumptions": [
        "child indexes, windows and counts are Nat (uint32 in Go; indices stay far below 2^31)",
        "look-ahead hypothesis as in DESIGN: every paid index i satisfies i < nextUnfound(before the block) + W, counted over valid children",
        "timestamps are whole seconds; birthdayBlockDelta = 7200 s is a parameter of the theorems",
    ],
}
