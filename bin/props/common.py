COMMON_TB = [
    "Lean 4.33 kernel (leanchecker re-check in the thorough tier); axioms allowed: propext, Classical.choice, Quot.sound",
    "bin/check (Python), harness/ (Go) and the Lean driver: the correspondence check itself",
]
