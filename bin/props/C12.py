from common import COMMON_TB

CFG = {
    "technique": "Lean 4 theorems about the lease operations of the wtxmgr model on an arbitrary store + differential run of the real wtxmgr.Store (bdb file, build-tagged clock setter) against the model, with an independent Go ledger oracle",
    "level_text": "The lease state machine (lease / other id refused / same id extends / free iff released or stored expiry reached, boundary included / unknown refused / sweep removes exactly the expired / confirmed spend clears / excluded from UnspentOutputs / Balance subtracts once) is proved in Lean for every store, id, instant and duration of the model; the model is tied to wtxmgr by an op-by-op differential run over generated histories (leases interleaved with receipts, spends, confirmations, reorgs, restarts; the instants e-1ns, e, e+1ns, e+-1s of every lease are visited).",
    "level_note": "Since /repo 4c73b71 LockOutput rounds the expiry up to a whole second and returns what it stores: C12_expiry_exact, C12_expiry_bounds, C12_leased_until_returned_expiry (former finding F8; reverting the fix yields VIOLATION key=lock-result with replay). The lease events refine the Ledger's (C12_lease/_release/_sweep/_clock_refines_partial, C12_leased_refines_partial; partial: chain events are not covered by the refinement). Exclusion from Balance holds after every chain-consistent history (C12_excluded_balance, via C01's invariant). The clock is constant during one call (Go reads it several times). UPDATE: the chain events are now proved to preserve the relation too - Lemmas/RefLease.lean derives the `known` clause from the simulation relation (known_of_good / leaseRefines_of_good) and good_lease/_release/_sweep/_clock + good_history (Lemmas/RefAll.lean) show that LeaseRefines holds after EVERY chain-consistent history of events, so the `_partial` suffix of the five theorems is only historical (they are the per-event steps used by that proof).",
    "lean_props": ["BtcwVerif.Props.C12"],
    "engines": ["txstore"],
    "trusted_base": COMMON_TB + [
        "hand-written model BtcwVerif/Model/TxStore.lean of wtxmgr/{tx,unconfirmed,query,db}.go (tied by the differential run incl. full bucket dumps)",
        "bbolt: ordered buckets with unique keys, atomic Update (C11's assumption)",
        "hook (*wtxmgr.Store).VerifSetClock (build tag verif) and lnd's TestClock",
    ],
    "assumptions": [
        "amounts/heights are unbounded integers in the model (no int64/int32 overflow)",
        "the lease clock is constant during one API call",
        "lock ids are modelled as numbers (the engine uses 32-byte ids with the number in the last 8 bytes)",
    ],
}
