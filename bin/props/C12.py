from common import COMMON_TB

CFG = {
    "technique": "Lean 4 theorems about the lease operations of the wtxmgr model on an arbitrary store + differential run of the real wtxmgr.Store (bdb file, build-tagged clock setter) against the model, with an independent Go ledger oracle",
    "level_text": "The lease state machine (lease / other id refused / same id extends / free iff released or stored expiry reached, boundary included / unknown refused / sweep removes exactly the expired / confirmed spend clears / excluded from UnspentOutputs / Balance subtracts once) is proved in Lean for every store, id, instant and duration of the model; the model is tied to wtxmgr by an op-by-op differential run over generated histories (leases interleaved with receipts, spends, confirmations, reorgs, restarts; the instants e-1ns, e, e+1ns, e+-1s of every lease are visited).",
    "level_note": "Theorems are stated on the STORED expiry (whole seconds). The expiry handed to the caller has nanoseconds; C12_counterexample_truncated_expiry + the Go oracle key lease.expiry-truncated-to-seconds show the caller-visible early release (finding F8). Exclusion from Balance as a closed formula is part of C01 (partial there). The clock is constant during one call (Go reads it several times).",
    "lean_props": ["BtcwVerif.Props.C12"],
    "engines": ["txstore"],
    "trusted_base": COMMON_TB + [
        "hand-written model BtcwVerif/Model/TxStore.lean of wtxmgr/{tx,unconfirmed,query,db}.go (tied by the differential run incl. full bucket dumps)",
        "bbolt: ordered buckets with unique keys, atomic Update (C11's assumption)",
        "hook (*wtxmgr.Store).VerifSetClock (build tag verif) and lnd's TestClock",
    ],
    "assumptions": [
        "amounts/heights are unbounded integers in the model (no int64/int32 overflow)",
        "the lease clock is constant during one API call",
        "lock ids are modelled as numbers (the engine uses 32-byte ids with the number in the last 8 bytes)",
    ],
}
