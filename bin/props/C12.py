from common import COMMON_TB

CFG = {
    "technique": "Lean 4 theorems about the lease operations of the wtxmgr model on an arbitrary store + refinement of the lease bucket to the Ledger specification's leases after every chain-consistent history (via the store -> Ledger refinement of C01) + differential run of the real wtxmgr.Store (bdb file, build-tagged clock setter) against the model, with an independent Go ledger oracle",
    "level_text": "The lease state machine (lease / other id refused / same id extends / free iff released or stored expiry reached, boundary included / unknown refused / sweep removes exactly the expired / confirmed spend clears / excluded from UnspentOutputs / Balance subtracts once) is proved in Lean for every store, id, instant and duration of the model. Against the Ledger: the relation LeaseRefines (bucket and ledger leases agree pointwise, stored seconds x 1e9 = instant handed to the caller; the store knows exactly the outputs the ledger allows to lease) is kept by each lease event (C12_lease/_release/_sweep/_clock_refines_partial) and holds after EVERY chain-consistent history of events, chain events and reorgs included (leaseRefines_of_good + good_history in Lemmas/RefLease.lean / RefAll.lean), so the lease queries agree with the ledger at every instant (C12_leased_refines_partial) and leased outputs are excluded from Balance after every such history (C12_excluded_balance). The model is tied to wtxmgr by an op-by-op differential run over generated histories (leases interleaved with receipts, spends, confirmations, reorgs, restarts; the instants e-1ns, e, e+1ns, e+-1s of every lease are visited).",
    "level_note": "The five theorems C12_lease/_release/_sweep/_clock/_leased_refines_partial keep the suffix _partial for a technical reason only: the gap it named (chain events seen/confirmed/disconnected/abandoned preserving the `known` clause of LeaseRefines) is closed by known_of_good / leaseRefines_of_good (Lemmas/RefLease.lean: LeaseRefines follows from the simulation relation Good) together with good_lease/_release/_sweep/_clock and good_history (Lemmas/RefAll.lean: Good holds after every chain-consistent history). Those lemma files import Props/C12.lean and use the five theorems as their per-event steps, so restating them inside Props/C12.lean without the hypothesis would be an import cycle; the names are kept. C12_excluded_balance_partial is the store-level form (under C01's invariant) of C12_excluded_balance, which holds after every chain-consistent history of store calls (the invariant is proved reachable: inv_runCalls = C01_inv_reachable). Since /repo 4c73b71 LockOutput rounds the expiry up to a whole second and returns what it stores: C12_expiry_exact, C12_expiry_bounds, C12_leased_until_returned_expiry (former finding F8; reverting the fix yields VIOLATION key=lock-result with replay). What remains order-dependent: ListLockedOutputs is compared per outpoint (C12_list_exact), not as an ordered list. The clock is constant during one call (Go reads it several times).",
    "lean_props": ["BtcwVerif.Props.C12"],
    "engines": ["txstore"],
    "trusted_base": COMMON_TB + [
        "hand-written model BtcwVerif/Model/TxStore.lean of wtxmgr/{tx,unconfirmed,query,db}.go (tied by the differential run incl. full bucket dumps)",
        "bbolt: ordered buckets with unique keys, atomic Update (C11's assumption)",
        "hook (*wtxmgr.Store).VerifSetClock (build tag verif) and lnd's TestClock",
    ],
    "assumptions": [
        "amounts/heights are unbounded integers in the model (no int64/int32 overflow)",
        "the lease clock is constant during one API call",
        "lock ids are modelled as numbers (the engine uses 32-byte ids with the number in the last 8 bytes)",
    ],
}
