from common import COMMON_TB

CFG = {
    "technique": "Lean 4 theorems (invariant over all valid notification histories; rollback-loop characterisation) + differential run of a real wallet.Wallet against a scripted fake chain.Interface",
    "level_text": "C15_tip / C15_hashes / C15_no_offchain_tx hold for every valid evolution (extensions, reorgs of any depth within the remembered window, stale and repeated disconnects, repeated connects and tx notifications, all three notification orders, any placement of wallet transactions, every W >= 1) by an invariant proved preserved by every step; C15_startup gives the total outcome of the syncWithChain rollback transaction for every old/new chain pair; C15_startup_total / C15_startup_establishes_inv compose the whole start-up (rollback loop, recovery in batches when recW > 0, rescan, RescanFinished/catchUpHashes) with the evolution theorems: a stopped wallet that gets through syncWithChain against ANY backend chain is in the state Inv the evolution theorems start from (C15_startup_then_evolve_tip/_hashes/_no_offchain_tx), C15_startup_succeeds says when it does, C15_startup_blocks_during_rescan covers blocks arriving during the rescan when nothing has to be caught up. C15_notifications_follow_backend: the notifyAttachedBlock/notifyDetachedBlock calls made over any valid evolution replay to the backend's final tip and the modelled NotificationServer delivers or holds exactly those detached hashes. The model is tied to the Go code by running the real Wallet (SynchronizeRPC) on generated evolutions incl. restarts and comparing SyncedTo, the remembered hashes, the wtxmgr tx records, the birthday block and the TransactionNotifications delivered to a registered wallet.NtfnServer client (attached blocks with heights and transactions, detached block hashes, unmined transactions, in order) after every step.",
    "level_note": "Trusted: Lean kernel; the hand model Model/SyncTip.lean (checked by correspondence on explored histories only); wtxmgr is abstracted to records (tx, block) - its credit/balance bookkeeping is C01/C02; bbolt atomicity of walletdb.Update (C11); in-memory = on-disk sync state (C08). Notifications delivered before RescanFinished (initial rescan window) are outside C15's text and only explored. The theorems follow /repo with fc5593c and repo-patches/fix-C15-startup-rollback-before-recovery.diff applied.",
    "lean_props": ["BtcwVerif.Props.C15"],
    "engines": ["walletchain-sync"],
    "trusted_base": COMMON_TB + [
        "hand-written model BtcwVerif/Model/SyncTip.lean of wallet/chainntfns.go, waddrmgr PutSyncedTo and the syncWithChain start-up (tied by differential run)",
        "block hashes are modelled as the block's ancestry (hash injectivity: a hash determines its chain)",
        "the fake chain.Interface of the harness stands for a validating node (valid evolutions only, except in the malformed stream)",
        "walletdb.Update atomicity (C11) and agreement of waddrmgr's in-memory and on-disk sync state (C08)",
    ],
    "assumptions": [
        "heights are Nat (int32 in Go; |height| < 2^31)",
        "wallet transactions of the engine have external inputs only (no double spends; conflicts are C02's subject)",
        "a reorg is 'within the window' when the block below the fork point is still remembered (ValidStep); W = MaxReorgDepth >= 1",
    ],
}
