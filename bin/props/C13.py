from common import COMMON_TB

CFG = {
    "technique": "Lean 4 refinement proof: after every chain-consistent history TxDetails / RangeTransactions of the wtxmgr model answer the sentences of C13 read on the Ledger specification (theorems) + store-level theorems on arbitrary stores + differential run: model = Ledger specification (details, ranges) = real wtxmgr.Store after every event",
    "level_text": "After every chain-consistent history of events (reorgs included): C13_once - TxDetails(h) succeeds, reports a record iff a known transaction has hash h, and the record is that transaction under its current block (height, hash, time) or as unconfirmed; C13_credit - it lists a credit for output i iff (t,i) is credited, once, with the output value, the change flag and spent <-> some known transaction spends it; C13_debit - a debit for input j iff the spent output is a credited output of a known transaction, once, with its value; C13_range - RangeTransactions(begin,end) reports the ledger batches in order (unconfirmed batch first/last by the -1 rule, blocks ascending/descending, each block batch = the block transactions in the order learned); C13_removed - when no known transaction has hash h (never arrived / abandoned / conflicted by a confirmation / depending on a disconnected coinbase) TxDetails says none and no range batch holds it. Store-level theorems on arbitrary stores kept.",
    "level_note": "No _partial left for C13: details_refines / range_refines (Lemmas/RefDetails.lean, RefRange.lean) on top of the refinement store -> Ledger that is proved for every event (good_history, see C01). What remains order-dependent: records inside one TxDetails answer are compared with the ledger as duplicate-free sets (store: bucket order; ledger: index order) and the unconfirmed batch of a range query up to order (store: hash order; ledger: arrival order), while the order of the batches and of the transactions inside a block batch IS proved; proving the bucket order would need sortedness invariants of the association lists, which the refinement does not carry. Zero-value credits (former finding F6) fixed in /repo 7fa9939.",
    "lean_props": ["BtcwVerif.Props.C13"],
    "engines": ["txstore"],
    "trusted_base": COMMON_TB + [
        "hand-written model BtcwVerif/Model/TxStore.lean of wtxmgr/{tx,unconfirmed,query,db}.go (tied by the differential run incl. full bucket dumps)",
        "BtcwVerif/Model/Ledger.lean (specification) is cross-checked against an independent Go implementation of the same sentences (harness/engines/txstore/oracle.go)",
        "bbolt cursor semantics (Seek/Next/Prev) as used by the block iterator; the model reproduces key order",
        "Lemmas/Ref*.lean: simulation relation Good = WF2 (store invariant) + LWF (ledger well-formedness) + Refines (bucket by bucket: find? k = some v <-> (k,v) in the ledger's expectation Ledger.exp...; executable form refinesB evaluated by the driver after every event: ops refcheck / reffuzz)",
    ],
    "assumptions": [
        "labels, received times and scripts are not modelled (PreviousPkScripts is modelled as the list of previous outputs)",
        "the RangeTransactions callback never breaks early in the engine",
        "chain consistency of the next event = TxStore.Consistent: Ledger.consistent (one block per height, a tx confirmed in one block, no confirmed double spend, no duplicated input, parents delivered first and confirmed at or below their children, coinbases never unconfirmed, redelivery allowed, conflicting unconfirmed txs may coexist) + Ledger.extra (an input naming a known tx names one of its outputs; no unconfirmed tx conflicting with a confirmed one is delivered; `abandoned` names the unconfirmed tx with that hash) + a tx has < 2^32-1 outputs and does not spend an output of itself",
    ],
}
