from common import COMMON_TB

CFG = {
    "technique": "Lean 4 theorems about the query functions of the wtxmgr model on an arbitrary store + differential run: model = Ledger specification (details, ranges) = real wtxmgr.Store after every event, for sampled (thorough: all) transactions and boundary height ranges in both directions",
    "level_text": "Proved for every store: TxDetails answers none exactly when no record with the hash exists; a reported transaction is shown as unconfirmed exactly when it is in the unconfirmed bucket, otherwise under the block of its latest mined record; every listed credit is a stored credit of that record with its amount/change flag and spent = (stored spent flag or spent by an unconfirmed tx); the unconfirmed batch of RangeTransactions follows the -1 rule in both directions and lists each unconfirmed record once.",
    "level_note": "PARTIAL w.r.t. the Ledger: that the store's records are those of the ledger after every consistent history (refinement) is not proved; Ledger.details / Ledger.range are compared with the model and with the real Go answers at run time (oracle keys details, unique-details, range). Zero-value credits (former finding F6) fixed in /repo 7fa9939; reverting it yields VIOLATION key=rollback.zero-value-credit.",
    "lean_props": ["BtcwVerif.Props.C13"],
    "engines": ["txstore"],
    "trusted_base": COMMON_TB + [
        "hand-written model BtcwVerif/Model/TxStore.lean of wtxmgr/{tx,unconfirmed,query,db}.go (tied by the differential run incl. full bucket dumps)",
        "BtcwVerif/Model/Ledger.lean (specification) is cross-checked against an independent Go implementation of the same sentences (harness/engines/txstore/oracle.go)",
        "bbolt cursor semantics (Seek/Next/Prev) as used by the block iterator; the model reproduces key order",
    ],
    "assumptions": [
        "labels, received times and scripts are not modelled (PreviousPkScripts is modelled as the list of previous outputs)",
        "the RangeTransactions callback never breaks early in the engine",
    ],
}
