from common import COMMON_TB

CFG = {
    "technique": "Lean 4 coherence invariant (memory caches vs database rows) over bracketed operation histories of the "
                 "AddrLock model (manager level) and of the WalletRestart model (wallet requests) + two differential engines: "
                 "addrmgr-lock (a second Manager opened on the same database after every bracket) and wallet-restart (a second "
                 "wallet.Wallet opened on a copy of the database file after every request); both inject rollbacks and COMMIT "
                 "failures through a walletdb decorator; third engine addrmgr-derive (C03's): the derivation info an issued address "
                 "reports (path and master key fingerprint) is the same on a cache hit, after MarkUsed and after reopening the manager",
    "level_text": "C08 is stated as: at every commit boundary every query of the property answers the same on the running "
                  "manager and on a manager freshly opened on the same database. Proved in Lean from a coherence "
                  "invariant that every operation preserves inside COMMITTED brackets; rolled-back / failed-commit "
                  "brackets preserve it only for the deferred (OnCommit) mutations of nextAddresses - the eager "
                  "mutators are shown by counter-example theorems and Go replays to leave memory ahead of disk.",
    "level_note": "Proved: coherent caches answer every query as a reopened manager; coherence is an invariant of every history of single-transaction operations (C08_mem_eq_reopen_partial); a rolled-back NextAddresses keeps the index and the next request issues what a restart would (C08_rollback_keeps_index / _next_after_rollback). PARTIAL on the current tree for explicit multi-operation brackets and rollbacks after success: after a rolled-back or failed transaction the running manager keeps eager "
                  "cache updates (address cache, account name, extendAddresses indices, imports, sync state). These are "
                  "reported as findings with stable, call-site specific oracle keys (engine addrmgr-lock: C08 key=<Op>.rollback.*, "
                  "<Op>.failed-op.*, <Op>.committed.*; engine wallet-restart: <WalletOp>.commit-failed.* and "
                  "<WalletOp>DryRun.*; all listed in known-findings.txt); the theorems that hold are proved, "
                  "the others carry explicit hypotheses.",
    "level_note_wallet": " Wallet level (engine wallet-restart, model WalletRestart, theorems C08_wallet_*; the history theorems carry the suffix _partial because they assume NoEagerCommitFail, see below): proved for all such histories of wallet requests "
                         "(NewAddress, NewChangeAddress, CurrentAddress, CreateSimpleTx dry/real/failing, FundPsbt, ImportAccountDryRun ok/failing, ImportAccount, "
                         "RenameAccount, NextAccount, Lock/Unlock, passphrase changes, restart): dry runs and failed requests never change the database image; the account cache stays coherent; "
                         "AccountProperties / AccountNumber / AccountName / next address of every branch agree with a restarted wallet; NewAddress / NewChangeAddress "
                         "return what a restarted wallet returns (C08_wallet_dryrun_keeps_disk / _failed_keeps_disk unconditionally; C08_wallet_coherent_invariant_partial, "
                         "_committed_eq_reopen_partial, _dryrun_keeps_next_partial, _failed_keeps_next_partial, _next_issue_eq_reopen_partial, "
                         "_current_address_eq_reopen_partial, _no_phantom_account_partial under NoEagerCommitFail). PARTIAL: AddressInfo/HaveAddress (false for addresses of rolled-back transactions, F9: open finding "
                         "C08 key=CreateSimpleTxDryRun.address-cache-not-reverted, theorem C08_wallet_counterexample_dryrun_address_cache; a second reason for the suffix of "
                         "C08_wallet_committed_eq_reopen_partial); and a failed COMMIT of ImportAccount / RenameAccount (eager cache mutators, hypothesis NoEagerCommitFail of the "
                         "history theorems, counter-examples C08_wallet_counterexample_import_commit_failed / _rename_commit_failed, oracle keys <WalletOp>.commit-failed.*). "
                         "Failed commits of NewAddress / NewChangeAddress / CreateSimpleTx ARE covered (injected by a walletdb decorator, op flag cf=1; "
                         "C08_wallet_failed_keeps_next_partial: indices do not move). No longer partial: Unlock after ImportAccountDryRun failed with ErrAccountNotFound until restart "
                         "and the dry-run account's preview addresses stayed cached - fixed in /repo 4e25286 (InvalidateAccountCache also drops the account's cached "
                         "addresses and derive-on-unlock entries); the model follows the fixed code, C08_wallet_counterexample_unfixed_dryrun_unlock / "
                         "_unfixed_importdry_address_cache state the defect for a tree before that commit, and reverting it yields the oracle keys "
                         "ImportAccountDryRun.unlock-fails-unlike-restart / ImportAccountDryRun.address-cache-not-reverted.",
    "lean_props": ["BtcwVerif.Props.C08", "BtcwVerif.Props.C08w"],
    "engines": ["addrmgr-lock", "wallet-restart", "addrmgr-derive"],
    "trusted_base": COMMON_TB + [
        "hand-written model BtcwVerif/Model/AddrLock.lean (tied by differential run)",
        "bbolt transaction atomicity and OnCommit semantics (C11's assumption): commit handlers run only after a successful commit",
        "the commit-failure decorator of the harness (both engines; wallet-restart op flag cf=1) rolls the bdb transaction back and returns an error",
        "hand-written model BtcwVerif/Model/WalletRestart.lean of the wallet-level requests (tied by differential run against a real wallet.Wallet "
        "and a second wallet opened on a copy of the database file after every request)",
        "wallet level: the harness resolves addresses to (xpub, branch, index) by its own BIP32 derivation (btcd hdkeychain/btcutil)",
    ],
    "assumptions": [
        "queries are asked at bracket boundaries (never concurrently with an open transaction)",
        "SyncedTo is compared on height and hash (the timestamp is stored truncated to seconds)",
        "AccountProperties.IsWatchOnly is excluded from the comparison (depends on the lock state, which a restart resets)",
        "wallet level: an xpub is not imported twice into one key scope (the wallet does not refuse it, but then two accounts share every address); "
        "CreateSimpleTx outcomes are abstracted to {no funds / amount too large, change produced}; funds are credited through the tx store",
    ],
}

CFG["level_note"] += CFG.pop("level_note_wallet")
