from common import COMMON_TB

CFG = {
    "technique": "Lean 4 theorems over all transaction programs / histories of the KV model + differential run against real bdb (bbolt)",
    "level_text": "All clauses of C11 are Lean theorems about the flat KV model of walletdb/bdb for every program (list of calls), every prior state, every outcome (nil / error / panic) and every history of transactions; the model is tied to the Go adapter by executing random and (thorough) exhaustively enumerated small transaction programs through the real walletdb.Update/View/Batch/Begin* on a bbolt file and comparing every reply, every error sentinel and the whole database dump after every transaction.",
    "level_note": "Trusted: Lean kernel; bbolt v1.3.11 itself (B+tree, pages, mmap, atomic meta-page commit) — exercised, not verified; the hand model of the adapter is checked by correspondence only on explored inputs. Cursor use after a mutation of the same bucket without repositioning is unspecified in bbolt and excluded (both sides answer 'stale').",
    "lean_props": ["BtcwVerif.Props.C11"],
    "engines": ["kv"],
    "trusted_base": COMMON_TB + [
        "hand-written model BtcwVerif/Model/KV.lean of walletdb/bdb/db.go + walletdb/interface.go (tied by differential run)",
        "bbolt v1.3.11 (ordered nested transactional store with atomic commit): assumed, exercised through the adapter on every run",
        "crash images are not taken: durability is observed by closing and reopening the file at commit boundaries only",
    ],
    "assumptions": [
        "one transaction at a time (bbolt serialises writers; a read transaction held open across a write transaction of the same goroutine can deadlock on remap and is not exercised)",
        "cursors are repositioned (First/Last/Seek) after any mutation of their bucket, as bbolt requires; bucket handles are re-resolved for every call",
        "values are passed as non-nil slices; value sizes above MaxValueSize (2 GiB) are modelled but not exercised",
        "reads through a closed transaction handle (memory-unsafe in bbolt) are not executed",
    ],
}
