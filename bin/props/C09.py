from common import COMMON_TB

CFG = {
    "technique": "Lean 4 invariant proof over an interleaving model (all schedules, any number of callers) + call-site "
                 "table regenerated from the Go source + schedule-controlled differential run of the real wallet",
    "level_text": "C09_safe: in the AddrIssue interleaving model, if every address-issuing call site holds w.newAddrMtx, "
                  "then for every number of callers and every complete schedule the issued (branch,index) pairs are "
                  "pairwise distinct, per branch they are exactly the gap-free range [base, next), and the in-memory next "
                  "index equals the database's. C09_generated_sites_hold (decide) checks the premise on the site table "
                  "extracted from /repo/wallet/*.go on every run; C09_sensitive* exhibit duplicate-producing schedules when "
                  "one site lacks the mutex. The model is tied to the real code by forcing, through a decorated walletdb.DB, "
                  "every placement of each caller's begin / closure / commit / post-commit callback for all site pairs.",
    "level_note": "Partial in the sense of DESIGN section 9: the Go scheduler, sync.Mutex and bbolt's writer lock are modelled "
                  "(atomic steps listed in Model/AddrIssue.lean); bbolt's order 'release writer lock, then run commit "
                  "handlers' was read from go.etcd.io/bbolt tx.go and is exercised by the cb schedule point.",
    "lean_props": ["BtcwVerif.Props.C09"],
    "engines": ["addrissue"],
    "extractors": [{"name": "addrsites", "out": "AddrSitesGen.lean"}],
    "trusted_base": COMMON_TB + [
        "hand-written model BtcwVerif/Model/AddrIssue.lean of wallet.{NewAddress,NewChangeAddress,CurrentAddress,txToOutputs,"
        "FundPsbt,ImportAccountDryRun}, waddrmgr nextAddresses/putChainedAddress and bdb Update / bbolt Commit (tied by the "
        "schedule-controlled differential run)",
        "extractor harness/cmd/vxextract/addrsites.go (syntactic go/ast analysis of package wallet: call graph by name, "
        "lock/unlock statement shapes 'defer' and 'explicit'; any other shape is emitted as not holding the mutex)",
        "Go runtime: goroutine interleaving modelled as interleaving of the model's atomic steps; sync.Mutex and bbolt's "
        "db.rwlock as exclusive locks; harness decides 'blocked' by process quiescence (runtime.Stack goroutine states)",
    ],
    "assumptions": [
        "the account is cached in the ScopedKeyManager (always true after the first use); one address per call",
        "hdkeychain.ErrInvalidChild skipping (probability 2^-127 per index) is not modelled",
        "CreateSimpleTx calls are serialised among themselves by the wallet's txCreator goroutine; they are scheduled "
        "against the other sites only",
        "callers of other packages reach Next*Addresses only through the extracted sites of package wallet",
    ],
}
