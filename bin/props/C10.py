from common import COMMON_TB

CFG = {
    "technique": "Lean 4 theorems over a generic write-program model (all programs, states, fault positions) + extracted error-handling table of every write path (go/types) + exhaustive fault-position injection on the real code through a walletdb decorator",
    "level_text": "Error-or-full-effect, rollback-restores and retry are Lean theorems about every write program whose sites propagate errors / obey the memory-after-disk discipline; that the real call sites propagate is a generated fact decided in Lean without exception (C10_generated_sites_propagate: ErrSitesGen.allPropagated = true, and C10_generated_table_propagates for the frame table; regenerated from /repo's source on every run); every mutating operation of wtxmgr.Store and waddrmgr.Manager/ScopedKeyManager is run on the real code with a failure injected at every write position from states reached by random histories, and the observed result class is compared with the model's prediction for the recorded program.",
    "level_note": "The model is parametric: the tie to the Go code is the extractor table (every dynamic call-stack frame above a write must be an extracted site) plus exhaustive fault-position enumeration per (operation, state); the data effect of writes is abstract. The former exception waddrmgr.putAddrAccountIndex (swallowed a failed index write) is fixed in /repo 277cb7d, which made C10_generated_sites_propagate a full theorem; the two older table theorems C10_generated_sites_propagate_partial / C10_generated_table_propagates_partial (every site propagates except possibly that one) are kept and still true, being weaker, and C10_putAddrAccountIndex_counterexample keeps the replay of the old handling in the model. Open findings of C10 are the memory-ahead-of-disk keys of waddrmgr listed in known-findings.txt (eager cache updates inside the transaction), not error propagation. Trusted: Lean kernel, the extractor and the faultdb decorator, walletdb.Update atomicity (C11), bbolt.",
    "lean_props": ["BtcwVerif.Props.C10"],
    "engines": ["faultops"],
    "extractors": [{"name": "errsites", "out": "ErrSitesGen.lean"}],
    "trusted_base": COMMON_TB + [
        "extractor harness/cmd/vxextract/errsites.go (go/parser + go/types): classification of the error handling of every call through which a mutating walletdb primitive is reached in wtxmgr and waddrmgr; validated dynamically: every wallet frame on the stack of every observed write must be an extracted site",
        "harness/faultdb decorator: counts mutating walletdb calls and fails the k-th without touching bbolt",
        "walletdb.Update rolls back on error and runs OnCommit callbacks only after a successful commit (the C11 assumption, made explicit in FaultOps.bracket)",
        "in-memory state of the managers is observed through the public query API and, for the eager/deferred step positions, through a reflection fingerprint of the live Manager object",
    ],
    "assumptions": [
        "a failing write has no effect on the database (the decorator returns the error before calling bbolt)",
        "exactly one write fails per run (the property's quantifier); commit failures belong to C11",
        "callbacks passed to walletdb ForEach / forEachX helpers have their error propagated by the callee (checked for the in-package helpers, assumed for bbolt)",
        "write effects are abstract in the model (each write has a distinguishable effect); operations are replayed as the straight-line program observed in the fault-free twin run",
    ],
}
