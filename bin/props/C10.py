from common import COMMON_TB

CFG = {
    "technique": "Lean 4 theorems over a generic write-program model (all programs, states, fault positions) + extracted error-handling table of every write path (go/types) + exhaustive fault-position injection on the real code through a walletdb decorator, from states reached by random histories with forced targets (rollback of mined coinbases, confirmation of spenders of leased outputs, removal/confirmation of one of two conflicting unconfirmed spenders of a wallet output); after a swallowed write failure the history is continued fault-free in both worlds to surface latent losses; queries after a failed operation run under a time limit",
    "level_text": "Error-or-full-effect, rollback-restores and retry are Lean theorems about every write program whose sites propagate errors / obey the memory-after-disk discipline; that the real call sites propagate is a generated fact decided in Lean without exception (C10_generated_sites_propagate, C10_generated_table_propagates; regenerated every run). Every mutating operation of wtxmgr.Store and waddrmgr.Manager/ScopedKeyManager runs on the real code with a failure injected at every write position, from states whose histories always hold coinbase transactions (spent and unspent credits) a lease-then-spend prelude and a pair of conflicting unconfirmed spenders of one wallet output, with forced Rollback / InsertTx / RemoveUnminedTx targets on them.",
    "level_note": "Tie to the Go code: the extractor table (every wallet frame above a write must be an extracted site) plus exhaustive fault positions per (operation, state); the data effect of writes is abstract. Former exceptions are fixed in /repo: putAddrAccountIndex swallowed a failed write (277cb7d; the weaker *_partial table theorems and C10_putAddrAccountIndex_counterexample are kept), SetBirthday assigned memory before the write (974f36c). Open findings: the 15 memory-ahead-of-disk keys of waddrmgr in known-findings.txt (eager cache updates), not error propagation. Trusted: Lean kernel, extractor, faultdb decorator, walletdb.Update atomicity (C11), bbolt.",
    "lean_props": ["BtcwVerif.Props.C10"],
    "engines": ["faultops"],
    "extractors": [{"name": "errsites", "out": "ErrSitesGen.lean"}],
    "trusted_base": COMMON_TB + [
        "extractor harness/cmd/vxextract/errsites.go (go/parser + go/types): classification of the error handling of every call through which a mutating walletdb primitive is reached in wtxmgr and waddrmgr; validated dynamically: every wallet frame on the stack of every observed write must be an extracted site",
        "harness/faultdb decorator: counts mutating walletdb calls and fails the k-th without touching bbolt",
        "walletdb.Update rolls back on error and runs OnCommit callbacks only after a successful commit (the C11 assumption, made explicit in FaultOps.bracket)",
        "in-memory state of the managers is observed through the public query API and, for the eager/deferred step positions, through a reflection fingerprint of the live Manager object",
    ],
    "assumptions": [
        "a failing write has no effect on the database (the decorator returns the error before calling bbolt)",
        "exactly one write fails per run (the property's quantifier); commit failures belong to C11",
        "callbacks passed to walletdb ForEach / forEachX helpers have their error propagated by the callee (checked for the in-package helpers, assumed for bbolt)",
        "observables of the tx store include UnspentOutputs / OutputsToWatch (list AND error flag), RangeTransactions block records, ListLockedOutputs and Balance at a height where every coinbase is mature (SimNet maturity 100); coinbase transactions are only ever recorded as mined",
        "write effects are abstract in the model (each write has a distinguishable effect); operations are replayed as the straight-line program observed in the fault-free twin run",
    ],
}
