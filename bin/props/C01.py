from common import COMMON_TB

CFG = {
    "technique": "Lean 4 refinement proof: after EVERY chain-consistent history of events (reorgs included) the wtxmgr model refines the five-minute specification Ledger, hence Balance = Ledger.balance and UnspentOutputs = Ledger.utxos (theorems, no bounds) + run-time check of the same relation on generated histories (ops refcheck/reffuzz) + differential run of the real wtxmgr.Store against the model with an independent Go ledger oracle",
    "level_text": "C01_balance_ledger: for every chain-consistent history of events from the empty wallet (unconfirmed/confirmed deliveries with redelivery, block disconnections to ANY height and reconnections, abandonments, leases, releases, sweeps, clock moves), every store call succeeds and, for every coinbase maturity, minConf and syncHeight, Balance = Ledger.balance of the ledger after the history = the sum of the credited outputs of known transactions that no known transaction spends, that are not leased, have >= minConf confirmations and (if coinbase) >= maturity confirmations. C01_utxos_ledger: UnspentOutputs lists, each once, exactly the credited outputs no known transaction spends and that are not leased, with amount, confirming block (height, hash, time / none) and coinbase flag (compared as a set: Perm). C01_balance_refines: the same on any pair (store, ledger) in the simulation relation. Store level (kept): C01_balance (Balance = formula on the store records along every history of store calls), C01_utxos_sound/_complete.",
    "level_note": "No _partial left for C01. The refinement (Lemmas/Ref*.lean, ~6800 lines) proves per event: seen, abandoned (removeConflict = descendant closure), confirmed (insertMinedTx + credits + removeDoubleSpends + lease release), disconnected (rollback: main loop invariant over the detached transactions, block deletion, coinbase clean-up), lease/release/sweep/clock; good_history composes them. The lease clock is constant during one Balance call. OutputsToWatch = Ledger.watchSet is checked at run time only (op watch / spec watch).",
    "lean_props": ["BtcwVerif.Props.C01"],
    "engines": ["txstore"],
    "trusted_base": COMMON_TB + [
        "hand-written model BtcwVerif/Model/TxStore.lean of wtxmgr/{tx,unconfirmed,query,db}.go (tied by the differential run incl. full bucket dumps)",
        "BtcwVerif/Model/Ledger.lean (specification) is cross-checked against an independent Go implementation of the same sentences (harness/engines/txstore/oracle.go)",
        "bbolt: ordered buckets with unique keys, atomic Update (C11's assumption)",
        "Lemmas/Ref*.lean: simulation relation Good = WF2 (store invariant) + LWF (ledger well-formedness) + Refines (bucket by bucket: find? k = some v <-> (k,v) in the ledger's expectation Ledger.exp...; executable form refinesB evaluated by the driver after every event: ops refcheck / reffuzz)",
    ],
    "assumptions": [
        "amounts/heights are unbounded integers in the model (no int64/int32 overflow)",
        "hashes identify transactions; block heights >= 0",
        "credited amounts >= 0",
        "chain consistency of the next event = TxStore.Consistent: Ledger.consistent (one block per height, a tx confirmed in one block, no confirmed double spend, no duplicated input, parents delivered first and confirmed at or below their children, coinbases never unconfirmed, redelivery allowed, conflicting unconfirmed txs may coexist) + Ledger.extra (an input naming a known tx names one of its outputs; no unconfirmed tx conflicting with a confirmed one is delivered; `abandoned` names the unconfirmed tx with that hash) + a tx has < 2^32-1 outputs and does not spend an output of itself",
    ],
}
