from common import COMMON_TB

CFG = {
    "technique": "Lean 4 theorem: after every chain-consistent history of store calls (reorgs included) Balance = the C01 sentence on the store's records (representation invariant proved for every operation incl. insertMinedTx and rollback) + run-time check of the Ledger specification on generated consistent histories + differential run of the real wtxmgr.Store against the model with an independent Go ledger oracle",
    "level_text": "C01_balance: for every history of store calls satisfying chain consistency (Call.Pre, read on the store at each call: a tx is confirmed in one block, one block per height, parents first, < 2^32-1 outputs) starting from the empty store - unconfirmed/confirmed inserts with redelivery, credits, abandonments, Rollback to ANY height, reconnects, leases, sweeps, any clock values - and every instant, maturity, minConf, syncHeight: Balance (counter + three correction passes over three buckets) equals the C01 formula evaluated on the store's records. Built from C01_inv_reachable (WF2 preserved by every operation: wf2_insertMinedTx, wf2_addCredit_mined, wf2_rollback, unconfirmed/lease ops) and C01_balance_inv. C01_utxos_sound/_complete: UnspentOutputs lists exactly the unspent-index entries and unconfirmed credits that are neither leased nor spent by an unconfirmed tx, with value, confirming block and coinbase flag of the recorded transaction.",
    "level_note": "PARTIAL only in the last link: the refinement store-records = Ledger (storeTruth = Ledger.balance, step_repr) is not proved; it is checked at run time on every generated history (ops `spec probe` vs `probe`: Lean spec = Lean model = real Go), as are the executable forms of the invariants (op `inv`). ConfirmPre.ucValid (the unconfirmed credits kept under a hash are outputs of that tx) is a precondition read on the store, not yet an invariant. Former finding F6 (zero-value credits) is fixed in /repo 7fa9939. The lease clock is constant during one Balance call.",
    "lean_props": ["BtcwVerif.Props.C01"],
    "engines": ["txstore"],
    "trusted_base": COMMON_TB + [
        "hand-written model BtcwVerif/Model/TxStore.lean of wtxmgr/{tx,unconfirmed,query,db}.go (tied by the differential run incl. full bucket dumps)",
        "BtcwVerif/Model/Ledger.lean (specification) is cross-checked against an independent Go implementation of the same sentences (harness/engines/txstore/oracle.go)",
        "bbolt: ordered buckets with unique keys, atomic Update (C11's assumption)",
    ],
    "assumptions": [
        "amounts/heights are unbounded integers in the model (no int64/int32 overflow)",
        "hashes identify transactions; block heights >= 0",
        "credited amounts >= 0",
    ],
}
