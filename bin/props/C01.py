from common import COMMON_TB

CFG = {
    "technique": "Lean 4 theorem (Balance = the C01 sentence on the store's own records, for every store satisfying the representation invariant) + run-time check of the invariant and of the Ledger specification on generated consistent histories + differential run of the real wtxmgr.Store against the model with an independent Go ledger oracle",
    "level_text": "C01_balance_partial: for every model store satisfying Inv (counter = total of mined credits without mined spender; unspent index = exactly those credits; blocks sorted; listed txs recorded), every instant, maturity, minConf and syncHeight, Balance (counter + three correction passes over three buckets) equals the C01 formula evaluated on the store's records; no double subtraction, no missed block. C01_utxos_sound/_complete: UnspentOutputs lists exactly the unspent-index entries and unconfirmed credits that are neither leased nor spent by an unconfirmed tx, with value, confirming block and coinbase flag of the recorded transaction. Inv holds initially and is preserved by every sequence of InsertTx(nil)/AddCredit(nil)/RemoveUnminedTx/Lock/Unlock/Sweep calls. Inv and Balance=formula are evaluated by the Lean driver after every op of every generated consistent history; Ledger.balance/utxos (spec) are compared with the model and with the real Go code op by op.",
    "level_note": "PARTIAL: preservation of Inv by insertMinedTx/rollback (i.e. reachability of Inv after every consistent history) and the refinement store-records = Ledger (step_repr) are not proved; they are checked at run time on every generated history (ops `inv`, `spec probe`). Zero-value credits: fixed in /repo 7fa9939 (C01_rollback_restores_spent_credit; reverting the fix yields VIOLATION key=rollback.zero-value-credit). The lease clock is constant during one Balance call.",
    "lean_props": ["BtcwVerif.Props.C01"],
    "engines": ["txstore"],
    "trusted_base": COMMON_TB + [
        "hand-written model BtcwVerif/Model/TxStore.lean of wtxmgr/{tx,unconfirmed,query,db}.go (tied by the differential run incl. full bucket dumps)",
        "BtcwVerif/Model/Ledger.lean (specification) is cross-checked against an independent Go implementation of the same sentences (harness/engines/txstore/oracle.go)",
        "bbolt: ordered buckets with unique keys, atomic Update (C11's assumption)",
    ],
    "assumptions": [
        "amounts/heights are unbounded integers in the model (no int64/int32 overflow)",
        "hashes identify transactions; block heights >= 0",
        "credited amounts >= 0",
    ],
}
