from common import COMMON_TB

CFG = {
    "technique": "Lean 4 theorems (invariants by induction over all schedules of a labelled transition system interpreted "
                 "from a select table) + select table regenerated from chain/queue.go (decide) + stepwise differential run "
                 "of the real goroutine + free-running stress with Go-side oracles",
    "level_text": "All clauses of C18 are Lean theorems about the transition system obtained by interpreting the select table of "
                  "ConcurrentQueue.Start, for every schedule, every buffer size >= 0 and every burst length; the table is "
                  "re-extracted from chain/queue.go on every run and must equal the proved one (by decide); the executable model "
                  "(run under the extracted table) is compared with the real worker goroutine on stepwise scripts.",
    "level_note": "Partial w.r.t. the Go runtime: goroutine scheduling, select and channel semantics are modelled as interleaving "
                  "of atomic steps (DESIGN section 9); 'Stop terminates the worker' is proved as: the quit clause is enabled in "
                  "every select once Stop was called, exit is absorbing, and without further producer offers at most "
                  "cap+1 other worker steps are possible (Go's select picks ready clauses at random, so termination is "
                  "with probability 1, not under every schedule).",
    "lean_props": ["BtcwVerif.Props.C18", "BtcwVerif.Props.C18Loops", "BtcwVerif.Props.C18Start"],
    "engines": ["queue", "btcdnotif", "bitcoindnotif"],
    "extractors": [{"name": "queue", "out": "QueueGen.lean"}, {"name": "notifloop", "out": "NotifLoopGen.lean"},
                   {"name": "queuestart", "out": "QueueStartGen.lean"}],
    "trusted_base": COMMON_TB + [
        "the table interpreter Queue.wstep in BtcwVerif/Model/Queue.lean as semantics of Go select/channels/container-list "
        "(unbuffered chanIn, buffered chanOut incl. capacity 0 rendez-vous, closed quit channel, default clause)",
        "the extractor harness/cmd/vxextract/queue.go (go/ast) producing Gen/QueueGen.lean; tied by C18_generated_table (decide)",
        "the Go runtime: scheduler, select fairness, channel implementation, container/list",
        "the extractor harness/cmd/vxextract/queuestart.go (go/ast, syntactic: receivers and parameters are resolved to "
        "their struct type, any other base of a guard-field selector is attributed conservatively to every guard of that "
        "name) producing Gen/QueueStartGen.lean; the abstraction of a guarded Start in Model/QueueStart.lean (gstep) and "
        "the hand-written multi-worker step function Model/QueueTwo.lean used for the two-worker witnesses (checked "
        "against the one-worker model on a closed schedule: C18_two_model_one_worker_agrees)",
        "engine bitcoindnotif: the in-process fake bitcoind (HTTP JSON-RPC: getblockhash, getblockheader, "
        "getblockchaininfo incl. the RPC_IN_WARMUP error, getnetworkinfo) that feeds the real chain.BitcoindClient",
        "btcd.go / neutrino.go handler loops (their own slice queue, not ConcurrentQueue): hand model "
        "BtcwVerif/Model/NotifLoop.lean tied by the idiom-recognising extractor harness/cmd/vxextract/notifloop.go "
        "(C18_loops_generated, decide); the btcd.go loop is additionally run for real (engine btcdnotif: real "
        "chain.RPCClient against an in-process fake btcd websocket server); the neutrino.go loop is not run "
        "(needs a neutrino chain service) - its clause table differs from btcd's only by the log-only rescanErr clause",
    ],
    "assumptions": [
        "one worker goroutine per queue, i.e. (*ConcurrentQueue).Start is called at most once per instance: a caller-side "
        "obligation, discharged for the current source by C18_generated_queue_started_once (facts re-extracted from "
        "chain/*.go by harness/cmd/vxextract/queuestart.go: the only call site, (*BitcoindClient).Start, is behind the "
        "`started` compare-and-swap and nothing in the package re-opens that guard) + C18_guarded_start_at_most_one_worker; "
        "C18_two_workers_reorder / C18_two_workers_duplicate show the property is false with two workers; engine "
        "bitcoindnotif runs the retry-after-failed-Start scenario on a real chain.BitcoindClient",
        "one consumer (the delivered sequence is what that consumer receives); any number of producers (their sends are "
        "serialised by the unbuffered chanIn, 'accepted' is that serial order)",
        "Stop() is called at most once (a second call panics in Go: close of closed channel)",
        "after Stop() the property promises nothing about items not yet delivered: the model shows that the item being "
        "handed over can be dropped by the nested `case <-cq.quit` and that the overflow list is abandoned",
    ],
}
