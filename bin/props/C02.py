from common import COMMON_TB

CFG = {
    "technique": "Lean 4 theorems about conflict removal in the wtxmgr model and about the reference semantics (Ledger.apply) + differential run: model = Ledger specification = real wtxmgr.Store on generated consistent histories, and Go<->Go comparison of all observables on pairs (history with connect/disconnect/reconnect cycles vs direct construction of its final facts on a fresh store)",
    "level_text": "Proved for every store/ledger/transaction: removeConflict (used for confirmed double spends, abandonment and spenders of detached coinbases) removes the transaction, never touches the mined part of the store and never adds or alters an unconfirmed record; after a successful Rollback(h) no block record >= h is left and records < h are unchanged; an unconfirmed insert removes nothing (conflicting unconfirmed txs coexist); Ledger.apply for `disconnected`/`confirmed` is the C02 sentence (blocks >= h vanish, non-coinbase txs not depending on a detached coinbase become unconfirmed with credits intact, unrelated unconfirmed txs stay).",
    "level_note": "PARTIAL: that rollback/insertMinedTx realise Ledger.apply on the store (C02_disconnect, C02_confirm) and path independence are NOT theorems (the store invariant WF2 IS preserved by rollback and insertMinedTx: see C01, Lemmas/WFRollback.lean); they are checked at run time on every generated history (model = spec = Go, op by op) and on pairs (Go<->Go: oracle key path-independence). Former findings, fixed in /repo 2c7f685 / 7fa9939: spender of a non-credited coinbase output kept on rollback (now C02_rollback_remembers_every_coinbase_output), zero-value credits; reverting either fix yields VIOLATION with replay.",
    "lean_props": ["BtcwVerif.Props.C02"],
    "engines": ["txstore", "walletchain-sync"],
    "trusted_base": COMMON_TB + [
        "hand-written model BtcwVerif/Model/TxStore.lean of wtxmgr/{tx,unconfirmed,query,db}.go (tied by the differential run incl. full bucket dumps)",
        "BtcwVerif/Model/Ledger.lean (specification) is cross-checked against an independent Go implementation of the same sentences (harness/engines/txstore/oracle.go)",
        "bbolt: ordered buckets with unique keys, atomic Update (C11's assumption)",
    ],
    "assumptions": [
        "hashes identify transactions (no cycles among unconfirmed transactions: removeConflict's recursion is bounded by the size of the unconfirmed bucket)",
        "chain consistency as defined by Ledger.consistent (one block per height, no confirmed double spend, parents first, redelivery allowed, conflicting unconfirmed txs may coexist)",
    ],
}
