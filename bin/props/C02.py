from common import COMMON_TB

CFG = {
    "technique": "Lean 4 refinement proof: rollback / insertMinedTx / RemoveUnminedTx realise Ledger.apply on every store that refines a well-formed ledger; path independence as a theorem over all pairs of chain-consistent histories with equal final facts + differential run: model = Ledger specification = real wtxmgr.Store on generated consistent histories, Go<->Go comparison of all observables on pairs, refinement relation evaluated after every event (refcheck/reffuzz)",
    "level_text": "C02_disconnect: on every good pair Rollback(h), any h, succeeds and the result refines Ledger.apply (disconnected h): blocks >= h gone, their non-coinbase transactions unconfirmed again with credits intact, their coinbases and every unconfirmed transaction (transitively) spending them gone. C02_confirm: for a chain-consistent confirmation the calls of wallet.addRelevantTx succeed and refine Ledger.apply (confirmed): conflicting unconfirmed transactions and all their descendants disappear, unrelated ones stay. C02_abandon likewise. C02_refines: after every chain-consistent history the store refines the ledger. C02_path_independence: two chain-consistent histories (any connect/disconnect/reconnect orders) whose final ledgers hold the same facts (same blocks with the same tx sets, same unconfirmed set, same credited outputs, leases, clock) give equal Balance for all maturity/minConf/syncHeight, the same UnspentOutputs set and, for every hash, the same TxDetails answer (same tx, same block, same credit/debit records as sets). Store-level theorems kept (removeConflict, rollback blocks, coinbase outputs remembered).",
    "level_note": "No _partial left for C02. Order dependence that remains and is stated in C02_path_independence: the order of transactions inside one block record / the unconfirmed batch of RangeTransactions follows insertion resp. hash order (the oracle sorts each batch by hash); record lists inside TxDetails are compared as sets (bucket order vs index order). Former findings, fixed in /repo 2c7f685 / 7fa9939; reverting either fix yields VIOLATION with replay.",
    "lean_props": ["BtcwVerif.Props.C02"],
    "engines": ["txstore"],
    "trusted_base": COMMON_TB + [
        "hand-written model BtcwVerif/Model/TxStore.lean of wtxmgr/{tx,unconfirmed,query,db}.go (tied by the differential run incl. full bucket dumps)",
        "BtcwVerif/Model/Ledger.lean (specification) is cross-checked against an independent Go implementation of the same sentences (harness/engines/txstore/oracle.go)",
        "bbolt: ordered buckets with unique keys, atomic Update (C11's assumption)",
        "Lemmas/Ref*.lean: simulation relation Good = WF2 (store invariant) + LWF (ledger well-formedness) + Refines (bucket by bucket: find? k = some v <-> (k,v) in the ledger's expectation Ledger.exp...; executable form refinesB evaluated by the driver after every event: ops refcheck / reffuzz)",
    ],
    "assumptions": [
        "hashes identify transactions (no cycles among unconfirmed transactions: removeConflict's recursion is bounded by the size of the unconfirmed bucket)",
        "chain consistency of the next event = TxStore.Consistent: Ledger.consistent (one block per height, a tx confirmed in one block, no confirmed double spend, no duplicated input, parents delivered first and confirmed at or below their children, coinbases never unconfirmed, redelivery allowed, conflicting unconfirmed txs may coexist) + Ledger.extra (an input naming a known tx names one of its outputs; no unconfirmed tx conflicting with a confirmed one is delivered; `abandoned` names the unconfirmed tx with that hash) + a tx has < 2^32-1 outputs and does not spend an output of itself",
    ],
}
