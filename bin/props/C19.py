from common import COMMON_TB

CFG = {
    "technique": "Lean 4 theorems (induction over the version table) + differential run against real bdb",
    "level_text": "All clauses of C19 are Lean theorems about the model of migration.Upgrade for every table, stored version and failure position; the model is tied to the Go code by a differential run on random and (thorough) exhaustively enumerated small tables on a real bdb database, plus real wallet.Open runs on databases whose component versions are behind/at/ahead (multi-component single-transaction clause).",
    "level_note": "Trusted: Lean kernel; the hand model of manager.go (checked by correspondence only on explored inputs); sort.Slice returns a sorted permutation; walletdb.Update atomicity (C11).",
    "lean_props": ["BtcwVerif.Props.C19"],
    "engines": ["migration"],
    "trusted_base": COMMON_TB + [
        "hand-written model BtcwVerif/Model/Migration.lean of walletdb/migration/manager.go (tied by differential run)",
        "Go's sort.Slice is assumed to return a sorted permutation (its stability is NOT assumed)",
        "atomicity of the enclosing walletdb.Update is the C11 assumption; the engine exercises it on real bdb",
    ],
    "assumptions": [
        "migrations are modelled by identity + success/failure; their data effect is 'a write tagged with the id'",
        "uint32 version numbers modelled as Nat (no overflow: numbers are small constants in every caller)",
    ],
}
