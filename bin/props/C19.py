from common import COMMON_TB

CFG = {
    "technique": "Lean 4 theorems (induction over the version table) + differential run against real bdb (ops up, up2 = two upgrades sharing one table, wopen = real wallet.Open)",
    "level_text": "All clauses of C19 are Lean theorems about the model of migration.Upgrade for every table, stored version and failure position; the model is tied to the Go code by a differential run on random and (thorough) exhaustively enumerated small tables on a real bdb database, by two migration.Upgrade calls in one process whose managers return the SAME version slice (op up2: each must run exactly the pending migrations of the declared table), plus real wallet.Open runs on databases whose component versions are behind/at/ahead (multi-component single-transaction clause, C19_many_fail_in_tx / C19_many_ok_in_tx).",
    "level_note": "Trusted: Lean kernel; the hand model of manager.go (checked by correspondence only on explored inputs); sort.Slice returns a sorted permutation (C19_order_independent is why the real code's in-place sort of a shared table is harmless); walletdb.Update atomicity (C11). Go oracle keys: Upgrade.shared-table-second-upgrade (op up2), wallet.Open.failed-upgrade-modified-db (op wopen); the oracles of op up are plain messages.",
    "lean_props": ["BtcwVerif.Props.C19"],
    "engines": ["migration"],
    "trusted_base": COMMON_TB + [
        "hand-written model BtcwVerif/Model/Migration.lean of walletdb/migration/manager.go (tied by differential run)",
        "Go's sort.Slice is assumed to return a sorted permutation (its stability is NOT assumed)",
        "atomicity of the enclosing walletdb.Update is the C11 assumption; the engine exercises it on real bdb",
    ],
    "assumptions": [
        "migrations are modelled by identity + success/failure; their data effect is 'a write tagged with the id'",
        "the version table is a value in the model: op up2 is answered from the DECLARED table twice, i.e. a manager's Versions() is assumed not to be mutated by an earlier upgrade (what the Go oracle of up2 checks on the real code)",
        "uint32 version numbers modelled as Nat (no overflow: numbers are small constants in every caller)",
    ],
}
