from common import COMMON_TB

CFG = {
    "technique": "Lean 4 theorems about a byte-level model of snacl and of the manager's key layer, parametric in an abstract AEAD/KDF whose laws are hypotheses; differential run of the real snacl/waddrmgr code (every bit flip, every truncation, passphrase near-misses, all parameter-encoding lengths) against the model instantiated with a toy AEAD/KDF proved lawful",
    "level_text": "The wallet's own logic (ciphertext layout and length check, use of the authenticator result, 88-byte parameter encoding, digest comparison, key selection/locking in Manager.Encrypt/Decrypt/Unlock) is proved for all inputs; secretbox/scrypt/sha256 strength enters as named hypotheses (structure fields), shown satisfiable by a toy instance.",
    "level_note": "Partial by nature: unforgeability, key binding of secretbox and collision resistance of sha256∘scrypt are cryptographic assumptions (hypotheses of the theorems, exercised empirically on the real primitives by the differential run: every single-bit flip and every truncation length of real ciphertexts). Nonce uniqueness relies on crypto/rand; the model takes the nonce as a parameter.",
    "lean_props": ["BtcwVerif.Props.C17"],
    "engines": ["crypto"],
    "trusted_base": COMMON_TB + [
        "hand-written model BtcwVerif/Model/Crypto.lean of snacl/snacl.go and of the key layer of waddrmgr/manager.go (tied by differential run)",
        "golang.org/x/crypto secretbox (XSalsa20-Poly1305), scrypt, crypto/sha256, crypto/rand: abstract functions; their laws (AEAD.Correct, AEAD.Binding, AEAD.Distance, KDF.Binding) are hypotheses of the theorems",
        "the toy AEAD/KDF used by the Lean driver is NOT a cipher; it is only proved to satisfy the same functional laws",
    ],
    "assumptions": [
        "KNOWN DEFECT (unchanged tree): DeriveKey accepts passphrases with the same HMAC-SHA256 key block (trailing NULs); modelled (hmacBlock), counter-example theorem C17_counterexample_trailing_nul, oracle key DeriveKey.trailing-NUL-passphrase; the exact-passphrase clause is proved as _partial",
        "crypto/rand nonces are fresh (the model takes nonces/salts/keys as explicit parameters; the Go oracle checks freshness on every real encryption)",
        "Go int is 64 bit (Parameters.N/R/P modelled as Int within [-2^63, 2^63))",
        "Manager model covers the key hierarchy only (master keys, crypto keys, lock state); account/address key caches are C05",
    ],
}
