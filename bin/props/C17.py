from common import COMMON_TB

CFG = {
    "technique": "Lean 4 theorems about a byte-level model of snacl and of the manager's key layer, parametric in an abstract AEAD/KDF whose laws are hypotheses; differential run of the real snacl/waddrmgr code (every bit flip, every truncation, passphrase near-misses, all parameter-encoding lengths, ChangePassphrase sequences, concurrent Encrypt callers: op encpar) against the model instantiated with a toy AEAD/KDF proved lawful; structural freshness oracle on every real nonce",
    "level_text": "The wallet's own logic (ciphertext layout and length check, use of the authenticator result, 88-byte parameter encoding, digest comparison, key selection/locking in Manager.Encrypt/Decrypt/Unlock/ChangePassphrase) is proved for all inputs; pairwise distinct nonces give pairwise distinct ciphertexts for every interleaving of concurrent callers (C17_fresh_calls, C17_fresh_concurrent, C17_fresh_many; necessity: C17_nonce_reuse_collides). secretbox/scrypt/sha256 strength enters as named hypotheses (structure fields), shown satisfiable by a toy instance.",
    "level_note": "Partial by nature: unforgeability, key binding of secretbox and collision resistance of sha256∘scrypt are cryptographic assumptions (hypotheses, exercised on the real primitives: every single-bit flip and truncation of real ciphertexts). Nonce uniqueness relies on crypto/rand; the model takes nonces as parameters, the Go side checks every real nonce: keys encrypt.nonce-reuse, encrypt.nonce-reuse-concurrent (op encpar: g goroutines x per calls under one key, all ciphertexts and nonces distinct) and the structural encrypt.nonce-not-fresh-random (no shared 16-byte prefix / aligned 8-byte word).",
    "lean_props": ["BtcwVerif.Props.C17"],
    "engines": ["crypto"],
    "trusted_base": COMMON_TB + [
        "hand-written model BtcwVerif/Model/Crypto.lean of snacl/snacl.go and of the key layer of waddrmgr/manager.go (tied by differential run)",
        "golang.org/x/crypto secretbox (XSalsa20-Poly1305), scrypt, crypto/sha256, crypto/rand: abstract functions; their laws (AEAD.Correct, AEAD.Binding, AEAD.Distance, KDF.Binding) are hypotheses of the theorems",
        "the toy AEAD/KDF used by the Lean driver is NOT a cipher; it is only proved to satisfy the same functional laws",
    ],
    "assumptions": [
        "KNOWN DEFECT (unchanged tree): DeriveKey accepts passphrases with the same HMAC-SHA256 key block (trailing NULs); modelled (hmacBlock), counter-example theorem C17_counterexample_trailing_nul, oracle key DeriveKey.trailing-NUL-passphrase; the exact-passphrase clause is proved as _partial",
        "crypto/rand nonces are fresh (the model takes nonces/salts/keys as explicit parameters; the Go oracles check every real nonce: no repeat within a run, none among the g*per concurrent calls of op encpar, and structurally no two nonces sharing their first 16 bytes or an aligned 8-byte word - 24 fresh random bytes do so with probability < N^2 * 2^-63)",
        "op encpar: the driver computes Crypto.encryptMany over the toy nonces st.nonce..st.nonce+total-1 and COUNTS the distinct results; bounds shared by both sides: 1 <= g <= 64, 1 <= per <= 100000, g*per <= 10^6, len <= 4096; the race of a broken nonce generator is scheduler dependent, the structural oracle is not",
        "Go int is 64 bit (Parameters.N/R/P modelled as Int within [-2^63, 2^63))",
        "Manager model covers the key hierarchy only (master keys, crypto keys, lock state); account/address key caches are C05",
    ],
}
