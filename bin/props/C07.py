from common import COMMON_TB

CFG = {
    "technique": "Go→Lean translation of the size/fee/dust arithmetic (regenerated every run) + Lean 4 theorems over the "
                 "translated definitions + differential run of the real author with real signing",
    "level_text": "All clauses of C07 are Lean theorems about the model of NewUnsignedTransaction for every output list, "
                  "fee rate from the relay floor upward, coin list of key-spend P2PKH/P2WPKH/nested-P2WPKH/P2TR inputs, "
                  "every well-formed change source, every input source that reports its total truthfully, and every "
                  "admissible signature length. Sizes, fees and the dust rule are not hand-written: they are translated "
                  "from the Go AST on every run and the theorems are re-checked against the translation. The loop model, "
                  "the external btcd functions and the byte-accurate BIP-141 size model are tied to the code by a "
                  "differential run in which every authored transaction is really signed, script-verified and measured.",
    "level_note": "Trusted: Lean kernel; the translator (vxextract sizes) for the supported Go subset; the hand models of "
                  "the loop of NewUnsignedTransaction, of makeInputSource (source fingerprint checked) and of the btcd "
                  "externals wire.VarIntSerializeSize, TxOut.SerializeSize, mempool.IsDust/GetDustThreshold and the "
                  "txscript predicates (all compared with the real functions on every run); int64 modelled as unbounded "
                  "Int; compressed public keys only.",
    "lean_props": ["BtcwVerif.Props.C07"],
    "engines": ["author", "walletchain-tx"],
    "extractors": [{"name": "sizes", "out": "SizesGen.lean"}],
    "trusted_base": COMMON_TB + [
        "translator harness/cmd/vxextract/sizes.go (Go AST → Lean) for the statement forms used by txsizes/txrules today; "
        "any other shape makes it fail",
        "hand-written model BtcwVerif/Model/Author.lean of the loop of txauthor.NewUnsignedTransaction and of "
        "wallet.makeInputSource/constantInputSource (tied by differential run; makeInputSource by source fingerprint)",
        "hand-modelled btcd externals BtcwVerif/Model/SizesExt.lean (var-int size, TxOut.SerializeSize, mempool.IsDust, "
        "GetDustThreshold, txscript predicates), each compared with the real function by engine author",
        "BIP-141 size model Author.realWeight, validated against blockchain.GetTransactionWeight of really signed "
        "transactions at the observed signature lengths",
    ],
    "assumptions": [
        "fee rate >= txrules.DefaultRelayFeePerKb (1000 sat/kvB), the property's quantifier; below it FeeForSerializeSize is "
        "not monotone in the size (fee==0 is replaced by the rate)",
        "change source well-formed: 0 < ScriptSize and len(NewScript()) <= ScriptSize; change script spendable and not null-data",
        "offered coins are key-spend P2PKH (compressed key), P2WPKH, P2SH-P2WPKH or P2TR outputs; the input source reports "
        "total = sum of the values it returns",
        "admissible signatures: DER length 8..72 (+1 sighash byte), except that a P2PKH input in a transaction that also "
        "has witness inputs carries a DER signature of at most 71 bytes (low-S, what btcec produces); Schnorr 64 or 65 bytes",
        "Go int64/int arithmetic modelled as unbounded Int (amounts <= 21e14 sat, sizes < 2^31)",
    ],
}
