from common import COMMON_TB

CFG = {
    "technique": "Go→Lean translation of the size/fee/dust arithmetic (regenerated every run) + Lean 4 theorems over the "
                 "translated definitions + differential run of the real author with real signing + wallet-level "
                 "insufficient-funds oracle on a real wallet.Wallet (engine walletchain-tx)",
    "level_text": "All clauses of C07 are Lean theorems about the model of NewUnsignedTransaction for every output list, fee "
                  "rate from the relay floor upward, coin list of key-spend P2PKH/P2WPKH/nested-P2WPKH/P2TR inputs, well-formed "
                  "change source, truthful input source (the wallet's makeInputSource / constantInputSource are such: "
                  "C07_wallet_sources_offer) and admissible signature length. Sizes, fees and the dust rule are translated from "
                  "the Go AST on every run and the theorems re-checked against the translation; loop model, btcd externals and "
                  "BIP-141 size model are tied by a differential run that really signs, script-verifies and measures every "
                  "authored transaction.",
    "level_note": "Wallet level: engine walletchain-tx judges every err=insufficient of a real Wallet under automatic selection "
                  "(four APIs, largest and random) on the harness ledger's eligible set: key "
                  "createtx.insufficient-funds-although-covered (scenario second-pass). Trusted: Lean kernel; translator "
                  "(vxextract sizes) for the supported Go subset; hand models of the loop, of makeInputSource (source "
                  "fingerprint: C07_makeInputSource_shape) and of the btcd externals (var-int size, TxOut.SerializeSize, "
                  "IsDust/GetDustThreshold, txscript predicates; compared with the real functions every run); int64 as "
                  "unbounded Int; compressed public keys only.",
    "lean_props": ["BtcwVerif.Props.C07"],
    "engines": ["author", "walletchain-tx"],
    "extractors": [{"name": "sizes", "out": "SizesGen.lean"}],
    "trusted_base": COMMON_TB + [
        "translator harness/cmd/vxextract/sizes.go (Go AST → Lean) for the statement forms used by txsizes/txrules today; "
        "any other shape makes it fail",
        "hand-written model BtcwVerif/Model/Author.lean of the loop of txauthor.NewUnsignedTransaction and of "
        "wallet.makeInputSource/constantInputSource (tied by differential run; makeInputSource by source fingerprint)",
        "hand-modelled btcd externals BtcwVerif/Model/SizesExt.lean (var-int size, TxOut.SerializeSize, mempool.IsDust, "
        "GetDustThreshold, txscript predicates), each compared with the real function by engine author",
        "wallet-level oracle (engine walletchain-tx): the eligible set is the harness ledger's (C01/C06 assumed), the fee of a "
        "prefix comes from the real txsizes.EstimateVirtualSize / txrules.FeeForSerializeSize; largest-first: some descending "
        "prefix covers outputs + its own fee, random: all positively yielding eligible coins together cover",
        "BIP-141 size model Author.realWeight, validated against blockchain.GetTransactionWeight of really signed "
        "transactions at the observed signature lengths",
    ],
    "assumptions": [
        "fee rate >= txrules.DefaultRelayFeePerKb (1000 sat/kvB), the property's quantifier; below it FeeForSerializeSize is "
        "not monotone in the size (fee==0 is replaced by the rate)",
        "change source well-formed: 0 < ScriptSize and len(NewScript()) <= ScriptSize; change script spendable and not null-data",
        "offered coins are key-spend P2PKH (compressed key), P2WPKH, P2SH-P2WPKH or P2TR outputs; the input source reports "
        "total = sum of the values it returns",
        "admissible signatures: DER length 8..72 (+1 sighash byte), except that a P2PKH input in a transaction that also "
        "has witness inputs carries a DER signature of at most 71 bytes (low-S, what btcec produces); Schnorr 64 or 65 bytes",
        "Go int64/int arithmetic modelled as unbounded Int (amounts <= 21e14 sat, sizes < 2^31)",
    ],
}
