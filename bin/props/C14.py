from common import COMMON_TB

CFG = {
    "technique": "Lean 4 theorems (Kahn invariant over the real makeGraph/graphRoots/DependencySort structure, for every DAG "
                 "and every pair of map iteration orders) + output-set-membership differential run against the real "
                 "wtxmgr.DependencySort and Store.UnminedTxs + the same two clauses observed at wallet level on the "
                 "SendRawTransaction calls of a real Wallet.resendUnminedTxs (engine walletchain-tx)",
    "level_text": "Both clauses of C14 (each exactly once; parents first) are Lean theorems about the model of "
                  "wtxmgr/kahnsort.go for every finite acyclic set of distinct-hash transactions and every order in which "
                  "Go may iterate the two maps. Tied to the code by running the real DependencySort and Store.UnminedTxs "
                  "(real bdb store) many times per generated DAG: every returned order is one of the model's "
                  "outputs over all iteration orders (<= 5 transactions) and satisfies the specification functions (all "
                  "graphs). The consumer is checked too: after every resync of a real Wallet the fake backend's call record "
                  "must show each unconfirmed tx offered once, parents first.",
    "level_note": "Wallet level (engine walletchain-tx, shared with C06/C20; model Publish.lean, resend theorems in Props/C20): "
                  "violations are emitted as C14 key=resendUnminedTxs.{not-offered,offered-twice,child-before-parent,"
                  "not-offered-after-every-resync}. Trusted: Lean kernel; the hand model of kahnsort.go (tied by output-set "
                  "membership on explored graphs only: Go's map order is not observable without a hook). Acyclicity is a "
                  "hypothesis (a hash commits to its inputs, so real transactions cannot form a cycle); on cyclic input "
                  "model and code silently drop every transaction on or below a cycle.",
    "rule": "engine kahn: one evaluation = one order actually returned by the real wtxmgr.DependencySort / Store.UnminedTxs, judged by "
            "the Go oracles (permutation, parents-first), by the Lean specification functions and, for <= 5 transactions, by "
            "membership in the model's output set over all iteration orders; each evaluation additionally re-runs the real "
            "code 20-40 times with fresh maps under the Go oracles. Engine walletchain-tx: one evaluation = one wallet operation "
            "executed on a real wallet.Wallet and on the Lean model; after every resync/restart op the SendRawTransaction "
            "calls recorded by the fake backend are judged by the resend oracles. distinct_nontrivial = distinct (op line, reply) pairs",
    "lean_props": ["BtcwVerif.Props.C14"],
    # walletchain-tx: the same two clauses observed on the calls a real Wallet.resendUnminedTxs makes to a fake backend
    # (violations `C14 key=resendUnminedTxs.*`, emitted next to the C20 ones; added for round-2 seed C14-4, see notes/C20.md)
    "engines": ["kahn", "walletchain-tx"],
    "trusted_base": COMMON_TB + [
        "hand-written model BtcwVerif/Model/Kahn.lean of wtxmgr/kahnsort.go (tied by output-set membership for |S| <= 5 and by "
        "specification check for larger S, on explored inputs only)",
        "Go map iteration visits every key exactly once in some order (the two orders are parameters of the model)",
        "map keys handed to DependencySort equal tx.TxHash() (true for Store.UnminedTxs: keys are TxRecord.Hash)",
        "wallet level: the fake backend's own record of SendRawTransaction calls (harness/engines/walletchaintx) is the observation of "
        "what resendUnminedTxs offered; the end of a re-broadcast round is detected from the fake's counters and the wallet's log lines; "
        "hand model BtcwVerif/Model/Publish.lean (dependencySort layer by layer) tied by the same differential run as C20",
    ],
    "assumptions": [
        "transaction hashes are modelled as natural numbers; only equality of hashes is used",
        "the spend graph is acyclic (SHA-256d collision/fixed-point freeness): explicit hypothesis `Kahn.Acyclic` of the theorems",
        "Go int in-degree modelled as Nat (it is never decremented below zero because of the `!= 0` guard)",
    ],
}
