from common import COMMON_TB

CFG = {
    "technique": "Lean 4 theorems (Kahn invariant over the real makeGraph/graphRoots/DependencySort structure, for every DAG "
                 "and every pair of map iteration orders) + output-set-membership differential run against the real "
                 "wtxmgr.DependencySort and Store.UnminedTxs",
    "level_text": "Both clauses of C14 (each exactly once; parents first) are Lean theorems about the model of "
                  "wtxmgr/kahnsort.go for every finite set of distinct-hash transactions whose spend graph is acyclic and for "
                  "every order in which Go may iterate the two maps. The model is tied to the Go code by running the real "
                  "DependencySort and Store.UnminedTxs (real bdb store) many times per generated DAG and checking that every "
                  "order they return is, for graphs of at most 5 transactions, one of the outputs of the model over all "
                  "iteration orders, and for all graphs satisfies the specification functions.",
    "level_note": "Trusted: Lean kernel; the hand model of kahnsort.go (tied by output-set membership on explored graphs only: "
                  "Go's map order is not observable, so exact trace equality is not available without a hook). Acyclicity is a "
                  "hypothesis (a transaction hash commits to its inputs, so real transactions cannot form a cycle); on cyclic "
                  "input the model (and the code) silently drops every transaction on or below a cycle.",
    "rule": "one evaluation = one order actually returned by the real wtxmgr.DependencySort / Store.UnminedTxs, judged by "
            "the Go oracles (permutation, parents-first), by the Lean specification functions and, for <= 5 transactions, by "
            "membership in the model's output set over all iteration orders; each evaluation additionally re-runs the real "
            "code 20-40 times with fresh maps under the Go oracles; distinct_nontrivial = distinct (op line, reply) pairs",
    "lean_props": ["BtcwVerif.Props.C14"],
    # walletchain-tx: the same two clauses observed on the calls a real Wallet.resendUnminedTxs makes to a fake backend
    # (violations `C14 key=resendUnminedTxs.*`, emitted next to the C20 ones)
    "engines": ["kahn", "walletchain-tx"],
    "trusted_base": COMMON_TB + [
        "hand-written model BtcwVerif/Model/Kahn.lean of wtxmgr/kahnsort.go (tied by output-set membership for |S| <= 5 and by "
        "specification check for larger S, on explored inputs only)",
        "Go map iteration visits every key exactly once in some order (the two orders are parameters of the model)",
        "map keys handed to DependencySort equal tx.TxHash() (true for Store.UnminedTxs: keys are TxRecord.Hash)",
    ],
    "assumptions": [
        "transaction hashes are modelled as natural numbers; only equality of hashes is used",
        "the spend graph is acyclic (SHA-256d collision/fixed-point freeness): explicit hypothesis `Kahn.Acyclic` of the theorems",
        "Go int in-degree modelled as Nat (it is never decremented below zero because of the `!= 0` guard)",
    ],
}
