#!/usr/bin/env python3
"""Regenerates MANIFEST.json from propcfg.py + manifest_meta (single source of truth)."""
import json, os, sys
V = os.path.dirname(os.path.dirname(os.path.abspath(__file__)))
sys.path.insert(0, os.path.join(V, "bin"))
from propcfg import PROPS as _ALL, NOT_APPLICABLE, HOOK_COMMITS, DISABLED
PROPS = {k: v for k, v in _ALL.items() if k not in DISABLED}
NOT_APPLICABLE = dict(NOT_APPLICABLE, **DISABLED)
ids = [json.loads(l)["id"] for l in open(os.path.join(V, "properties.jsonl"))]
checks = []
for pid in ids:
    if pid not in PROPS: continue
    c = PROPS[pid]
    checks.append({
        "property_id": pid,
        "quick_cmd": f"bin/check {pid} quick",
        "thorough_cmd": f"bin/check {pid} thorough",
        "evidence_file": f"/verif/evidence/{pid}.json",
        "replay_cmd_template": f"bin/check {pid} --replay {{path}}",
        "engine": ",".join(c["engines"]),
        "level_claimed": {"category": "proof", "text": c["level_text"], "design_ref": c.get("design_ref", "DESIGN.md §6 " + pid)},
        "level_note": c["level_note"],
        "technique": c["technique"],
    })
na = [{"property_id": p, "reason": NOT_APPLICABLE[p]} for p in ids if p not in PROPS]
man = {
    "version": 1,
    "setup_cmd": "bin/setup",
    "hooks": {
        "guard": "verif",
        "enable": "go build -tags verif (the harness module replaces all six btcwallet modules by /repo's directories)",
        "baseline_off_cmd": "for m in . wtxmgr walletdb wallet/txauthor wallet/txrules wallet/txsizes; do (cd /repo/$m && GOFLAGS=-mod=mod GOPROXY=off GOSUMDB=off go test -vet=off -count=1 -timeout 25m ./...); done",
        "source_commits": HOOK_COMMITS,
        "add_only": True,
    },
    "engines": [
        {"name": "lean-theorems", "path": "lean/BtcwVerif/Props", "serves_properties": [c["property_id"] for c in checks],
         "kind_free_text": "Lean 4 theorems about executable models; axioms audited with #print axioms"},
        {"name": "correspondence", "path": "harness", "serves_properties": [c["property_id"] for c in checks],
         "kind_free_text": "Go harness running the real code and the compiled Lean model driver on the same op lines; Go-side property oracles"},
        {"name": "extractors", "path": "harness/cmd/vxextract", "serves_properties": [p for p in ids if p in PROPS and PROPS[p].get("extractors")],
         "kind_free_text": "go/ast extractors regenerating Lean model parts from /repo on every run"},
    ],
    "checks": checks,
    "not_applicable": na,
    "notes": "See DESIGN.md. Every check rebuilds the harness from /repo's working tree, regenerates extracted model parts, rebuilds and audits the Lean theorems, then runs the correspondence.",
}
json.dump(man, open(os.path.join(V, "MANIFEST.json"), "w"), indent=1)
print("checks:", len(checks), "not_applicable:", len(na))
