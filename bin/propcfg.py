"""Per-property configuration of bin/check: one file bin/props/Cnn.py per claimed property (defines CFG)."""
import os, sys, glob, importlib.util

ALLOWED_AXIOMS = {"propext", "Classical.choice", "Quot.sound"}

_D = os.path.join(os.path.dirname(os.path.abspath(__file__)), "props")
sys.path.insert(0, _D)

# commits in /repo that add build-tagged hooks (tag `verif`)
HOOK_COMMITS = ["772add9", "881f4e3", "ebb54a5"]

_NYB = "not claimed"
NOT_APPLICABLE = {f"C{i:02d}": _NYB for i in range(1, 21)}

PROPS = {}
for _p in sorted(glob.glob(os.path.join(_D, "C[0-9][0-9].py"))):
    _spec = importlib.util.spec_from_file_location("prop_" + os.path.basename(_p)[:-3], _p)
    _m = importlib.util.module_from_spec(_spec)
    _spec.loader.exec_module(_m)
    PROPS[os.path.basename(_p)[:-3]] = _m.CFG

# properties whose check is temporarily NOT CLAIMED in MANIFEST.json (bin/check still knows them):
# one "Cnn reason..." per line in bin/props/DISABLED
DISABLED = {}
_dis = os.path.join(_D, "DISABLED")
if os.path.exists(_dis):
    for _l in open(_dis):
        _l = _l.strip()
        if _l and not _l.startswith("#"):
            _pid, _, _why = _l.partition(" ")
            DISABLED[_pid] = _why or "temporarily not claimed"
