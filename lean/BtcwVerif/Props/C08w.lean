/-
C08 at the wallet level — "what the wallet says in memory is what a restart would say", for `wallet.Wallet`
requests (NewAddress, NewChangeAddress, CurrentAddress, CreateSimpleTx dry/real, FundPsbt, ImportAccountDryRun,
ImportAccount, RenameAccount, NextAccount, Lock/Unlock) on the `WalletRestart` model.  See notes/C08w.md.

Status: the account-level part of the property (AccountProperties, AccountNumber, AccountName, the address each
branch issues next) is proved for ALL request histories from a coherence invariant.  Two things are false on the
current tree and therefore excluded, each with a counter-example theorem and a Go oracle key:
 * AddressInfo / HaveAddress of an address that was only handed out by a rolled-back transaction (F9 at the wallet
   level: `CreateSimpleTxDryRun.address-cache-not-reverted`, `ImportAccountDryRun.address-cache-not-reverted`);
 * Unlock after ImportAccountDryRun (`ImportAccountDryRun.unlock-fails-unlike-restart`).
-/
import BtcwVerif.Lemmas.WalletRestart
namespace WalletRestart

/-! ## 1. a request that is rolled back never changes the database image -/

theorem issue1_abort_disk (s : State) (t : Tx) (sc a i res) : (issue1 s t sc a i (some res)).1.disk = s.disk := by
  unfold issue1
  simp only []
  cases (issue t sc a i 1).2 with
  | error e => rfl
  | ok l => cases l <;> rfl

/-- **A dry-run request (CreateSimpleTx with dryRun, ImportAccountDryRun — succeeding or failing) never changes
the database image**, from any state. -/
theorem C08_wallet_dryrun_keeps_disk (s : State) (op : Op) (h : op.isDryRun = true) : (step s op).1.disk = s.disk := by
  cases op with
  | createTx sc a dry huge nf cf =>
    simp only [Op.isDryRun] at h
    subst h
    simp only [step, stepCreateTx]
    split
    · rfl
    · cases (loadAcct s.disk s.mem sc a).1 with
      | none => rfl
      | some r =>
        simp only []
        split
        · rfl
        · exact issue1_abort_disk s _ sc a true _
  | importAcct dry sc nm key n cf =>
    simp only [Op.isDryRun] at h
    subst h
    simp only [step, stepImport, stepImportWith]
    split
    · rfl
    · split
      · rfl
      · split
        · rfl
        · split
          · rfl
          · simp only [Bool.not_true, Bool.false_eq_true, if_false]
            split
            · rfl
            · split
              · rfl
              · split <;> rfl
  | _ => simp [Op.isDryRun] at h

theorem issue1_err_disk (s : State) (t : Tx) (sc a i ab) (h : (issue1 s t sc a i ab).2.isErr = true) :
    (issue1 s t sc a i ab).1.disk = s.disk := by
  cases ab with
  | some res => exact issue1_abort_disk s t sc a i res
  | none =>
    unfold issue1 at h ⊢
    simp only [] at h ⊢
    cases hr : (issue t sc a i 1).2 with
    | error e => rfl
    | ok l =>
      cases l with
      | nil => rfl
      | cons ad rest => rw [hr] at h; simp [Res.isErr] at h

theorem stepNewAddr_err_disk (s : State) (sc a i cf) (h : (stepNewAddr s sc a i cf).2.isErr = true) :
    (stepNewAddr s sc a i cf).1.disk = s.disk := issue1_err_disk s _ sc a i _ h

theorem stepCreateTx_err_disk (s : State) (sc a dry huge nf cf)
    (h : (stepCreateTx s sc a dry huge nf cf).2.isErr = true) :
    (stepCreateTx s sc a dry huge nf cf).1.disk = s.disk := by
  unfold stepCreateTx at h ⊢
  by_cases hl : s.mem.locked = true
  · rw [if_pos hl]
  · rw [if_neg hl] at h ⊢
    simp only [] at h ⊢
    cases hld : (loadAcct s.disk s.mem sc a).1 with
    | none => rfl
    | some r =>
      rw [hld] at h
      simp only [] at h ⊢
      by_cases hh : (huge || !(scanFunded s.disk sc a s.disk.funded (loadAcct s.disk s.mem sc a).2).1) = true
      · rw [if_pos hh]
      · rw [if_neg hh] at h ⊢
        exact issue1_err_disk s _ sc a true _ h

/-- **A request that fails (returns an error) never changes the database image** — insufficient funds, unknown
account, locked wallet, refused xpub, duplicate or empty name, too many addresses, a failing backend notification
inside CreateSimpleTx: whatever was written in the transaction is rolled back. -/
theorem C08_wallet_failed_keeps_disk (s : State) (op : Op) (h : (step s op).2.isErr = true) :
    (step s op).1.disk = s.disk := by
  cases op with
  | newAddr sc a i cf => exact stepNewAddr_err_disk s sc a i cf h
  | curAddr sc a =>
    simp only [step, stepCurAddr] at h ⊢
    cases hld : (loadAcct s.disk s.mem sc a).1 with
    | none => rfl
    | some r =>
      rw [hld] at h
      simp only [] at h ⊢
      split
      · rename_i h0; simp only [h0, if_true] at h; exact stepNewAddr_err_disk _ sc a false false h
      · rename_i h0
        simp only [h0, if_false] at h
        split
        · rename_i h1; simp only [h1, if_true] at h; exact stepNewAddr_err_disk _ sc a false false h
        · rfl
  | fund sc a =>
    simp only [step, stepFund] at h ⊢
    cases hr : (stepNewAddr s sc a false).2 with
    | addr ad => rw [hr] at h; simp [Res.isErr] at h
    | err e => simp only []; exact stepNewAddr_err_disk s sc a false false (by rw [hr]; rfl)
    | ok => rw [hr] at h; simp only [] at h; rw [hr] at h; simp [Res.isErr] at h
    | acct n => rw [hr] at h; simp only [] at h; rw [hr] at h; simp [Res.isErr] at h
    | imported n r e i => rw [hr] at h; simp only [] at h; rw [hr] at h; simp [Res.isErr] at h
  | createTx sc a dry huge nf cf => exact stepCreateTx_err_disk s sc a dry huge nf cf h
  | fundPsbt sc a c =>
    cases c with
    | none => exact stepCreateTx_err_disk s sc a false false false false h
    | some i =>
      simp only [step, stepFundPsbt] at h ⊢
      cases hc : s.disk.funded[i]? with
      | none => rfl
      | some c =>
        rw [hc] at h
        simp only [] at h ⊢
        cases hld : (loadAcct s.disk (lookupAddr s.disk s.mem c.1 c.2).2 sc a).1 with
        | none => rfl
        | some r => rw [hld] at h; exact issue1_err_disk s _ sc a true none h
  | importAcct dry sc nm key n cf =>
    cases dry with
    | true => exact C08_wallet_dryrun_keeps_disk s _ rfl
    | false =>
      simp only [step, stepImport, stepImportWith] at h ⊢
      split
      · rfl
      · rename_i h0
        simp only [h0, if_false] at h
        split
        · rfl
        · rename_i h1
          simp only [h1, if_false] at h
          split
          · rfl
          · rename_i h2
            simp only [h2, if_false] at h
            split
            · rfl
            · rename_i r hld
              rw [hld] at h
              cases cf with
              | true => rfl
              | false => simp [Res.isErr] at h
  | rename sc a nm cf =>
    simp only [step, stepRename] at h ⊢
    split
    · rfl
    · rename_i h0
      simp only [h0, if_false] at h
      split
      · rfl
      · rename_i h1
        simp only [h1, if_false] at h
        split
        · rfl
        · rename_i r hrow
          rw [hrow] at h
          cases cf with
          | true => rfl
          | false => simp [Res.isErr] at h
  | newAcct sc nm =>
    simp only [step, stepNewAcct] at h ⊢
    split
    · rfl
    · rename_i h0
      simp only [h0, if_false] at h
      split
      · rfl
      · rename_i h1
        simp only [h1, if_false] at h
        split
        · rfl
        · rename_i h2; simp only [h2, if_false] at h; simp [Res.isErr] at h
  | lock => rfl
  | unlock =>
    simp only [step, stepUnlock]
    split
    · rfl
    · split <;> rfl
  | cmp scs us => rfl
  | unlockPass p =>
    simp only [step, stepUnlockPass, stepUnlock]
    split
    · split
      · rfl
      · split <;> rfl
    · rfl
  | chPass priv old new =>
    simp only [step, stepChPass] at h ⊢
    cases hc : (chStep (begin s) priv old new).2 with
    | some e => simp only [hc]; rfl
    | none => simp [hc, Res.isErr] at h
  | chBoth po pn vo vn =>
    simp only [step, stepChBoth, stepChBothWith, Bool.false_eq_true, if_false] at h ⊢
    cases hc : (chStep (begin s) false po pn).2 with
    | some e => simp only [hc]; rfl
    | none =>
      cases hc2 : (chStep (chStep (begin s) false po pn).1 true vo vn).2 with
      | some e => simp only [hc, hc2]; rfl
      | none => simp [hc, hc2, Res.isErr] at h
  | restart => rfl

/-! ## 2. the coherence invariant holds after every history -/

/-- histories in which no EAGER cache mutator (ImportAccount, RenameAccount) has its commit fail.  Failed commits of
NewAddress / NewChangeAddress / CreateSimpleTx, dry runs and every failing request ARE allowed. -/
def NoEagerCommitFail (ops : List Op) : Prop := ∀ op ∈ ops, op.eagerCommitFail = false

/-- For every history of wallet requests (dry runs, failing requests, failed commits of the address-issuing
requests and committed ones in any order) the account cache of the running wallet is coherent with the database:
every cached account equals its database row.

`_partial`: a failed COMMIT of ImportAccount / RenameAccount is excluded - there the invariant is false on the
current tree (`C08_wallet_counterexample_import_commit_failed`, `..._rename_commit_failed`; the wallet level of the
known "memory ahead of disk after rollback" family). -/
theorem C08_wallet_coherent_invariant_partial (ops : List Op) (hops : NoEagerCommitFail ops) :
    Coh (run init ops).disk (run init ops).mem :=
  run_coh init ops hops init_coh

/-- **After every such history, every account-level query agrees with a restarted wallet**: AccountProperties
(name, xpub, key counts) of every account number of every scope, AccountNumber(name), AccountName(number) and the
address each branch would issue next are answered by the running wallet exactly as by a wallet freshly opened on
the same database.

`_partial`: (1) AddressInfo / HaveAddress are excluded — they are FALSE on the current tree for addresses handed out
by a rolled-back transaction (`C08_wallet_counterexample_dryrun_address_cache`); (2) `NoEagerCommitFail`. -/
theorem C08_wallet_committed_eq_reopen_partial (ops : List Op) (hops : NoEagerCommitFail ops) (q : Query)
    (hq : ∀ sc ad, q ≠ .addrInfo sc ad) :
    askRunning (run init ops) q = askRestarted (run init ops) q :=
  ask_of_coh _ _ (C08_wallet_coherent_invariant_partial ops hops) q hq

/-- **A dry run does not advance address indices.**  After a dry-run request (CreateSimpleTx with dryRun,
ImportAccountDryRun, succeeding OR failing) issued in any reachable state, the address the running wallet would
issue next on every (scope, account, branch) is the one a wallet restarted BEFORE the dry run would issue — which
(by `C08_wallet_dryrun_keeps_disk`) is also what a wallet restarted after it would issue.
`_partial`: reachable = after a `NoEagerCommitFail` history. -/
theorem C08_wallet_dryrun_keeps_next_partial (ops : List Op) (hops : NoEagerCommitFail ops) (op : Op)
    (h : op.isDryRun = true) (sc : Scope) (a : Acct) (internal : Bool) :
    askRunning (step (run init ops) op).1 (.next sc a internal) = askRestarted (run init ops) (.next sc a internal) := by
  have he : op.eagerCommitFail = false := by
    cases op <;> simp_all [Op.isDryRun, Op.eagerCommitFail]
  have hc := step_coh _ op he (C08_wallet_coherent_invariant_partial ops hops)
  unfold askRunning askRestarted
  rw [ask_of_coh _ _ hc _ (fun _ _ hq => by cases hq), C08_wallet_dryrun_keeps_disk _ op h]

/-- **A failed commit does not advance address indices either.**  After NewAddress / NewChangeAddress /
CreateSimpleTx whose database commit FAILED (and after any other failing request that is not an eager mutator),
the next address of every branch is what a wallet restarted before (= after, `C08_wallet_failed_keeps_disk`) the
request would issue: the `OnCommit` closure that advances the in-memory index never ran. -/
theorem C08_wallet_failed_keeps_next_partial (ops : List Op) (hops : NoEagerCommitFail ops) (op : Op)
    (he : op.eagerCommitFail = false) (h : (step (run init ops) op).2.isErr = true) (sc : Scope) (a : Acct)
    (internal : Bool) :
    askRunning (step (run init ops) op).1 (.next sc a internal) = askRestarted (run init ops) (.next sc a internal) := by
  have hc := step_coh _ op he (C08_wallet_coherent_invariant_partial ops hops)
  unfold askRunning askRestarted
  rw [ask_of_coh _ _ hc _ (fun _ _ hq => by cases hq), C08_wallet_failed_keeps_disk _ op h]

/-! ## 3. the next committed request issues the very address a restarted wallet would issue -/

theorem issue1_res (t : Tx) (sc a i) :
    (issue t sc a i 1).2 = match (loadAcct t.d t.m sc a).1 with
      | none => .error .acctNotFound
      | some r =>
        if 1 > maxAddrs ∨ (if i = true then r.int else r.ext) + 1 > maxAddrs then .error .tooMany
        else if 1 > 0 ∧ (t.d.rows sc a).isNone then .error .dbError
        else .ok [⟨r.key, i, if i = true then r.int else r.ext⟩] := by
  unfold issue
  simp only []
  cases (loadAcct t.d t.m sc a).1 with
  | none => rfl
  | some r =>
    simp only []
    generalize (if i = true then r.int else r.ext) = nxt
    split
    · rfl
    · split
      · rfl
      · simp only [issueLoop]

def resOfIssue : Except Err (List Addr) → Res
  | .error e => .err e
  | .ok [] => .err .dbError
  | .ok (ad :: _) => .addr ad

theorem issue1_none_res (s : State) (t : Tx) (sc a i) : (issue1 s t sc a i none).2 = resOfIssue (issue t sc a i 1).2 := by
  unfold issue1
  simp only []
  cases (issue t sc a i 1).2 with
  | error e => rfl
  | ok l => cases l <;> rfl

/-- **The next committed request issues the very address a restarted wallet would issue**: after every history
(including dry runs and failed requests), NewAddress / NewChangeAddress on any (scope, account) returns on the
running wallet exactly what it returns on a wallet restarted on the same database. -/
theorem C08_wallet_next_issue_eq_reopen_partial (ops : List Op) (hops : NoEagerCommitFail ops) (sc : Scope) (a : Acct)
    (internal : Bool) :
    (step (run init ops) (.newAddr sc a internal false)).2 =
      (step (reopen (run init ops)) (.newAddr sc a internal false)).2 := by
  have hc := C08_wallet_coherent_invariant_partial ops hops
  have he := emptyMem_coh _ _ hc
  simp only [step, stepNewAddr, Bool.false_eq_true, if_false, issue1_none_res, begin, reopen, issue1_res,
    loadAcct_fst _ _ sc a hc, loadAcct_fst _ _ sc a he]

/-- result of a single-address request as a function of the database alone -/
def issueSpec (d : Disk) (sc : Scope) (a : Acct) (i : Bool) : Except Err (List Addr) :=
  match d.rows sc a with
  | none => .error .acctNotFound
  | some r =>
    if 1 > maxAddrs ∨ (if i = true then r.int else r.ext) + 1 > maxAddrs then .error .tooMany
    else if 1 > 0 ∧ (d.rows sc a).isNone then .error .dbError
    else .ok [⟨r.key, i, if i = true then r.int else r.ext⟩]

theorem issue1_res_coh (s : State) (t : Tx) (sc a i) (h : Coh t.d t.m) :
    (issue1 s t sc a i none).2 = resOfIssue (issueSpec t.d sc a i) := by
  rw [issue1_none_res, issue1_res, loadAcct_fst _ _ sc a h]; rfl

/-- result of CurrentAddress as a function of the database alone -/
def curSpec (d : Disk) (sc : Scope) (a : Acct) : Res :=
  match d.rows sc a with
  | none => .err .acctNotFound
  | some r =>
    if r.ext = 0 then resOfIssue (issueSpec d sc a false)
    else if d.funded.contains (sc, (⟨r.key, false, r.ext - 1⟩ : Addr)) then resOfIssue (issueSpec d sc a false)
    else .addr ⟨r.key, false, r.ext - 1⟩

theorem stepCurAddr_res (s : State) (sc a) (h : Coh s.disk s.mem) : (stepCurAddr s sc a).2 = curSpec s.disk sc a := by
  have h1 := loadAcct_coh s.disk s.mem sc a h
  unfold stepCurAddr curSpec
  simp only [loadAcct_fst _ _ sc a h]
  cases s.disk.rows sc a with
  | none => rfl
  | some r =>
    simp only []
    have e1 : (stepNewAddr { s with mem := (loadAcct s.disk s.mem sc a).2 } sc a false).2 =
        resOfIssue (issueSpec s.disk sc a false) :=
      issue1_res_coh _ (begin { s with mem := (loadAcct s.disk s.mem sc a).2 }) sc a false h1
    split
    · exact e1
    · split
      · exact e1
      · rfl

/-- the same for CurrentAddress (which re-issues only when the last address is used) -/
theorem C08_wallet_current_address_eq_reopen_partial (ops : List Op) (hops : NoEagerCommitFail ops) (sc : Scope)
    (a : Acct) :
    (step (run init ops) (.curAddr sc a)).2 = (step (reopen (run init ops)) (.curAddr sc a)).2 := by
  have hc := C08_wallet_coherent_invariant_partial ops hops
  have he : Coh (reopen (run init ops)).disk (reopen (run init ops)).mem := emptyMem_coh _ _ hc
  simp only [step]
  rw [stepCurAddr_res _ sc a hc, stepCurAddr_res _ sc a he]
  rfl

/-- **No phantom accounts**: after every history (in particular after a FAILING ImportAccountDryRun) nothing is
cached for an account number the database does not have, so the next committed ImportAccount / NextAccount that
receives the number is answered from its own row (the property seeded change C08-3 breaks). -/
theorem C08_wallet_no_phantom_account_partial (ops : List Op) (hops : NoEagerCommitFail ops) (sc : Scope) (a : Acct)
    (h : (run init ops).disk.rows sc a = none) : (run init ops).mem.accts sc a = none := by
  have hc := C08_wallet_coherent_invariant_partial ops hops
  cases hm : (run init ops).mem.accts sc a with
  | none => rfl
  | some r => rw [hc.cache sc a r hm] at h; cases h

/-! ## 4. what is FALSE on the current tree (each replayed on the real code by engine `wallet-restart`) -/

/-- F9 at the wallet level: the change address of a dry-run CreateSimpleTx stays in the address cache; the running
wallet knows it (AddressInfo / HaveAddress), a restarted wallet does not.
Go oracle key `CreateSimpleTxDryRun.address-cache-not-reverted`; replay `fund sc=wpkh a=0; createtx .. dry=1; cmp`. -/
theorem C08_wallet_counterexample_dryrun_address_cache :
    let s := run init [.fund 1 0, .createTx 1 0 true false false false]
    askRunning s (.addrInfo 1 ⟨100, true, 0⟩) = .num 0 ∧ askRestarted s (.addrInfo 1 ⟨100, true, 0⟩) = .none := by
  decide

/-- BEFORE the fix of `InvalidateAccountCache` (repo-patches/fix-C08-invalidate-account-cache-derive-on-unlock.diff)
the preview addresses of ImportAccountDryRun stayed in the address cache
(`ImportAccountDryRun.address-cache-not-reverted`) ... -/
theorem C08_wallet_counterexample_unfixed_importdry_address_cache :
    let s := (stepImportWith invalUnfixed init true 1 2 1 1).1
    askRunning s (.addrInfo 1 ⟨1, false, 0⟩) = .num 1 ∧ askRestarted s (.addrInfo 1 ⟨1, false, 0⟩) = .none := by
  decide

/-- ... and the dry-run account stayed registered for derive-on-unlock: after Lock, Unlock with the right
passphrase failed on the running wallet and succeeded on a restarted one
(`ImportAccountDryRun.unlock-fails-unlike-restart`; replay `importdry ..; lock; unlock` on the unfixed tree). -/
theorem C08_wallet_counterexample_unfixed_dryrun_unlock :
    let s := (step (stepImportWith invalUnfixed init true 1 2 2 1).1 .lock).1
    (step s .unlock).2 = .err .acctNotFound ∧ (step (reopen s) .unlock).2 = .ok := by
  decide

/-- with the fixed `InvalidateAccountCache` (the model's `inval`) both are gone on the same inputs -/
example :
    let s := run init [.importAcct true 1 2 1 1 false, .lock]
    askRunning s (.addrInfo 1 ⟨1, false, 0⟩) = .none ∧ (step s .unlock).2 = .ok := by
  decide

/-- the wallet level of the known "memory ahead of disk after rollback" family: when the COMMIT of ImportAccount
fails, the account that `AccountProperties` loaded from the transaction's view stays cached — the running wallet
describes an account a restarted wallet does not have, and a later import of ANOTHER xpub that gets the number is
answered (and issues addresses) from the stale key.
Go oracle key `ImportAccount.commit-failed.account-cache-not-reverted`; replay `import sc=wpkh name=2 key=1 cf=1; cmp`. -/
theorem C08_wallet_counterexample_import_commit_failed :
    let s := run init [.importAcct false 1 2 1 0 true]
    askRunning s (.props 1 1) = .row ⟨2, 1, 0, 0⟩ ∧ askRestarted s (.props 1 1) = .none ∧
    (let s2 := run s [.importAcct false 1 3 4 0 false]
     (step s2 (.newAddr 1 1 false false)).2 = .addr ⟨1, false, 0⟩ ∧
     (step (reopen s2) (.newAddr 1 1 false false)).2 = .addr ⟨4, false, 0⟩) := by
  decide

/-- ... and when the COMMIT of RenameAccount fails the cached name stays renamed.
Go oracle key `RenameAccount.commit-failed.account-name-differs`; replay `rename sc=wpkh a=0 name=3 cf=1; cmp`. -/
theorem C08_wallet_counterexample_rename_commit_failed :
    let s := run init [.rename 1 0 3 true]
    askRunning s (.props 1 0) = .row ⟨3, 100, 0, 0⟩ ∧ askRestarted s (.props 1 0) = .row ⟨1, 100, 0, 0⟩ := by
  decide

/-- F9 through a failed commit: the address NewAddress issued inside the transaction whose commit failed stays in
the address cache (`NewAddress.commit-failed.address-cache-not-reverted`; likewise NewChangeAddress, CreateSimpleTx) -/
theorem C08_wallet_counterexample_commit_failed_address_cache :
    let s := run init [.newAddr 1 0 false true]
    askRunning s (.addrInfo 1 ⟨100, false, 0⟩) = .num 0 ∧ askRestarted s (.addrInfo 1 ⟨100, false, 0⟩) = .none := by
  decide

/-- a failed commit of NewAddress / CreateSimpleTx, by contrast, leaves the indices alone: the next request issues
the same address again, as a restarted wallet does (the behaviour seeded change C08-5 breaks) -/
example :
    let s := run init [.newAddr 1 0 false true]
    (step (run init []) (.newAddr 1 0 false true)).2 = .err .commitFail ∧
    askRunning s (.props 1 0) = .row ⟨1, 100, 0, 0⟩ ∧
    (step s (.newAddr 1 0 false false)).2 = .addr ⟨100, false, 0⟩ := by
  decide

/-- ... while the dry run + the real import of the same xpub behaves: same account number, same first address as a
restarted wallet (non-vacuity of the theorems above on the property's own example). -/
example :
    let s := run init [.importAcct true 1 2 1 2 false, .importAcct false 1 2 1 0 false]
    (step s (.newAddr 1 1 false false)).2 = .addr ⟨1, false, 0⟩ ∧
    askRunning s (.props 1 1) = .row ⟨2, 1, 0, 0⟩ ∧ askRestarted s (.props 1 1) = .row ⟨2, 1, 0, 0⟩ := by
  decide

/-- a failing dry run (too many preview addresses) followed by the import of ANOTHER xpub: the running wallet
answers with the imported xpub (the shape of seeded change C08-3) -/
example :
    let s := run init [.importAcct true 1 2 2 2147483648 false, .importAcct false 1 3 4 0 false]
    askRunning s (.props 1 1) = .row ⟨3, 4, 0, 0⟩ ∧ (step s (.newAddr 1 1 false false)).2 = .addr ⟨4, false, 0⟩ := by
  decide

end WalletRestart
