/-
C08 at the wallet level — theorems about `WalletRestart` (see notes/C08w.md).
-/
import BtcwVerif.Model.WalletRestart
namespace WalletRestart

end WalletRestart
