import BtcwVerif.Model.Crypto
namespace Crypto
theorem C17_short_malformed (A : AEAD) (k c : Bytes) (h : c.length < nonceSize) : decrypt A k c = .error .malformed := by
  simp [decrypt, h]
end Crypto
