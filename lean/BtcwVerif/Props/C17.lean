import BtcwVerif.Lemmas.Crypto
/-!
# C17 — stored ciphertexts are authenticated and bound to the right passphrase

Theorems about `Model/Crypto.lean` (snacl + the key layer of waddrmgr.Manager). Everything the wallet's own code
does (layout, length checks, use of the authenticator verdict, parameter encoding, digest comparison, key
selection) is proved for ALL inputs. The strength of `secretbox` / `scrypt` / `sha256` enters only through the
hypotheses `AEAD.Correct` (functional, true of secretbox by construction), `AEAD.Binding`, `AEAD.Distance`,
`KDF.Binding` (idealised cryptographic assumptions; see Lemmas/Crypto.lean). `Toy.aead` is proved to satisfy
`Correct`, `Binding` and `Distance` (non-vacuity); the `example`s below instantiate the theorems with it.

FINDING (real code and model agree, property false as literally stated): `DeriveKey` accepts every passphrase with
the same HMAC-SHA256 key block as the creating one, e.g. the passphrase followed by NUL bytes
(`C17_counterexample_trailing_nul`); the exact-passphrase clause is therefore proved as
`C17_derive_wrong_pass_partial` for passphrases with a different key block.
-/
namespace Crypto

/-! ## Parameter encoding (unconditional, byte level) -/

theorem C17_marshal_length (p : Params) (h : p.WF) : (marshal p).length = marshalledLen := by
  simp [marshal, leBytes_length, h.salt_len, h.digest_len, marshalledLen, keySize, digestSize]

/-- `Unmarshal(Marshal(p)) = p` for every value of the Go type: 32-byte salt and digest, any 64-bit N, R, P
(negative ones included). -/
theorem C17_marshal_roundtrip (p : Params) (h : p.WF) : unmarshal (marshal p) = .ok p := by
  have hlen := C17_marshal_length p h
  obtain ⟨hs, hd, nl, nh, rl, rh, pl, ph⟩ := h
  have hs' : p.salt.length = 32 := hs
  have hd' : p.digest.length = 32 := hd
  unfold unmarshal
  rw [if_neg (by simp [hlen])]
  have e1 : (marshal p).take keySize = p.salt := by
    unfold marshal; simp only [List.append_assoc]; exact List.take_left' hs
  have e2 : ((marshal p).drop keySize).take digestSize = p.digest := by
    unfold marshal; simp only [List.append_assoc]; rw [List.drop_left' hs]; exact List.take_left' hd
  have e3 : ((marshal p).drop 64).take 8 = leBytes 8 (toU64 p.N) := by
    have : marshal p = (p.salt ++ p.digest) ++ (leBytes 8 (toU64 p.N) ++ (leBytes 8 (toU64 p.R) ++ leBytes 8 (toU64 p.P))) := by
      simp [marshal]
    rw [this, List.drop_left' (by simp [hs', hd']), List.take_left' (leBytes_length _ _)]
  have e4 : ((marshal p).drop 72).take 8 = leBytes 8 (toU64 p.R) := by
    have : marshal p = (p.salt ++ p.digest ++ leBytes 8 (toU64 p.N)) ++ (leBytes 8 (toU64 p.R) ++ leBytes 8 (toU64 p.P)) := by
      simp [marshal]
    rw [this, List.drop_left' (by simp [hs', hd', leBytes_length]), List.take_left' (leBytes_length _ _)]
  have e5 : ((marshal p).drop 80).take 8 = leBytes 8 (toU64 p.P) := by
    have : marshal p = (p.salt ++ p.digest ++ leBytes 8 (toU64 p.N) ++ leBytes 8 (toU64 p.R)) ++ (leBytes 8 (toU64 p.P) ++ []) := by
      simp [marshal]
    rw [this, List.drop_left' (by simp [hs', hd', leBytes_length]), List.take_left' (leBytes_length _ _)]
  rw [e1, e2, e3, e4, e5, field_roundtrip _ nl nh, field_roundtrip _ rl rh, field_roundtrip _ pl ph]

/-- Exact behaviour of the length test: anything but 88 bytes is ErrMalformed (shorter AND longer). -/
theorem C17_unmarshal_length (b : Bytes) (h : b.length ≠ marshalledLen) : unmarshal b = .error .malformed := by
  simp [unmarshal, h]

theorem C17_unmarshal_ok_iff (b : Bytes) : (∃ p, unmarshal b = .ok p) ↔ b.length = 88 := by
  unfold unmarshal
  constructor
  · intro ⟨p, h⟩
    split at h
    · cases h
    · rename_i hl; simpa [marshalledLen, keySize, digestSize] using hl
  · intro h
    rw [if_neg (by simp [h, marshalledLen, keySize, digestSize])]
    exact ⟨_, rfl⟩

/-- All parameter encodings: every 88-byte string decodes to a well-formed `Params` that re-encodes to exactly the
same bytes (so Marshal/Unmarshal are mutually inverse bijections between 88-byte strings and Go `Parameters`). -/
theorem C17_unmarshal_marshal (b : Bytes) (h : b.length = 88) :
    ∃ p, unmarshal b = .ok p ∧ p.WF ∧ marshal p = b := by
  unfold unmarshal
  rw [if_neg (by simp [h, marshalledLen, keySize, digestSize])]
  refine ⟨_, rfl, ?_, ?_⟩
  · have l8 : ∀ off, off + 8 ≤ 88 → ((b.drop off).take 8).length = 8 := by
      intro off ho; simp [h]; omega
    have r := fun off (ho : off + 8 ≤ 88) =>
      ofU64_range (leNat ((b.drop off).take 8)) (by
        have := leNat_lt ((b.drop off).take 8); rw [l8 off ho] at this; rw [two64_eq]; exact this)
    exact {
      salt_len := by simp [h, keySize]
      digest_len := by simp [h, keySize, digestSize]
      N_lo := (r 64 (by omega)).1, N_hi := (r 64 (by omega)).2
      R_lo := (r 72 (by omega)).1, R_hi := (r 72 (by omega)).2
      P_lo := (r 80 (by omega)).1, P_hi := (r 80 (by omega)).2 }
  · unfold marshal
    simp only
    rw [field_roundtrip' _ (by simp [h]), field_roundtrip' _ (by simp [h]), field_roundtrip' _ (by simp [h])]
    have s1 : b = b.take 32 ++ b.drop 32 := (List.take_append_drop 32 b).symm
    have s2 : b.drop 32 = (b.drop 32).take 32 ++ b.drop 64 := by
      have := (List.take_append_drop 32 (b.drop 32)).symm; simpa [List.drop_drop] using this
    have s3 : b.drop 64 = (b.drop 64).take 8 ++ b.drop 72 := by
      have := (List.take_append_drop 8 (b.drop 64)).symm; simpa [List.drop_drop] using this
    have s4 : b.drop 72 = (b.drop 72).take 8 ++ b.drop 80 := by
      have := (List.take_append_drop 8 (b.drop 72)).symm; simpa [List.drop_drop] using this
    have s5 : (b.drop 80).take 8 = b.drop 80 := List.take_of_length_le (by simp [h])
    conv => rhs; rw [s1, s2, s3, s4]
    simp only [keySize, digestSize, s5, List.append_assoc]

/-! ## Decrypt: malformed boundary -/

theorem C17_short_malformed (A : AEAD) (k c : Bytes) (h : c.length < nonceSize) :
    decrypt A k c = .error .malformed := by
  simp [decrypt, h]

/-- The boundary is exactly 24: a 24-byte input (nonce, empty box) is NOT malformed (it is a decrypt failure
under `Correct`, see `C17_tamper_truncate`). -/
theorem C17_malformed_iff (A : AEAD) (k c : Bytes) : decrypt A k c = .error .malformed ↔ c.length < 24 := by
  unfold decrypt
  constructor
  · intro h
    split at h
    · rename_i hl; exact hl
    · split at h <;> cases h
  · intro h
    have h' : c.length < nonceSize := h
    rw [if_pos h']

/-! ## Round trip, wrong key, tampering (conditional on the AEAD laws) -/

theorem C17_encrypt_length (A : AEAD) (hA : A.Correct) (n k m : Bytes) (hn : n.length = nonceSize) :
    (encryptWith A n k m).length = m.length + nonceSize + overhead := by
  simp [encryptWith, hA.seal_length, hn]; omega

/-- decrypt ∘ encrypt = id for every key, nonce and plaintext (the empty one included). -/
theorem C17_roundtrip (A : AEAD) (hA : A.Correct) (n k m : Bytes) (hn : n.length = nonceSize) :
    decrypt A k (encryptWith A n k m) = .ok m := by
  unfold decrypt encryptWith
  rw [if_neg (by simp [hn])]
  rw [List.take_left' hn, List.drop_left' hn, hA.open_seal]

/-- The ONLY inputs `Decrypt` accepts under key `k` are genuine ciphertexts `nonce ‖ Seal(k, nonce, m')` — it
honours the authenticator verdict, uses the nonce from the input, and returns exactly the sealed message. -/
theorem C17_tamper (A : AEAD) (hA : A.Correct) (k c' m' : Bytes) :
    decrypt A k c' = .ok m' ↔ (nonceSize ≤ c'.length ∧ c' = encryptWith A (c'.take nonceSize) k m') := by
  constructor
  · intro h
    unfold decrypt at h
    split at h
    · cases h
    · rename_i hl
      split at h
      · rename_i m hm
        cases h
        refine ⟨by omega, ?_⟩
        unfold encryptWith
        rw [← hA.open_sound _ _ _ _ hm, List.take_append_drop]
      · cases h
  · intro ⟨hl, he⟩
    have hn : (c'.take nonceSize).length = nonceSize := by simp; omega
    have := C17_roundtrip A hA (c'.take nonceSize) k m' hn
    rw [← he] at this
    exact this

/-- Any input that is not itself a sealed box under `k` fails, with the error kind the length dictates; no data
is returned (the result is `.error`). -/
theorem C17_tamper_fails (A : AEAD) (hA : A.Correct) (k c' : Bytes)
    (hns : ∀ n m, n.length = nonceSize → c' ≠ encryptWith A n k m) :
    decrypt A k c' = .error (if c'.length < nonceSize then .malformed else .decryptFailed) := by
  by_cases hl : c'.length < nonceSize
  · rw [if_pos hl]; exact C17_short_malformed A k c' hl
  · rw [if_neg hl]
    cases hd : decrypt A k c' with
    | ok m' =>
      have ⟨_, he⟩ := (C17_tamper A hA k c' m').mp hd
      exact absurd he (hns _ _ (by simp; omega))
    | error e =>
      unfold decrypt at hd
      rw [if_neg hl] at hd
      split at hd
      · cases hd
      · cases hd; rfl

/-- Decryption under any other key (of the class for which key binding is assumed) fails. -/
theorem C17_wrong_key (A : AEAD) (hA : A.Correct) (K : Bytes → Prop) (hB : A.Binding K)
    (n k k' m : Bytes) (hn : n.length = nonceSize) (hk : K k) (hk' : K k') (hne : k ≠ k') :
    decrypt A k' (encryptWith A n k m) = .error .decryptFailed := by
  have h := C17_tamper_fails A hA k' (encryptWith A n k m) (by
    intro n' m' hn' he
    unfold encryptWith at he
    obtain ⟨h1, h2⟩ := List.append_inj he (by rw [hn, hn'])
    subst h1
    exact hne (hB k k' n m m' hk hk' h2))
  rw [h, if_neg (by simp [encryptWith, hn])]

/-- EVERY single-bit flip of a genuine ciphertext (nonce, tag or body, any position) is rejected with
ErrDecryptFailed. -/
theorem C17_tamper_bitflip (A : AEAD) (hA : A.Correct) (k : Bytes) (hD : A.Distance k)
    (n m : Bytes) (hn : n.length = nonceSize) (hm : m.length < maxLen)
    (i : Nat) (hi : i < 8 * (encryptWith A n k m).length) :
    decrypt A k (flipBit (encryptWith A n k m) i) = .error .decryptFailed := by
  have hlen : (flipBit (encryptWith A n k m) i).length = m.length + nonceSize + overhead := by
    rw [flipBit_length, C17_encrypt_length A hA n k m hn]
  have h := C17_tamper_fails A hA k (flipBit (encryptWith A n k m) i) (by
    intro n' m' hn' he
    have hm' : m'.length < maxLen := by
      have := C17_encrypt_length A hA n' k m' hn'
      rw [← he, hlen] at this
      omega
    have hne : encryptWith A n' k m' ≠ encryptWith A n k m := by
      rw [← he]; exact flipBit_ne _ _ hi
    exact (hD n m n' m' hn hn' hm hm' hne).1 ⟨i, hi, he.symm⟩)
  rw [h, if_neg (by rw [hlen]; omega)]

/-- EVERY truncation length `j < len(c)` of a genuine ciphertext is rejected: ErrMalformed for `j < 24`,
ErrDecryptFailed otherwise. -/
theorem C17_tamper_truncate (A : AEAD) (hA : A.Correct) (k : Bytes) (hD : A.Distance k)
    (n m : Bytes) (hn : n.length = nonceSize) (hm : m.length < maxLen)
    (j : Nat) (hj : j < (encryptWith A n k m).length) :
    decrypt A k ((encryptWith A n k m).take j) = .error (if j < nonceSize then .malformed else .decryptFailed) := by
  have hlen : ((encryptWith A n k m).take j).length = j := by simp; omega
  have hcl := C17_encrypt_length A hA n k m hn
  have h := C17_tamper_fails A hA k ((encryptWith A n k m).take j) (by
    intro n' m' hn' he
    have hm' : m'.length < maxLen := by
      have := C17_encrypt_length A hA n' k m' hn'
      rw [← he, hlen] at this
      omega
    have hne : encryptWith A n' k m' ≠ encryptWith A n k m := by
      intro heq
      have : (encryptWith A n' k m').length = (encryptWith A n k m).length := by rw [heq]
      rw [← he, hlen] at this
      omega
    exact (hD n m n' m' hn hn' hm hm' hne).2 ⟨j, hj, he.symm⟩)
  rw [h, hlen]

/-- Truncations that cut into the authenticator (fewer than 40 bytes left) fail under `Correct` alone — no
idealised assumption needed. -/
theorem C17_tamper_truncate_short (A : AEAD) (hA : A.Correct) (k c : Bytes) (hl : c.length < nonceSize + overhead) :
    ∃ e, decrypt A k c = .error e := by
  cases hd : decrypt A k c with
  | error e => exact ⟨e, rfl⟩
  | ok m' =>
    have ⟨h1, he⟩ := (C17_tamper A hA k c m').mp hd
    have := C17_encrypt_length A hA (c.take nonceSize) k m' (by simp; omega)
    rw [← he] at this
    omega

/-- Encrypting twice (fresh nonces) never yields equal ciphertexts — whatever the keys and plaintexts. -/
theorem C17_fresh (A : AEAD) (n₁ n₂ k₁ k₂ m₁ m₂ : Bytes) (h1 : n₁.length = nonceSize) (h2 : n₂.length = nonceSize)
    (hne : n₁ ≠ n₂) : encryptWith A n₁ k₁ m₁ ≠ encryptWith A n₂ k₂ m₂ := by
  intro he
  unfold encryptWith at he
  exact hne (List.append_inj he (by rw [h1, h2])).1

/-! ### Many calls, any schedule (engine op `encpar`) -/

/-- `n` encryptions whose nonces are pairwise distinct give pairwise distinct ciphertexts — whatever the keys and
plaintexts (in particular `n` times the same plaintext under the same key). -/
theorem C17_fresh_calls (A : AEAD) (calls : List EncCall) (hlen : ∀ c ∈ calls, c.nonce.length = nonceSize)
    (hne : calls.Pairwise fun a b => a.nonce ≠ b.nonce) : (encryptCalls A calls).Pairwise (· ≠ ·) := by
  unfold encryptCalls
  rw [List.pairwise_map]
  exact hne.imp_of_mem fun ha hb h => C17_fresh A _ _ _ _ _ _ (hlen _ ha) (hlen _ hb) h

/-- `encryptMany` element by element (the form the driver evaluates). -/
theorem encryptMany_eq_map (A : AEAD) (key msg : Bytes) (nonces : List Bytes) :
    encryptMany A key msg nonces = nonces.map fun n => encryptWith A n key msg := by
  simp [encryptMany, encryptCalls, List.map_map, Function.comp_def]

/-- An interleaving of threads is a permutation of all their elements. -/
theorem Interleave.perm {α : Type} {threads : List (List α)} {out : List α} (h : Interleave threads out) :
    out.Perm threads.flatten := by
  induction h with
  | done threads hall =>
    have : threads.flatten = [] := by
      rw [List.flatten_eq_nil_iff]; exact hall
    rw [this]
  | step threads i x tl rest hi hint ih =>
    refine (List.Perm.cons x ih).trans ?_
    clear ih hint
    induction threads generalizing i with
    | nil => simp at hi
    | cons t ts iht =>
      cases i with
      | zero =>
        simp only [List.getElem?_cons_zero, Option.some.injEq] at hi
        subst hi
        simp
      | succ j =>
        simp only [List.getElem?_cons_succ] at hi
        simp only [List.set_cons_succ, List.flatten_cons]
        exact (List.perm_middle.symm).trans (List.Perm.append_left t (iht j hi))

/-- Concurrency form: several goroutines each make a sequence of `Encrypt` calls; for EVERY interleaving of them,
if the nonces drawn by all the calls are pairwise distinct (what a fresh random 24-byte nonce per call gives, and
what a Load-then-Store message counter does NOT give), all ciphertexts produced are pairwise distinct. -/
theorem C17_fresh_concurrent (A : AEAD) (threads : List (List EncCall)) (sched : List EncCall)
    (hs : Interleave threads sched)
    (hlen : ∀ c ∈ threads.flatten, c.nonce.length = nonceSize)
    (hne : threads.flatten.Pairwise fun a b => a.nonce ≠ b.nonce) :
    (encryptCalls A sched).Pairwise (· ≠ ·) := by
  have hp := hs.perm
  refine C17_fresh_calls A sched (fun c hc => hlen c (hp.mem_iff.1 hc)) ?_
  exact (hp.pairwise_iff (fun {a b} (h : a.nonce ≠ b.nonce) => h.symm)).2 hne

/-- The `encpar` instance: one plaintext, one key, `nonces` in any order of completion. -/
theorem C17_fresh_many (A : AEAD) (key msg : Bytes) (nonces sched : List Bytes) (hp : sched.Perm nonces)
    (hlen : ∀ n ∈ nonces, n.length = nonceSize) (hne : nonces.Pairwise (· ≠ ·)) :
    (encryptMany A key msg sched).Pairwise (· ≠ ·) ∧ (encryptMany A key msg sched).length = nonces.length := by
  constructor
  · unfold encryptMany
    refine C17_fresh_calls A _ ?_ ?_
    · intro c hc
      obtain ⟨n, hn, rfl⟩ := List.mem_map.1 hc
      exact hlen n (hp.mem_iff.1 hn)
    · rw [List.pairwise_map]
      exact (hp.pairwise_iff (fun {a b} (h : a ≠ b) => h.symm)).2 hne
  · simp [encryptMany, encryptCalls, hp.length_eq]

/-- Necessity (the shape of seeded change C17-5): if two of the calls got the SAME nonce — e.g. two goroutines that
both executed the counter's atomic load before either executed its store — the two ciphertexts of the equal
plaintexts are byte-for-byte equal. -/
theorem C17_nonce_reuse_collides (A : AEAD) (key msg : Bytes) (nonces : List Bytes) (h : ¬ nonces.Nodup) :
    ¬ (encryptMany A key msg nonces).Nodup := by
  intro hn
  apply h
  unfold encryptMany encryptCalls at hn
  rw [List.map_map, List.Nodup, List.pairwise_map] at hn
  exact hn.imp fun hab e => hab (by rw [e])

/-- non-vacuity: three goroutines' calls, the toy nonces 0…5, one of the interleavings. -/
example : Interleave [[(⟨Toy.nonceOfId 0, Toy.keyOfId 1, [1, 2]⟩ : EncCall), ⟨Toy.nonceOfId 1, Toy.keyOfId 1, [1, 2]⟩],
      [⟨Toy.nonceOfId 2, Toy.keyOfId 1, [1, 2]⟩]]
    [⟨Toy.nonceOfId 0, Toy.keyOfId 1, [1, 2]⟩, ⟨Toy.nonceOfId 2, Toy.keyOfId 1, [1, 2]⟩, ⟨Toy.nonceOfId 1, Toy.keyOfId 1, [1, 2]⟩] := by
  refine .step _ 0 _ _ _ rfl (.step _ 1 _ _ _ rfl (.step _ 0 _ _ _ rfl (.done _ (by simp))))

example : (encryptMany Toy.aead (Toy.keyOfId 1) [1, 2] [Toy.nonceOfId 0, Toy.nonceOfId 2, Toy.nonceOfId 1]).Pairwise (· ≠ ·) :=
  (C17_fresh_many Toy.aead _ _ [Toy.nonceOfId 0, Toy.nonceOfId 1, Toy.nonceOfId 2] _
    (.cons _ (.swap _ _ _)) (by decide) (by decide)).1

example : ¬ (encryptMany Toy.aead (Toy.keyOfId 1) [1, 2] [Toy.nonceOfId 7, Toy.nonceOfId 7]).Nodup :=
  C17_nonce_reuse_collides _ _ _ _ (by simp)

/-! ## Passphrase-derived keys -/

/-- `DeriveKey` returns nil exactly when scrypt accepts the stored parameters and sha256 of the derived key equals
the FULL stored digest. -/
theorem C17_derive_iff (K : KDF) (sk : SecretKey) (pass : Bytes) :
    (sk.deriveKey K pass).2 = .ok () ↔
      (scryptCheck sk.params.N sk.params.R sk.params.P = .ok ∧
       K.hash (K.kdf (hmacBlock K.hash pass) sk.params.salt sk.params.N sk.params.R sk.params.P) = sk.params.digest) := by
  unfold SecretKey.deriveKey SecretKey.deriveKeyRaw
  cases hc : scryptCheck sk.params.N sk.params.R sk.params.P <;> simp
  split <;> simp_all

/-- Shape of a freshly created secret key. -/
theorem newSecretKey_ok (K : KDF) (salt pass : Bytes) (N R P : Int) (sk : SecretKey)
    (h : newSecretKey K salt pass N R P = .ok sk) :
    scryptCheck N R P = .ok ∧
    sk = { key := K.kdf (hmacBlock K.hash pass) salt N R P,
           params := { salt := salt, digest := K.hash (K.kdf (hmacBlock K.hash pass) salt N R P), N := N, R := R, P := P } } := by
  unfold newSecretKey SecretKey.deriveKeyRaw at h
  cases hc : scryptCheck N R P <;> simp [hc] at h
  exact ⟨rfl, h.symm⟩

/-- Restart: the stored parameters round-trip and the creating passphrase re-derives exactly the same key. -/
theorem C17_derive_restart (K : KDF) (hH : ∀ x, (K.hash x).length = digestSize)
    (salt pass : Bytes) (N R P : Int) (sk : SecretKey) (hs : salt.length = keySize)
    (hN : -(two63 : Int) ≤ N ∧ N < (two63 : Int)) (hR : -(two63 : Int) ≤ R ∧ R < (two63 : Int))
    (hP : -(two63 : Int) ≤ P ∧ P < (two63 : Int))
    (h : newSecretKey K salt pass N R P = .ok sk) :
    SecretKey.unmarshal sk.marshal = .ok sk.zero ∧ sk.zero.deriveKey K pass = (sk, .ok ()) := by
  obtain ⟨hc, rfl⟩ := newSecretKey_ok K salt pass N R P sk h
  constructor
  · unfold SecretKey.unmarshal SecretKey.marshal
    rw [C17_marshal_roundtrip _ ⟨hs, hH _, hN.1, hN.2, hR.1, hR.2, hP.1, hP.2⟩]
    rfl
  · simp [SecretKey.deriveKey, SecretKey.deriveKeyRaw, SecretKey.zero, hc]

/-- A passphrase with a different HMAC key block is rejected with ErrInvalidPassword, whatever was in the key field
before, and the key it leaves in the object is NOT the right key (snacl does not zero it: quirk mirrored; the
manager zeroes it in `lock()`). `_partial`: the property says "only the exact passphrase"; that is false
(`C17_counterexample_trailing_nul`), so the hypothesis is on the key blocks, and collision resistance of
sha256∘scrypt is the assumption `KDF.Binding`. -/
theorem C17_derive_wrong_pass_partial (K : KDF) (B : Bytes → Prop) (salt pass pass' : Bytes) (N R P : Int)
    (hB : K.Binding salt N R P B) (hb : B (hmacBlock K.hash pass)) (hb' : B (hmacBlock K.hash pass'))
    (hne : hmacBlock K.hash pass' ≠ hmacBlock K.hash pass)
    (sk sk0 : SecretKey) (h : newSecretKey K salt pass N R P = .ok sk) (h0 : sk0.params = sk.params) :
    (sk0.deriveKey K pass').2 = .error .invalidPassword ∧ (sk0.deriveKey K pass').1.key ≠ sk.key := by
  obtain ⟨hc, rfl⟩ := newSecretKey_ok K salt pass N R P sk h
  have hd : K.hash (K.kdf (hmacBlock K.hash pass') salt N R P) ≠ K.hash (K.kdf (hmacBlock K.hash pass) salt N R P) :=
    fun e => hne (hB _ _ hb' hb e)
  have hk : K.kdf (hmacBlock K.hash pass') salt N R P ≠ K.kdf (hmacBlock K.hash pass) salt N R P :=
    fun e => hd (by rw [e])
  simp only at h0
  simp [SecretKey.deriveKey, SecretKey.deriveKeyRaw, h0, hc, hd, hk]

theorem hmacBlock_trailing_nul (hash : Bytes → Bytes) (pass : Bytes) (h : pass.length < hmacBlockSize) :
    hmacBlock hash (pass ++ [0]) = hmacBlock hash pass := by
  unfold hmacBlock hmacBlockSize at *
  rw [if_neg (by simp; omega), if_neg (by omega)]
  simp only [List.length_append, List.length_cons, List.length_nil, List.append_assoc]
  have : 64 - pass.length = (64 - (pass.length + 0 + 1)) + 1 := by omega
  rw [this, List.replicate_succ]
  rfl

/-- COUNTER-EXAMPLE to "accepts only the exact passphrase" — for EVERY KDF instance, so also for the real scrypt:
a key created from `pass` (shorter than 64 bytes) is re-derived, with ErrInvalidPassword NOT raised, from
`pass ‖ 0x00`. Reproduced on the real code by engine `crypto` (oracle key `DeriveKey.trailing-NUL-passphrase`). -/
theorem C17_counterexample_trailing_nul (K : KDF) (salt pass : Bytes) (N R P : Int) (sk : SecretKey)
    (hl : pass.length < 64) (h : newSecretKey K salt pass N R P = .ok sk) :
    pass ++ [0] ≠ pass ∧ sk.zero.deriveKey K (pass ++ [0]) = (sk, .ok ()) := by
  obtain ⟨hc, rfl⟩ := newSecretKey_ok K salt pass N R P sk h
  constructor
  · intro e
    have := congrArg List.length e
    simp at this
  · simp [SecretKey.deriveKey, SecretKey.deriveKeyRaw, SecretKey.zero, hc, hmacBlock_trailing_nul K.hash pass hl]

/-- On passphrases of at most 64 bytes that do not end in NUL, the HMAC key block determines the passphrase: these
are the passphrases for which "only the exact passphrase" can (and, by `C17_derive_wrong_pass_partial`, does) hold. -/
theorem C17_hmacBlock_inj (hash : Bytes → Bytes) (p p' : Bytes) (hl : p.length ≤ 64) (hl' : p'.length ≤ 64)
    (hz : p.getLast? ≠ some 0) (hz' : p'.getLast? ≠ some 0) (h : hmacBlock hash p = hmacBlock hash p') : p = p' := by
  unfold hmacBlock hmacBlockSize at h
  rw [if_neg (by omega), if_neg (by omega)] at h
  exact pad_inj p p' _ _ h hz hz'
/-! ## waddrmgr.Manager.Encrypt / Decrypt -/

theorem C17_mgr_roundtrip (A : AEAD) (hA : A.Correct) (m : Mgr) (kt : Nat) (n msg c : Bytes)
    (hn : n.length = nonceSize) (h : m.encrypt A kt n msg = .ok c) : m.decrypt A kt c = .ok msg := by
  unfold Mgr.encrypt at h
  unfold Mgr.decrypt
  cases hk : m.selectCryptoKey kt with
  | error e => simp [hk] at h
  | ok k =>
    simp only [hk, Except.ok.injEq] at h
    subst h
    simp [C17_roundtrip A hA n k msg hn]

/-- Private and script key types are refused while locked or watching-only; nothing is encrypted/decrypted. -/
theorem C17_mgr_locked_denies (A : AEAD) (m : Mgr) (kt : Nat) (n x : Bytes)
    (hl : m.locked = true ∨ m.watchOnly = true) (hk : kt = 0 ∨ kt = 1) :
    m.encrypt A kt n x = .error .locked ∧ m.decrypt A kt x = .error .locked := by
  have : m.selectCryptoKey kt = .error .locked := by
    unfold Mgr.selectCryptoKey
    rcases hk with rfl | rfl <;> rcases hl with h | h <;> simp [h]
  simp [Mgr.encrypt, Mgr.decrypt, this]

/-- The manager returns data only for genuine ciphertexts under the key of the requested type — with ONE documented
exception (/repo b81a3ff, `decryptLegacyScript`): for CKTScript a box sealed under the all-zero key (a row written by a
version that never restored the script key) is still readable. Nothing else opens. -/
theorem C17_mgr_tamper (A : AEAD) (hA : A.Correct) (m : Mgr) (kt : Nat) (c' p : Bytes)
    (h : m.decrypt A kt c' = .ok p) :
    ∃ k, m.selectCryptoKey kt = .ok k ∧ nonceSize ≤ c'.length ∧
      (c' = encryptWith A (c'.take nonceSize) k p ∨
       (kt = 1 ∧ c' = encryptWith A (c'.take nonceSize) zeroKey p)) := by
  unfold Mgr.decrypt at h
  cases hk : m.selectCryptoKey kt with
  | error e => simp [hk] at h
  | ok k =>
    simp only [hk] at h
    cases hd : decrypt A k c' with
    | error e =>
      simp only [hd] at h
      by_cases h1 : kt = 1
      · subst h1
        simp only [beq_self_eq_true, if_true] at h
        unfold decryptLegacyScript at h
        cases hz : decrypt A zeroKey c' with
        | error e' => simp [hz] at h
        | ok p' =>
          simp only [hz, Except.ok.injEq] at h
          subst h
          have := (C17_tamper A hA zeroKey c' p').mp hz
          exact ⟨k, rfl, this.1, Or.inr ⟨rfl, this.2⟩⟩
      · have : (kt == 1) = false := by simpa using h1
        simp [this] at h
    | ok p' =>
      simp only [hd, Except.ok.injEq] at h
      subst h
      have := (C17_tamper A hA k c' p').mp hd
      exact ⟨k, rfl, this.1, Or.inl this.2⟩

/-- For every key type other than CKTScript there is no fallback: data comes back only for genuine ciphertexts under
that type's key. -/
theorem C17_mgr_tamper_strict (A : AEAD) (hA : A.Correct) (m : Mgr) (kt : Nat) (c' p : Bytes) (hkt : kt ≠ 1)
    (h : m.decrypt A kt c' = .ok p) :
    ∃ k, m.selectCryptoKey kt = .ok k ∧ nonceSize ≤ c'.length ∧ c' = encryptWith A (c'.take nonceSize) k p := by
  obtain ⟨k, h1, h2, h3 | ⟨h4, _⟩⟩ := C17_mgr_tamper A hA m kt c' p h
  · exact ⟨k, h1, h2, h3⟩
  · exact absurd h4 hkt

/-- `lock()` zeroes every private key of the hierarchy. -/
theorem C17_mgr_lock_zeroes (m : Mgr) :
    m.lock.locked = true ∧ m.lock.cryptoKeyPriv = zeroKey ∧ m.lock.cryptoKeyScript = zeroKey ∧
    m.lock.masterKeyPriv.key = zeroKey ∧ m.lock.privPass = none := by
  simp [Mgr.lock, SecretKey.zero]

/-- A failed `Unlock` (any error) always leaves the manager locked with zeroed private keys. -/
theorem C17_mgr_unlock_failure_locks (A : AEAD) (K : KDF) (m : Mgr) (pass : Bytes) (e : MgrErr)
    (hw : m.watchOnly = false) (h : (m.unlock A K pass).2 = .error e) :
    (m.unlock A K pass).1.locked = true ∧ (m.unlock A K pass).1.cryptoKeyPriv = zeroKey ∧
    (m.unlock A K pass).1.masterKeyPriv.key = zeroKey := by
  unfold Mgr.unlock at h ⊢
  simp only [hw, Bool.false_eq_true, if_false] at h ⊢
  split
  · split
    · rename_i h1 h2; simp [h1, h2] at h
    · simp [Mgr.lock, SecretKey.zero]
  · rename_i hlk
    split
    · simp [Mgr.lock, SecretKey.zero]
    · simp [Mgr.lock, SecretKey.zero]
    · rename_i sk hsk
      split
      · simp [Mgr.lock, SecretKey.zero]
      · rename_i k hk
        split
        · simp [Mgr.lock, SecretKey.zero]
        · rename_i ks hks
          simp [hlk, hsk, hk, hks] at h

/-- Restart + unlock: what `Create` stored re-opens with the public passphrase (locked, public crypto key restored,
private ones zero) and `Unlock` with the private passphrase restores exactly the private AND the script crypto key
that were created (/repo b81a3ff); from then on `Encrypt(CKTScript, …)` seals under the created script key — never
under the all-zero key unless the created key itself were zero. -/
theorem C17_mgr_restart_unlock (A : AEAD) (hA : A.Correct) (K : KDF) (hH : ∀ x, (K.hash x).length = digestSize)
    (r : CreateRand) (pubPass privPass : Bytes) (N R P : Int)
    (hN : -(two63 : Int) ≤ N ∧ N < (two63 : Int)) (hR : -(two63 : Int) ≤ R ∧ R < (two63 : Int))
    (hP : -(two63 : Int) ≤ P ∧ P < (two63 : Int))
    (hs1 : r.saltPub.length = keySize) (hs2 : r.saltPriv.length = keySize)
    (hn1 : r.nPub.length = nonceSize) (hn2 : r.nPriv.length = nonceSize) (hn3 : r.nScript.length = nonceSize)
    (d : MgrDisk) (h : Mgr.create A K r pubPass (some privPass) N R P = .ok d) :
    ∃ m, Mgr.open_ A K d pubPass = .ok m ∧ m.locked = true ∧ m.cryptoKeyPub = r.keyPub ∧ m.cryptoKeyPriv = zeroKey ∧
      ∃ m', m.unlock A K privPass = (m', .ok ()) ∧ m'.locked = false ∧ m'.cryptoKeyPriv = r.keyPriv ∧
        m'.cryptoKeyPub = r.keyPub ∧ m'.cryptoKeyScript = r.keyScript ∧
        ∀ n x, m'.encrypt A 1 n x = .ok (encryptWith A n r.keyScript x) := by
  unfold Mgr.create at h
  cases h1 : newSecretKey K r.saltPub pubPass N R P with
  | error e => simp [h1] at h
  | ok mPub =>
    cases h2 : newSecretKey K r.saltPriv privPass N R P with
    | error e => simp [h1, h2] at h
    | ok mPriv =>
      simp only [h1, h2, Except.ok.injEq] at h
      subst h
      obtain ⟨u1, d1⟩ := C17_derive_restart K hH r.saltPub pubPass N R P mPub hs1 hN hR hP h1
      obtain ⟨u2, d2⟩ := C17_derive_restart K hH r.saltPriv privPass N R P mPriv hs2 hN hR hP h2
      have r1 : mPub.decrypt A (mPub.encryptWith A r.nPub r.keyPub) = .ok r.keyPub :=
        C17_roundtrip A hA r.nPub mPub.key r.keyPub hn1
      have r2 : mPriv.decrypt A (mPriv.encryptWith A r.nPriv r.keyPriv) = .ok r.keyPriv :=
        C17_roundtrip A hA r.nPriv mPriv.key r.keyPriv hn2
      have r3 : mPriv.decrypt A (mPriv.encryptWith A r.nScript r.keyScript) = .ok r.keyScript :=
        C17_roundtrip A hA r.nScript mPriv.key r.keyScript hn3
      have ho : Mgr.open_ A K
          { watchOnly := false, masterPubParams := mPub.marshal, masterPrivParams := mPriv.marshal,
            cryptoKeyPubEnc := mPub.encryptWith A r.nPub r.keyPub,
            cryptoKeyPrivEnc := mPriv.encryptWith A r.nPriv r.keyPriv,
            cryptoKeyScriptEnc := mPriv.encryptWith A r.nScript r.keyScript } pubPass =
          .ok
              { watchOnly := false, locked := true, masterKeyPub := mPub, masterKeyPriv := mPriv.zero,
                cryptoKeyPub := r.keyPub, cryptoKeyPrivEncrypted := mPriv.encryptWith A r.nPriv r.keyPriv,
                cryptoKeyPriv := zeroKey, cryptoKeyScriptEncrypted := mPriv.encryptWith A r.nScript r.keyScript,
                cryptoKeyScript := zeroKey, privPass := none } := by
        unfold Mgr.open_
        simp only [Bool.false_eq_true, if_false, u1, u2, d1, r1]
      refine ⟨_, ho, rfl, rfl, rfl, ?_⟩
      refine ⟨
              { watchOnly := false, locked := false, masterKeyPub := mPub, masterKeyPriv := mPriv,
                cryptoKeyPub := r.keyPub, cryptoKeyPrivEncrypted := mPriv.encryptWith A r.nPriv r.keyPriv,
                cryptoKeyPriv := r.keyPriv, cryptoKeyScriptEncrypted := mPriv.encryptWith A r.nScript r.keyScript,
                cryptoKeyScript := r.keyScript, privPass := some privPass }, ?_, rfl, rfl, rfl, rfl, ?_⟩
      · unfold Mgr.unlock
        simp only [Bool.false_eq_true, if_false, Bool.not_true, d2, r2, r3]
      · intro n x
        simp [Mgr.encrypt, Mgr.selectCryptoKey]
/-- After ANY successful `Unlock` of a locked manager the script key in memory is what the private master key opens
from `cryptoKeyScriptEncrypted`, and every `Encrypt(CKTScript, …)` seals under exactly that key (the all-zero key of
the locked state is gone). -/
theorem C17_mgr_script_key_after_unlock (A : AEAD) (K : KDF) (m m' : Mgr) (pass : Bytes)
    (hw : m.watchOnly = false) (hl : m.locked = true) (h : m.unlock A K pass = (m', .ok ())) :
    (m.masterKeyPriv.deriveKey K pass).1.decrypt A m.cryptoKeyScriptEncrypted = .ok m'.cryptoKeyScript ∧
    (m.masterKeyPriv.deriveKey K pass).1.decrypt A m.cryptoKeyPrivEncrypted = .ok m'.cryptoKeyPriv ∧
    m'.locked = false ∧
    ∀ n x, m'.encrypt A 1 n x = .ok (encryptWith A n m'.cryptoKeyScript x) := by
  unfold Mgr.unlock at h
  simp only [hw, hl, Bool.false_eq_true, if_false, Bool.not_true] at h
  cases hd : m.masterKeyPriv.deriveKey K pass with
  | mk sk res =>
    rw [hd] at h
    cases res with
    | error e => cases e <;> simp at h
    | ok u =>
      simp only at h
      cases hp : sk.decrypt A m.cryptoKeyPrivEncrypted with
      | error e => simp [hp] at h
      | ok k =>
        cases hs : sk.decrypt A m.cryptoKeyScriptEncrypted with
        | error e => simp [hp, hs] at h
        | ok ks =>
          simp only [hp, hs, Prod.mk.injEq, and_true] at h
          subst h
          refine ⟨rfl, rfl, rfl, ?_⟩
          intro n x
          simp [Mgr.encrypt, Mgr.selectCryptoKey]

/-- A private passphrase with a different key block: ErrWrongPassphrase, manager locked, private keys zero.
`_partial` for the same reason as `C17_derive_wrong_pass_partial`. -/
theorem C17_mgr_unlock_wrong_pass_partial (A : AEAD) (K : KDF) (B : Bytes → Prop) (salt pass pass' : Bytes) (N R P : Int)
    (hB : K.Binding salt N R P B) (hb : B (hmacBlock K.hash pass)) (hb' : B (hmacBlock K.hash pass'))
    (hne : hmacBlock K.hash pass' ≠ hmacBlock K.hash pass)
    (mPriv : SecretKey) (h : newSecretKey K salt pass N R P = .ok mPriv)
    (m : Mgr) (hw : m.watchOnly = false) (hl : m.locked = true) (hp : m.masterKeyPriv.params = mPriv.params) :
    (m.unlock A K pass').2 = .error .wrongPassphrase ∧ (m.unlock A K pass').1.locked = true ∧
    (m.unlock A K pass').1.cryptoKeyPriv = zeroKey ∧ (m.unlock A K pass').1.masterKeyPriv.key = zeroKey := by
  have hd := (C17_derive_wrong_pass_partial K B salt pass pass' N R P hB hb hb' hne mPriv m.masterKeyPriv h hp).1
  unfold Mgr.unlock
  simp only [hw, hl, Bool.false_eq_true, if_false, Bool.not_true]
  cases hr : m.masterKeyPriv.deriveKey K pass' with
  | mk sk res =>
    rw [hr] at hd
    simp only at hd
    subst hd
    simp [Mgr.lock, SecretKey.zero]
/-! ## ChangePassphrase -/

/-- A failing `ChangePassphrase` changes nothing, neither in memory nor on disk. -/
theorem C17_mgr_changepass_failure_unchanged (A : AEAD) (K : KDF) (m : Mgr) (d : MgrDisk) (r : ChangeRand)
    (old new : Bytes) (priv : Bool) (N R P : Int) (e : MgrErr)
    (h : (m.changePassphrase A K d r old new priv N R P).2.2 = .error e) :
    (m.changePassphrase A K d r old new priv N R P).1 = m ∧ (m.changePassphrase A K d r old new priv N R P).2.1 = d := by
  unfold Mgr.changePassphrase at h ⊢
  cases priv <;> simp only [Bool.false_and, Bool.true_and, if_false, if_true, Bool.false_eq_true] at h ⊢
  all_goals (repeat' split)
  all_goals (first | exact ⟨rfl, rfl⟩ | simp_all)

theorem changepass_priv_ok_shape (A : AEAD) (K : KDF) (m : Mgr) (d : MgrDisk) (r : ChangeRand)
    (old new : Bytes) (N R P : Int) (hu : m.locked = false)
    (h : (m.changePassphrase A K d r old new true N R P).2.2 = .ok ()) :
    (m.changePassphrase A K d r old new true N R P).1.privPass = some new ∧
    (m.changePassphrase A K d r old new true N R P).1.locked = false ∧
    (m.changePassphrase A K d r old new true N R P).1.watchOnly = false := by
  unfold Mgr.changePassphrase at h ⊢
  simp only [Bool.true_and, if_true] at h ⊢
  repeat' split
  all_goals simp_all

/-- After the private passphrase was changed on an UNLOCKED manager, the still-unlocked manager accepts exactly the new
passphrase: `Unlock(new)` succeeds and leaves it unlocked, `Unlock(p)` for any other `p` (the old one included) fails
with ErrWrongPassphrase and locks. -/
theorem C17_mgr_changepass_unlocked (A : AEAD) (K : KDF) (m : Mgr) (d : MgrDisk) (r : ChangeRand)
    (old new : Bytes) (N R P : Int) (hu : m.locked = false)
    (h : (m.changePassphrase A K d r old new true N R P).2.2 = .ok ()) :
    let m' := (m.changePassphrase A K d r old new true N R P).1
    m'.unlock A K new = (m', .ok ()) ∧ m'.locked = false ∧
    ∀ p, p ≠ new → (m'.unlock A K p).2 = .error .wrongPassphrase ∧ (m'.unlock A K p).1.locked = true := by
  obtain ⟨h1, h2, h3⟩ := changepass_priv_ok_shape A K m d r old new N R P hu h
  intro m'
  refine ⟨?_, h2, ?_⟩
  · simp [Mgr.unlock, m', h1, h2, h3]
  · intro p hp
    have : ¬ (new = p) := fun e => hp e.symm
    simp [Mgr.unlock, m', h1, h2, h3, this, Mgr.lock]
/-! ## Non-vacuity: the hypotheses are satisfiable (toy instance), and a concrete evaluation -/

example : Toy.aead.Correct := Toy.aead_correct
example : Toy.aead.Binding Toy.GoodKey := Toy.aead_binding
example (k : Bytes) : Toy.aead.Distance k := Toy.aead_distance k

/-- every bit flip / truncation theorem instantiates on the toy, for every key, nonce, message, position. -/
example (k n m : Bytes) (hn : n.length = nonceSize) (hm : m.length < maxLen) (i : Nat)
    (hi : i < 8 * (encryptWith Toy.aead n k m).length) :
    decrypt Toy.aead k (flipBit (encryptWith Toy.aead n k m) i) = .error .decryptFailed :=
  C17_tamper_bitflip _ Toy.aead_correct k (Toy.aead_distance k) n m hn hm i hi

/-- the theorems instantiate: round trip and wrong key on the toy, for all messages/nonces. -/
example (n m : Bytes) (hn : n.length = nonceSize) :
    decrypt Toy.aead (Toy.keyOfId 1) (encryptWith Toy.aead n (Toy.keyOfId 1) m) = .ok m :=
  C17_roundtrip _ Toy.aead_correct n _ m hn

example (n m : Bytes) (hn : n.length = nonceSize) :
    decrypt Toy.aead Crypto.zeroKey (encryptWith Toy.aead n (Toy.keyOfId 1) m) = .error .decryptFailed :=
  C17_wrong_key _ Toy.aead_correct _ Toy.aead_binding n _ _ m hn (Toy.keyOfId_good 1) Toy.zeroKey_good (by decide)

/-- `KDF.Binding` is satisfiable: the identity KDF binds on all blocks. -/
example : (KDF.mk (fun b _ _ _ _ => b) id).Binding [] 16 8 1 (fun _ => True) := by
  intro b b' _ _ h; exact h

/-- a well-formed `Params` with negative and extreme fields. -/
example : ({ salt := List.replicate 32 7, digest := List.replicate 32 9, N := -1, R := 9223372036854775807,
             P := -9223372036854775808 } : Params).WF := by
  constructor <;> decide

/-- the byte layout on a concrete value: salt ‖ digest ‖ N ‖ R ‖ P, little endian (N = 16384 = 0x4000). -/
example : marshal { salt := List.replicate 32 0xaa, digest := List.replicate 32 0xbb, N := 16384, R := 8, P := 1 }
    = List.replicate 32 0xaa ++ List.replicate 32 0xbb ++ [0, 0x40, 0, 0, 0, 0, 0, 0] ++ [8, 0, 0, 0, 0, 0, 0, 0]
      ++ [1, 0, 0, 0, 0, 0, 0, 0] := by decide

/-- negative N is stored as its two's complement. -/
example : leBytes 8 (toU64 (-2)) = [0xfe, 0xff, 0xff, 0xff, 0xff, 0xff, 0xff, 0xff] := by decide

/-- scrypt's parameter check on the production and test parameters, and the divide-by-zero quirk. -/
example : scryptCheck 16384 8 1 = .ok ∧ scryptCheck 16 8 1 = .ok := by decide
example : scryptCheck 16 0 1 = .panic ∧ scryptCheck 16 8 0 = .panic ∧ scryptCheck 15 8 1 = .err ∧
    scryptCheck 16 (-1) (-1) = .err := by decide

end Crypto
