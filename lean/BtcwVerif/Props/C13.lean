import BtcwVerif.Lemmas.KMap
import BtcwVerif.Lemmas.RefRange
import BtcwVerif.Lemmas.RefExact
import BtcwVerif.Lemmas.SyncTipHistory
/-!
# C13 — transaction history shows each known transaction once, at its current status

Store-level theorems about the query functions of the model (`TxDetails`, `minedTxDetails`, `RangeTransactions`) on an
ARBITRARY store: a hash is reported iff a record with that hash exists; it is reported as unconfirmed exactly when it
is in the unconfirmed bucket, otherwise under the block of its record; the spent flag of a listed credit is
"spent by a mined transaction (stored flag) or by an unconfirmed one (unmined-inputs index)"; the position of the
unconfirmed batch in a range query follows the −1 rule in both directions.
Ledger level (second half of the file): after EVERY chain-consistent history of events (`ConsistentHistory`, block
disconnections included) the history queries answer the sentences of C13 read on the specification `Ledger`:
`C13_once`, `C13_credit`, `C13_debit`, `C13_range`, `C13_removed` (from the refinement Lemmas/Ref*.lean:
`good_history`, `details_refines`, `range_refines`).  Credit / debit records are compared as sets without duplicates
(the store lists them in bucket order, the ledger in index order); inside the unconfirmed batch of a range query the
order is the store's (hash order), the ledger's is arrival order.
Last part of the file (tx3): the same answers as LISTS, order included — `C13_details_exact`, `C13_credit_exact`,
`C13_debit_exact`, `C13_range_exact`, `C13_range_blocks_exact` (every bucket is in bbolt key order after every sequence
of store calls: Lemmas/SortedStore.lean; Lemmas/RefExact.lean).
-/
namespace TxStore.C13
open TxStore KMap

/-- **removed ⇒ not reported, known ⇒ reported**: direct lookup answers "none" exactly when neither the unconfirmed
bucket nor the mined records hold the hash. -/
theorem C13_details_none_iff (s : Store) (h : Nat) :
    txDetails s h = .ok none ↔ s.unmined.find? h = none ∧ latestTxRecord s h = none := by
  unfold txDetails
  cases hu : s.unmined.find? h with
  | some rec =>
    simp only [reduceCtorEq, false_and, iff_false]
    cases unminedTxDetails s h rec <;> simp [bind, Except.bind]
  | none =>
    cases hl : latestTxRecord s h with
    | none => simp
    | some p =>
      obtain ⟨k, rec⟩ := p
      simp only [reduceCtorEq, and_false, iff_false]
      cases minedTxDetails s k rec <;> simp [bind, Except.bind]

private theorem unminedTxDetails_block {s : Store} {h : Nat} {rec : Tx} {d : Details}
    (hd : unminedTxDetails s h rec = .ok d) : d.block = none ∧ d.tx = rec := by
  unfold unminedTxDetails at hd
  simp only [bind, Except.bind, pure_eq, throw_eq] at hd
  repeat' split at hd
  all_goals first | (cases hd; done) | skip
  cases hd
  exact ⟨rfl, rfl⟩

private theorem minedTxDetails_block {s : Store} {k : TxKey} {rec : Tx} {d : Details}
    (hd : minedTxDetails s k rec = .ok d) : (∃ t, d.block = some ⟨k.block, t⟩) ∧ d.tx = rec := by
  unfold minedTxDetails at hd
  simp only [bind, Except.bind, pure_eq, throw_eq] at hd
  repeat' split at hd
  all_goals first | (cases hd; done) | skip
  cases hd
  exact ⟨⟨_, rfl⟩, rfl⟩

/-- **current status**: a reported transaction is shown as unconfirmed exactly when it is in the unconfirmed bucket
(then with that record); otherwise it is shown under the block of its latest mined record, with that record. -/
theorem C13_details_status (s : Store) (h : Nat) (d : Details) (hd : txDetails s h = .ok (some d)) :
    (d.block = none ↔ (s.unmined.find? h).isSome) ∧
    (∀ rec, s.unmined.find? h = some rec → d.tx = rec) ∧
    (s.unmined.find? h = none → ∃ k rec t, latestTxRecord s h = some (k, rec) ∧ d.block = some ⟨k.block, t⟩ ∧ d.tx = rec) := by
  unfold txDetails at hd
  cases hu : s.unmined.find? h with
  | some rec =>
    rw [hu] at hd
    simp only at hd
    cases hx : unminedTxDetails s h rec with
    | error e => rw [hx] at hd; cases hd
    | ok d' =>
      rw [hx] at hd
      simp only [bind, Except.bind, pure, Except.pure, Except.ok.injEq, Option.some.injEq] at hd
      subst hd
      obtain ⟨h1, h2⟩ := unminedTxDetails_block hx
      refine ⟨?_, ?_, ?_⟩
      · simp [h1]
      · intro r hr; cases hr; exact h2
      · intro hn; cases hn
  | none =>
    rw [hu] at hd
    simp only at hd
    cases hl : latestTxRecord s h with
    | none => rw [hl] at hd; cases hd
    | some p =>
      obtain ⟨k, rec⟩ := p
      rw [hl] at hd
      simp only at hd
      cases hx : minedTxDetails s k rec with
      | error e => rw [hx] at hd; cases hd
      | ok d' =>
        rw [hx] at hd
        simp only [bind, Except.bind, pure, Except.pure, Except.ok.injEq, Option.some.injEq] at hd
        subst hd
        obtain ⟨⟨t, h1⟩, h2⟩ := minedTxDetails_block hx
        refine ⟨?_, ?_, ?_⟩
        · simp [h1]
        · intro r hr; cases hr
        · intro _; exact ⟨k, rec, t, rfl, h1, h2⟩

/-- the latest mined record really is a record with that hash (so the block shown is a block recording it) -/
theorem C13_latest_is_record (s : Store) (h : Nat) (k : TxKey) (rec : Tx) (hl : latestTxRecord s h = some (k, rec)) :
    (k, rec) ∈ s.txrecs ∧ k.hash = h := by
  unfold latestTxRecord at hl
  have hm := List.mem_of_getLast? hl
  rw [List.mem_filter] at hm
  exact ⟨hm.1, by simpa using hm.2⟩

private theorem mapM_ok_mem {α β : Type} (f : α → M β) :
    ∀ (l : List α) (r : List β), l.mapM f = .ok r → ∀ y ∈ r, ∃ x ∈ l, f x = .ok y := by
  intro l
  induction l with
  | nil => intro r h y hy; simp [List.mapM_nil, pure, Except.pure] at h; subst h; cases hy
  | cons a t ih =>
    intro r h y hy
    rw [List.mapM_cons] at h
    cases hfa : f a with
    | error e => rw [hfa] at h; cases h
    | ok b =>
      rw [hfa] at h
      cases ht : t.mapM f with
      | error e => rw [ht] at h; cases h
      | ok bs =>
        rw [ht] at h
        simp only [bind, Except.bind, pure, Except.pure, Except.ok.injEq] at h
        subst h
        cases hy with
        | head => exact ⟨a, List.mem_cons_self, hfa⟩
        | tail _ hy' =>
          obtain ⟨x, hx, hfx⟩ := ih bs ht y hy'
          exact ⟨x, List.mem_cons_of_mem _ hx, hfx⟩

/-- **credits of a mined record**: every listed credit is a stored credit of that record with its amount and change
flag, and its spent flag is true exactly when a mined transaction spent it (stored flag) or an unconfirmed
transaction spends it (unmined-inputs index). -/
theorem C13_mined_credit_flags (s : Store) (k : TxKey) (rec : Tx) (d : Details)
    (hd : minedTxDetails s k rec = .ok d) (c : CreditRecord) (hc : c ∈ d.credits) :
    ∃ ck cv, (ck, cv) ∈ s.credits ∧ ck.hash = k.hash ∧ ck.block = k.block ∧ ck.index = c.index ∧
      c.index < rec.outs.length ∧ c.amount = cv.amount ∧ c.change = cv.change ∧
      c.spent = (cv.spent || spentByUnmined s ⟨k.hash, c.index⟩) := by
  unfold minedTxDetails at hd
  simp only [bind, Except.bind, pure_eq, throw_eq] at hd
  repeat' split at hd
  all_goals first | (cases hd; done) | skip
  rename_i _ br hbr _ credits hcr _ debits hdb
  cases hd
  simp only at hc
  obtain ⟨⟨ck, cv⟩, hmem, hf⟩ := mapM_ok_mem _ _ _ hcr c hc
  unfold creditsOf at hmem
  rw [List.mem_filter] at hmem
  have hkk : ck.hash = k.hash ∧ ck.block = k.block := by simpa using hmem.2
  simp only at hf
  split at hf
  · cases hf
  · rename_i hlt
    cases hf
    exact ⟨ck, cv, hmem.1, hkk.1, hkk.2, rfl, by show ck.index < rec.outs.length; omega, rfl, rfl, rfl⟩

/-- **credits of an unconfirmed record**: spent exactly when an unconfirmed transaction spends the output -/
theorem C13_unmined_credit_flags (s : Store) (h : Nat) (rec : Tx) (d : Details)
    (hd : unminedTxDetails s h rec = .ok d) (c : CreditRecord) (hc : c ∈ d.credits) :
    ∃ op uc, (op, uc) ∈ s.unminedCredits ∧ op.hash = h ∧ op.index = c.index ∧ c.index < rec.outs.length ∧
      c.amount = uc.amount ∧ c.change = uc.change ∧ c.spent = spentByUnmined s op := by
  unfold unminedTxDetails at hd
  simp only [bind, Except.bind, pure_eq, throw_eq] at hd
  repeat' split at hd
  all_goals first | (cases hd; done) | skip
  rename_i _ credits hcr _ debits hdb
  cases hd
  simp only at hc
  obtain ⟨⟨op, uc⟩, hmem, hf⟩ := mapM_ok_mem _ _ _ hcr c hc
  unfold unminedCreditsOf at hmem
  rw [List.mem_filter] at hmem
  simp only at hf
  split at hf
  · cases hf
  · rename_i hlt
    cases hf
    exact ⟨op, uc, hmem.1, by simpa using hmem.2, rfl, by show op.index < rec.outs.length; omega, rfl, rfl, rfl⟩

/-- **the −1 rule, both directions**: the unconfirmed batch comes first when the range begins at −1, last when it
ends at −1 (and does not begin there), and is absent otherwise; the block batches lie in between. -/
theorem C13_range_unmined_position (s : Store) (b e : Int) (bs : List (List Details))
    (h : rangeTransactions s b e = .ok bs) :
    ∃ mid un, rangeBlockTransactions s b e = .ok mid ∧
      (b < 0 → rangeUnmined s = .ok un ∧ bs = un ++ mid) ∧
      (¬ b < 0 → e < 0 → rangeUnmined s = .ok un ∧ bs = mid ++ un) ∧
      (¬ b < 0 → ¬ e < 0 → bs = mid) := by
  unfold rangeTransactions at h
  by_cases hb : b < 0
  · simp only [hb, if_true, decide_true, Bool.not_true, Bool.false_and, Bool.false_eq_true, if_false] at h
    cases hu : rangeUnmined s with
    | error x => rw [hu] at h; cases h
    | ok un =>
      cases hm : rangeBlockTransactions s b e with
      | error x => rw [hu, hm] at h; cases h
      | ok mid =>
        rw [hu, hm] at h
        simp only [bind, Except.bind, pure, Except.pure, Except.ok.injEq, List.append_nil] at h
        exact ⟨mid, un, rfl, fun _ => ⟨rfl, h.symm⟩, fun hn => absurd hb hn, fun hn => absurd hb hn⟩
  · simp only [hb, if_false, decide_false, Bool.not_false, Bool.true_and] at h
    cases hm : rangeBlockTransactions s b e with
    | error x => rw [hm] at h; simp [bind, Except.bind, pure, Except.pure] at h
    | ok mid =>
      rw [hm] at h
      by_cases he : e < 0
      · simp only [he, decide_true, if_true] at h
        cases hu : rangeUnmined s with
        | error x => rw [hu] at h; simp [bind, Except.bind, pure, Except.pure] at h
        | ok un =>
          rw [hu] at h
          simp only [bind, Except.bind, pure, Except.pure, Except.ok.injEq, List.nil_append] at h
          exact ⟨mid, un, rfl, fun hn => absurd hn hb, fun _ _ => ⟨rfl, h.symm⟩, fun _ hn => absurd he hn⟩
      · simp only [he, decide_false, Bool.false_eq_true, if_false] at h
        simp only [bind, Except.bind, pure, Except.pure, Except.ok.injEq, List.nil_append, List.append_nil] at h
        exact ⟨mid, [], rfl, fun hn => absurd hn hb, fun _ hn => absurd hn he, fun _ _ => h.symm⟩

/-- the unconfirmed batch holds one entry per record of the unconfirmed bucket (each exactly once, bucket order), and
is not delivered at all when the bucket is empty -/
theorem C13_unmined_batch (s : Store) (un : List (List Details)) (h : rangeUnmined s = .ok un) :
    (s.unmined = [] → un = []) ∧
    (s.unmined ≠ [] → ∃ ds, un = [ds] ∧ ds.length = s.unmined.length ∧ s.unmined.mapM (fun (h, rec) => unminedTxDetails s h rec) = .ok ds) := by
  unfold rangeUnmined at h
  cases hm : s.unmined.mapM (fun x => match x with | (h, rec) => unminedTxDetails s h rec) with
  | error x => rw [hm] at h; cases h
  | ok ds =>
    rw [hm] at h
    simp only [bind, Except.bind, pure, Except.pure, Except.ok.injEq] at h
    have hlen : ds.length = s.unmined.length := by
      clear h
      generalize s.unmined = l at hm
      induction l generalizing ds with
      | nil => simp [List.mapM_nil, pure, Except.pure] at hm; subst hm; rfl
      | cons a t ih =>
        rw [List.mapM_cons] at hm
        cases ha : (match a with | (h, rec) => unminedTxDetails s h rec) with
        | error x => rw [ha] at hm; cases hm
        | ok d =>
          rw [ha] at hm
          cases ht : t.mapM (fun x => match x with | (h, rec) => unminedTxDetails s h rec) with
          | error x => rw [ht] at hm; cases hm
          | ok r =>
            rw [ht] at hm
            simp only [bind, Except.bind, pure, Except.pure, Except.ok.injEq] at hm
            subst hm
            simp [ih r ht]
    constructor
    · intro he
      rw [he] at hlen
      have : ds = [] := List.eq_nil_of_length_eq_zero (by simpa using hlen)
      subst this; simpa using h.symm
    · intro hne
      have hds : ds ≠ [] := by
        intro hc; rw [hc] at hlen
        exact hne (List.eq_nil_of_length_eq_zero (by simpa using hlen.symm))
      have : ds.isEmpty = false := by cases ds with | nil => exact absurd rfl hds | cons _ _ => rfl
      rw [this] at h
      exact ⟨ds, by simpa using h.symm, hlen, rfl⟩

/-! non-vacuity -/
def exStore : Store :=
  { blocks := [(5, ⟨55, 1000, [9]⟩)], txrecs := [(⟨9, ⟨5, 55⟩⟩, ⟨9, [⟨1, 0⟩], [700, 800]⟩)],
    credits := [(⟨9, ⟨5, 55⟩, 1⟩, ⟨800, false, false, none⟩)], unspent := [(⟨9, 1⟩, ⟨5, 55⟩)],
    unmined := [(12, ⟨12, [⟨9, 1⟩], [750]⟩)], unminedCredits := [(⟨12, 0⟩, ⟨750, true⟩)],
    unminedInputs := [(⟨9, 1⟩, [12])], minedBalance := 800 }

example : txDetails exStore 9 = .ok (some ⟨⟨9, [⟨1, 0⟩], [700, 800]⟩, some ⟨⟨5, 55⟩, 1000⟩, [⟨1, 800, true, false⟩], []⟩) := by decide
example : txDetails exStore 12 = .ok (some ⟨⟨12, [⟨9, 1⟩], [750]⟩, none, [⟨0, 750, false, true⟩], [⟨0, 800⟩]⟩) := by decide
example : txDetails exStore 13 = .ok none := by decide
example : (rangeTransactions exStore (-1) 0).map (·.map (·.map (·.tx.hash))) = .ok [[12], [9]] := by decide
example : (rangeTransactions exStore 0 (-1)).map (·.map (·.map (·.tx.hash))) = .ok [[9], [12]] := by decide

/-! ## Ledger level -/
open Ledger

/-- **C13, each known transaction once, at its current status**: after every chain-consistent history, `TxDetails h`
succeeds; it reports a record exactly when a known transaction has hash `h`; the record is that transaction, under its
current block (height, hash, time) or as unconfirmed -/
theorem C13_once (es : List Event) (hc : ConsistentHistory {} es) (h : Nat) :
    ∃ s o, storeAfter Store.empty {} es = .ok s ∧ txDetails s h = .ok o ∧
      (o.isSome = true ↔ isKnown (ledgerAfter {} es) h = true) ∧
      (∀ d, o = some d → ∃ t ob, (t, ob) ∈ known (ledgerAfter {} es) ∧ t.hash = h ∧ d.tx = t ∧ d.block = ob) := by
  obtain ⟨s, h1, hg, hn⟩ := good_reachable es hc
  obtain ⟨o, ho, hag⟩ := details_refines hg hn h
  refine ⟨s, o, h1, ho, ?_, ?_⟩
  · obtain ⟨o', ho', hiff⟩ := txDetails_total hg h
    rw [ho] at ho'; cases ho'
    rw [hiff, isKnown_iff]
  · intro d hd
    subst hd
    by_cases hk : ∃ p ∈ known (ledgerAfter {} es), p.1.hash = h
    · obtain ⟨⟨t, ob⟩, hp, rfl⟩ := hk
      rw [details_known hg.lwf hp] at hag
      exact ⟨t, ob, hp, rfl, hag.tx, hag.block⟩
    · rw [details_unknown (fun p hp e => hk ⟨p, hp, e⟩)] at hag
      exact absurd hag (by simp [DetailsAgree])

/-- **C13, credit records**: for a known transaction `t`, the record `TxDetails` reports lists a credit for output `i`
exactly when `(t, i)` is credited — once —, with the value of that output, its change flag, and `spent` set exactly
when some known transaction (confirmed or not) spends it -/
theorem C13_credit (es : List Event) (hc : ConsistentHistory {} es) (t : Tx) (ob : Option BlockMeta)
    (ht : (t, ob) ∈ known (ledgerAfter {} es)) :
    ∃ s d, storeAfter Store.empty {} es = .ok s ∧ txDetails s t.hash = .ok (some d) ∧
      (d.credits.map (·.index)).Nodup ∧
      (∀ c, c ∈ d.credits ↔ ∃ chg, lookup (ledgerAfter {} es).credit ⟨t.hash, c.index⟩ = some chg ∧
        t.outs[c.index]? = some c.amount ∧ c.change = chg ∧ c.spent = Ledger.spent (ledgerAfter {} es) ⟨t.hash, c.index⟩) := by
  obtain ⟨s, h1, hg, hn⟩ := good_reachable es hc
  obtain ⟨o, ho, hag⟩ := details_refines hg hn t.hash
  rw [details_known hg.lwf ht] at hag
  cases o with
  | none => exact absurd hag (by simp [DetailsAgree])
  | some d =>
    refine ⟨s, d, h1, ho, hag.creditsNodup, ?_⟩
    intro c
    rw [hag.credits]
    unfold detailsOf
    simp only [List.mem_filterMap]
    constructor
    · rintro ⟨⟨i, v⟩, hiv, hcv⟩
      have hv := (mem_withIdx0 _ _ _).mp hiv
      simp only at hcv
      cases hlk : lookup (ledgerAfter {} es).credit ⟨t.hash, i⟩ with
      | none => rw [hlk] at hcv; cases hcv
      | some chg =>
        rw [hlk] at hcv
        simp only [Option.some.injEq] at hcv
        subst hcv
        exact ⟨chg, hlk, hv, rfl, rfl⟩
    · rintro ⟨chg, h2, h3, h4, h5⟩
      refine ⟨(c.index, c.amount), (mem_withIdx0 _ _ _).mpr h3, ?_⟩
      simp only [h2, Option.some.injEq]
      obtain ⟨ci, ca, cs, cc⟩ := c
      simp only at h4 h5
      rw [h4, h5]

/-- **C13, debit records**: the record lists a debit for input `j` exactly when the output that input spends is a
credited output of a known transaction — once —, with that output's value -/
theorem C13_debit (es : List Event) (hc : ConsistentHistory {} es) (t : Tx) (ob : Option BlockMeta)
    (ht : (t, ob) ∈ known (ledgerAfter {} es)) :
    ∃ s d, storeAfter Store.empty {} es = .ok s ∧ txDetails s t.hash = .ok (some d) ∧
      (d.debits.map (·.index)).Nodup ∧
      (∀ x, x ∈ d.debits ↔ ∃ inp, t.ins[x.index]? = some inp ∧ creditValue (ledgerAfter {} es) inp = some x.amount) := by
  obtain ⟨s, h1, hg, hn⟩ := good_reachable es hc
  obtain ⟨o, ho, hag⟩ := details_refines hg hn t.hash
  rw [details_known hg.lwf ht] at hag
  cases o with
  | none => exact absurd hag (by simp [DetailsAgree])
  | some d =>
    refine ⟨s, d, h1, ho, hag.debitsNodup, ?_⟩
    intro x
    rw [hag.debits]
    unfold detailsOf
    simp only [List.mem_filterMap]
    constructor
    · rintro ⟨⟨j, inp⟩, hji, hx⟩
      have hj := (mem_withIdx0 _ _ _).mp hji
      simp only at hx
      cases hcv : creditValue (ledgerAfter {} es) inp with
      | none => rw [hcv] at hx; cases hx
      | some v =>
        rw [hcv] at hx
        simp only [Option.some.injEq] at hx
        subst hx
        exact ⟨inp, hj, hcv⟩
    · rintro ⟨inp, h2, h3⟩
      refine ⟨(x.index, inp), (mem_withIdx0 _ _ _).mpr h2, ?_⟩
      simp only [h3]

/-- **C13, range queries**: `RangeTransactions begin end` succeeds and reports the ledger's batches in the ledger's
order — the unconfirmed batch first when `begin = −1`, last when only `end = −1`; the blocks with height in the range,
ascending or descending as asked, each batch holding exactly the transactions of that block in the order the wallet
learned them (resp. the unconfirmed transactions), each record agreeing with the ledger's as in `C13_credit/_debit` -/
theorem C13_range (es : List Event) (hc : ConsistentHistory {} es) (b e : Int) :
    ∃ s bs, storeAfter Store.empty {} es = .ok s ∧ rangeTransactions s b e = .ok bs ∧
      BatchesAgree bs (Ledger.range (ledgerAfter {} es) b e) := by
  obtain ⟨s, h1, hg, hn⟩ := good_reachable es hc
  obtain ⟨bs, h2, h3⟩ := range_refines hg hn b e
  exact ⟨s, bs, h1, h2, h3⟩

/-- a batch that agrees with the ledger's holds only known transactions -/
theorem batch_known {L : Ledger} : ∀ {bs bs' : List (List Details)}, BatchesAgree bs bs' →
    (∀ ds' ∈ bs', ∀ d' ∈ ds', ∃ ob, (d'.tx, ob) ∈ known L) →
    ∀ ds ∈ bs, ∀ d ∈ ds, ∃ ob, (d.tx, ob) ∈ known L := by
  intro bs bs' h
  induction h with
  | nil => intro _ ds hds; cases hds
  | @cons ds ds' l m hb _ ih =>
    intro hk ds0 hds0 d hd
    rcases List.mem_cons.mp hds0 with rfl | hds0'
    · obtain ⟨ds'', hperm, hpw⟩ := hb
      -- d corresponds to some record of ds''
      have : ∀ {a : List Details} {c : List Details}, Pointwise DetEquiv a c → ∀ x ∈ a, ∃ y ∈ c, x.tx = y.tx := by
        intro a c hp
        induction hp with
        | nil => intro x hx; cases hx
        | cons hr _ ih2 =>
          intro x hx
          rcases List.mem_cons.mp hx with rfl | hx'
          · exact ⟨_, List.mem_cons_self, hr.tx⟩
          · obtain ⟨y, hy, e⟩ := ih2 x hx'
            exact ⟨y, List.mem_cons_of_mem _ hy, e⟩
      obtain ⟨y, hy, e⟩ := this hpw d hd
      obtain ⟨ob, hob⟩ := hk ds' List.mem_cons_self y (hperm.mem_iff.mp hy)
      exact ⟨ob, by rw [e]; exact hob⟩
    · exact ih (fun x hx => hk x (List.mem_cons_of_mem _ hx)) ds0 hds0' d hd

/-- every record of `Ledger.range` is the record of a known transaction -/
theorem range_known (L : Ledger) (b e : Int) :
    ∀ ds' ∈ Ledger.range L b e, ∀ d' ∈ ds', ∃ ob, (d'.tx, ob) ∈ known L := by
  intro ds' hds' d' hd'
  rw [range_eq] at hds'
  have hun : ∀ ds ∈ rangeUnL L, ∀ d ∈ ds, ∃ ob, (d.tx, ob) ∈ known L := by
    intro ds hds d hd
    unfold rangeUnL at hds
    split at hds
    · cases hds
    · simp only [List.mem_singleton] at hds
      subst hds
      obtain ⟨t, ht, rfl⟩ := List.mem_map.mp hd
      exact ⟨none, known_of_pool ht⟩
  have hmid : ∀ ds ∈ rangeMidL L b e, ∀ d ∈ ds, ∃ ob, (d.tx, ob) ∈ known L := by
    intro ds hds d hd
    unfold rangeMidL at hds
    by_cases hlt : (if b < 0 then maxInt32 else b) < (if e < 0 then maxInt32 else e)
    · rw [if_pos hlt] at hds
      obtain ⟨lb, hlb, rfl⟩ := List.mem_map.mp hds
      obtain ⟨t, ht, rfl⟩ := List.mem_map.mp hd
      exact ⟨some lb.bm, known_of_mined (mem_chainTxs.mpr ⟨lb, (List.mem_filter.mp hlb).1, rfl, ht⟩)⟩
    · rw [if_neg hlt] at hds
      obtain ⟨lb, hlb, rfl⟩ := List.mem_map.mp hds
      obtain ⟨t, ht, rfl⟩ := List.mem_map.mp hd
      exact ⟨some lb.bm, known_of_mined (mem_chainTxs.mpr ⟨lb, (List.mem_filter.mp (List.mem_reverse.mp hlb)).1, rfl, ht⟩)⟩
  rcases List.mem_append.mp hds' with h | h
  · rcases List.mem_append.mp h with h | h
    · split at h
      · exact hun _ h _ hd'
      · cases h
    · exact hmid _ h _ hd'
  · split at h
    · exact hun _ h _ hd'
    · cases h

/-- **C13, removed transactions disappear**: when, after a chain-consistent history, no known transaction has hash `h`
— whether the transaction never arrived or an event removed it (abandoned, conflicted by a confirmation, depending on a
disconnected coinbase) — `TxDetails h` answers "none" and no batch of any range query holds a record with that hash -/
theorem C13_removed (es : List Event) (hc : ConsistentHistory {} es) (h : Nat)
    (hgone : isKnown (ledgerAfter {} es) h = false) (b e : Int) :
    ∃ s bs, storeAfter Store.empty {} es = .ok s ∧ txDetails s h = .ok none ∧
      rangeTransactions s b e = .ok bs ∧ ∀ ds ∈ bs, ∀ d ∈ ds, d.tx.hash ≠ h := by
  obtain ⟨s, h1, hg, hn⟩ := good_reachable es hc
  obtain ⟨o, ho, hiff⟩ := txDetails_total hg h
  obtain ⟨bs, h2, h3⟩ := range_refines hg hn b e
  have hk := isKnown_false_iff.mp hgone
  have : o = none := by
    cases o with
    | none => rfl
    | some d =>
      obtain ⟨p, hp, e'⟩ := hiff.mp rfl
      exact absurd e' (hk p hp)
  subst this
  refine ⟨s, bs, h1, ho, h2, ?_⟩
  intro ds hds d hd e'
  obtain ⟨ob, hob⟩ := batch_known h3 (range_known _ b e) ds hds d hd
  exact hk _ hob e'

/-! ## Ledger level, EXACT order (tx3)

`C13_credit`, `C13_debit`, `C13_range` above compare the record lists up to order.  Every bucket of the store is in
bbolt key order after every sequence of store calls (`SortedS`, `sortedS_storeAfter` in Lemmas/SortedStore.lean: every
write is a `Put` or a `Delete`), so the order in which the cursors deliver the records is determined; the theorems
below state the answers as LISTS (Lemmas/RefExact.lean). -/

/-- **C13, the whole record, exactly**: after every chain-consistent history `TxDetails h` answers exactly the ledger's
`details h` — nothing for an unknown hash, otherwise the transaction, its current block, its credit records in
ascending output index and its debit records in ascending input index (equality of lists, not of sets) -/
theorem C13_details_exact (es : List Event) (hc : ConsistentHistory {} es) (h : Nat) :
    ∃ s, storeAfter Store.empty {} es = .ok s ∧ txDetails s h = .ok (Ledger.details (ledgerAfter {} es) h) := by
  obtain ⟨s, h1, hg, hn, hs⟩ := good_sorted_reachable es hc
  exact ⟨s, h1, details_refines_exact hg hn hs h⟩

/-- **C13, credit records, exactly**: for a known transaction `t` the credit records `TxDetails` reports are, as a LIST,
the credited outputs of `t` in ascending output index — one record per credited output `i`, with the output's value, its
change flag and `spent` set exactly when some known transaction spends it -/
theorem C13_credit_exact (es : List Event) (hc : ConsistentHistory {} es) (t : Tx) (ob : Option BlockMeta)
    (ht : (t, ob) ∈ known (ledgerAfter {} es)) :
    ∃ s d, storeAfter Store.empty {} es = .ok s ∧ txDetails s t.hash = .ok (some d) ∧
      d.credits = ((withIdx t.outs).filterMap fun (i, v) =>
        match lookup (ledgerAfter {} es).credit ⟨t.hash, i⟩ with
        | some chg => some (⟨i, v, Ledger.spent (ledgerAfter {} es) ⟨t.hash, i⟩, chg⟩ : CreditRecord)
        | none => none) ∧
      (d.credits.map (·.index)).Pairwise (· < ·) := by
  obtain ⟨s, h1, hg, hn, hs⟩ := good_sorted_reachable es hc
  have hd := details_refines_exact hg hn hs t.hash
  rw [details_known hg.lwf ht] at hd
  exact ⟨s, _, h1, hd, rfl, detailsOf_credits_sorted _ t ob⟩

/-- **C13, debit records, exactly**: the debit records are, as a LIST, the inputs of `t` that spend a credited output of
a known transaction, in ascending input index, each with that output's value -/
theorem C13_debit_exact (es : List Event) (hc : ConsistentHistory {} es) (t : Tx) (ob : Option BlockMeta)
    (ht : (t, ob) ∈ known (ledgerAfter {} es)) :
    ∃ s d, storeAfter Store.empty {} es = .ok s ∧ txDetails s t.hash = .ok (some d) ∧
      d.debits = ((withIdx t.ins).filterMap fun (j, inp) =>
        match creditValue (ledgerAfter {} es) inp with
        | some v => some (⟨j, v⟩ : DebitRecord)
        | none => none) ∧
      (d.debits.map (·.index)).Pairwise (· < ·) := by
  obtain ⟨s, h1, hg, hn, hs⟩ := good_sorted_reachable es hc
  have hd := details_refines_exact hg hn hs t.hash
  rw [details_known hg.lwf ht] at hd
  exact ⟨s, _, h1, hd, rfl, detailsOf_debits_sorted _ t ob⟩

/-- **C13, range queries, exactly**: `RangeTransactions begin end` answers exactly `Ledger.range` in which the
unconfirmed batch lists the pool in ASCENDING HASH order (`rangeWith … pool'`, `pool'` a permutation of the pool with
strictly ascending hashes — which determines `pool'`; `rangeWith L L.pool = Ledger.range L`): the same batches in the same
order (unconfirmed batch first / last by the −1 rule, blocks ascending / descending), every block batch EQUAL to the
ledger's — the block's transactions in the order the wallet learned them (the block record's list is appended to in
delivery order, and so is the ledger's) — and every record equal to the ledger's, record order included -/
theorem C13_range_exact (es : List Event) (hc : ConsistentHistory {} es) (b e : Int) :
    ∃ s pool', storeAfter Store.empty {} es = .ok s ∧ pool'.Perm (ledgerAfter {} es).pool ∧
      (pool'.map (·.hash)).Pairwise (· < ·) ∧
      rangeTransactions s b e = .ok (rangeWith (ledgerAfter {} es) pool' b e) := by
  obtain ⟨s, h1, hg, hn, hs⟩ := good_sorted_reachable es hc
  obtain ⟨hp, ho⟩ := unmined_order hg hs
  exact ⟨s, _, h1, hp, ho, range_refines_exact hg hn hs b e⟩

/-- the block batches alone (no −1 bound: no unconfirmed batch): the answer IS `Ledger.range` -/
theorem C13_range_blocks_exact (es : List Event) (hc : ConsistentHistory {} es) (b e : Int) (hb : ¬ b < 0)
    (he : ¬ e < 0) :
    ∃ s, storeAfter Store.empty {} es = .ok s ∧ rangeTransactions s b e = .ok (Ledger.range (ledgerAfter {} es) b e) := by
  obtain ⟨s, h1, hg, hn, hs⟩ := good_sorted_reachable es hc
  refine ⟨s, h1, ?_⟩
  rw [range_refines_exact hg hn hs b e, range_eq]
  unfold rangeWith
  simp [hb, he]

/-- non-vacuity: credits delivered in the order output 1, output 0 are listed in ascending output index; two
unconfirmed transactions delivered in the order hash 9, hash 4 are listed in ascending hash order -/
def exOrder : List Event :=
  [.confirmed ⟨⟨1, 11⟩, 100⟩ ⟨2, [⟨77, 0⟩], [300, 400]⟩ [(1, true), (0, false)],
   .seen ⟨9, [⟨2, 1⟩], [150]⟩ [(0, false)],
   .seen ⟨4, [⟨2, 0⟩], [250]⟩ [(0, true)]]

example : (storeAfter Store.empty {} exOrder >>= fun s => txDetails s 2) =
    .ok (some ⟨⟨2, [⟨77, 0⟩], [300, 400]⟩, some ⟨⟨1, 11⟩, 100⟩, [⟨0, 300, true, false⟩, ⟨1, 400, true, true⟩], []⟩) := by
  decide
example : (storeAfter Store.empty {} exOrder >>= fun s => rangeTransactions s 0 (-1)).map
    (·.map (·.map (·.tx.hash))) = .ok [[2], [4, 9]] := by decide
example : (ledgerAfter {} exOrder).pool.map (·.hash) = [9, 4] := by decide
example : ConsistentHistory {} exOrder := by
  unfold exOrder
  refine ⟨?_, ?_, ?_, trivial⟩ <;>
    exact ⟨by decide, by decide, fun t ht => by cases ht; exact ⟨by decide, by decide⟩⟩

end TxStore.C13

/-! ## Wallet level (fixJ): `Wallet.GetTransactions` on the wallet model of engine `walletchain-sync`

`SyncTip.getTransactions w from to` (Model/SyncTip.lean) is `wallet.GetTransactions` on the record-level wallet model
(`w.mined` = wtxmgr's mined records `(tx, height, block hash)`, `w.unmined` = its unmined records): one entry of
`MinedTransactions` per block record the store visits — ascending when `from' < to'`, descending otherwise, a negative
bound standing for the mempool height — holding the transactions recorded at that height, and `UnminedTransactions` iff a
bound is negative.  The engine compares it with the real `Wallet.GetTransactions` after every `gettxs` op; the theorems
say that this answer reports every record in the range exactly once, under its block, for EVERY wallet state and range. -/
namespace SyncTip

/-- **soundness**: every transaction id listed under a reported block belongs to a mined record at that height, and the
    height is in the range. -/
theorem C13_wallet_history_sound (w : Wallet) (f t : Int) (h : Nat) (ids : List Nat)
    (hm : (h, ids) ∈ (getTransactions w f t).mined) (id : Nat) (hid : id ∈ ids) :
    InRange f t h ∧ ∃ r ∈ w.mined, r.height = h ∧ r.tx.id = id :=
  history_sound w f t h ids hm id hid

/-- **exactly once**: when no transaction has two mined records (a transaction is confirmed in one block), a mined
    record whose height is in the range is reported under its block, that block occurs once in the answer, the
    transaction occurs once in that block's list, and it is listed under no other block — in both directions and for
    every pair of bounds. -/
theorem C13_wallet_history_once (w : Wallet) (f t : Int) (hnd : (w.mined.map (·.tx.id)).Nodup) (r : Mined)
    (hr : r ∈ w.mined) (hin : InRange f t r.height) :
    (r.height, txsAt w r.height) ∈ (getTransactions w f t).mined ∧
    (reportedHeights w f t).count r.height = 1 ∧
    (txsAt w r.height).count r.tx.id = 1 ∧
    ∀ h ids, (h, ids) ∈ (getTransactions w f t).mined → r.tx.id ∈ ids → h = r.height :=
  history_once w f t hnd r hr hin

/-- **blocks**: a height is reported iff a mined record exists at it and it lies in the range; no height twice. -/
theorem C13_wallet_history_blocks (w : Wallet) (f t : Int) :
    (∀ h, h ∈ reportedHeights w f t ↔ (∃ r ∈ w.mined, r.height = h) ∧ InRange f t h) ∧
    (reportedHeights w f t).Nodup :=
  ⟨mem_reportedHeights w f t, nodup_reportedHeights w f t⟩

/-- **order**: ascending iff `from' < to'`, otherwise descending. -/
theorem C13_wallet_history_order (w : Wallet) (f t : Int) :
    (rangeBound f < rangeBound t → (reportedHeights w f t).Pairwise (· < ·)) ∧
    (¬ rangeBound f < rangeBound t → (reportedHeights w f t).Pairwise (· > ·)) :=
  history_order w f t

/-- **unconfirmed**: the unmined records are reported (each as often as it is stored: once) iff one of the bounds is
    negative. -/
theorem C13_wallet_history_unmined (w : Wallet) (f t : Int) :
    (f < 0 ∨ t < 0 → (getTransactions w f t).unmined.Perm (w.unmined.map (·.id))) ∧
    (¬ (f < 0 ∨ t < 0) → (getTransactions w f t).unmined = []) :=
  history_unmined w f t

/-! Non-vacuity: blocks with 2, 1, 1 wallet transactions (the shape seed C13-6 needs), forwards and backwards. -/
example :
    let w : Wallet := { genesisWallet ⟨fun _ => 0, fun _ => []⟩ with
      mined := [⟨⟨1, false⟩, 2, some [2, 1]⟩, ⟨⟨2, false⟩, 2, some [2, 1]⟩, ⟨⟨3, false⟩, 3, some [3, 2, 1]⟩,
                ⟨⟨4, false⟩, 4, some [4, 3, 2, 1]⟩]
      unmined := [⟨9, false⟩] }
    (w.mined.map (·.tx.id)).Nodup ∧
    getTransactions w 0 (-1) = ⟨[(2, [1, 2]), (3, [3]), (4, [4])], [9]⟩ ∧
    getTransactions w (-1) 0 = ⟨[(4, [4]), (3, [3]), (2, [1, 2])], [9]⟩ ∧
    getTransactions w 3 2 = ⟨[(3, [3]), (2, [1, 2])], []⟩ := by
  refine ⟨by decide, by decide, by decide, by decide⟩

end SyncTip

