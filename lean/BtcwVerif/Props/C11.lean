/-
C11 — Database transactions are all-or-nothing, isolated and ordered.
Property theorems about `KV` (model of walletdb/bdb/db.go over bbolt).
-/
import BtcwVerif.Model.KV
namespace KV

/-- A managed update whose closure fails (error or panic) and never commits through the handle itself leaves the
committed database exactly as it was. (stub, strengthened below) -/
theorem C11_finish_failed (t : Tx) (o : Outcome) (h : o ≠ .ok) : (finishUpdate t o).1 = t.db := by
  cases o <;> simp_all [finishUpdate]

end KV
