/-
C11 — Database transactions are all-or-nothing, isolated and ordered.

Property theorems about `KV`, the model of walletdb/bdb/db.go (+ `Update`/`View`/`Batch` of walletdb/interface.go)
over bbolt.  A *program* is the list of calls a closure makes (`runOps` folds `step` over it); a *history* is a list
of transactions (`runHistory`).  Every theorem quantifies over all programs / histories, all prior database states,
all byte strings.  Helper lemmas are in `BtcwVerif/Lemmas/KV.lean`.
-/
import BtcwVerif.Lemmas.KV
open Std
namespace KV

/-! ## all-or-nothing -/

/-- **Atomicity of `walletdb.Update`.**  Whatever calls the closure makes (puts, deletes, bucket creation and deletion,
sequence and cursor operations, over any keys) — if it returns an error or panics, and did not itself call
`tx.Commit()` on the handle, the database is exactly what it was, the error is handed back, and every later
transaction behaves as if the failed one had never run ("still usable"). -/
theorem C11_update_atomic (db : DB) (prog : List Op) (o : Outcome) (hno : Op.commit ∉ prog) (ho : o ≠ .ok) :
    (update db prog o).1 = db ∧
    (o = .err → (update db prog o).2.2.1 = .err .user) ∧
    (∀ x : Txn, runTxn (update db prog o).1 x = runTxn db x) := by
  have hdb : (update db prog o).1 = db := by
    have := runOps_db_of_no_commit (Kind.update.begin db) prog hno
    cases o with
    | ok => exact absurd rfl ho
    | err => simpa [update, runTxn, finish, finishUpdate] using this
    | panic => simpa [update, runTxn, finish, finishUpdate] using this
  refine ⟨hdb, ?_, fun x => by rw [hdb]⟩
  intro e; subst e
  simp [update, runTxn, finish, finishUpdate]

/-- The hypothesis of `C11_update_atomic` is needed: bdb hands the closure an *unmanaged* bbolt transaction, so a
closure may call `tx.Commit()` itself and then return an error — the writes stay (bbolt's own `DB.Update` would
panic on such a call; bdb's `Update` does not use it). -/
theorem C11_explicit_commit_escapes :
    ∃ (prog : List Op), (update {} prog .err).1 ≠ ({} : DB) := by
  refine ⟨[.createBucketIfNotExists [] [1], .commit], ?_⟩
  intro h
  have := congrArg (fun d : DB => d[([[1]] : Path)]?) h
  simp [update, runTxn, runOps, step, Kind.begin, Tx.begin, Kind.writable, Tx.noteHandle, Tx.guardW, isBucket,
    Tx.applyW, createBucketIfNotExists, createBucket, finish, finishUpdate, Tx.touchCursors] at this

/-- **Atomicity of `walletdb.Batch`** (bbolt-managed: `Commit`/`Rollback` through the handle panic), any program. -/
theorem C11_batch_atomic (db : DB) (prog : List Op) (o : Outcome) (ho : o ≠ .ok) :
    (runTxn db ⟨.batch, prog, o⟩).1 = db := by
  have := (runOps_managed_open (Kind.batch.begin db) prog rfl).2
  cases o with
  | ok => exact absurd rfl ho
  | err => simpa [runTxn, finish, finishUpdate] using this
  | panic => simpa [runTxn, finish, finishUpdate] using this

/-- A hand-made read-write transaction that is dropped (rolled back) without `Commit` changes nothing. -/
theorem C11_manual_rollback (db : DB) (prog : List Op) (o : Outcome) (hno : Op.commit ∉ prog) :
    (runTxn db ⟨.manualRW, prog, o⟩).1 = db := by
  simpa [runTxn, finish, finishManual] using runOps_db_of_no_commit (Kind.manualRW.begin db) prog hno

/-! ## commit -/

/-- **Commit makes everything visible together.**  If the closure returns nil (and did not end the transaction
itself), `Update` answers nil, the database becomes exactly the transaction's final working state — every write
applied, in order — and that is what any later transaction of any kind starts from, also after the file has been
closed and reopened. -/
theorem C11_commit_visible (db : DB) (prog : List Op) (h : ∀ op ∈ prog, op ≠ .commit ∧ op ≠ .rollback) :
    let final := (runOps (Kind.update.begin db) prog).1.work
    (update db prog .ok).1 = final ∧
    (update db prog .ok).2.2.1 = .ok ∧
    reopen (update db prog .ok).1 = final ∧
    (∀ k : Kind, (k.begin (reopen (update db prog .ok).1)).work = final ∧ (k.begin (update db prog .ok).1).work = final) := by
  have hopen : (runOps (Kind.update.begin db) prog).1.closed = false := runOps_open _ _ h
  have h1 : (update db prog .ok).1 = (runOps (Kind.update.begin db) prog).1.work := by
    simp [update, runTxn, finish, finishUpdate, hopen]
  refine ⟨h1, ?_, h1, fun k => ⟨?_, ?_⟩⟩
  · simp [update, runTxn, finish, finishUpdate, hopen]
  · simp only [reopen, h1]; rfl
  · simp only [h1]; rfl

/-- Inside a transaction the committed state never moves before the commit: the calls only touch the private working
state (isolation of uncommitted writes). -/
theorem C11_uncommitted_invisible (t : Tx) (prog : List Op) (hno : Op.commit ∉ prog) :
    (runOps t prog).1.db = t.db :=
  runOps_db_of_no_commit t prog hno

/-- `OnCommit` handlers run exactly when the update commits: all of them after a nil return, none after an error or a
panic. -/
theorem C11_oncommit_iff_commit (db : DB) (prog : List Op) (o : Outcome)
    (h : ∀ op ∈ prog, op ≠ .commit ∧ op ≠ .rollback) :
    (update db prog o).2.2.2 = if o = .ok then prog.count .onCommit else 0 := by
  have hno : Op.commit ∉ prog := fun m => (h _ m).1 rfl
  have hopen : (runOps (Kind.update.begin db) prog).1.closed = false := runOps_open _ _ h
  have ⟨hf, hp⟩ := runOps_handlers (Kind.update.begin db) prog hno
  simp only [begin_fired, begin_pending] at hf hp
  cases o <;> simp [update, runTxn, finish, finishUpdate, hopen, hf, hp]

/-! ## read-only transactions -/

/-- **`walletdb.View` (and `BeginReadTx`) cannot modify anything**: for every program — including every mutator
reached through the concrete types, and `Commit` — and every outcome the database is unchanged. -/
theorem C11_view_readonly (db : DB) (prog : List Op) (o : Outcome) :
    (viewTx db prog o).1 = db ∧ (runTxn db ⟨.manualRO, prog, o⟩).1 = db := by
  have h1 := (runOps_readonly (Kind.view.begin db) prog rfl).2
  have h2 := (runOps_readonly (Kind.manualRO.begin db) prog rfl).2
  constructor
  · cases o
    · simp only [viewTx, runTxn, finish, finishView]
      split <;> exact h1
    · simpa [viewTx, runTxn, finish, finishView] using h1
    · simpa [viewTx, runTxn, finish, finishView] using h1
  · simpa [runTxn, finish, finishManual] using h2

/-- …and not even its own working state: every read inside a read-only transaction sees the state it began with. -/
theorem C11_view_snapshot (t : Tx) (prog : List Op) (h : t.writable = false) :
    (runOps t prog).1.work = t.work :=
  (runOps_readonly t prog h).1

/-- **Every mutator inside a read-only transaction is refused** with `ErrTxNotWritable` (bbolt's own unconverted
sentinel for `SetSequence`/`NextSequence`, which skip `convertErr`), whatever its arguments, as soon as its target
resolves; and `Commit` on a read transaction is refused too. -/
theorem C11_readonly_refuses (t : Tx) (op : Op) (hro : t.writable = false) (hopen : t.closed = false)
    (hmg : t.managed = false) (hm : op.isMutator = true) :
    (step t op).2 =
      match op with
      | .curDelete i => if (t.cursors.lookup i).isSome then .err .txNotWritable else .noCursor
      | .commit => .err .txNotWritable
      | _ => match op.bucket? with
        | some p => if isBucket t.work p then op.readOnlyAnswer else .noBucket
        | none => .ok :=
  readonly_refuses t op hro hopen hm hmg

example : (step (Kind.view.begin ((({} : DB).insert [[1]] (.bucket 0)))) (.put [[1]] [2] [3])).2
    = .err .txNotWritable := by
  rw [C11_readonly_refuses _ _ rfl rfl rfl rfl]
  simp [Op.bucket?, Op.readOnlyAnswer, isBucket]

/-! ## reads see the transaction's own writes -/

/-- **Read your writes.**  After a `Put` that answered nil, `Get` on the same bucket and key in the same transaction
returns the value, a cursor / `ForEach` over the bucket shows it, and this stays so across any further calls that
do not write that entry (nor delete a bucket above it). -/
theorem C11_read_your_writes (t : Tx) (p : Path) (k v : Bytes) (h : (step t (.put p k v)).2 = .ok) :
    let t' := (step t (.put p k v)).1
    (step t' (.get p k)).2 = .val (some v) ∧
    (k, some v) ∈ view t'.work p ∧
    (∀ mid, Untouched (p ++ [k]) t' mid →
      getVal (runOps t' mid).1.work p k = some v ∧ (k, some v) ∈ view (runOps t' mid).1.work p) := by
  obtain ⟨_, _, hb, hw, hc⟩ := step_put_ok h
  have hget : ∀ d : DB, d[p ++ [k]]? = some (.val v) → getVal d p k = some v ∧ (k, some v) ∈ view d p := by
    intro d hd
    exact ⟨by simp [getVal, hd], mem_view.mpr ⟨_, hd, rfl⟩⟩
  have h0 : (step t (.put p k v)).1.work[p ++ [k]]? = some (.val v) := by rw [hw, get_insert, if_pos rfl]
  refine ⟨?_, (hget _ h0).2, ?_⟩
  · rw [step_get_open _ _ _ hc (by rw [hw, isBucket_insert_child]; exact hb), (hget _ h0).1]
  · intro mid hmid
    exact hget _ ((runOps_untouched _ _ _ hmid).trans h0)

/-- …and after a `Delete` that answered nil the key is gone for the same transaction. -/
theorem C11_read_your_deletes (t : Tx) (p : Path) (k : Bytes) (h : (step t (.delete p k)).2 = .ok) :
    let t' := (step t (.delete p k)).1
    (step t' (.get p k)).2 = .val none ∧
    (∀ s, (k, s) ∉ view t'.work p) ∧
    (∀ mid, Untouched (p ++ [k]) t' mid → getVal (runOps t' mid).1.work p k = none) := by
  obtain ⟨_, _, hb, hw, hc⟩ := step_delete_ok h
  have h0 : (step t (.delete p k)).1.work[p ++ [k]]? = none := by rw [hw, get_erase, if_pos rfl]
  refine ⟨?_, ?_, ?_⟩
  · rw [step_get_open _ _ _ hc (by rw [hw, isBucket_erase_child]; exact hb)]
    simp [getVal, h0]
  · intro s hs
    obtain ⟨e, he, _⟩ := mem_view.mp hs
    rw [h0] at he; cases he
  · intro mid hmid
    simp [getVal, (runOps_untouched _ _ _ hmid).trans h0]

/-- **Frame.**  A call changes nothing but its footprint: the one entry `bucket ++ [key]` for
`Put`/`Delete`/`CreateBucket*`/cursor `Delete`, the bucket's own header for the sequence calls, the subtree for
`DeleteNestedBucket`; reads, cursor moves, `Commit`, `Rollback`, `OnCommit` change no entry at all. -/
theorem C11_frame (t : Tx) (op : Op) (q : Path) (h : ¬ footprint t op q) :
    (step t op).1.work[q]? = t.work[q]? :=
  step_frame t op q h

/-! ## nested buckets are independent namespaces -/

/-- **Independence.**  A call made on bucket `p` (directly or through a cursor over `p`) changes no read under a
bucket `Q` that is neither `p` nor below `p`: `Get` of every key, the cursor/`ForEach` view, the sequence number
and the existence of `Q` are all unchanged.  In particular sibling buckets, and parents, are unaffected. -/
theorem C11_buckets_independent (t : Tx) (op : Op) (p Q : Path)
    (hp : callBucket t op = some p) (hQ : ¬ p <+: Q) :
    SameUnder Q t.work (step t op).1.work :=
  step_independent t op Q (fun p' hp' => by rw [hp] at hp'; cases hp'; exact hQ)

/-- The same for whole programs: if every writing call is made outside `Q`'s ancestry line, nothing under `Q` moves. -/
theorem C11_buckets_independent_prog (t : Tx) (prog : List Op) (Q : Path) (h : Outside Q t prog) :
    SameUnder Q t.work (runOps t prog).1.work :=
  runOps_independent Q t prog h

/-- `Put`/`Delete` into `p` do not even disturb the buckets *below* `p` (only `DeleteNestedBucket` reaches down). -/
theorem C11_put_local (t : Tx) (p : Path) (k v : Bytes) (Q : Path) (hQ : Q ≠ p) :
    (∀ k', getVal (step t (.put p k v)).1.work Q k' = getVal t.work Q k') ∧
    view (step t (.put p k v)).1.work Q = view t.work Q := by
  have hf : ∀ k', ¬ footprint t (.put p k v) (Q ++ [k']) := by
    intro k' hf
    simp only [footprint] at hf
    exact hQ (append_singleton_inj.mp hf).1
  refine ⟨fun k' => ?_, view_ext (fun k' => by rw [step_frame _ _ _ (hf k')])⟩
  simp only [getVal, step_frame _ _ _ (hf k')]

end KV
