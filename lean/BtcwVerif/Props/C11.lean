/-
C11 — Database transactions are all-or-nothing, isolated and ordered.

Property theorems about `KV`, the model of walletdb/bdb/db.go (+ `Update`/`View`/`Batch` of walletdb/interface.go)
over bbolt.  A *program* is the list of calls a closure makes (`runOps` folds `step` over it); a *history* is a list
of transactions (`runHistory`).  Every theorem quantifies over all programs / histories, all prior database states,
all byte strings.  Helper lemmas are in `BtcwVerif/Lemmas/KV.lean`.
-/
import BtcwVerif.Lemmas.KV
open Std
namespace KV

/-! ## all-or-nothing -/

/-- **Atomicity of `walletdb.Update`.**  Whatever calls the closure makes (puts, deletes, bucket creation and deletion,
sequence and cursor operations, over any keys) — if it returns an error or panics, and did not itself call
`tx.Commit()` on the handle, the database is exactly what it was, the error is handed back, and every later
transaction behaves as if the failed one had never run ("still usable"). -/
theorem C11_update_atomic (db : DB) (prog : List Op) (o : Outcome) (hno : Op.commit ∉ prog) (ho : o ≠ .ok) :
    (update db prog o).1 = db ∧
    (o = .err → (update db prog o).2.2.1 = .err .user) ∧
    (∀ x : Txn, runTxn (update db prog o).1 x = runTxn db x) := by
  have hdb : (update db prog o).1 = db := by
    have := runOps_db_of_no_commit (Kind.update.begin db) prog hno
    cases o with
    | ok => exact absurd rfl ho
    | err => simpa [update, runTxn, finish, finishUpdate] using this
    | panic => simpa [update, runTxn, finish, finishUpdate] using this
  refine ⟨hdb, ?_, fun x => by rw [hdb]⟩
  intro e; subst e
  simp [update, runTxn, finish, finishUpdate]

/-- The hypothesis of `C11_update_atomic` is needed: bdb hands the closure an *unmanaged* bbolt transaction, so a
closure may call `tx.Commit()` itself and then return an error — the writes stay (bbolt's own `DB.Update` would
panic on such a call; bdb's `Update` does not use it). -/
theorem C11_explicit_commit_escapes :
    ∃ (prog : List Op), (update {} prog .err).1 ≠ ({} : DB) := by
  refine ⟨[.createBucketIfNotExists [] [1], .commit], ?_⟩
  intro h
  have := congrArg (fun d : DB => d[([[1]] : Path)]?) h
  simp [update, runTxn, runOps, step, Kind.begin, Tx.begin, Kind.writable, Tx.noteHandle, Tx.guardW, isBucket,
    Tx.applyW, createBucketIfNotExists, createBucket, finish, finishUpdate, Tx.touchCursors] at this

/-- **Atomicity of `walletdb.Batch`** (bbolt-managed: `Commit`/`Rollback` through the handle panic), any program. -/
theorem C11_batch_atomic (db : DB) (prog : List Op) (o : Outcome) (ho : o ≠ .ok) :
    (runTxn db ⟨.batch, prog, o⟩).1 = db := by
  have := (runOps_managed_open (Kind.batch.begin db) prog rfl).2
  cases o with
  | ok => exact absurd rfl ho
  | err => simpa [runTxn, finish, finishUpdate] using this
  | panic => simpa [runTxn, finish, finishUpdate] using this

/-- A hand-made read-write transaction that is dropped (rolled back) without `Commit` changes nothing. -/
theorem C11_manual_rollback (db : DB) (prog : List Op) (o : Outcome) (hno : Op.commit ∉ prog) :
    (runTxn db ⟨.manualRW, prog, o⟩).1 = db := by
  simpa [runTxn, finish, finishManual] using runOps_db_of_no_commit (Kind.manualRW.begin db) prog hno

/-! ## commit -/

/-- **Commit makes everything visible together.**  If the closure returns nil (and did not end the transaction
itself), `Update` answers nil, the database becomes exactly the transaction's final working state — every write
applied, in order — and that is what any later transaction of any kind starts from, also after the file has been
closed and reopened. -/
theorem C11_commit_visible (db : DB) (prog : List Op) (h : ∀ op ∈ prog, op ≠ .commit ∧ op ≠ .rollback) :
    let final := (runOps (Kind.update.begin db) prog).1.work
    (update db prog .ok).1 = final ∧
    (update db prog .ok).2.2.1 = .ok ∧
    reopen (update db prog .ok).1 = final ∧
    (∀ k : Kind, (k.begin (reopen (update db prog .ok).1)).work = final ∧ (k.begin (update db prog .ok).1).work = final) := by
  have hopen : (runOps (Kind.update.begin db) prog).1.closed = false := runOps_open _ _ h
  have h1 : (update db prog .ok).1 = (runOps (Kind.update.begin db) prog).1.work := by
    simp [update, runTxn, finish, finishUpdate, hopen]
  refine ⟨h1, ?_, h1, fun k => ⟨?_, ?_⟩⟩
  · simp [update, runTxn, finish, finishUpdate, hopen]
  · simp only [reopen, h1]; rfl
  · simp only [h1]; rfl

/-- Inside a transaction the committed state never moves before the commit: the calls only touch the private working
state (isolation of uncommitted writes). -/
theorem C11_uncommitted_invisible (t : Tx) (prog : List Op) (hno : Op.commit ∉ prog) :
    (runOps t prog).1.db = t.db :=
  runOps_db_of_no_commit t prog hno

/-- `OnCommit` handlers run exactly when the update commits: all of them after a nil return, none after an error or a
panic. -/
theorem C11_oncommit_iff_commit (db : DB) (prog : List Op) (o : Outcome)
    (h : ∀ op ∈ prog, op ≠ .commit ∧ op ≠ .rollback) :
    (update db prog o).2.2.2 = if o = .ok then prog.count .onCommit else 0 := by
  have hno : Op.commit ∉ prog := fun m => (h _ m).1 rfl
  have hopen : (runOps (Kind.update.begin db) prog).1.closed = false := runOps_open _ _ h
  have ⟨hf, hp⟩ := runOps_handlers (Kind.update.begin db) prog hno
  simp only [begin_fired, begin_pending] at hf hp
  cases o <;> simp [update, runTxn, finish, finishUpdate, hopen, hf, hp]

/-! ## read-only transactions -/

/-- **`walletdb.View` (and `BeginReadTx`) cannot modify anything**: for every program — including every mutator
reached through the concrete types, and `Commit` — and every outcome the database is unchanged. -/
theorem C11_view_readonly (db : DB) (prog : List Op) (o : Outcome) :
    (viewTx db prog o).1 = db ∧ (runTxn db ⟨.manualRO, prog, o⟩).1 = db := by
  have h1 := (runOps_readonly (Kind.view.begin db) prog rfl).2
  have h2 := (runOps_readonly (Kind.manualRO.begin db) prog rfl).2
  constructor
  · cases o
    · simp only [viewTx, runTxn, finish, finishView]
      split <;> exact h1
    · simpa [viewTx, runTxn, finish, finishView] using h1
    · simpa [viewTx, runTxn, finish, finishView] using h1
  · simpa [runTxn, finish, finishManual] using h2

/-- …and not even its own working state: every read inside a read-only transaction sees the state it began with. -/
theorem C11_view_snapshot (t : Tx) (prog : List Op) (h : t.writable = false) :
    (runOps t prog).1.work = t.work :=
  (runOps_readonly t prog h).1

/-- **Every mutator inside a read-only transaction is refused** with `ErrTxNotWritable` (bbolt's own unconverted
sentinel for `SetSequence`/`NextSequence`, which skip `convertErr`), whatever its arguments, as soon as its target
resolves; and `Commit` on a read transaction is refused too. -/
theorem C11_readonly_refuses (t : Tx) (op : Op) (hro : t.writable = false) (hopen : t.closed = false)
    (hmg : t.managed = false) (hm : op.isMutator = true) :
    (step t op).2 =
      match op with
      | .curDelete i => if (t.cursors.lookup i).isSome then .err .txNotWritable else .noCursor
      | .commit => .err .txNotWritable
      | _ => match op.bucket? with
        | some p => if isBucket t.work p then op.readOnlyAnswer else .noBucket
        | none => .ok :=
  readonly_refuses t op hro hopen hm hmg

example : (step (Kind.view.begin ((({} : DB).insert [[1]] (.bucket 0)))) (.put [[1]] [2] [3])).2
    = .err .txNotWritable := by
  rw [C11_readonly_refuses _ _ rfl rfl rfl rfl]
  simp [Op.bucket?, Op.readOnlyAnswer, isBucket]

/-! ## reads see the transaction's own writes -/

/-- **Read your writes.**  After a `Put` that answered nil, `Get` on the same bucket and key in the same transaction
returns the value, a cursor / `ForEach` over the bucket shows it, and this stays so across any further calls that
do not write that entry (nor delete a bucket above it). -/
theorem C11_read_your_writes (t : Tx) (p : Path) (k v : Bytes) (h : (step t (.put p k v)).2 = .ok) :
    let t' := (step t (.put p k v)).1
    (step t' (.get p k)).2 = .val (some v) ∧
    (k, some v) ∈ view t'.work p ∧
    (∀ mid, Untouched (p ++ [k]) t' mid →
      getVal (runOps t' mid).1.work p k = some v ∧ (k, some v) ∈ view (runOps t' mid).1.work p) := by
  obtain ⟨_, _, hb, hw, hc⟩ := step_put_ok h
  have hget : ∀ d : DB, d[p ++ [k]]? = some (.val v) → getVal d p k = some v ∧ (k, some v) ∈ view d p := by
    intro d hd
    exact ⟨by simp [getVal, hd], mem_view.mpr ⟨_, hd, rfl⟩⟩
  have h0 : (step t (.put p k v)).1.work[p ++ [k]]? = some (.val v) := by rw [hw, get_insert, if_pos rfl]
  refine ⟨?_, (hget _ h0).2, ?_⟩
  · rw [step_get_open _ _ _ hc (by rw [hw, isBucket_insert_child]; exact hb), (hget _ h0).1]
  · intro mid hmid
    exact hget _ ((runOps_untouched _ _ _ hmid).trans h0)

/-- …and after a `Delete` that answered nil the key is gone for the same transaction. -/
theorem C11_read_your_deletes (t : Tx) (p : Path) (k : Bytes) (h : (step t (.delete p k)).2 = .ok) :
    let t' := (step t (.delete p k)).1
    (step t' (.get p k)).2 = .val none ∧
    (∀ s, (k, s) ∉ view t'.work p) ∧
    (∀ mid, Untouched (p ++ [k]) t' mid → getVal (runOps t' mid).1.work p k = none) := by
  obtain ⟨_, _, hb, hw, hc⟩ := step_delete_ok h
  have h0 : (step t (.delete p k)).1.work[p ++ [k]]? = none := by rw [hw, get_erase, if_pos rfl]
  refine ⟨?_, ?_, ?_⟩
  · rw [step_get_open _ _ _ hc (by rw [hw, isBucket_erase_child]; exact hb)]
    simp [getVal, h0]
  · intro s hs
    obtain ⟨e, he, _⟩ := mem_view.mp hs
    rw [h0] at he; cases he
  · intro mid hmid
    simp [getVal, (runOps_untouched _ _ _ hmid).trans h0]

/-- **Frame.**  A call changes nothing but its footprint: the one entry `bucket ++ [key]` for
`Put`/`Delete`/`CreateBucket*`/cursor `Delete`, the bucket's own header for the sequence calls, the subtree for
`DeleteNestedBucket`; reads, cursor moves, `Commit`, `Rollback`, `OnCommit` change no entry at all. -/
theorem C11_frame (t : Tx) (op : Op) (q : Path) (h : ¬ footprint t op q) :
    (step t op).1.work[q]? = t.work[q]? :=
  step_frame t op q h

/-! ## nested buckets are independent namespaces -/

/-- **Independence.**  A call made on bucket `p` (directly or through a cursor over `p`) changes no read under a
bucket `Q` that is neither `p` nor below `p`: `Get` of every key, the cursor/`ForEach` view, the sequence number
and the existence of `Q` are all unchanged.  In particular sibling buckets, and parents, are unaffected. -/
theorem C11_buckets_independent (t : Tx) (op : Op) (p Q : Path)
    (hp : callBucket t op = some p) (hQ : ¬ p <+: Q) :
    SameUnder Q t.work (step t op).1.work :=
  step_independent t op Q (fun p' hp' => by rw [hp] at hp'; cases hp'; exact hQ)

/-- The same for whole programs: if every writing call is made outside `Q`'s ancestry line, nothing under `Q` moves. -/
theorem C11_buckets_independent_prog (t : Tx) (prog : List Op) (Q : Path) (h : Outside Q t prog) :
    SameUnder Q t.work (runOps t prog).1.work :=
  runOps_independent Q t prog h

/-- `Put`/`Delete` into `p` do not even disturb the buckets *below* `p` (only `DeleteNestedBucket` reaches down). -/
theorem C11_put_local (t : Tx) (p : Path) (k v : Bytes) (Q : Path) (hQ : Q ≠ p) :
    (∀ k', getVal (step t (.put p k v)).1.work Q k' = getVal t.work Q k') ∧
    view (step t (.put p k v)).1.work Q = view t.work Q := by
  have hf : ∀ k', ¬ footprint t (.put p k v) (Q ++ [k']) := by
    intro k' hf
    simp only [footprint] at hf
    exact hQ (append_singleton_inj.mp hf).1
  refine ⟨fun k' => ?_, view_ext (fun k' => by rw [step_frame _ _ _ (hf k')])⟩
  simp only [getVal, step_frame _ _ _ (hf k')]

/-! ## keys iterate in ascending byte order, in both directions -/

/-- What a cursor or `ForEach` over a bucket sees is strictly ascending in byte order (`bytes.Compare`): keys and
nested bucket names merged, no duplicates. -/
theorem C11_cursor_sorted (d : DB) (p : Path) :
    (view d p).Pairwise (fun a b => compare a.1 b.1 = .lt) :=
  view_sorted d p

/-- `ForEach` on an open transaction hands the callback exactly that ascending sequence (nested buckets with a nil
value); a callback error after `n` entries stops it there. -/
theorem C11_foreach_sorted (t : Tx) (p : Path) (ho : t.closed = false) (hb : isBucket t.work p = true) :
    (step t (.forEach p none)).2 = .entries (view t.work p) false ∧
    (view t.work p).Pairwise (fun a b => compare a.1 b.1 = .lt) := by
  refine ⟨?_, view_sorted _ _⟩
  simp [step, ho, hb]

/-- **Forward iteration.**  `First` followed by any number of `Next` on a live cursor returns the entries of the
bucket one by one in strictly ascending order and nil from the end on (the cursor then stays on the last entry). -/
theorem C11_cursor_forward (t : Tx) (i : Nat) (P : Path) (pos : Option Nat) (h : LiveCursor t i P pos) (m : Nat) :
    (runOps t (.curFirst i :: List.replicate m (.curNext i))).2 =
      (List.range (m + 1)).map (fun j => Reply.entry (view t.work P)[j]?) ∧
    (view t.work P).Pairwise (fun a b => compare a.1 b.1 = .lt) := by
  refine ⟨?_, view_sorted _ _⟩
  obtain ⟨hr, hl, hw⟩ := step_first_live h
  have hl' : LiveCursor (step t (.curFirst i)).1 i P
      (some (min 0 ((view (step t (.curFirst i)).1.work P).length - 1))) := by
    rw [Nat.zero_min]; exact hl
  rw [runOps_cons, next_iter m _ i P 0 hl', hw, hr, List.range_succ_eq_map, List.map_cons, List.map_map]
  dsimp only
  congr 1
  apply List.map_congr_left
  intro r _
  simp only [Function.comp]
  congr 2
  omega

/-- **Backward iteration.**  `Last` followed by any number of `Prev` returns the same entries in the reverse
(strictly descending) order and nil from the beginning on. -/
theorem C11_cursor_backward (t : Tx) (i : Nat) (P : Path) (pos : Option Nat) (h : LiveCursor t i P pos) (m : Nat) :
    (runOps t (.curLast i :: List.replicate m (.curPrev i))).2 =
      (List.range (m + 1)).map (fun j => Reply.entry (view t.work P).reverse[j]?) := by
  obtain ⟨hr, hl, hw⟩ := step_last_live h
  rw [runOps_cons, prev_iter m _ i P _ hl, hw, hr, List.range_succ_eq_map, List.map_cons, List.map_map]
  dsimp only
  generalize view t.work P = L
  have hrev : ∀ j, L.reverse[j]? = if j < L.length then L[L.length - 1 - j]? else none := by
    intro j
    by_cases hj : j < L.length
    · rw [List.getElem?_reverse hj, if_pos hj]
    · rw [if_neg hj, List.getElem?_eq_none (by simpa using hj)]
  congr 1
  · rw [hrev 0]
    by_cases h0 : 0 < L.length
    · simp [h0]
    · have : L = [] := by cases L <;> simp_all
      simp [this]
  · apply List.map_congr_left
    intro r _
    simp only [Function.comp]
    rw [hrev (r + 1)]
    by_cases h1 : r < L.length - 1
    · have h2 : r + 1 < L.length := by omega
      have e : L.length - 1 - 1 - r = L.length - 1 - (r + 1) := by omega
      simp [h1, h2, e]
    · have h2 : ¬ r + 1 < L.length := by omega
      simp [h1, h2]

/-- **Seek.**  `Seek k` answers the entry with the least key `≥ k` in byte order, or nil when every key is smaller. -/
theorem C11_cursor_seek (t : Tx) (i : Nat) (P : Path) (pos : Option Nat) (h : LiveCursor t i P pos) (k : Bytes) :
    ∃ r, (step t (.curSeek i k)).2 = .entry r ∧
      match r with
      | some e => e ∈ view t.work P ∧ compare e.1 k ≠ .lt ∧
          ∀ e' ∈ view t.work P, compare e'.1 k ≠ .lt → e' = e ∨ compare e.1 e'.1 = .lt
      | none => ∀ e' ∈ view t.work P, compare e'.1 k = .lt := by
  refine ⟨_, (step_seek_live h k).1, ?_⟩
  have := seekPos_spec (view t.work P) k (view_sorted _ _)
  split at this
  · rename_i e he; rw [he]; exact ⟨this.2.1, this.1, this.2.2⟩
  · rename_i hn; rw [hn]; exact this

/-- the hypotheses of the cursor theorems are satisfiable: opening a cursor on an existing bucket gives a live one. -/
example : LiveCursor (step (Kind.update.begin (({} : DB).insert [[1]] (.bucket 0))) (.curOpen 0 [[1]])).1 0 [[1]] none := by
  refine ⟨by simp [step, Tx.guardR, isBucket], ⟨⟨[[1]], none, false⟩, ?_, rfl, rfl, rfl⟩⟩
  simp [step, Tx.guardR, isBucket, Tx.noteHandle, Tx.setCursor]

/-! ## the store stays usable -/

/-- **Still usable.**  Every transaction of every kind, with any program of API calls and any outcome — commit,
error, panic, explicit `Commit`/`Rollback` — takes a well-formed store (every entry lives in an existing bucket,
no empty keys, nothing at the root path) to a well-formed store.  The empty database is well-formed, so every
reachable database is. -/
theorem C11_wf_preserved (db : DB) (x : Txn) (w : WF db) (hapi : ∀ op ∈ x.prog, op.apiOk = true) :
    WF (runTxn db x).1 := by
  have ⟨wd, ww⟩ := runOps_wf (x.kind.begin db) x.prog w w hapi
  simp only [runTxn]
  cases hk : x.kind <;> cases ho : x.outcome <;>
    simp only [finish, finishUpdate, finishView, finishManual] <;> (try split) <;>
    first | exact (hk ▸ wd) | exact (hk ▸ ww)

theorem C11_wf_history (h : List Txn) (hapi : ∀ x ∈ h, ∀ op ∈ x.prog, op.apiOk = true) :
    WF (runHistory {} h).1 := by
  suffices ∀ db, WF db → WF (runHistory db h).1 from this _ WF.empty
  induction h with
  | nil => intro db w; exact w
  | cons x rest ih =>
    intro db w
    rw [runHistory_cons]
    exact ih (fun y hy => hapi y (List.mem_cons_of_mem _ hy)) _
      (C11_wf_preserved db x w (hapi x List.mem_cons_self))

/-! ## histories -/

/-- a transaction that cannot have committed leaves the database as it was. -/
theorem C11_inert_txn (db : DB) (x : Txn) (h : x.inert = true) : (runTxn db x).1 = db := by
  obtain ⟨kind, prog, o⟩ := x
  have hc : ∀ {l : List Op}, (!l.contains Op.commit) = true → Op.commit ∉ l := by
    intro l hl hm
    simp at hl
    exact hl hm
  cases kind <;> simp only [Txn.inert] at h
  · have ho : o ≠ .ok := by intro e; subst e; simp at h
    have hno : Op.commit ∉ prog := hc (by simp only [Bool.and_eq_true] at h; exact h.2)
    exact (C11_update_atomic db prog o hno ho).1
  · exact (C11_view_readonly db prog o).1
  · have ho : o ≠ .ok := by intro e; subst e; simp at h
    exact C11_batch_atomic db prog o ho
  · exact C11_manual_rollback db prog o (hc h)
  · exact (C11_view_readonly db prog o).2

/-- **Histories.**  In any sequence of transactions (committed, failed, panicking, read-only, hand-made), the ones
that cannot have committed can be erased without changing the final database: the database is a function of the
committing transactions alone. -/
theorem C11_history_failed_erasable (db : DB) (h : List Txn) :
    (runHistory db (h.filter (fun x => !x.inert))).1 = (runHistory db h).1 := by
  induction h generalizing db with
  | nil => rfl
  | cons x rest ih =>
    rw [runHistory_cons]
    by_cases hx : x.inert = true
    · rw [List.filter_cons_of_neg (by simp [hx]), C11_inert_txn db x hx]; exact ih db
    · rw [List.filter_cons_of_pos (by simp [hx]), runHistory_cons]; exact ih _

/-- …and every other transaction of the history gets the very same answers whether or not the failed one ran. -/
theorem C11_history_failed_unobservable (db : DB) (h₁ h₂ : List Txn) (x : Txn) (hx : x.inert = true) :
    (runHistory db (h₁ ++ x :: h₂)).1 = (runHistory db (h₁ ++ h₂)).1 ∧
    ∃ rx, (runHistory db (h₁ ++ x :: h₂)).2 =
            (runHistory db h₁).2 ++ rx :: (runHistory (runHistory db h₁).1 h₂).2 ∧
          (runHistory db (h₁ ++ h₂)).2 = (runHistory db h₁).2 ++ (runHistory (runHistory db h₁).1 h₂).2 := by
  rw [runHistory_append, runHistory_append, runHistory_cons, C11_inert_txn _ x hx]
  exact ⟨rfl, _, rfl, rfl⟩

/-! ## concurrent `Batch` callers -/

/-- **Concurrent `walletdb.Batch` callers** writing different entries: each caller gets exactly the answer of a solo run
(nil ⇒ its write is in the database, error/panic ⇒ it is not), and the resulting database does not depend on the order
in which bbolt happened to run (or re-run) them. -/
theorem C11_batch_calls_commute (db : DB) (c₁ c₂ : BatchCall) (hne : c₁.p ++ [c₁.k] ≠ c₂.p ++ [c₂.k]) :
    (batchCall (batchCall db c₁).1 c₂).2 = (batchCall db c₂).2 ∧
    (batchCall (batchCall db c₂).1 c₁).2 = (batchCall db c₁).2 ∧
    (batchCall (batchCall db c₁).1 c₂).1 = (batchCall (batchCall db c₂).1 c₁).1 :=
  batchCall_commute db c₁ c₂ hne

/-- a `Batch` caller that is answered nil has its write in the database; one that is answered an error or panics has
changed nothing. -/
theorem C11_batch_call_result (db : DB) (c : BatchCall) :
    ((batchCall db c).2 = .ok → getVal (batchCall db c).1 c.p c.k = some c.v) ∧
    ((batchCall db c).2 ≠ .ok → (batchCall db c).1 = db) := by
  rw [batchCall_eq]
  unfold batchCallSpec
  rw [put_eq]
  cases isBucket db c.p <;> cases putErr c.k c.v db[c.p ++ [c.k]]? <;> cases c.o <;>
    simp [getVal]

/-! ## non-vacuity: concrete instances of the hypotheses used above -/

/-- a database with one top-level bucket `01`. -/
def exDB : DB := ({} : DB).insert [[1]] (.bucket 0)

/-- a failing program that really writes: creates bucket `02`, puts `03 ↦ 04` into bucket `01`. -/
def exProg : List Op := [.createBucketIfNotExists [] [2], .put [[1]] [3] [4], .nextSequence [[1]]]

example : Op.commit ∉ exProg ∧ Outcome.panic ≠ Outcome.ok := by decide

/-- the working state of that failing transaction differs from the database (so atomicity discards something). -/
example : (runOps (Kind.update.begin exDB) exProg).1.work[([[1], [3]] : Path)]? = some (.val [4]) ∧
    exDB[([[1], [3]] : Path)]? = none ∧ (update exDB exProg .panic).1 = exDB := by
  refine ⟨by decide, by decide, (C11_update_atomic _ _ _ (by decide) (by decide)).1⟩

/-- the hypothesis of `C11_read_your_writes` holds for a plain `Put` into an existing bucket. -/
example : (step (Kind.update.begin exDB) (.put [[1]] [3] [4])).2 = .ok := by decide

/-- a complete instance of the cursor theorems: three keys inserted out of order come back sorted, both ways. -/
example :
    (runOps (Kind.update.begin exDB)
      [.put [[1]] [9] [0], .put [[1]] [3] [0], .put [[1]] [5, 0] [0], .createBucket [[1]] [5],
       .curOpen 0 [[1]], .curFirst 0, .curNext 0, .curNext 0, .curNext 0, .curNext 0,
       .curLast 0, .curPrev 0, .curSeek 0 [4], .curSeek 0 [9, 1]]).2.drop 5 =
    [.entry (some ([3], some [0])), .entry (some ([5], none)), .entry (some ([5, 0], some [0])),
     .entry (some ([9], some [0])), .entry none,
     .entry (some ([9], some [0])), .entry (some ([5, 0], some [0])),
     .entry (some ([5], none)), .entry none] := by decide

/-- `Untouched`: writing another key of the same bucket and a key of another bucket leaves entry `01/03` alone. -/
example (t : Tx) : Untouched ([[1]] ++ [[3]]) t [.put [[1]] [9] [9], .delete [[2]] [3], .get [[1]] [3]] := by
  simp [Untouched, footprint]

/-- `Outside`: calls on the sibling bucket `02` and on a child `01/05/…` of a *different* branch are outside `01/07`. -/
example (t : Tx) : Outside [[1], [7]] t [.put [[2]] [9] [9], .deleteBucket [[1], [5]] [6], .setSequence [[2]] 4] := by
  simp [Outside, callBucket]

example : (Txn.mk .update exProg .err).inert = true ∧ (Txn.mk .update exProg .ok).inert = false ∧
    (Txn.mk .view exProg .ok).inert = true := by decide

example : (batchCalls exDB [⟨[[1]], [7], [], .ok⟩, ⟨[[1]], [8], [1], .err⟩, ⟨[[1]], [], [1], .ok⟩]).2
    = [.ok, .err .user, .err .keyRequired] := by decide

end KV
