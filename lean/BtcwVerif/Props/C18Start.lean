import BtcwVerif.Model.QueueStart
import BtcwVerif.Model.QueueTwo
import BtcwVerif.Gen.QueueStartGen
/-!
# C18 — the caller-side obligation: one worker per `ConcurrentQueue`

`Props/C18.lean` proves order / no loss / no duplication for the transition system with ONE worker goroutine.
`(*ConcurrentQueue).Start` spawns a worker per call, so the property needs "Start is called at most once per queue
instance".  This file ties that to the source and shows that it matters:

* `C18_generated_queue_started_once` — on the facts re-extracted from chain/*.go on every run: there is a call site of
  `Start`, every call site is a straight-line statement behind a test-and-set guard on the same receiver, NO write
  anywhere in the package re-opens such a guard, every queue sits in a struct field initialised in a constructor
  literal, and nothing else is done with a queue (`decide`).
* `C18_guarded_start_at_most_one_worker` — a guard that is never reset lets at most one worker be spawned, for every
  sequence of `Start()` calls; `C18_guard_reset_two_workers` — one reset between two calls gives two workers (this
  is exactly a "retryable" `BitcoindClient.Start()` that stores 0 into `started` on its error paths).
* `C18_two_workers_reorder`, `C18_two_workers_duplicate`, `C18_two_workers_stale_redelivery` — with two workers on
  one queue (model `QueueTwo`, the same loop) the consumer can see `[2, 1]` for accepted `[1, 2]` (no overflow needed),
  and `[1, 2, 2]` for accepted `[1, 2, 3]` (both workers cached the same overflow element; `list.Remove` of an already
  removed element is a no-op), for items that are pairwise distinct.
* `C18_two_model_one_worker_agrees` — sanity of the model used for the witnesses: run with ONE worker on the schedules
  below it produces exactly what the proved one-worker model (`Queue.run` under `Queue.expectedTable`) produces.
-/
namespace QueueStart

/-- The regenerated call-site facts satisfy the once-obligation. -/
theorem C18_generated_queue_started_once : startedOnce QueueStartGen.facts = true := by decide

/-- Invariant of the guard: the number of workers is 1 if the guard is set and 0 otherwise. -/
def GInv (s : GState) : Prop := s.workers = if s.started then 1 else 0

theorem gstep_start_inv {s : GState} (h : GInv s) : GInv (gstep s .start) := by
  unfold GInv gstep at *
  cases hs : s.started <;> simp_all

theorem grun_inv : ∀ (tr : List GOp) (s : GState), GInv s → (∀ o ∈ tr, o ≠ .reset) → GInv (grun s tr)
  | [], _, h, _ => h
  | o :: tr, s, h, hno => by
    have ho : o = .start := by
      cases o with
      | start => rfl
      | reset => exact absurd rfl (hno .reset (by simp))
    subst ho
    exact grun_inv tr _ (gstep_start_inv h) (fun o ho => hno o (by simp [ho]))

/-- However often `Start()` is called (concurrently or not — the test-and-set is atomic): if nothing resets the guard,
at most one worker goroutine exists, and exactly one once `Start()` has been called. -/
theorem C18_guarded_start_at_most_one_worker (tr : List GOp) (hno : ∀ o ∈ tr, o ≠ .reset) :
    (grun {} tr).workers ≤ 1 ∧ (tr ≠ [] → (grun {} tr).workers = 1) := by
  have h := grun_inv tr {} (by simp [GInv]) hno
  unfold GInv at h
  refine ⟨by rw [h]; split <;> omega, fun hne => ?_⟩
  cases tr with
  | nil => exact absurd rfl hne
  | cons o tr =>
    have ho : o = .start := by
      cases o with
      | start => rfl
      | reset => exact absurd rfl (hno .reset (by simp))
    subst ho
    -- after the first `start` the guard is set, and without reset it stays set
    have hset : ∀ (tr : List GOp) (s : GState), s.started = true → (∀ o ∈ tr, o ≠ .reset) → (grun s tr).started = true := by
      intro tr
      induction tr with
      | nil => intro s hs _; exact hs
      | cons o tr ih =>
        intro s hs hno
        have ho : o = .start := by
          cases o with
          | start => rfl
          | reset => exact absurd rfl (hno .reset (by simp))
        subst ho
        exact ih _ (by simp [gstep, hs]) (fun o ho => hno o (by simp [ho]))
    have hs := hset tr (gstep {} .start) (by simp [gstep]) (fun o ho => hno o (by simp [ho]))
    have : grun {} (GOp.start :: tr) = grun (gstep {} .start) tr := rfl
    rw [this] at h ⊢
    rw [h, hs]; rfl

/-- A single reset of the guard between two calls of `Start()` gives two workers on the same queue
(first `Start()` fails after `notificationQueue.Start()`, stores 0 into `started`, the caller retries). -/
theorem C18_guard_reset_two_workers : (grun {} [.start, .reset, .start]).workers = 2 := by decide

/-- Sensitivity of the obligation itself, for ANY extracted facts: one resetting write (`atomic.StoreInt32(&c.started, 0)`,
`c.started = 0`, …) to the guard that protects some call site of `Start` makes `startedOnce` false. -/
theorem C18_started_once_rejects_reset (f : Facts) (s : StartSite) (g : Nat) (w : GuardWrite)
    (hs : s ∈ f.sites) (hg : s.guard = some g) (hw : w ∈ f.writes) (hwg : w.guard = g) (hr : w.resets = true) :
    startedOnce f = false := by
  have hmem : w ∈ resetsOf f g := by simp [resetsOf, List.mem_filter, hw, hwg, hr]
  have hne : (resetsOf f g).isEmpty = false := by
    cases h : resetsOf f g with
    | nil => rw [h] at hmem; cases hmem
    | cons _ _ => rfl
  have hsite : siteOk f s = false := by simp [siteOk, hg, hne]
  have hall : f.sites.all (siteOk f) = false := by
    rw [List.all_eq_false]; exact ⟨s, hs, by simp [hsite]⟩
  simp [startedOnce, hall]

/-- The hypotheses are satisfiable on the current source: the call site in `(*BitcoindClient).Start` is guarded. -/
example : ∃ s ∈ QueueStartGen.facts.sites, s.guard.isSome = true := by decide

/-- Likewise an unguarded or non-straight-line call site is rejected. -/
theorem C18_started_once_rejects_unguarded (f : Facts) (s : StartSite) (hs : s ∈ f.sites)
    (h : s.guard = none ∨ s.straight = false) : startedOnce f = false := by
  have hsite : siteOk f s = false := by
    rcases h with h | h <;> simp [siteOk, h]
  have hall : f.sites.all (siteOk f) = false := by
    rw [List.all_eq_false]; exact ⟨s, hs, by simp [hsite]⟩
  simp [startedOnce, hall]

end QueueStart

namespace QueueTwo

/-! ### Two workers on one queue: closed witnesses -/

/-- Schedule: both workers block in the first `select`; worker 0 receives 1, worker 1 receives 2; worker 1 is faster
with its nested `chanOut <- item`. -/
def reorderTrace : List (Label Nat) :=
  [.w 0 .enter, .w 1 .enter, .w 0 (.recvIn 1), .w 1 (.recvIn 2), .w 1 .sendItem, .w 0 .sendItem, .consume, .consume]

/-- Two workers, buffer of 2, two distinct items, no overflow, no `Stop()`: delivered in the wrong order. -/
theorem C18_two_workers_reorder :
    ∃ s, run (init Nat 2 2) reorderTrace = some s ∧ s.accepted = [1, 2] ∧ s.delivered = [2, 1] ∧ s.lost = [] :=
  ⟨_, rfl, rfl, rfl, rfl⟩

/-- Schedule (buffer of 1): worker 0 moves 1 to `chanOut`, then pushes 2 to the overflow list and blocks offering
element #0 (= 2); worker 1 receives 3, pushes it and ALSO blocks offering element #0.  The consumer takes 1; worker 0
delivers 2 and removes element #0; the consumer takes 2; worker 1 delivers its cached 2 again (`Remove` is a no-op). -/
def dupTrace : List (Label Nat) :=
  [.w 0 .enter, .w 1 .enter,
   .w 0 (.recvIn 1), .w 0 .sendItem, .w 0 .enter,
   .w 0 (.recvIn 2), .w 0 .dflt, .w 0 .enter,
   .w 1 (.recvIn 3), .w 1 .dflt, .w 1 .enter,
   .consume, .w 0 .sendFront, .consume, .w 1 .sendFront, .consume]

/-- Two workers, three pairwise distinct items: one of them is delivered twice. -/
theorem C18_two_workers_duplicate :
    ∃ s, run (init Nat 1 2) dupTrace = some s ∧ s.accepted = [1, 2, 3] ∧ s.delivered = [1, 2, 2] ∧
      s.accepted.Nodup ∧ ¬ s.delivered.Nodup :=
  ⟨_, rfl, rfl, rfl, by decide, by decide⟩

/-- Continuing that run to the end: 3 is still delivered, so the consumer sees FOUR notifications for three
accepted ones (`produced 500 …, consumer received 514` in the seed's demo). -/
theorem C18_two_workers_stale_redelivery :
    ∃ s, run (init Nat 1 2) (dupTrace ++ [.w 0 .enter, .w 0 .sendFront, .consume]) = some s ∧
      s.accepted = [1, 2, 3] ∧ s.delivered = [1, 2, 2, 3] ∧ s.overflow = [] :=
  ⟨_, rfl, rfl, rfl, rfl⟩

/-! ### The same model with ONE worker agrees with the proved model -/

/-- Worker 0's part of the duplicate schedule plus what a lone worker has to do for item 3, and a drain. -/
def soloTrace : List (Label Nat) :=
  [.w 0 .enter, .w 0 (.recvIn 1), .w 0 .sendItem, .w 0 .enter, .w 0 (.recvIn 2), .w 0 .dflt, .w 0 .enter,
   .w 0 (.recvIn 3), .w 0 .enter, .consume, .w 0 .sendFront, .w 0 .enter, .consume, .w 0 .sendFront, .w 0 .enter,
   .consume, .stop, .w 0 .quit]

/-- With one worker the hand-written multi-worker step function and the table interpreter of `Model/Queue.lean`
(under `Queue.expectedTable`) end in the same observable state on the same schedule. -/
theorem C18_two_model_one_worker_agrees :
    ∃ s q, run (init Nat 1 1) soloTrace = some s ∧
      Queue.run Queue.expectedTable (Queue.init Nat 1) (soloTrace.flatMap toQueue) = some q ∧
      s.delivered = [1, 2, 3] ∧ q.delivered = s.delivered ∧ q.accepted = s.accepted ∧ q.out = s.out ∧
      q.overflow = s.overflow.map (·.val) ∧ q.pc = .exited ∧ s.workers = [.exited] :=
  ⟨_, _, rfl, rfl, rfl, rfl, rfl, rfl, rfl, rfl, rfl⟩

end QueueTwo
