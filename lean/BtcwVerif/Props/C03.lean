import BtcwVerif.Lemmas.AddrIdxRun
import BtcwVerif.Lemmas.AddrDeriveCache
/-!
# C03 — every issued address is the seed's BIP32 child and the wallet can sign for it

Theorems about the `AddrDerive` model (see `Model/AddrDerive*.lean`).  Elliptic-curve and HMAC arithmetic is the
abstract `HD`; its two BIP32 laws are always hypotheses.

What is proved here (all for the official tree, `Cfg.fixed`, over ALL histories `run Cfg.fixed hd ops` — any
interleaving of create, open/restart, new scope / account / watch-only account, nextAddresses, extendAddresses,
lookup, DeriveFromKeyPath, MarkUsed, lock, unlock, passphrase changes, imports, ConvertToWatchingOnly, accessors):
* the index loops of `nextAddresses` / `extendAddresses` — for every validity predicate, start, count and bound
  (`C03_indices_next`, `C03_indices_extend`);
* re-creation from the same seed (`C03_recreate_same`);
* the per-object clauses for every address object of every reachable state: issued = child of the account key which
  is the seed's `m/purpose'/coin'/account'` (`C03_issued_is_child`), reported path (`C03_reported_path`), never a
  wrong private key (`C03_privkey`), a key is returned whenever unlocked and the account has one (`C03_can_sign`,
  `C03_derive_on_unlock`), imported material unchanged, re-loaded = issued (`C03_loaded_is_issued`).
  They rest on the consistency invariant `Inv` (Lemmas/AddrInv.lean), established by `Create` and preserved by
  each operation (`step_inv`).  Hypotheses on the abstract key algebra: `HD.Lawful` (public derivation commutes
  with neutering below the hardened range) and `HD.NoHardPub` (no public derivation of hardened children).
-/
set_option linter.unusedSectionVars false
namespace AddrDerive

variable {K P : Type} [DecidableEq K] [DecidableEq P]

-- ---------------------------------------------------------------------------------------------------------
-- indices: consecutive over the valid children, nothing skipped, nothing repeated

/-- **Indices issued by `nextAddresses`.**  A call that asks for `n` addresses on a branch whose next index is
    `start` hands out exactly `n` indices: they are the valid children from `start` on, in increasing order
    (hence no repetition), no valid child in between is skipped, invalid children are skipped, and the new next
    index (`getLast l start`) is one past the last index handed out — so the following call continues
    consecutively.  From a fresh account `start = 0`. -/
theorem C03_indices_next (valid : Nat → Bool) (n start : Nat) (l : List Nat) (h : nextIdxs valid n start = some l) :
    l.length = n ∧ IsValidRun valid start (getLast l start) l ∧ start ≤ getLast l start :=
  let r := nextIdxs_spec valid n start l h
  ⟨r.1, r.2.2, r.2.1⟩

/-- **Indices issued by `extendAddresses`** (recovery): every valid child from the old next index through
    `last` is derived, in order, without repetition, and the new next index is beyond `last`. -/
theorem C03_indices_extend (valid : Nat → Bool) (last fuel start : Nat) (l : List Nat)
    (h : extendIdxs valid last fuel start = some l) (hs : start ≤ last) :
    IsValidRun valid start (getLast l start) l ∧ last < getLast l start :=
  let r := extendIdxs_spec valid last fuel start l h
  ⟨r.2.2, r.2.1 hs⟩

/-- non-vacuity: with children 1 and 2 invalid, three addresses from index 0 are 0, 3, 4 and the next index is 5 -/
example : nextIdxs (fun i => i != 1 && i != 2) 3 0 = some [0, 3, 4] ∧ getLast [0, 3, 4] 0 = 5 := by decide
example : extendIdxs (fun i => i != 1 && i != 2) 3 5 0 = some [0, 3] := by decide

-- ---------------------------------------------------------------------------------------------------------
-- objects: issued address = child of the account key, reported path, never a wrong key — for every history

/-- `Inv` (Lemmas/AddrInv.lean) holds in every reachable state: `Create` establishes it, each of the 21 operations
    preserves it (`step_inv`; one lemma per operation in Lemmas/AddrInv{Ops,Step,Unlock,Acct,WO}.lean). -/
theorem reach_inv (hd : HD K P) (hlaw : hd.Lawful) (hn : hd.NoHardPub) (ops : List (Op K P)) :
    Inv hd (run Cfg.fixed hd ops).1 := (run_inv hlaw hn ops).1

/-- **Every address object ever handed out is the seed's child.**  After any history, every chained (non-imported)
    address object in the manager's heap — issued by `nextAddresses`, derived by `extendAddresses` /
    `DeriveFromKeyPath`, looked up, or re-loaded from its row after a restart — belongs to an account row of the
    database whose key is `m/purpose'/coin'/account'` of the seed (`RowKeyOK`, default rows) or the account key
    given to `NewAccountWatchingOnly` (watch-only rows); its public key is child `branch/index` of that account
    key, and (seed accounts) it is the public key of the private child `m/purpose'/coin'/account'/branch/index`.
    (The heap only grows between restarts, so this covers every object at every moment of the history.) -/
theorem C03_issued_is_child (hd : HD K P) (hlaw : hd.Lawful) (hn : hd.NoHardPub) (ops : List (Op K P)) (o : KeyObj K P)
    (ho : Obj.key o ∈ (run Cfg.fixed hd ops).1.mem.heap) (hni : o.imported = false) :
    ∃ row, acctRow (run Cfg.fixed hd ops).1 o.scope o.acct = some row ∧ o.acctPub = some (rowPub row) ∧
      RowKeyOK hd (run Cfg.fixed hd ops).1 o.scope o.acct row ∧
      (o.branch < H → o.index < H → ∃ p, derive2pub hd (rowPub row) o.branch o.index = some p ∧ o.pub = .hd p) ∧
      (∀ root ak, (run Cfg.fixed hd ops).1.root = some root → acctKeyAt hd root o.scope o.acct = some ak →
        hd.neuter ak = rowPub row → o.branch < H → o.index < H →
        ∃ k, derive2 hd ak o.branch o.index = some k ∧ o.pub = .hd (hd.neuter k)) := by
  have h := reach_inv hd hlaw hn ops
  obtain ⟨row, h1, h2, _, h4, _⟩ := (h.heap o ho).chained hni
  refine ⟨row, h1, h2, h.disk.row _ _ _ h1, h4, ?_⟩
  intro root ak _ _ hneu hb hi
  obtain ⟨p, hp1, hp2⟩ := h4 hb hi
  have := derive2_neuter hd hlaw ak o.branch o.index hb hi
  rw [hneu, hp1] at this
  cases hk : derive2 hd ak o.branch o.index with
  | none => simp [hk] at this
  | some k => simp [hk] at this; exact ⟨k, rfl, by rw [hp2, this]⟩

/-- **The reported derivation path is the true one.**  What `DerivationInfo()` / `Internal()` report for any
    chained object of any reachable state are the very scope, account, branch and index its public key was derived
    with (from the key of that account's row), and `Internal()` is `branch = 1`. -/
theorem C03_reported_path (hd : HD K P) (hlaw : hd.Lawful) (hn : hd.NoHardPub) (ops : List (Op K P)) (o : KeyObj K P)
    (ho : Obj.key o ∈ (run Cfg.fixed hd ops).1.mem.heap) (hni : o.imported = false) :
    (infoOfKey o).internal = ((infoOfKey o).branch == 1) ∧ (infoOfKey o).imported = false ∧
    ∃ row, acctRow (run Cfg.fixed hd ops).1 (infoOfKey o).scope (infoOfKey o).acct = some row ∧
      RowKeyOK hd (run Cfg.fixed hd ops).1 (infoOfKey o).scope (infoOfKey o).acct row ∧
      ((infoOfKey o).branch < H → (infoOfKey o).index < H →
        ∃ p, derive2pub hd (rowPub row) (infoOfKey o).branch (infoOfKey o).index = some p ∧ o.pub = .hd p) := by
  have h := reach_inv hd hlaw hn ops
  obtain ⟨row, h1, h2, h3, h4, _⟩ := (h.heap o ho).chained hni
  simp only [infoOfKey, hni, Bool.false_eq_true, if_false]
  exact ⟨h3, trivial, row, h1, h.disk.row _ _ _ h1, h4⟩

/-- **Never a wrong key.**  Whatever `PrivKey()` returns for any address object of any reachable state (chained or
    imported, key attached at creation, by derive-on-unlock, or re-loaded) is the private key of the object's
    public key. -/
theorem C03_privkey (hd : HD K P) (hlaw : hd.Lawful) (hn : hd.NoHardPub) (ops : List (Op K P)) (o : KeyObj K P)
    (ho : Obj.key o ∈ (run Cfg.fixed hd ops).1.mem.heap) (k : Priv K) (hk : privKeyOf (run Cfg.fixed hd ops).1 o = .ok k) :
    pubOf hd k = o.pub := by
  have h := reach_inv hd hlaw hn ops
  unfold privKeyOf at hk
  split at hk
  · cases hk
  · split at hk
    · cases hk
    · split at hk
      · cases hk
      · rename_i k' hk'
        cases hk
        exact (h.heap o ho).priv _ hk'

/-- **A key is returned whenever the manager is unlocked and the account has a private key.**  In every reachable
    unlocked, non-watching-only state, every chained address object whose account row holds a private key answers
    `PrivKey()` — whether it was created while unlocked, created while locked and completed by derive-on-unlock,
    extended, derived from a key path or re-loaded after a restart — and the key is the key of its public key. -/
theorem C03_can_sign (hd : HD K P) (hlaw : hd.Lawful) (hn : hd.NoHardPub) (ops : List (Op K P))
    (hu : (run Cfg.fixed hd ops).1.mem.locked = false) (hw : (run Cfg.fixed hd ops).1.mem.watchOnly = false)
    (idx : Nat) (o : KeyObj K P) (ho : (run Cfg.fixed hd ops).1.mem.heap[idx]? = some (.key o)) (hni : o.imported = false)
    (row : AcctRow K P) (hrow : acctRow (run Cfg.fixed hd ops).1 o.scope o.acct = some row) (hpriv : (rowPriv row).isSome) :
    ∃ k, privKeyOf (run Cfg.fixed hd ops).1 o = .ok k ∧ pubOf hd k = o.pub := by
  have h := reach_inv hd hlaw hn ops
  have hmem : Obj.key o ∈ (run Cfg.fixed hd ops).1.mem.heap := List.mem_of_getElem? ho
  obtain ⟨row', h1, _, _, _, h5⟩ := (h.heap o hmem).chained hni
  rw [hrow] at h1; cases h1
  have hpa : o.hasPrivAcct = true := by rw [h5 (by rw [← h.woEq]; exact hw)]; exact hpriv
  rcases h.sign idx o ho hni hpa hw with h1 | ⟨h1, _⟩
  · cases hp : o.privEnc with
    | none => simp [hp] at h1
    | some k => exact ⟨k, by simp [privKeyOf, hu, hw, hp], (h.heap o hmem).priv k hp⟩
  · rw [hu] at h1; cases h1

/-- the same through a handle: `PrivKey()` of the object bound to handle `hh` answers with its key -/
theorem C03_can_sign_handle (hd : HD K P) (hlaw : hd.Lawful) (hn : hd.NoHardPub) (ops : List (Op K P))
    (hu : (run Cfg.fixed hd ops).1.mem.locked = false) (hw : (run Cfg.fixed hd ops).1.mem.watchOnly = false)
    (hh : Nat) (o : KeyObj K P) (ho : objOfHandle (run Cfg.fixed hd ops).1 hh = some (.key o)) (hni : o.imported = false)
    (row : AcctRow K P) (hrow : acctRow (run Cfg.fixed hd ops).1 o.scope o.acct = some row) (hpriv : (rowPriv row).isSome) :
    ∃ k, (opPrivKey (run Cfg.fixed hd ops).1 hh).2.1 = .key k ∧ pubOf hd k = o.pub := by
  unfold objOfHandle at ho
  cases hi : alookup (run Cfg.fixed hd ops).1.mem.handles hh with
  | none => simp [hi] at ho
  | some idx =>
    simp [hi] at ho
    obtain ⟨k, hk1, hk2⟩ := C03_can_sign hd hlaw hn ops hu hw idx o ho hni row hrow hpriv
    refine ⟨k, ?_, hk2⟩
    simp [opPrivKey, objOfHandle, hi, ho, hk1]

/-- **Derive-on-unlock.**  A successful `Unlock` in any reachable state leaves every address object in place with
    the same public key and path, fills in private keys only where they are the key of the object's public key,
    and afterwards every chained object whose account has a private key answers `PrivKey()` (instance of
    `C03_can_sign` for the state after the unlock). -/
theorem C03_derive_on_unlock (hd : HD K P) (hlaw : hd.Lawful) (hn : hd.NoHardPub) (ops : List (Op K P)) (pass : Nat)
    (hok : (opUnlock Cfg.fixed hd (run Cfg.fixed hd ops).1 pass).2.1 = .ok)
    (idx : Nat) (o : KeyObj K P) (ho : (run Cfg.fixed hd ops).1.mem.heap[idx]? = some (.key o)) :
    ∃ o', (opUnlock Cfg.fixed hd (run Cfg.fixed hd ops).1 pass).1.mem.heap[idx]? = some (.key o') ∧
      o'.pub = o.pub ∧ o'.scope = o.scope ∧ o'.acct = o.acct ∧ o'.branch = o.branch ∧ o'.index = o.index ∧
      (∀ k, o'.privEnc = some k → pubOf hd k = o.pub) ∧
      (o.imported = false → ∀ row, acctRow (run Cfg.fixed hd ops).1 o.scope o.acct = some row → (rowPriv row).isSome →
        ∃ k, privKeyOf (opUnlock Cfg.fixed hd (run Cfg.fixed hd ops).1 pass).1 o' = .ok k ∧ pubOf hd k = o.pub) := by
  obtain ⟨h, hnd⟩ := run_inv hlaw hn ops
  have hupd := opUnlock_privUpd hlaw hn h hnd.noShadow pass
  have h' := opUnlock_inv hlaw hn h hnd.noShadow pass
  obtain ⟨hul, huw⟩ := opUnlock_ok_unlocked _ pass hok
  obtain ⟨o', ho', hcase⟩ := hupd.obj' ho
  have hmem' : Obj.key o' ∈ (opUnlock Cfg.fixed hd (run Cfg.fixed hd ops).1 pass).1.mem.heap := List.mem_of_getElem? ho'
  have hid : o'.pub = o.pub ∧ o'.scope = o.scope ∧ o'.acct = o.acct ∧ o'.branch = o.branch ∧ o'.index = o.index ∧
      o'.imported = o.imported ∧ o'.hasPrivAcct = o.hasPrivAcct := by
    rcases hcase with e | ⟨k, e, _⟩ <;> rw [e] <;> exact ⟨rfl, rfl, rfl, rfl, rfl, rfl, rfl⟩
  refine ⟨o', ho', hid.1, hid.2.1, hid.2.2.1, hid.2.2.2.1, hid.2.2.2.2.1, ?_, ?_⟩
  · intro k hk; rw [← hid.1]; exact (h'.heap o' hmem').priv k hk
  · intro hni row hrow hpriv
    have hmem : Obj.key o ∈ (run Cfg.fixed hd ops).1.mem.heap := List.mem_of_getElem? ho
    obtain ⟨row', h1, _, _, _, h5⟩ := (h.heap o hmem).chained hni
    rw [hrow] at h1; cases h1
    have hw0 : (run Cfg.fixed hd ops).1.disk.watchOnly = false := by
      cases hx : (run Cfg.fixed hd ops).1.mem.watchOnly with
      | false => rw [← h.woEq]; exact hx
      | true => simp [opUnlock, hx] at hok
    have hpa : o'.hasPrivAcct = true := by rw [hid.2.2.2.2.2.2, h5 hw0]; exact hpriv
    rcases h'.sign idx o' ho' (by rw [hid.2.2.2.2.2.1]; exact hni) hpa huw with h1 | ⟨h1, _⟩
    · cases hp : o'.privEnc with
      | none => simp [hp] at h1
      | some k => exact ⟨k, by simp [privKeyOf, hul, huw, hp], by rw [← hid.1]; exact (h'.heap o' hmem').priv k hp⟩
    · rw [hul] at h1; cases h1

/-- **Imported keys are returned unchanged.**  In every reachable state an imported key object stands for one
    imported key `id`: its public key is that key's, and whatever `PrivKey()` returns is exactly the imported key. -/
theorem C03_imported_unchanged (hd : HD K P) (hlaw : hd.Lawful) (hn : hd.NoHardPub) (ops : List (Op K P)) (o : KeyObj K P)
    (ho : Obj.key o ∈ (run Cfg.fixed hd ops).1.mem.heap) (hi : o.imported = true) :
    ∃ id, o.pub = .imp id ∧ ∀ k, privKeyOf (run Cfg.fixed hd ops).1 o = .ok k → k = .imp id := by
  have h := reach_inv hd hlaw hn ops
  obtain ⟨id, hid⟩ := (h.heap o ho).imported hi
  refine ⟨id, hid, fun k hk => ?_⟩
  have := C03_privkey hd hlaw hn ops o ho k hk
  rw [hid] at this
  cases k with
  | hd k' => simp [pubOf] at this
  | imp j => simp [pubOf] at this; rw [this]

/-- imported scripts are returned unchanged (`Script()` yields the script the row / object stands for) -/
theorem C03_imported_script_unchanged (cfg : Cfg) (s : State K P) (o : ScrObj) (k : Nat) (h : scriptOf cfg s o = .ok k) :
    k = o.id := by
  unfold scriptOf at h
  dsimp only at h
  repeat' split at h
  all_goals first
    | (simp at h; done)
    | (simp at h; exact h.symm)

/-- **An address re-loaded from the database is the address that was issued.**  In any reachable state (e.g. right
    after a restart, when nothing is cached), looking up an address id whose row says "account `a`, branch `b`,
    index `i`" builds an object whose public key is the one in the id and whose path is `a/b/i`. -/
theorem C03_loaded_is_issued (hd : HD K P) (hlaw : hd.Lawful) (hn : hd.NoHardPub) (ops : List (Op K P)) (sc : Scope)
    (id : AddrId P) (hh a b i : Nat) (sm : ScopeMem K P) (hsm : getSM (run Cfg.fixed hd ops).1 sc = some sm)
    (hnc : alookup sm.addrs id = none) (hrow : addrRowAt (run Cfg.fixed hd ops).1 sc id = some (.chain a b i))
    (info : Info) (hres : (opLookup hd (run Cfg.fixed hd ops).1 sc id hh).2.1 = .addr info) :
    ∃ o, objOfHandle (opLookup hd (run Cfg.fixed hd ops).1 sc id hh).1 hh = some (.key o) ∧ info = infoOfKey o ∧
      (∃ cls, id = .key o.pub cls true) ∧ o.scope = sc ∧ o.acct = a ∧ o.branch = b ∧ o.index = i ∧ o.imported = false := by
  have h := reach_inv hd hlaw hn ops
  generalize (run Cfg.fixed hd ops).1 = s at *
  obtain ⟨row, p, cls, hr1, hr2, hr3⟩ := h.disk.addr sc id a b i hrow
  cases hsd : getSD s sc with
  | none => simp [addrRowAt, hsd] at hrow
  | some sd =>
    have hrow' : alookup sd.addrs id = some (.chain a b i) := by simpa [addrRowAt, hsd] using hrow
    unfold opLookup at hres ⊢
    simp only [hsm, hsd, hnc, hrow'] at hres ⊢
    cases hl : loadAcct hd s sc a with
    | error e => simp [hl] at hres
    | ok r =>
      obtain ⟨s1, ai⟩ := r
      obtain ⟨h1, hc, hf, sm1, sd1, hsm1, hsd1⟩ := loadAcct_spec h hl
      simp only [hl] at hres ⊢
      cases hm : mkChained hd sc a ai (!s1.mem.locked && !s1.mem.watchOnly && ai.keyPriv.isSome) b i
          (accountAddrType sm.schema ai (b == 1)) ai.childIdx ai.fp with
      | none => simp [hm] at hres
      | some o =>
        simp only [hm, getSM_alloc, hsm1] at hres ⊢
        obtain ⟨hok, e1, e2, e3, e4, e5, _⟩ := mkChained_ok hlaw h1 hc hm
        obtain ⟨row', hr', _, _, hchild, _⟩ := hok.chained e5
        rw [e1, e2, hf.acctRow, hr1] at hr'
        cases hr'
        obtain ⟨hb, hi⟩ := derive2pub_nonhard hd hn _ _ _ _ hr2
        obtain ⟨p', hp1, hp2⟩ := hchild (by rw [e3]; exact hb) (by rw [e4]; exact hi)
        rw [e3, e4, hr2] at hp1
        cases hp1
        refine ⟨o, ?_, by simpa using hres.symm, ⟨cls, by rw [hp2]; exact hr3⟩, e1, e2, e3, e4, e5⟩
        simp [objOfHandle, bindH, alookup_aset, putSM, alloc]

-- ---------------------------------------------------------------------------------------------------------
-- indices over the whole history

theorem runLog_fst (hd : HD K P) (ops : List (Op K P)) : (runLog hd ops).1 = (run Cfg.fixed hd ops).1 := by
  rw [runLog_state, run_fst_eq]

/-- **Indices are consecutive over the valid children, across the whole history.**  `(runLog hd ops).2` lists, in
    issue order, every address object `nextAddresses` / `extendAddresses` allocated since the wallet was created —
    through locks, unlocks, restarts, passphrase changes, imports, new accounts / scopes and watching-only
    conversion.  For every account row and branch, the indices issued are exactly the valid children below the
    row's stored next index, in strictly increasing order: they start at 0, skip invalid children only, never
    repeat, and the stored next index is one past the last index issued (so the next call continues there). -/
theorem C03_indices (hd : HD K P) (hlaw : hd.Lawful) (hn : hd.NoHardPub) (ops : List (Op K P)) (sc : Scope) (a : Nat)
    (row : AcctRow K P) (hr : acctRow (run Cfg.fixed hd ops).1 sc a = some row) (int : Bool) :
    IsValidRun (validAt hd (rowPub row) (branchOf int)) 0 (rowNext row int) (idxOf (runLog hd ops).2 sc a (branchOf int)) := by
  obtain ⟨_, _, x⟩ := runLog_inv hlaw hn ops
  rw [← runLog_fst] at hr
  exact x.run sc a row hr int

/-- no index is ever issued twice on a branch (corollary of `C03_indices`) -/
theorem C03_indices_no_repeat (hd : HD K P) (hlaw : hd.Lawful) (hn : hd.NoHardPub) (ops : List (Op K P)) (sc : Scope) (a : Nat)
    (row : AcctRow K P) (hr : acctRow (run Cfg.fixed hd ops).1 sc a = some row) (int : Bool) :
    (idxOf (runLog hd ops).2 sc a (branchOf int)).Nodup :=
  (C03_indices hd hlaw hn ops sc a row hr int).1.imp (fun h => Nat.ne_of_lt h)

/-- every issued object belongs to an account that exists, on branch 0 or 1 — nothing else is in the log -/
theorem C03_issued_known (hd : HD K P) (hlaw : hd.Lawful) (hn : hd.NoHardPub) (ops : List (Op K P)) (o : KeyObj K P)
    (ho : o ∈ (runLog hd ops).2) : (acctRow (run Cfg.fixed hd ops).1 o.scope o.acct).isSome ∧ (o.branch = 0 ∨ o.branch = 1) := by
  obtain ⟨_, _, x⟩ := runLog_inv hlaw hn ops
  rw [← runLog_fst]
  exact x.known o ho

/-- the cached next indices of a loaded account always equal the stored ones (so a restart continues where the
    running manager would have) -/
theorem C03_next_index_cached (hd : HD K P) (hlaw : hd.Lawful) (hn : hd.NoHardPub) (ops : List (Op K P)) (sc : Scope) (a : Nat)
    (ai : AcctInfo K P) (row : AcctRow K P) (hc : cacheAt (run Cfg.fixed hd ops).1 sc a = some ai)
    (hr : acctRow (run Cfg.fixed hd ops).1 sc a = some row) :
    ai.nextExt = rowNext row false ∧ ai.nextInt = rowNext row true := by
  obtain ⟨_, _, x⟩ := runLog_inv hlaw hn ops
  rw [← runLog_fst] at hc hr
  exact x.next sc a ai row hc hr

/-- what `nextAddresses` reports to its caller are exactly the objects it appended to the issue log, in order -/
theorem C03_next_reports_issued (hd : HD K P) (hlaw : hd.Lawful) (hn : hd.NoHardPub) (ops : List (Op K P)) (sc : Scope)
    (acct n : Nat) (int : Bool) (hb : Nat) (infos : List Info)
    (hres : (opNext hd (run Cfg.fixed hd ops).1 sc acct n int hb).2.1 = .addrs infos) :
    infos = (newObjs (run Cfg.fixed hd ops).1 (opNext hd (run Cfg.fixed hd ops).1 sc acct n int hb).1).map infoOfKey :=
  opNext_reports (reach_inv hd hlaw hn ops) sc acct n int hb infos hres

-- ---------------------------------------------------------------------------------------------------------
-- re-creation from the same seed

theorem foldl_state_indep (cfg : Cfg) (hd : HD K P) (ops : List (Op K P)) :
    ∀ (s : State K P) (r r' : List AddrSym.Row),
      (ops.foldl (fun acc op => let x := step cfg hd acc.1 op; (x.1, acc.2 ++ x.2.2)) (s, r)).1 =
      (ops.foldl (fun acc op => let x := step cfg hd acc.1 op; (x.1, acc.2 ++ x.2.2)) (s, r')).1 := by
  induction ops with
  | nil => intro s r r'; rfl
  | cons op rest ih => intro s r r'; simp only [List.foldl_cons]; exact ih _ _ _

/-- **A wallet re-created from the same seed behaves identically**: whatever happened before, after
    `Create(root)` the state — hence every address subsequently issued, looked up or derived, and every key
    returned — is a function of the seed's root key and the operations that follow alone. -/
theorem C03_recreate_same (hd : HD K P) (root : K) (pre ops : List (Op K P)) :
    (run Cfg.fixed hd (pre ++ .create root :: ops)).1 = (run Cfg.fixed hd (.create root :: ops)).1 := by
  have hstep : ∀ s s' : State K P, step Cfg.fixed hd s (.create root) = step Cfg.fixed hd s' (.create root) := by
    intro s s'; simp [step]
  unfold run
  cases pre with
  | nil => rfl
  | cons p ps =>
    simp only [List.cons_append, List.foldl_cons, List.foldl_append]
    rw [hstep _ emptyState]
    exact foldl_state_indep Cfg.fixed hd ops _ _ _

-- ---------------------------------------------------------------------------------------------------------
-- the F3 defect (fixed in the official tree by fd5efc1) and non-vacuity

def demoHD03 : HD (List Nat) (List Nat) :=
  { child := fun k i => some (k ++ [i]), neuter := id, pubChild := fun p i => if i < H then some (p ++ [i]) else none }

/-- the hypotheses of the theorems above are satisfiable: the demo key algebra is lawful -/
theorem demoHD03_lawful : demoHD03.Lawful := by intro k i h; simp [demoHD03, h]
theorem demoHD03_noHardPub : demoHD03.NoHardPub := by intro p i h; simp [demoHD03, Nat.not_lt.mpr h]

/-- extend while unlocked, look the address up, ask for its key -/
def demoExtend : List (Op (List Nat) (List Nat)) :=
  [.create [0], .unlock 0, .extend (84, 0) 0 1 false, .lookup (84, 0) (.key (.hd [0, 84 + H, 0 + H, 0 + H, 0, 1]) 0 true) 1]

/-- **F3 (unfixed tree).**  With the inverted watch-only test an address created by `ExtendExternalAddresses`
    while unlocked has no private key: `PrivKey()` fails with `ErrWatchingOnly` although the wallet is unlocked. -/
theorem C03_can_sign_counterexample_f3 :
    (match (step { f3 := true } demoHD03 (run { f3 := true } demoHD03 demoExtend).1 (.privKey 1)).2.1 with
      | .err .watchOnly => true | _ => false) = true := by decide

/-- on the fixed tree the same history returns the key, and it is the key of the address's public key -/
example : (match (step {} demoHD03 (run {} demoHD03 demoExtend).1 (.privKey 1)).2.1 with
      | .key (.hd k) => k == [0, 84 + H, 0 + H, 0 + H, 0, 1] | _ => false) = true := by decide

/-- derived while locked, then unlocked: the key is there (derive-on-unlock) -/
example : (match (step {} demoHD03 (run {} demoHD03
      [.create [0], .next (84, 0) 0 2 false 1, .unlock 0]).1 (.privKey 2)).2.1 with
      | .key (.hd k) => k == [0, 84 + H, 0 + H, 0 + H, 0, 1] | _ => false) = true := by decide

/-- after a restart the looked-up address has its key too -/
example : (match (step {} demoHD03 (run {} demoHD03
      [.create [0], .next (49, 0) 0 1 true 1, .restart, .unlock 0,
       .lookup (49, 0) (.key (.hd [0, 49 + H, 0 + H, 0 + H, 1, 0]) 0 true) 9]).1 (.privKey 9)).2.1 with
      | .key (.hd k) => k == [0, 49 + H, 0 + H, 0 + H, 1, 0] | _ => false) = true := by decide

/-- non-vacuity of `C03_indices`: a history with a lock, a restart and an extension in between; the external branch
    of account 0 of scope 84:0 has issued 0,1,2,3,4 and the stored next index is 5 -/
example : idxOf (runLog demoHD03 [.create [0], .next (84, 0) 0 2 false 1, .unlock 0, .extend (84, 0) 0 2 false, .restart,
      .next (84, 0) 0 2 false 5, .next (84, 0) 0 1 true 9]).2 (84, 0) 0 0 = [0, 1, 2, 3, 4] := by decide

-- ---------------------------------------------------------------------------------------------------------
-- round 2: `DeriveFromKeyPathCache` (the fast path behind `Wallet.DeriveFromKeyPath`) and `RenameAccount`

/-- **The key `DeriveFromKeyPathCache` returns is the seed's child.**  After any history, whatever key the fast path
    returns for scope / `InternalAccount = a` / branch `b` / index `i` is child `b/i` of the private key stored in the
    row of account `a` of that scope — by `RowKeyOK` the seed's `m/purpose'/coin'/a'` — and (non-hardened `b`, `i`) its
    public key is the public child `b/i` of that account's key, i.e. the public key of the address at that path
    (`C03_issued_is_child`).  The `Account` field of the derivation path is no argument of the lookup at all. -/
theorem C03_derive_cache (hd : HD K P) (hlaw : hd.Lawful) (hn : hd.NoHardPub) (ops : List (Op K P)) (sc : Scope) (a b i : Nat)
    (k : Priv K) (hk : (opDeriveCache hd (run Cfg.fixed hd ops).1 sc a b i).2.1 = .key k) :
    ∃ row ak k', acctRow (run Cfg.fixed hd ops).1 sc a = some row ∧ rowPriv row = some ak ∧
      RowKeyOK hd (run Cfg.fixed hd ops).1 sc a row ∧ derive2 hd ak b i = some k' ∧ k = .hd k' ∧
      (b < H → i < H → derive2pub hd (rowPub row) b i = some (hd.neuter k')) := by
  obtain ⟨row, ak, k', h1, h2, h3, h4, h5⟩ := opDeriveCache_child (reach_inv hd hlaw hn ops) hk
  refine ⟨row, ak, k', h1, h2, h3, h4, h5, fun hb hi => ?_⟩
  have hneu : hd.neuter ak = rowPub row := by
    cases row with
    | dflt pub priv ne ni name =>
      obtain ⟨root, ak0, _, _, hp, hq⟩ := h3
      simp only [rowPriv] at h2
      rw [hq ak h2]; exact hp
    | wo pub fp ne ni name schema ci => simp [rowPriv] at h2
  have := derive2_neuter hd hlaw ak b i hb hi
  rw [h4, hneu] at this
  exact this.symm

/-- **Paths that differ only in the informational `Account` field get the same answer** (state, result and writes);
    the account whose key is used is `InternalAccount`. -/
theorem C03_derive_cache_account_field (cfg : Cfg) (hd : HD K P) (s : State K P) (sc : Scope) (a ac ac' b i : Nat) :
    step cfg hd s (.deriveCache sc a ac b i) = step cfg hd s (.deriveCache sc a ac' b i) := rfl

/-- **The fast path and the slow path agree.**  After any history, if `DeriveFromKeyPathCache` returns a key for a
    path, then `DeriveFromKeyPath` for the same `InternalAccount/branch/index` (whatever the `Account` field) builds
    the address object of that path and its `PrivKey()` returns the very same key. -/
theorem C03_derive_cache_agrees (hd : HD K P) (hlaw : hd.Lawful) (hn : hd.NoHardPub) (ops : List (Op K P)) (sc : Scope)
    (a b i : Nat) (k : Priv K) (hk : (opDeriveCache hd (run Cfg.fixed hd ops).1 sc a b i).2.1 = .key k) (ac hh : Nat) :
    ∃ o, objOfHandle (opDerive hd (run Cfg.fixed hd ops).1 sc a ac b i hh).1 hh = some (.key o) ∧
      (opDerive hd (run Cfg.fixed hd ops).1 sc a ac b i hh).2.1 = .addr (infoOfKey o) ∧
      privKeyOf (opDerive hd (run Cfg.fixed hd ops).1 sc a ac b i hh).1 o = .ok k ∧
      o.scope = sc ∧ o.acct = a ∧ o.branch = b ∧ o.index = i ∧ o.imported = false :=
  opDeriveCache_agrees (reach_inv hd hlaw hn ops) hk ac hh

/-- **What a caller does with a key it was given cannot change a later answer.**  In the model a returned key is a value
    (not a reference into the manager), and a `DeriveFromKeyPathCache` request changes nothing at all — not the
    database, not the account cache, not the address objects.  So from ANY state, after any number of such requests (any
    scopes, accounts, paths, in any order, each result used, wiped or kept by its caller), the next request gets — state,
    answer and writes — exactly what it would have got as the very first one.  (Go: a cache hit must hand out a copy of
    the cached key; oracle keys `deriveFromKeyPathCache.cached-key-aliased`, `….returned-key-changed-by-lock`.) -/
theorem C03_derive_cache_independent (cfg : Cfg) (hd : HD K P) (s : State K P) (qs : List (Op K P))
    (hq : ∀ op ∈ qs, IsDeriveCache op) (sc : Scope) (a ac b i : Nat) :
    step cfg hd (qs.foldl (fun st op => (step cfg hd st op).1) s) (.deriveCache sc a ac b i) =
      step cfg hd s (.deriveCache sc a ac b i) := by
  rw [foldl_deriveCache_state cfg hd qs hq s]

/-- the same over histories: look-ups appended to any history reach the state of that history, so (with
    `C03_derive_cache`) the key answered for a path after any number of earlier look-ups of it is still child
    `b/i` of the seed's account key -/
theorem C03_derive_cache_repeat (hd : HD K P) (hlaw : hd.Lawful) (hn : hd.NoHardPub) (ops qs : List (Op K P))
    (hq : ∀ op ∈ qs, IsDeriveCache op) (sc : Scope) (a b i : Nat) (k : Priv K)
    (hk : (opDeriveCache hd (run Cfg.fixed hd (ops ++ qs)).1 sc a b i).2.1 = .key k) :
    (run Cfg.fixed hd (ops ++ qs)).1 = (run Cfg.fixed hd ops).1 ∧
    (opDeriveCache hd (run Cfg.fixed hd ops).1 sc a b i).2.1 = .key k ∧
    ∃ row ak k', acctRow (run Cfg.fixed hd ops).1 sc a = some row ∧ rowPriv row = some ak ∧
      derive2 hd ak b i = some k' ∧ k = .hd k' := by
  have hs : (run Cfg.fixed hd (ops ++ qs)).1 = (run Cfg.fixed hd ops).1 := by
    rw [run_fst_eq, run_fst_eq]
    simp only [runState, List.foldl_append]
    exact foldl_deriveCache_state _ hd qs hq _
  rw [hs] at hk
  obtain ⟨row, ak, k', h1, h2, _, h4, h5, _⟩ := C03_derive_cache hd hlaw hn ops sc a b i k hk
  exact ⟨hs, hk, row, ak, k', h1, h2, h4, h5⟩

/-- **`RenameAccount` changes the name and nothing else.**  From any state, after a rename (successful or refused)
    every account row is the row it was up to its name: same public and private key, same next indices and — for an
    imported account — the same overriding address schema. -/
theorem C03_rename_keeps_row (s : State K P) (sc : Scope) (acct name : Nat) (sc' : Scope) (a : Nat) :
    (acctRow (opRename s sc acct name).1 sc' a).map (fun r => (rowKey r, rowSchema r, rowNext r false, rowNext r true)) =
      (acctRow s sc' a).map (fun r => (rowKey r, rowSchema r, rowNext r false, rowNext r true)) := by
  obtain ⟨g, hg⟩ := opRename_rowSetName s sc acct name sc' a
  rw [hg]
  cases acctRow s sc' a with
  | none => rfl
  | some r => simp

/-- **A renamed account read back from the database issues in the same format.**  Rename, close, reopen: every account
    loads (`loadAccountInfo`) exactly when it would have loaded without the rename, with the same keys, the same next
    indices and the same overriding address schema — so `accountAddrType`, the format of every address of either
    branch issued, extended or looked up afterwards, is the same. -/
theorem C03_rename_reload_same_format (hd : HD K P) (s : State K P) (sc : Scope) (acct name : Nat) (sc' : Scope) (a : Nat)
    {st : State K P} {ai : AcctInfo K P}
    (hl : loadAcct hd (opRestart (opRename s sc acct name).1).1 sc' a = .ok (st, ai)) :
    ∃ st0 ai0, loadAcct hd (opRestart s).1 sc' a = .ok (st0, ai0) ∧ ai.keyPub = ai0.keyPub ∧ ai.keyEnc = ai0.keyEnc ∧
      ai.nextExt = ai0.nextExt ∧ ai.nextInt = ai0.nextInt ∧ ai.schema = ai0.schema ∧
      ∀ scSchema internal, accountAddrType scSchema ai internal = accountAddrType scSchema ai0 internal := by
  obtain ⟨g, hg⟩ := opRename_rowSetName s sc acct name sc' a
  obtain ⟨st0, ai0, h0, h1, h2, h3, _, h5, h6, _, _⟩ :=
    loadAcct_fresh_setName hd s (opRename s sc acct name).1 sc' a g (opRename_schema s sc acct name sc') hg hl
  exact ⟨st0, ai0, h0, h2, h3, h5, h6, h1, fun _ _ => by simp [accountAddrType, h1]⟩

/-- non-vacuity of `C03_derive_cache`: two cached accounts of one scope, the same branch/index, the same (constant)
    `Account` field: each look-up returns the child of ITS account's key -/
example : (match (step {} demoHD03 (run {} demoHD03 [.create [0], .unlock 0, .newAccount (84, 0) 2, .props (84, 0) 0,
      .props (84, 0) 1, .deriveCache (84, 0) 0 0 0 0]).1 (.deriveCache (84, 0) 1 0 0 0)).2.1 with
      | .key (.hd k) => k == [0, 84 + H, 0 + H, 1 + H, 0, 0] | _ => false) = true := by decide
example : (match (step {} demoHD03 (run {} demoHD03 [.create [0], .unlock 0, .newAccount (84, 0) 2, .props (84, 0) 0,
      .props (84, 0) 1, .deriveCache (84, 0) 1 0 0 0]).1 (.deriveCache (84, 0) 0 0 0 0)).2.1 with
      | .key (.hd k) => k == [0, 84 + H, 0 + H, 0 + H, 0, 0] | _ => false) = true := by decide

/-- non-vacuity of `C03_derive_cache_independent` / `_repeat`: the fourth look-up of a path (after look-ups of this and of
    another account's path) answers what the first one answered: the child of the seed's account key -/
example : (match (step {} demoHD03 (run {} demoHD03 [.create [0], .unlock 0, .newAccount (84, 0) 2, .props (84, 0) 0,
      .props (84, 0) 1, .deriveCache (84, 0) 0 0 0 0, .deriveCache (84, 0) 0 0 0 0, .deriveCache (84, 0) 1 0 0 0,
      .deriveCache (84, 0) 0 0 0 0]).1 (.deriveCache (84, 0) 0 0 0 0)).2.1 with
      | .key (.hd k) => k == [0, 84 + H, 0 + H, 0 + H, 0, 0] | _ => false) = true := by decide

/-- a traditional BIP49 account (nested P2WPKH on both branches) imported into the BIP0049Plus scope, renamed, read
    back after a restart: the next internal address is still nested P2WPKH (type code 3), index 1 -/
example : (match (step {} demoHD03 (run {} demoHD03 [.create [0], .newAccountWO (49, 0) 2 [7] (1 + H) 7 (some ⟨.np2wkh, .np2wkh⟩),
      .next (49, 0) 1 1 true 1, .rename (49, 0) 1 3, .restart]).1 (.next (49, 0) 1 1 true 2)).2.1 with
      | .addrs [i] => i.typ == 3 && i.index == 1 && i.internal | _ => false) = true := by decide

/-- what `DerivationInfo()` reports for an address issued from an account imported with master key fingerprint 7
    (model of the official tree): the fingerprint, account child number, branch and index reported at issue time are
    reported again after `MarkUsed` dropped the cached object and after a restart (the object is rebuilt from its row by
    `chainAddressRowToManaged`, which takes the fingerprint from the account row).  Go oracle:
    `derivationInfo.fingerprint-differs-after-reload` / `C08 key=Address.restart.derivation-info-differs`. -/
example : (match (step {} demoHD03 (run {} demoHD03 [.create [0], .newAccountWO (84, 0) 2 [7] (1 + H) 7 none,
      .next (84, 0) 1 1 false 1]).1 (.info 1)).2.1 with
      | .addr i => i.fp == 7 && i.acct == 1 && i.acctChild == 1 + H && i.branch == 0 && i.index == 0 | _ => false) = true := by decide
example : (match (step {} demoHD03 (run {} demoHD03 [.create [0], .newAccountWO (84, 0) 2 [7] (1 + H) 7 none,
      .next (84, 0) 1 1 false 1, .markUsed (84, 0) (.key (.hd [7, 0, 0]) 0 true) "x"]).1
        (.lookup (84, 0) (.key (.hd [7, 0, 0]) 0 true) 5)).2.1 with
      | .addr i => i.fp == 7 && i.acct == 1 && i.acctChild == 1 + H && i.branch == 0 && i.index == 0 | _ => false) = true := by decide
example : (match (step {} demoHD03 (run {} demoHD03 [.create [0], .newAccountWO (84, 0) 2 [7] (1 + H) 7 none,
      .next (84, 0) 1 1 false 1, .restart]).1 (.lookup (84, 0) (.key (.hd [7, 0, 0]) 0 true) 5)).2.1 with
      | .addr i => i.fp == 7 && i.acct == 1 && i.acctChild == 1 + H && i.branch == 0 && i.index == 0 | _ => false) = true := by decide
/-- the same for an address made by `extendAddresses` (tree with repo-patches/fix-C08-extendAddresses-fingerprint.diff): the
    cached object reports the account's fingerprint, like the object rebuilt after a restart -/
example : (match (step {} demoHD03 (run {} demoHD03 [.create [0], .newAccountWO (84, 0) 2 [7] (1 + H) 7 none,
      .extend (84, 0) 1 0 false]).1 (.lookup (84, 0) (.key (.hd [7, 0, 0]) 0 true) 5)).2.1 with
      | .addr i => i.fp == 7 && i.acct == 1 && i.acctChild == 1 + H && i.branch == 0 && i.index == 0 | _ => false) = true := by decide
example : (match (step {} demoHD03 (run {} demoHD03 [.create [0], .newAccountWO (84, 0) 2 [7] (1 + H) 7 none,
      .extend (84, 0) 1 0 false, .restart]).1 (.lookup (84, 0) (.key (.hd [7, 0, 0]) 0 true) 5)).2.1 with
      | .addr i => i.fp == 7 && i.acct == 1 && i.acctChild == 1 + H && i.branch == 0 && i.index == 0 | _ => false) = true := by decide

/-- **Unfixed tree (`e1`): the fingerprint of an extended address depends on whether the wallet was restarted.**  Before the
    fix `extendAddresses` left `MasterKeyFingerprint` out of the derivation path of the objects it caches: for an account
    imported with fingerprint 7 the running manager reports 0 for the address, a restarted manager (which rebuilds the
    object from its row) reports 7.  Go oracle keys `C08 key=ExtendAddresses.restart.fingerprint-differs`,
    `C03 key=extendAddresses.fingerprint-not-the-accounts`. -/
theorem C03_extend_fingerprint_counterexample_e1 :
    (match (step { e1 := true } demoHD03 (run { e1 := true } demoHD03 [.create [0], .newAccountWO (84, 0) 2 [7] (1 + H) 7 none,
        .extend (84, 0) 1 0 false]).1 (.lookup (84, 0) (.key (.hd [7, 0, 0]) 0 true) 5)).2.1,
      (step { e1 := true } demoHD03 (run { e1 := true } demoHD03 [.create [0], .newAccountWO (84, 0) 2 [7] (1 + H) 7 none,
        .extend (84, 0) 1 0 false, .restart]).1 (.lookup (84, 0) (.key (.hd [7, 0, 0]) 0 true) 5)).2.1 with
      | .addr i, .addr j => i.fp == 0 && j.fp == 7 && i.index == j.index && i.acct == j.acct | _, _ => false) = true := by decide

end AddrDerive
