import BtcwVerif.Lemmas.AddrIdx
/-!
# C03 — every issued address is the seed's BIP32 child and the wallet can sign for it

Theorems about the `AddrDerive` model (see `Model/AddrDerive*.lean`).  Elliptic-curve and HMAC arithmetic is the
abstract `HD`; the only law used is `HD.Lawful` (public derivation commutes with neutering for non-hardened
indices), always as a hypothesis.

What is proved here, and at which strength:
* the index loops of `nextAddresses` / `extendAddresses` — full strength, for every validity predicate, start,
  count and bound (`C03_indices_*`);
* re-creation from the same seed — full strength over all histories (`C03_recreate_same`);
* the per-object clauses (issued = child of the account key, reported path, never a wrong private key, a key is
  returned when unlocked, imported material unchanged) are proved for every object *as built / updated by each
  operation from any state whose cached account info is consistent* (`…_partial`): the induction that carries
  the consistency predicate (`AcctOK`, `ObjOK`) through all 21 operations is not closed in Lean; it is covered
  by the differential run (every object of every explored history is checked against the independent oracle).
-/
set_option linter.unusedSectionVars false
namespace AddrDerive

variable {K P : Type} [DecidableEq K] [DecidableEq P]

-- ---------------------------------------------------------------------------------------------------------
-- indices: consecutive over the valid children, nothing skipped, nothing repeated

/-- **Indices issued by `nextAddresses`.**  A call that asks for `n` addresses on a branch whose next index is
    `start` hands out exactly `n` indices: they are the valid children from `start` on, in increasing order
    (hence no repetition), no valid child in between is skipped, invalid children are skipped, and the new next
    index (`getLast l start`) is one past the last index handed out — so the following call continues
    consecutively.  From a fresh account `start = 0`. -/
theorem C03_indices_next (valid : Nat → Bool) (n start : Nat) (l : List Nat) (h : nextIdxs valid n start = some l) :
    l.length = n ∧ IsValidRun valid start (getLast l start) l ∧ start ≤ getLast l start :=
  let r := nextIdxs_spec valid n start l h
  ⟨r.1, r.2.2, r.2.1⟩

/-- **Indices issued by `extendAddresses`** (recovery): every valid child from the old next index through
    `last` is derived, in order, without repetition, and the new next index is beyond `last`. -/
theorem C03_indices_extend (valid : Nat → Bool) (last fuel start : Nat) (l : List Nat)
    (h : extendIdxs valid last fuel start = some l) (hs : start ≤ last) :
    IsValidRun valid start (getLast l start) l ∧ last < getLast l start :=
  let r := extendIdxs_spec valid last fuel start l h
  ⟨r.2.2, r.2.1 hs⟩

/-- non-vacuity: with children 1 and 2 invalid, three addresses from index 0 are 0, 3, 4 and the next index is 5 -/
example : nextIdxs (fun i => i != 1 && i != 2) 3 0 = some [0, 3, 4] ∧ getLast [0, 3, 4] 0 = 5 := by decide
example : extendIdxs (fun i => i != 1 && i != 2) 3 5 0 = some [0, 3] := by decide

-- ---------------------------------------------------------------------------------------------------------
-- objects: issued address = child of the account key, reported path, never a wrong key

/-- cached account info is consistent: a cached private key (and the stored one) neuters to the public key -/
def AcctOK (hd : HD K P) (ai : AcctInfo K P) : Prop :=
  (∀ k, ai.keyPriv = some k → hd.neuter k = ai.keyPub) ∧ (∀ k, ai.keyEnc = some k → hd.neuter k = ai.keyPub)

/-- a chained address object is what it claims to be: its public key is child `branch/index` of the account
    public key it was derived from, the internal flag is `branch = 1`, and an attached private key is the key
    of exactly that public key -/
def ObjOK (hd : HD K P) (o : KeyObj K P) : Prop :=
  (∀ k, o.privEnc = some k → pubOf hd k = o.pub) ∧
  (o.imported = false → ∃ ap p, o.acctPub = some ap ∧ derive2pub hd ap o.branch o.index = some p ∧ o.pub = .hd p ∧
      o.internal = (o.branch == 1))

theorem derive2_neuter (hd : HD K P) (hl : hd.Lawful) (k : K) (b i : Nat) (hb : b < H) (hi : i < H) :
    (derive2 hd k b i).map hd.neuter = derive2pub hd (hd.neuter k) b i := by
  unfold derive2 derive2pub
  have h1 := hl k b hb
  cases hc : hd.child k b with
  | none => simp [hc] at h1; simp [← h1]
  | some bk =>
    simp [hc] at h1
    simp [← h1]
    exact hl bk i hi

/-- **Issued address = seed child, reported path true, key matches** for every object `nextAddresses`,
    `extendAddresses`, `loadAndCacheAddress` and `DeriveFromKeyPath` build (all go through `mkChained`), from any
    consistent cached account, whether derived from the private or from the public account key.
    (Partial: consistency of the cached account info along arbitrary histories is not carried in Lean.) -/
theorem C03_issued_is_child_partial (hd : HD K P) (hl : hd.Lawful) (sc : Scope) (acct : Nat) (ai : AcctInfo K P)
    (hai : AcctOK hd ai) (usePriv : Bool) (b i : Nat) (hb : b < H) (hi : i < H) (typ : AddrType) (ac fp : Nat)
    (o : KeyObj K P) (h : mkChained hd sc acct ai usePriv b i typ ac fp = some o) :
    ObjOK hd o ∧ o.scope = sc ∧ o.acct = acct ∧ o.branch = b ∧ o.index = i ∧ o.typ = typ ∧ o.acctPub = some ai.keyPub := by
  unfold mkChained at h
  cases usePriv with
  | true =>
    simp only [if_true] at h
    cases hk : ai.keyPriv with
    | none => simp [hk] at h
    | some ak =>
      simp only [hk] at h
      cases hd2 : derive2 hd ak b i with
      | none => simp [hd2] at h
      | some k =>
        simp [hd2] at h
        subst h
        have hn := hai.1 ak hk
        have := derive2_neuter hd hl ak b i hb hi
        rw [hd2, hn] at this
        refine ⟨⟨?_, fun _ => ⟨ai.keyPub, hd.neuter k, rfl, this.symm, rfl, rfl⟩⟩, rfl, rfl, rfl, rfl, rfl, rfl⟩
        intro k' hk'
        simp at hk'
        subst hk'
        rfl
  | false =>
    simp at h
    rcases h with ⟨p, hp, rfl⟩
    exact ⟨⟨by intro k hk; simp at hk, fun _ => ⟨ai.keyPub, p, rfl, hp, rfl, rfl⟩⟩, rfl, rfl, rfl, rfl, rfl, rfl⟩

/-- **The reported derivation path is the true one**: what `DerivationInfo()` / `Internal()` report for a
    well-formed non-imported object are the very scope, account, branch and index its key was derived with. -/
theorem C03_reported_path_partial (hd : HD K P) (o : KeyObj K P) (hok : ObjOK hd o) (hni : o.imported = false) :
    (infoOfKey o).scope = o.scope ∧ (infoOfKey o).acct = o.acct ∧ (infoOfKey o).branch = o.branch ∧
    (infoOfKey o).index = o.index ∧ (infoOfKey o).internal = (o.branch == 1) ∧
    ∃ ap p, o.acctPub = some ap ∧ derive2pub hd ap (infoOfKey o).branch (infoOfKey o).index = some p ∧ o.pub = .hd p := by
  rcases hok.2 hni with ⟨ap, p, h1, h2, h3, h4⟩
  simp [infoOfKey, hni, h4]
  exact ⟨ap, h1, p, h2, h3⟩

/-- **Never a wrong key**: whatever `PrivKey()` returns for a well-formed object is the key of its public key. -/
theorem C03_privkey_partial (hd : HD K P) (s : State K P) (o : KeyObj K P) (hok : ObjOK hd o) (k : Priv K)
    (h : privKeyOf s o = .ok k) : pubOf hd k = o.pub := by
  unfold privKeyOf at h
  split at h
  · cases h
  · split at h
    · cases h
    · split at h
      · cases h
      · rename_i k' hk'
        cases h
        exact hok.1 _ hk'

/-- **Derive-on-unlock installs the right key**: when `Unlock` fills in the key of an address that was created
    while locked (`douStep`), the object stays well-formed — provided the queue entry carries the object's own
    branch/index and the object was derived from the cached account's public key.  All other heap objects are
    untouched. -/
theorem C03_derive_on_unlock_partial (hd : HD K P) (hl : hd.Lawful) (acctInfo : List (Nat × AcctInfo K P))
    (heap : List (Obj K P)) (idx b i : Nat) (o : KeyObj K P) (ai : AcctInfo K P) (hb : b < H) (hi : i < H)
    (hget : heap[idx]? = some (.key o)) (hai : alookup acctInfo o.acct = some ai) (haok : AcctOK hd ai)
    (hok : ObjOK hd o) (hni : o.imported = false) (hbi : o.branch = b ∧ o.index = i) (hap : o.acctPub = some ai.keyPub)
    (heap' : List (Obj K P)) (h : douStep hd acctInfo heap (idx, b, i) = some heap') :
    ∃ o', heap' = (if ai.keyPriv.isSome then setAt heap idx (.key o') else heap) ∧ ObjOK hd o' ∧ o'.pub = o.pub ∧
      (ai.keyPriv.isSome → o'.privEnc.isSome) := by
  unfold douStep at h
  simp only [hget, hai] at h
  cases hk : ai.keyPriv with
  | none =>
    simp [hk] at h
    exact ⟨o, by simp [h], hok, rfl, by simp⟩
  | some ak =>
    simp only [hk] at h
    cases hd2 : derive2 hd ak b i with
    | none => simp [hd2] at h
    | some k =>
      simp [hd2] at h
      refine ⟨{ o with privEnc := some (.hd k) }, by simp [h], ⟨?_, hok.2⟩, rfl, by simp⟩
      intro k' hk'
      simp at hk'
      subst hk'
      rcases hok.2 hni with ⟨ap, p, h1, h2, h3, _⟩
      have hn := haok.1 ak hk
      have := derive2_neuter hd hl ak b i hb hi
      rw [hd2, hn] at this
      rw [hap] at h1
      cases h1
      rw [hbi.1, hbi.2, ← this] at h2
      simp at h2
      simp [pubOf, h3, h2]

/-- **A key is returned when unlocked**: an object built while the manager is unlocked for an account that has
    a private key (`usePriv`) carries its private key, so `PrivKey()` succeeds in every later unlocked,
    non-watching-only state. -/
theorem C03_can_sign_partial (hd : HD K P) (sc : Scope) (acct : Nat) (ai : AcctInfo K P) (b i : Nat) (typ : AddrType)
    (ac fp : Nat) (o : KeyObj K P) (h : mkChained hd sc acct ai true b i typ ac fp = some o)
    (s : State K P) (hu : s.mem.locked = false) (hw : s.mem.watchOnly = false) :
    ∃ k, privKeyOf s o = .ok k := by
  unfold mkChained at h
  simp only [if_true] at h
  cases hk : ai.keyPriv with
  | none => simp [hk] at h
  | some ak =>
    simp only [hk] at h
    cases hd2 : derive2 hd ak b i with
    | none => simp [hd2] at h
    | some k =>
      simp [hd2] at h
      subst h
      exact ⟨.hd k, by simp [privKeyOf, hu, hw]⟩

/-- **Imported keys are returned unchanged**: the object `ImportPrivateKey` builds, and the one
    `loadAndCacheAddress` rebuilds from the stored row after a restart, hold exactly the imported key. -/
theorem C03_imported_unchanged (hd : HD K P) (s : State K P) (o : KeyObj K P) (id : Nat)
    (hpub : o.pub = .imp id) (hpriv : o.privEnc = some (.imp id)) (hu : s.mem.locked = false) (hw : s.mem.watchOnly = false) :
    privKeyOf s o = .ok (.imp id) ∧ pubOf hd (.imp id : Priv K) = o.pub := by
  simp [privKeyOf, hu, hw, hpriv, pubOf, hpub]

/-- imported scripts are returned unchanged (`Script()` yields the script the row / object stands for) -/
theorem C03_imported_script_unchanged (cfg : Cfg) (s : State K P) (o : ScrObj) (k : Nat) (h : scriptOf cfg s o = .ok k) :
    k = o.id := by
  unfold scriptOf at h
  dsimp only at h
  repeat' split at h
  all_goals first
    | (simp at h; done)
    | (simp at h; exact h.symm)

-- ---------------------------------------------------------------------------------------------------------
-- re-creation from the same seed

theorem foldl_state_indep (cfg : Cfg) (hd : HD K P) (ops : List (Op K P)) :
    ∀ (s : State K P) (r r' : List AddrSym.Row),
      (ops.foldl (fun acc op => let x := step cfg hd acc.1 op; (x.1, acc.2 ++ x.2.2)) (s, r)).1 =
      (ops.foldl (fun acc op => let x := step cfg hd acc.1 op; (x.1, acc.2 ++ x.2.2)) (s, r')).1 := by
  induction ops with
  | nil => intro s r r'; rfl
  | cons op rest ih => intro s r r'; simp only [List.foldl_cons]; exact ih _ _ _

/-- **A wallet re-created from the same seed behaves identically**: whatever happened before, after
    `Create(root)` the state — hence every address subsequently issued, looked up or derived, and every key
    returned — is a function of the seed's root key and the operations that follow alone. -/
theorem C03_recreate_same (hd : HD K P) (root : K) (pre ops : List (Op K P)) :
    (run Cfg.fixed hd (pre ++ .create root :: ops)).1 = (run Cfg.fixed hd (.create root :: ops)).1 := by
  have hstep : ∀ s s' : State K P, step Cfg.fixed hd s (.create root) = step Cfg.fixed hd s' (.create root) := by
    intro s s'; simp [step]
  unfold run
  cases pre with
  | nil => rfl
  | cons p ps =>
    simp only [List.cons_append, List.foldl_cons, List.foldl_append]
    rw [hstep _ emptyState]
    exact foldl_state_indep Cfg.fixed hd ops _ _ _

-- ---------------------------------------------------------------------------------------------------------
-- the F3 defect (fixed in the official tree by fd5efc1) and non-vacuity

def demoHD03 : HD (List Nat) (List Nat) :=
  { child := fun k i => some (k ++ [i]), neuter := id, pubChild := fun p i => some (p ++ [i]) }

theorem demoHD03_lawful : demoHD03.Lawful := by intro k i _; rfl

/-- extend while unlocked, look the address up, ask for its key -/
def demoExtend : List (Op (List Nat) (List Nat)) :=
  [.create [0], .unlock 0, .extend (84, 0) 0 1 false, .lookup (84, 0) (.key (.hd [0, 84 + H, 0 + H, 0 + H, 0, 1]) 0 true) 1]

/-- **F3 (unfixed tree).**  With the inverted watch-only test an address created by `ExtendExternalAddresses`
    while unlocked has no private key: `PrivKey()` fails with `ErrWatchingOnly` although the wallet is unlocked. -/
theorem C03_can_sign_counterexample_f3 :
    (match (step { f3 := true } demoHD03 (run { f3 := true } demoHD03 demoExtend).1 (.privKey 1)).2.1 with
      | .err .watchOnly => true | _ => false) = true := by decide

/-- on the fixed tree the same history returns the key, and it is the key of the address's public key -/
example : (match (step {} demoHD03 (run {} demoHD03 demoExtend).1 (.privKey 1)).2.1 with
      | .key (.hd k) => k == [0, 84 + H, 0 + H, 0 + H, 0, 1] | _ => false) = true := by decide

/-- derived while locked, then unlocked: the key is there (derive-on-unlock) -/
example : (match (step {} demoHD03 (run {} demoHD03
      [.create [0], .next (84, 0) 0 2 false 1, .unlock 0]).1 (.privKey 2)).2.1 with
      | .key (.hd k) => k == [0, 84 + H, 0 + H, 0 + H, 0, 1] | _ => false) = true := by decide

/-- after a restart the looked-up address has its key too -/
example : (match (step {} demoHD03 (run {} demoHD03
      [.create [0], .next (49, 0) 0 1 true 1, .restart, .unlock 0,
       .lookup (49, 0) (.key (.hd [0, 49 + H, 0 + H, 0 + H, 1, 0]) 0 true) 9]).1 (.privKey 9)).2.1 with
      | .key (.hd k) => k == [0, 49 + H, 0 + H, 0 + H, 1, 0] | _ => false) = true := by decide

end AddrDerive
