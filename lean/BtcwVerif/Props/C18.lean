/-
C18 — Chain notifications are delivered in order, none lost or duplicated; the producer is never blocked by a slow
consumer; Stop terminates the worker.  (work in progress: only the tie of the select table so far)
-/
import BtcwVerif.Model.Queue
import BtcwVerif.Gen.QueueGen
namespace Queue

/-- The select table regenerated from chain/queue.go is the table the theorems are about. -/
theorem C18_generated_table : QueueGen.table = expectedTable := by decide

end Queue
