/-
C18 — Chain notifications are delivered in order, none lost or duplicated; the producer is never blocked by a slow
consumer; stopping the queue terminates its worker.   (chain/queue.go `ConcurrentQueue`)

Every theorem is about `QueueGen.table`, the select table REGENERATED from chain/queue.go on every run, and holds
for every buffer size `cap ≥ 0` and every schedule `tr` (any interleaving of worker clause firings with producer
offers, consumer receives / blocks / gives up, and `Stop()`), by induction over the schedule.  The proofs are done
for `Queue.expectedTable` in `Lemmas/Queue*.lean`; `C18_generated_table` (by `decide`) transports them.
-/
import BtcwVerif.Lemmas.QueueProgress
import BtcwVerif.Gen.QueueGen
namespace Queue
variable {α : Type}

/-- The select table regenerated from chain/queue.go is the table the theorems are proved for. -/
theorem C18_generated_table : QueueGen.table = expectedTable := by decide

/-- Bookkeeping invariant, all schedules, all `cap`: what was accepted on `ChanIn()` is exactly — in order, without
repetition or omission — what was delivered, then the `chanOut` buffer, then the overflow list, then the item in the
worker's hand, then the (at most one) item dropped by the nested `case <-cq.quit`; and `chanOut` never exceeds `cap`.
When the worker is at the loop head: `delivered ++ out ++ overflow = accepted`. -/
theorem C18_inv (cap : Nat) (tr : List (Label α)) (s : State α) (h : run QueueGen.table (init α cap) tr = some s) :
    s.delivered ++ s.out ++ s.overflow ++ s.held.toList ++ s.lost = s.accepted ∧ s.out.length ≤ cap ∧
    (s.pc = .top → s.delivered ++ s.out ++ s.overflow = s.accepted) ∧
    s.lost.length ≤ 1 ∧ (s.quitClosed = false → s.lost = []) := by
  rw [C18_generated_table] at h
  have hI := inv_run tr (inv_init cap) h
  refine ⟨hI.acc.symm, hI.capc ▸ hI.cap, ?_, ?_, ?_⟩
  · intro hpc
    obtain ⟨h1, _, h3⟩ := hI.top hpc
    have := hI.acc
    simp [h1, h3] at this
    simp [this]
  · cases hpc : s.pc with
    | top => simp [(hI.top hpc).2.2]
    | inner cs => simp [(hI.inner cs hpc).2.2.2.2]
    | exited => exact (hI.exited hpc).2.2
  · intro hq
    cases hpc : s.pc with
    | top => exact (hI.top hpc).2.2
    | inner cs => exact (hI.inner cs hpc).2.2.2.2
    | exited => have := (hI.exited hpc).1; simp [hq] at this

/-- In order, no duplication, no loss.
(1) At every point of every schedule the delivered sequence, followed by everything still queued, is an initial
    segment of the accepted sequence (so nothing is reordered, invented or delivered twice; if the accepted items are
    pairwise distinct, so are the delivered ones).
(2) As long as `Stop()` has not been called nothing is lost: every accepted item is delivered or still queued, and
(3) from that point a consumer that keeps receiving gets all of it: there is a schedule of worker and consumer steps
    only (no producer, no stop), of length ≤ |out| + 2·|overflow| + 3, after which `delivered = accepted`. -/
theorem C18_order_no_loss_no_dup (cap : Nat) (tr : List (Label α)) (s : State α)
    (h : run QueueGen.table (init α cap) tr = some s) :
    (s.delivered ++ s.out ++ s.overflow) <+: s.accepted ∧ s.delivered <+: s.accepted ∧
    (s.accepted.Nodup → s.delivered.Nodup) ∧
    (s.quitClosed = false → s.accepted = s.delivered ++ s.out ++ s.overflow ++ s.held.toList) ∧
    (s.quitClosed = false → ∃ sched s', (∀ l ∈ sched, Label.isDrain l = true) ∧
        sched.length ≤ s.out.length + 2 * s.overflow.length + 3 ∧
        run QueueGen.table s sched = some s' ∧ s'.delivered = s.accepted ∧ s'.accepted = s.accepted) := by
  have h5 := (C18_inv cap tr s h).2.2.2.2
  rw [C18_generated_table] at h ⊢
  have hI := inv_run tr (inv_init cap) h
  have hacc := hI.acc
  have hp1 : (s.delivered ++ s.out ++ s.overflow) <+: s.accepted :=
    ⟨s.held.toList ++ s.lost, by rw [hacc]; simp⟩
  have hp2 : s.delivered <+: s.accepted := ⟨s.out ++ s.overflow ++ s.held.toList ++ s.lost, by rw [hacc]; simp⟩
  refine ⟨hp1, hp2, fun hn => hn.sublist hp2.sublist, ?_, ?_⟩
  · intro hq
    rw [hacc, h5 hq]; simp
  · intro hq
    obtain ⟨sched, s', h1, h2, h3, h4, h5, _⟩ := drain_all hI hq
    exact ⟨sched, s', h1, h2, h3, h4, h5⟩

/-- No loss under EVERY schedule of the worker and a consumer that keeps receiving (blocks on the empty channel and
never gives up), while no producer offers anything and `Stop()` is not called: such a schedule cannot be longer than
`3·|overflow| + 2·|out| + 5` steps, it never changes `accepted`, and when it cannot be extended any more everything
accepted has been delivered.  (The existence statement of `C18_order_no_loss_no_dup` plus this one: progress is
always possible, and every maximal run ends with `delivered = accepted`.) -/
theorem C18_drain_every_schedule (cap : Nat) (tr : List (Label α)) (s : State α)
    (h : run QueueGen.table (init α cap) tr = some s) (hq : s.quitClosed = false)
    (sched : List (Label α)) (s' : State α) (hd : ∀ l ∈ sched, Label.isDrain l = true)
    (hr : run QueueGen.table s sched = some s') :
    sched.length ≤ 3 * s.overflow.length + 2 * s.out.length + 5 ∧ s'.accepted = s.accepted ∧
    ((∀ l : Label α, Label.isDrain l = true → step QueueGen.table s' l = none) →
      s'.delivered = s.accepted ∧ s'.out = [] ∧ s'.overflow = []) := by
  rw [C18_generated_table] at h hr ⊢
  have hI := inv_run tr (inv_init cap) h
  obtain ⟨h1, h2, h3⟩ := drain_bound sched s s' hI hq hd hr
  refine ⟨?_, h3, ?_⟩
  · have : drainMeasure s ≤ 3 * s.overflow.length + 2 * s.out.length + 5 := by
      unfold drainMeasure
      cases s.held <;> cases s.waiting <;> simp <;> omega
    omega
  · intro hstuck
    have := drain_stuck (inv_run sched hI hr) h2 hstuck
    rw [h3] at this
    exact this

/-- The producer is never blocked by a slow consumer.  In every reachable state whose worker is at the loop head the
clause `item := <-cq.chanIn` is enabled for every offered value — no condition on `out`, `overflow` or the consumer.
If the worker is in the nested select, that select never blocks (some clause is always enabled) and whichever clause
fires, the worker is back at the loop head (or has returned, after `Stop()`) — after ONE step of its own.  Hence
bursts of any length are accepted by worker steps alone, two per item, while the consumer takes no step at all. -/
theorem C18_send_enabled (cap : Nat) (tr : List (Label α)) (s : State α)
    (h : run QueueGen.table (init α cap) tr = some s) :
    (s.pc = .top → ∀ x, ∃ s1, step QueueGen.table s (.w (.recvIn x)) = some s1 ∧ s1.accepted = s.accepted ++ [x]) ∧
    (∀ cs, s.pc = .inner cs → (∃ l s1, step QueueGen.table s (.w l) = some s1) ∧
        ∀ l s1, step QueueGen.table s (.w l) = some s1 → s1.pc = .top ∨ s1.pc = .exited) ∧
    (s.quitClosed = false → ∀ xs : List α, ∃ sched s', (∀ l ∈ sched, Label.isWorker l = true) ∧
        sched.length ≤ 2 * xs.length + 1 ∧ run QueueGen.table s sched = some s' ∧
        s'.accepted = s.accepted ++ xs) := by
  rw [C18_generated_table] at h ⊢
  have hI := inv_run tr (inv_init cap) h
  refine ⟨?_, fun cs hpc => inner_nonblocking hI cs hpc, ?_⟩
  · intro hpc x
    obtain ⟨s1, h1, h2, _⟩ := recv_enabled_top hI hpc x
    exact ⟨s1, h1, h2⟩
  · intro hq xs
    obtain ⟨sched, s', h1, h2, h3, h4, _⟩ := burst_accepted xs s hI hq
    exact ⟨sched, s', h1, h2, h3, h4⟩

/-- `Stop()` terminates the worker.  The worker never returns before `Stop()`.  Once `Stop()` was called, in every
reachable state in which the worker is still running the clause `<-cq.quit` is enabled (every select has one) and
firing it makes the worker return; after that no worker clause is enabled and the environment cannot revive it.
Moreover, if no producer offers anything, at most `cap + 2` worker steps are possible after `Stop()` in total, so
the worker then returns under EVERY schedule.  (With producers still offering, Go's select chooses among the ready
clauses at random: termination then holds with probability 1; this part is the Go runtime, not the model.) -/
theorem C18_quit_enabled (cap : Nat) (tr : List (Label α)) (s : State α)
    (h : run QueueGen.table (init α cap) tr = some s) :
    (s.quitClosed = false → s.pc ≠ .exited) ∧
    (s.quitClosed = true → s.pc ≠ .exited → ∃ s', step QueueGen.table s (.w .quit) = some s' ∧ s'.pc = .exited) ∧
    (s.pc = .exited → ∀ l, step QueueGen.table s (.w l) = none) ∧
    (s.pc = .exited → ∀ l s', step QueueGen.table s (.e l) = some s' → s'.pc = .exited) ∧
    (s.quitClosed = true → ∀ sched s', (∀ l ∈ sched, Label.isWorkerNoRecv l = true) →
        run QueueGen.table s sched = some s' → sched.length ≤ cap + 2) := by
  rw [C18_generated_table] at h ⊢
  have hI := inv_run tr (inv_init cap) h
  refine ⟨?_, fun hq hpc => quit_enabled hI hq hpc, fun hpc l => exited_dead _ hpc l, ?_, ?_⟩
  · intro hq hpc
    have := (hI.exited hpc).1
    simp [hq] at this
  · intro hpc l s' hs
    rw [← hpc]; exact estep_pc hs
  · intro hq sched s' hl hr
    have := stop_bound sched s s' hI hq hl hr
    have := stopMeasure_le hI
    omega

/-- The mechanism: direct hand-off of a fresh item to `chanOut` happens only when the overflow list is empty — as a
fact about the generated table (no clause of the `nextElement != nil` select sends `item`), and as a fact about every
reachable state (whenever `cq.chanOut <- item` fires, `overflow = []`, and the item goes to the consumer or to the
back of `out`). -/
theorem C18_direct_handoff_only_if_overflow_empty :
    (∀ c ∈ QueueGen.table.onNonEmpty, c.sendsItem = false) ∧
    (∃ c ∈ QueueGen.table.onEmpty, c.sendsItem = true) ∧
    (∀ (cap : Nat) (tr : List (Label α)) (s s' : State α), run QueueGen.table (init α cap) tr = some s →
      step QueueGen.table s (.w .sendItem) = some s' →
      s.overflow = [] ∧ ∃ x, s.held = some x ∧ (s'.delivered = s.delivered ++ [x] ∨ s'.out = s.out ++ [x])) := by
  refine ⟨by decide, by decide, ?_⟩
  intro cap tr s s' h hs
  rw [C18_generated_table] at h hs
  exact sendItem_only_if_overflow_empty (inv_run tr (inv_init cap) h) hs

/-! ### Non-vacuity: concrete schedules (evaluated by the kernel on the GENERATED table) -/

/-- cap = 1, burst of three: 1 goes to `chanOut`, 2 and 3 overflow; the consumer then gets 1, 2, 3. -/
example :
    (run QueueGen.table (init Nat 1)
      [.w (.recvIn 1), .w .sendItem, .w (.recvIn 2), .w .dflt, .w (.recvIn 3),
       .e .consume, .w .sendFront, .e .consume, .w .sendFront, .e .consume]).map
      (fun s => (s.delivered, s.out, s.overflow, s.accepted)) = some ([1, 2, 3], [], [], [1, 2, 3]) := by decide

/-- cap = 0 (rendez-vous): nothing can be buffered, the item overflows and is handed to the blocked consumer. -/
example :
    (run QueueGen.table (init Nat 0)
      [.w (.recvIn 7), .w .dflt, .w (.recvIn 8), .e .wait, .w .sendFront, .e .wait, .w .sendFront]).map
      (fun s => (s.delivered, s.out, s.overflow)) = some ([7, 8], [], []) := by decide

/-- cap = 0 with the consumer already blocked: direct hand-off through the nested select. -/
example :
    (run QueueGen.table (init Nat 0) [.e .wait, .w (.recvIn 7), .w .sendItem]).map
      (fun s => (s.delivered, s.waiting)) = some ([7], false) := by decide

/-- `default` is not enabled while `chanOut` has room, and a send is not enabled when it is full. -/
example : (run QueueGen.table (init Nat 1) [.w (.recvIn 1), .w .dflt]).isNone = true := by decide
example : (run QueueGen.table (init Nat 1) [.w (.recvIn 1), .w .sendItem, .w (.recvIn 2), .w .sendItem]).isNone = true := by
  decide

/-- Stop: quit is not enabled before `Stop()`, is enabled after, and then nothing is. -/
example : (run QueueGen.table (init Nat 1) [.w .quit]).isNone = true := by decide
example : (run QueueGen.table (init Nat 1) [.e .stop, .w .quit]).map (·.pc) = some .exited := by decide
example : (run QueueGen.table (init Nat 1) [.e .stop, .w .quit, .w (.recvIn 1)]).isNone = true := by decide

/-- What the code does NOT promise (no claim of C18, recorded so the model's honesty is visible): after `Stop()` an
item whose send on `ChanIn()` has completed can be dropped by the nested `case <-cq.quit`, although `chanOut` has
room; and items in the overflow list are abandoned when the worker returns. -/
theorem C18_after_stop_item_may_be_dropped :
    (run QueueGen.table (init Nat 1) [.w (.recvIn 1), .e .stop, .w .quit]).map
      (fun s => (s.accepted, s.delivered, s.out, s.overflow, s.lost, s.pc)) = some ([1], [], [], [], [1], .exited) := by
  rfl

/-! ### Sensitivity of the statements to the table: a mutant table breaks them -/

/-- Under the mutant table item 3 overtakes item 2. -/
theorem C18_mutant_direct_handoff_reorders :
    (run mutantDirectHandoff (init Nat 1)
      [.w (.recvIn 1), .w .sendItem, .w (.recvIn 2), .w .dflt, .e .consume,
       .w (.recvIn 3), .w .sendItem, .e .consume]).map (fun s => (s.delivered, s.accepted)) =
      some ([1, 3], [1, 2, 3]) := by decide

/-- The mutant that forgets `cq.overflow.Remove(nextElement)` delivers an item twice. -/
theorem C18_mutant_no_remove_duplicates :
    (run { expectedTable with onNonEmpty :=
            [⟨.recvIn, [.simple .pushBackItem]⟩, ⟨.sendFront, []⟩, ⟨.quit, [.simple .ret]⟩] } (init Nat 1)
      [.w (.recvIn 1), .w .sendItem, .w (.recvIn 2), .w .dflt, .e .consume, .w .sendFront, .e .consume,
       .w .sendFront, .e .consume]).map (fun s => (s.delivered, s.accepted)) = some ([1, 2, 2], [1, 2]) := by decide

end Queue
