/-
C05 at the wallet level — "the private passphrase the running wallet accepts is the one the database was last
re-keyed with", for `wallet.Wallet` requests on the `WalletRestart` model (Wallet.Unlock, ChangePrivatePassphrase,
ChangePublicPassphrase, ChangePassphrases, next to every other request of the model).

Status: proved for ALL request histories (failed commits, dry runs, failing requests and FAILED combined passphrase
changes included) from the invariant `PrivInv` (`memPriv s = s.disk.priv`).  What is false on the current tree is the
PUBLIC half of a failed combined change (`C05_wallet_counterexample_failed_combined_change_public`); what would be
false with the other order of the two steps is shown by `C05_wallet_counterexample_private_first`.
-/
import BtcwVerif.Lemmas.WalletRestart
namespace WalletRestart

/-! ## 1. nothing but a private `ChangePassphrase` step touches `Disk.priv` / `Mem.privOv` -/

theorem loadAcct_privOv (d : Disk) (m : Mem) (sc a) : (loadAcct d m sc a).2.privOv = m.privOv := by
  unfold loadAcct; cases m.accts sc a <;> simp only []; cases d.rows sc a <;> simp only []

theorem lookupAddr_privOv (d : Disk) (m : Mem) (sc ad) : (lookupAddr d m sc ad).2.privOv = m.privOv := by
  unfold lookupAddr
  cases m.addrs sc ad <;> simp only []
  cases d.addrs sc ad <;> simp only []
  rename_i a
  have := loadAcct_privOv d m sc a
  cases (loadAcct d m sc a).1 <;> exact this

theorem putAddr_priv (d : Disk) (sc a ad) : (putAddr d sc a ad).priv = d.priv := rfl

theorem issueLoop_priv (sc a key i) (n j : Nat) (d : Disk) (m : Mem) :
    (issueLoop sc a key i n j d m).2.1.privOv = m.privOv ∧ (issueLoop sc a key i n j d m).1.priv = d.priv := by
  induction n generalizing j d m with
  | zero => exact ⟨rfl, rfl⟩
  | succ k ih =>
    simp only [issueLoop]
    exact ih _ _ _

theorem issue_priv (t : Tx) (sc a i n) :
    (issue t sc a i n).1.m.privOv = t.m.privOv ∧ (issue t sc a i n).1.d.priv = t.d.priv := by
  have hl := loadAcct_privOv t.d t.m sc a
  unfold issue
  simp only []
  cases (loadAcct t.d t.m sc a).1 with
  | none => exact ⟨hl, rfl⟩
  | some r =>
    simp only []
    generalize (if i = true then r.int else r.ext) = nxt
    split
    · exact ⟨hl, rfl⟩
    · split
      · exact ⟨hl, rfl⟩
      · have := issueLoop_priv sc a r.key i n nxt t.d (loadAcct t.d t.m sc a).2
        exact ⟨this.1.trans hl, this.2⟩

theorem issue_privOv (t : Tx) (sc a i n) : (issue t sc a i n).1.m.privOv = t.m.privOv := (issue_priv t sc a i n).1
theorem issue_dpriv (t : Tx) (sc a i n) : (issue t sc a i n).1.d.priv = t.d.priv := (issue_priv t sc a i n).2

theorem applyPend_privOv (m : Mem) (p : Pend) : (applyPend m p).privOv = m.privOv := by
  unfold applyPend
  split
  · rfl
  · simp only []
    split <;> rfl

theorem foldl_privOv {α} (f : Mem → α → Mem) (hf : ∀ m x, (f m x).privOv = m.privOv) (l : List α) (m : Mem) :
    (l.foldl f m).privOv = m.privOv := by
  induction l generalizing m with
  | nil => rfl
  | cons x rest ih => exact (ih _).trans (hf m x)

theorem commit_privOv (t : Tx) : (commit t).mem.privOv = t.m.privOv :=
  foldl_privOv applyPend applyPend_privOv _ _

theorem commit_disk (t : Tx) : (commit t).disk = t.d := rfl
theorem rollback_privOv (s : State) (t : Tx) : (rollback s t).mem.privOv = t.m.privOv := rfl
theorem rollback_disk (s : State) (t : Tx) : (rollback s t).disk = s.disk := rfl
theorem inval_privOv (m : Mem) (sc a) : (inval m sc a).privOv = m.privOv := rfl

/-- `s'` has the same stored private passphrase id and the same in-memory override as `s` -/
def PFrame (s s' : State) : Prop := s'.mem.privOv = s.mem.privOv ∧ s'.disk.priv = s.disk.priv

theorem PFrame.refl (s : State) : PFrame s s := ⟨rfl, rfl⟩
theorem PFrame.trans {a b c : State} (h1 : PFrame a b) (h2 : PFrame b c) : PFrame a c :=
  ⟨h2.1.trans h1.1, h2.2.trans h1.2⟩

theorem issue1_priv (s : State) (t : Tx) (sc a i ab) (ht : t.d.priv = s.disk.priv) :
    (issue1 s t sc a i ab).1.mem.privOv = t.m.privOv ∧ (issue1 s t sc a i ab).1.disk.priv = s.disk.priv := by
  have h := issue_priv t sc a i 1
  unfold issue1
  simp only []
  cases (issue t sc a i 1).2 with
  | error e => exact ⟨h.1, rfl⟩
  | ok l =>
    cases l with
    | nil => exact ⟨h.1, rfl⟩
    | cons ad rest =>
      cases ab with
      | some res => exact ⟨h.1, rfl⟩
      | none => exact ⟨(commit_privOv _).trans h.1, h.2.trans ht⟩

theorem stepNewAddr_pframe (s : State) (sc a i cf) : PFrame s (stepNewAddr s sc a i cf).1 :=
  issue1_priv s (begin s) sc a i _ rfl

theorem stepCurAddr_pframe (s : State) (sc a) : PFrame s (stepCurAddr s sc a).1 := by
  have h1 : PFrame s { s with mem := (loadAcct s.disk s.mem sc a).2 } := ⟨loadAcct_privOv s.disk s.mem sc a, rfl⟩
  unfold stepCurAddr
  simp only []
  cases (loadAcct s.disk s.mem sc a).1 with
  | none => exact h1
  | some r =>
    simp only []
    split
    · exact h1.trans (stepNewAddr_pframe _ sc a false false)
    · split
      · exact h1.trans (stepNewAddr_pframe _ sc a false false)
      · exact h1

theorem stepFund_pframe (s : State) (sc a) : PFrame s (stepFund s sc a).1 := by
  have h1 := stepNewAddr_pframe s sc a false false
  unfold stepFund
  simp only []
  cases (stepNewAddr s sc a false).2 with
  | addr ad => exact ⟨(lookupAddr_privOv _ _ sc ad).trans h1.1, h1.2⟩
  | _ => exact h1

theorem scanFunded_privOv (d : Disk) (sc a) (l : List (Scope × Addr)) (m : Mem) :
    (scanFunded d sc a l m).2.privOv = m.privOv := by
  induction l generalizing m with
  | nil => rfl
  | cons p rest ih =>
    simp only [scanFunded]
    exact (ih _).trans (lookupAddr_privOv d m p.1 p.2)

theorem stepCreateTx_pframe (s : State) (sc a dry huge nf cf) : PFrame s (stepCreateTx s sc a dry huge nf cf).1 := by
  unfold stepCreateTx
  split
  · exact PFrame.refl s
  · have h1 := loadAcct_privOv s.disk s.mem sc a
    simp only []
    cases (loadAcct s.disk s.mem sc a).1 with
    | none => exact ⟨h1, rfl⟩
    | some r =>
      simp only []
      have h2 := (scanFunded_privOv s.disk sc a s.disk.funded _).trans h1
      split
      · exact ⟨h2, rfl⟩
      · have h3 := issue1_priv s { d := s.disk, m := (scanFunded s.disk sc a s.disk.funded (loadAcct s.disk s.mem sc a).2).2,
                                   pend := [] } sc a true
          (if dry then some .ok else if nf then some (.err .notifyFail) else if cf then some (.err .commitFail) else none) rfl
        exact ⟨h3.1.trans h2, h3.2⟩

theorem stepFundPsbt_pframe (s : State) (sc a c) : PFrame s (stepFundPsbt s sc a c).1 := by
  cases c with
  | none => exact stepCreateTx_pframe s sc a false false false false
  | some i =>
    simp only [stepFundPsbt]
    cases s.disk.funded[i]? with
    | none => exact PFrame.refl s
    | some c =>
      simp only []
      have h0 := lookupAddr_privOv s.disk s.mem c.1 c.2
      have h1 := (loadAcct_privOv s.disk (lookupAddr s.disk s.mem c.1 c.2).2 sc a).trans h0
      cases (loadAcct s.disk (lookupAddr s.disk s.mem c.1 c.2).2 sc a).1 with
      | none => exact ⟨h1, rfl⟩
      | some r =>
        have h3 := issue1_priv s { d := s.disk, m := (loadAcct s.disk (lookupAddr s.disk s.mem c.1 c.2).2 sc a).2,
                                   pend := [] } sc a true none rfl
        exact ⟨h3.1.trans h1, h3.2⟩

theorem stepImport_pframe (s : State) (dry sc nm key n cf) : PFrame s (stepImport s dry sc nm key n cf).1 := by
  unfold stepImport stepImportWith
  split
  · exact PFrame.refl s
  · simp only []
    split
    · exact PFrame.refl s
    · split
      · exact PFrame.refl s
      · split
        · exact ⟨loadAcct_privOv _ _ _ _, rfl⟩
        · split
          · split
            · exact ⟨loadAcct_privOv _ _ _ _, rfl⟩
            · exact ⟨loadAcct_privOv _ _ _ _, rfl⟩
          · split
            · refine ⟨?_, rfl⟩
              simp only [inval_privOv, issue_privOv, loadAcct_privOv]
            · split
              · refine ⟨?_, rfl⟩
                simp only [inval_privOv, issue_privOv, loadAcct_privOv]
              · split
                · refine ⟨?_, rfl⟩
                  simp only [inval_privOv, issue_privOv, loadAcct_privOv]
                · refine ⟨?_, rfl⟩
                  simp only [inval_privOv, issue_privOv, loadAcct_privOv]

theorem stepRename_pframe (s : State) (sc a nm cf) : PFrame s (stepRename s sc a nm cf).1 := by
  unfold stepRename
  split
  · exact PFrame.refl s
  · split
    · exact PFrame.refl s
    · cases s.disk.rows sc a with
      | none => exact PFrame.refl s
      | some r =>
        simp only []
        have hm : (match s.mem.accts sc a with
            | none => s.mem
            | some c => { s.mem with accts := setRow s.mem.accts sc a (some { c with name := nm }) }).privOv
            = s.mem.privOv := by
          cases s.mem.accts sc a <;> rfl
        split
        · exact ⟨(loadAcct_privOv _ _ _ _).trans hm, rfl⟩
        · exact ⟨(loadAcct_privOv _ _ _ _).trans hm, rfl⟩

theorem stepNewAcct_pframe (s : State) (sc nm) : PFrame s (stepNewAcct s sc nm).1 := by
  unfold stepNewAcct
  split
  · exact PFrame.refl s
  · simp only []
    split
    · exact PFrame.refl s
    · split
      · exact PFrame.refl s
      · exact ⟨loadAcct_privOv _ _ _ _, rfl⟩

theorem sweepAccts_privOv (d : Disk) (sc) (n : Nat) (m : Mem) : (sweepAccts d sc n m).privOv = m.privOv := by
  induction n with
  | zero => exact loadAcct_privOv d m sc 0
  | succ k ih => exact (loadAcct_privOv d _ sc (k + 1)).trans ih

theorem stepCmp_pframe (s : State) (scs us) : PFrame s (stepCmp s scs us) := by
  unfold stepCmp
  refine ⟨?_, rfl⟩
  simp only []
  refine (foldl_privOv _ (fun m (p : Scope × Addr) => lookupAddr_privOv s.disk m p.1 p.2) _ _).trans ?_
  exact foldl_privOv _ (fun m (sc : Scope) => sweepAccts_privOv s.disk sc _ m) _ _

theorem stepUnlock_pframe (s : State) : PFrame s (stepUnlock s).1 := by
  unfold stepUnlock
  split
  · exact PFrame.refl s
  · split
    · exact ⟨foldl_privOv _ (fun m (p : Scope × Acct) => loadAcct_privOv s.disk m p.1 p.2) _ _, rfl⟩
    · exact PFrame.refl s

theorem stepUnlockPass_pframe (s : State) (p : Nat) : PFrame s (stepUnlockPass s p).1 := by
  unfold stepUnlockPass
  split
  · exact stepUnlock_pframe s
  · exact PFrame.refl s

/-! ## 2. the passphrase requests in closed form -/

theorem stepChPass_priv_eq (s : State) (old new : Nat) :
    stepChPass s true old new =
      if old = memPriv s then
        ({ disk := { s.disk with priv := new }, mem := { s.mem with privOv := some new } }, .ok)
      else (s, .err .wrongPass) := by
  by_cases h : old = memPrivOf s.disk s.mem
  · simp [stepChPass, chStep, begin, commit, memPriv, h]
  · simp [stepChPass, chStep, begin, rollback, memPriv, h]

theorem stepChPass_pub_eq (s : State) (old new : Nat) :
    stepChPass s false old new =
      if old = memPub s then
        ({ disk := { s.disk with pub := new }, mem := { s.mem with pubOv := some new } }, .ok)
      else (s, .err .wrongPass) := by
  by_cases h : old = memPubOf s.disk s.mem
  · simp [stepChPass, chStep, begin, commit, memPub, h]
  · simp [stepChPass, chStep, begin, rollback, memPub, h]

/-- `ChangePassphrases` in the order of the code (public step first): three outcomes -/
theorem stepChBoth_eq (s : State) (po pn vo vn : Nat) :
    stepChBoth s po pn vo vn =
      if po = memPub s then
        if vo = memPriv s then
          ({ disk := { s.disk with pub := pn, priv := vn },
             mem := { s.mem with pubOv := some pn, privOv := some vn } }, .ok)
        else ({ disk := s.disk, mem := { s.mem with pubOv := some pn } }, .err .wrongPass)
      else (s, .err .wrongPass) := by
  by_cases h1 : po = s.mem.pubOv.getD s.disk.pub
  · by_cases h2 : vo = s.mem.privOv.getD s.disk.priv
    · simp [stepChBoth, stepChBothWith, chStep, begin, commit, memPub, memPriv, memPrivOf, memPubOf, h1, h2]
    · simp [stepChBoth, stepChBothWith, chStep, begin, rollback, memPub, memPriv, memPrivOf, memPubOf, h1, h2]
  · simp [stepChBoth, stepChBothWith, chStep, begin, rollback, memPub, memPubOf, h1]

/-! ## 3. the invariant -/

/-- the private passphrase the running manager checks against is the one the database was last re-keyed with -/
def PrivInv (s : State) : Prop := memPriv s = s.disk.priv

theorem PrivInv.of_pframe {s s' : State} (h : PrivInv s) (hf : PFrame s s') : PrivInv s' := by
  unfold PrivInv memPriv memPrivOf at *
  rw [hf.1, hf.2]; exact h

theorem init_privInv : PrivInv init := rfl

theorem reopen_privInv (s : State) : PrivInv (reopen s) := rfl

theorem memPriv_reopen (s : State) : memPriv (reopen s) = s.disk.priv := rfl

/-- every request other than a passphrase change leaves the stored private passphrase id and the in-memory
override alone -/
theorem step_pframe (s : State) (op : Op) (h1 : ∀ pr o n, op ≠ .chPass pr o n) (h2 : ∀ a b c d, op ≠ .chBoth a b c d)
    (h3 : op ≠ .restart) : PFrame s (step s op).1 := by
  cases op with
  | newAddr sc a i cf => exact stepNewAddr_pframe s sc a i cf
  | curAddr sc a => exact stepCurAddr_pframe s sc a
  | fund sc a => exact stepFund_pframe s sc a
  | createTx sc a dry huge nf cf => exact stepCreateTx_pframe s sc a dry huge nf cf
  | fundPsbt sc a c => exact stepFundPsbt_pframe s sc a c
  | importAcct dry sc nm key n cf => exact stepImport_pframe s dry sc nm key n cf
  | rename sc a nm cf => exact stepRename_pframe s sc a nm cf
  | newAcct sc nm => exact stepNewAcct_pframe s sc nm
  | lock => exact PFrame.refl s
  | unlock => exact stepUnlock_pframe s
  | cmp scs us => exact stepCmp_pframe s scs us
  | unlockPass p => exact stepUnlockPass_pframe s p
  | chPass pr o n => exact absurd rfl (h1 pr o n)
  | chBoth a b c d => exact absurd rfl (h2 a b c d)
  | restart => exact absurd rfl h3

theorem step_priv_frame (s : State) (op : Op) (h1 : ∀ pr o n, op ≠ .chPass pr o n) (h2 : ∀ a b c d, op ≠ .chBoth a b c d)
    (h3 : op ≠ .restart) :
    (step s op).1.disk.priv = s.disk.priv ∧ (step s op).1.mem.privOv = s.mem.privOv :=
  ⟨(step_pframe s op h1 h2 h3).2, (step_pframe s op h1 h2 h3).1⟩

theorem stepChPass_privInv (s : State) (pr old new) (h : PrivInv s) : PrivInv (stepChPass s pr old new).1 := by
  cases pr
  · rw [stepChPass_pub_eq]
    split
    · exact h
    · exact h
  · rw [stepChPass_priv_eq]
    split
    · rfl
    · exact h

theorem stepChBoth_privInv (s : State) (po pn vo vn) (h : PrivInv s) : PrivInv (stepChBoth s po pn vo vn).1 := by
  rw [stepChBoth_eq]
  split
  · split
    · rfl
    · exact h
  · exact h

/-- EVERY request preserves the invariant (no hypothesis on the request) -/
theorem step_privInv (s : State) (op : Op) (h : PrivInv s) : PrivInv (step s op).1 := by
  cases op with
  | chPass pr o n => exact stepChPass_privInv s pr o n h
  | chBoth a b c d => exact stepChBoth_privInv s a b c d h
  | restart => exact reopen_privInv s
  | _ => exact h.of_pframe (step_pframe s _ (by intro pr o n hh; cases hh) (by intro a b c d hh; cases hh)
      (by intro hh; cases hh))

theorem run_privInv (s : State) (ops : List Op) (h : PrivInv s) : PrivInv (run s ops) := by
  induction ops generalizing s with
  | nil => exact h
  | cons op rest ih => exact ih _ (step_privInv s op h)

/-- **After ANY history of wallet requests** (NewAddress, CreateSimpleTx dry/real/failing, FundPsbt, ImportAccount /
DryRun, RenameAccount, NextAccount, Lock, Unlock with right and wrong passphrases, ChangePrivatePassphrase,
ChangePublicPassphrase, ChangePassphrases — failed commits and FAILED combined changes included) the private
passphrase the running manager checks against is the one the database was last re-keyed with. -/
theorem C05_wallet_priv_invariant (ops : List Op) : memPriv (run init ops) = (run init ops).disk.priv :=
  run_privInv init ops init_privInv

/-! ## 4. the property: Unlock and the private passphrase changes -/

/-- `Wallet.Unlock(p)` does not answer ErrWrongPassphrase -/
def accepts (s : State) (p : Nat) : Prop := (stepUnlockPass s p).2 ≠ .err .wrongPass

theorem stepUnlock_ne_wrongPass (s : State) : (stepUnlock s).2 ≠ .err .wrongPass := by
  unfold stepUnlock
  split
  · intro h; cases h
  · split
    · intro h; cases h
    · intro h; cases h

theorem accepts_iff (s : State) (p : Nat) : accepts s p ↔ p = memPriv s := by
  unfold accepts stepUnlockPass
  constructor
  · intro h
    split at h
    · assumption
    · exact absurd rfl h
  · intro h
    rw [if_pos h]
    exact stepUnlock_ne_wrongPass s

/-- **The running wallet and a wallet restarted on the same database accept exactly the same private passphrase:
the database's.**  For every history of requests (failed commits, dry runs, failing requests, failed combined
passphrase changes included) and every passphrase `p`: `Wallet.Unlock(p)` on the running wallet is answered with
something other than ErrWrongPassphrase iff `p` is the passphrase the database was last re-keyed with, and the same
holds for a wallet freshly opened on that database. -/
theorem C05_wallet_unlock_current (ops : List Op) (p : Nat) :
    (accepts (run init ops) p ↔ p = (run init ops).disk.priv) ∧
    (accepts (reopen (run init ops)) p ↔ p = (run init ops).disk.priv) ∧
    (accepts (run init ops) p ↔ accepts (reopen (run init ops)) p) := by
  have h1 : accepts (run init ops) p ↔ p = (run init ops).disk.priv := by
    rw [accepts_iff, C05_wallet_priv_invariant]
  have h2 : accepts (reopen (run init ops)) p ↔ p = (run init ops).disk.priv := by
    rw [accepts_iff, memPriv_reopen]
  exact ⟨h1, h2, h1.trans h2.symm⟩

/-- **Any other passphrase is refused, and the refusal locks the manager without touching the database**
(`Manager.Unlock` → `m.lock()` → ErrWrongPassphrase), after every history. -/
theorem C05_wallet_unlock_other_fails_locked (ops : List Op) (p : Nat) (hp : p ≠ (run init ops).disk.priv) :
    (stepUnlockPass (run init ops) p).2 = .err .wrongPass ∧
    (stepUnlockPass (run init ops) p).1.mem.locked = true ∧
    (stepUnlockPass (run init ops) p).1.disk = (run init ops).disk := by
  have hne : ¬ p = memPriv (run init ops) := by rw [C05_wallet_priv_invariant]; exact hp
  unfold stepUnlockPass
  rw [if_neg hne]
  exact ⟨rfl, rfl, rfl⟩

/-- **The database's passphrase unlocks exactly as the model's legacy `unlock` request** (the one the C08 wallet
theorems talk about): `Wallet.Unlock(current passphrase)` is never refused for the passphrase. -/
theorem C05_wallet_unlock_current_same_as_unlock (ops : List Op) :
    stepUnlockPass (run init ops) (run init ops).disk.priv = stepUnlock (run init ops) := by
  unfold stepUnlockPass
  rw [if_pos (C05_wallet_priv_invariant ops).symm]

/-- **ChangePrivatePassphrase / ChangePassphrases work as a restart would see them**, after every history `ops`
(with `s` the state reached):
* `Wallet.ChangePrivatePassphrase(old, new)` answering nil means `old` was the database's passphrase, the database is
  now keyed with `new` and the running manager checks against `new` (so by `C05_wallet_unlock_current` `new` is
  accepted and every other passphrase refused, now and after a restart); answering an error means the database is
  unchanged and the manager still checks against the same passphrase.
* `Wallet.ChangePassphrases(po, pn, vo, vn)` answering nil means `vo` was the database's private passphrase and the
  database now has private `vn`, public `pn`, the manager checking against `vn`; answering an error (wrong public OR
  wrong private old passphrase — the FAILED combined change) means the database is unchanged and the manager still
  checks against the same private passphrase. -/
theorem C05_wallet_change_private_works (ops : List Op) (old new po pn vo vn : Nat) :
    let s := run init ops
    ((step s (.chPass true old new)).2 = .ok →
      old = s.disk.priv ∧ (step s (.chPass true old new)).1.disk.priv = new ∧
      memPriv (step s (.chPass true old new)).1 = new) ∧
    ((step s (.chPass true old new)).2 ≠ .ok →
      (step s (.chPass true old new)).1.disk = s.disk ∧ memPriv (step s (.chPass true old new)).1 = memPriv s) ∧
    ((step s (.chBoth po pn vo vn)).2 = .ok →
      vo = s.disk.priv ∧ (step s (.chBoth po pn vo vn)).1.disk.priv = vn ∧
      (step s (.chBoth po pn vo vn)).1.disk.pub = pn ∧ memPriv (step s (.chBoth po pn vo vn)).1 = vn) ∧
    ((step s (.chBoth po pn vo vn)).2 ≠ .ok →
      (step s (.chBoth po pn vo vn)).1.disk = s.disk ∧ memPriv (step s (.chBoth po pn vo vn)).1 = memPriv s) := by
  intro s
  have hinv : memPriv s = s.disk.priv := C05_wallet_priv_invariant ops
  simp only [step]
  rw [stepChPass_priv_eq, stepChBoth_eq]
  refine ⟨?_, ?_, ?_, ?_⟩
  · intro h
    split at h
    · rename_i hc
      rw [if_pos hc]
      exact ⟨hc.trans hinv, rfl, rfl⟩
    · cases h
  · intro h
    split at h
    · exact absurd rfl h
    · rename_i hc
      rw [if_neg hc]
      exact ⟨rfl, rfl⟩
  · intro h
    split at h
    · split at h
      · rename_i hc1 hc2
        rw [if_pos hc1, if_pos hc2]
        exact ⟨hc2.trans hinv, rfl, rfl, rfl⟩
      · cases h
    · cases h
  · intro h
    split at h
    · split at h
      · exact absurd rfl h
      · rename_i hc1 hc2
        rw [if_pos hc1, if_neg hc2]
        exact ⟨rfl, rfl⟩
    · rename_i hc1
      rw [if_neg hc1]
      exact ⟨rfl, rfl⟩

/-- results of a request sequence, in order -/
def runRes : State → List Op → List Res
  | _, [] => []
  | s, op :: rest => (step s op).2 :: runRes (step s op).1 rest

/-! ## 5. what is FALSE -/

/-- the UNCHANGED order of `ChangePassphrases` (public step first, private step second) with a wrong PRIVATE old
passphrase: the request fails, the database keeps public passphrase 0 and private passphrase 0, but the running
manager already replaced its PUBLIC master key (`memPub = 1`): the running wallet refuses
`ChangePublicPassphrase(0 → 2)` that a restarted wallet accepts.  The private passphrase is unaffected (which is
why the private-passphrase theorems above hold for histories with failed combined changes). -/
theorem C05_wallet_counterexample_failed_combined_change_public :
    let s := (step init (.chBoth 0 1 7 2)).1
    (step init (.chBoth 0 1 7 2)).2 = .err .wrongPass ∧
    s.disk.pub = 0 ∧ s.disk.priv = 0 ∧ memPub s = 1 ∧ memPriv s = 0 ∧
    (step s (.chPass false 0 2)).2 = .err .wrongPass ∧
    (step (reopen s) (.chPass false 0 2)).2 = .ok := by
  decide

/-- with the OTHER order of the two steps (private first) a wrong PUBLIC old passphrase would leave the running
manager on private passphrase 2 while the database stays on 0: `Unlock(0)` is refused (and locks) and `Unlock(2)`
accepted by the running wallet, the opposite of a restarted one. -/
theorem C05_wallet_counterexample_private_first :
    let r := stepChBothWith true init 9 1 0 2
    r.2 = .err .wrongPass ∧ r.1.disk.priv = 0 ∧ memPriv r.1 = 2 ∧
    (stepUnlockPass r.1 0).2 = .err .wrongPass ∧ (stepUnlockPass r.1 0).1.mem.locked = true ∧
    (stepUnlockPass r.1 2).2 = .ok ∧
    (stepUnlockPass (reopen r.1) 0).2 = .ok ∧ (stepUnlockPass (reopen r.1) 2).2 = .err .wrongPass := by
  decide

/-- non-vacuity: ChangePrivatePassphrase(0 → 3), Lock, Unlock(0) refused, Unlock(3) accepted -/
example : runRes init [.chPass true 0 3, .lock, .unlockPass 0, .unlockPass 3] = [.ok, .ok, .err .wrongPass, .ok] := by
  decide

/-- non-vacuity: a FAILED combined change (wrong private old passphrase) in the history, then the private passphrase
still behaves: Unlock(0) accepted, ChangePassphrases(1→…) refused by the running wallet's stale PUBLIC key but the
private change alone works, and after it 0 is refused and 5 accepted - also after a restart. -/
example :
    let s := run init [.chBoth 0 1 7 2, .lock]
    runRes s [.unlockPass 0, .chPass true 0 5, .lock, .unlockPass 0, .unlockPass 5] =
      [.ok, .ok, .ok, .err .wrongPass, .ok] ∧
    runRes (reopen (run s [.chPass true 0 5])) [.unlockPass 0, .unlockPass 5] = [.err .wrongPass, .ok] := by
  decide

/-! ## 6. the combined change with `repo-patches/fix-C05-changepassphrases-public-half-rollback.diff` -/

/-- **With the fix, a refused `Wallet.ChangePassphrases` changes nothing the running wallet checks passphrases
against** - neither the database, nor the private passphrase, nor (unlike the unfixed handler, see
`C05_wallet_counterexample_failed_combined_change_public`) the PUBLIC passphrase in memory; a successful one is the
unfixed handler's result.  From ANY state. -/
theorem C05_wallet_fixed_combined_change (s : State) (po pn vo vn : Nat) :
    ((stepChBothFixed s po pn vo vn).2 ≠ .ok →
      (stepChBothFixed s po pn vo vn).1.disk = s.disk ∧ memPub (stepChBothFixed s po pn vo vn).1 = memPub s ∧
      memPriv (stepChBothFixed s po pn vo vn).1 = memPriv s) ∧
    ((stepChBothFixed s po pn vo vn).2 = .ok → stepChBothFixed s po pn vo vn = stepChBoth s po pn vo vn) := by
  unfold stepChBothFixed
  rw [stepChBoth_eq]
  by_cases h1 : po = memPub s
  · by_cases h2 : vo = memPriv s
    · simp [h1, h2]
    · simp only [h1, h2, if_true, if_false]
      simp [memPub, memPubOf, memPriv, memPrivOf]
  · simp [h1]

/-- the fixed handler on the counter-example's input: the running wallet keeps accepting the old public passphrase -/
example :
    let s := (stepChBothFixed init 0 1 7 2).1
    (stepChBothFixed init 0 1 7 2).2 = .err .wrongPass ∧ memPub s = 0 ∧ (step s (.chPass false 0 2)).2 = .ok := by
  decide

end WalletRestart
