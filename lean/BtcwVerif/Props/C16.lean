/-
C16 — Recovery from seed finds every used address within the look-ahead window; the birthday block is not late.
Property theorems about `Recovery` (model of wallet/recovery.go BranchRecoveryState, expandScopeHorizons,
RecoveryManager.Resurrect and wallet.go locateBirthdayBlock).  Proofs in Lemmas/RecoveryLemmas.lean.

What is proved for ALL inputs: the branch-horizon clause (every window, every set of invalid children, every
reachable branch state, also after Resurrect) and the birthday clauses (every timestamp sequence, birthday, delta).
What is NOT proved: `C16_complete` for the whole batch loop (`recover`: expandAll → filterBlocks → applyFound, any
batching, any resume points).  The loop is modelled (Model/Recovery.lean) and compared with the real wallet on
generated chains, and the driver checks on every case that the result is independent of the resume points; the
inductive proof over the block list is missing.  `C16_complete_step_partial` below is the per-branch core of it.
-/
import BtcwVerif.Lemmas.RecoveryLemmas
namespace Recovery

/-- After `expandScopeHorizons` every valid child index below `nextUnfound + window` is watched, at least `window`
    valid indices at or above `nextUnfound` are watched (invalid children extend the horizon), and the bookkeeping
    invariant is kept. -/
theorem C16_branch_horizon (inv : List Nat) (b : Branch) (h : BranchOK inv b) :
    let b' := expand inv b
    BranchOK inv b' ∧ b'.nextUnfound = b.nextUnfound ∧ b'.nextUnfound + b'.window ≤ b'.horizon ∧
      (∀ i, i < b'.nextUnfound + b'.window → Valid inv i → i ∈ b'.addrs) ∧
      b'.window ≤ ((List.range b'.horizon).filter (fun i => decide (b'.nextUnfound ≤ i) && !inv.contains i)).length :=
  ⟨(branch_horizon inv b h).1, (branch_horizon inv b h).2.1, (branch_horizon inv b h).2.2.1, (branch_horizon inv b h).2.2.2,
   (branch_horizon_count inv b h).1⟩

/-- The invariant holds initially and is kept by `ReportFound` (any index), so it holds in every state the recovery
    loop reaches. -/
theorem C16_branch_invariant_reachable (inv : List Nat) (w : Nat) :
    BranchOK inv (Branch.new w) ∧ ∀ b i, BranchOK inv b → BranchOK inv (b.reportFound i) :=
  ⟨branchOK_new inv w, fun _ i h => branchOK_reportFound h i⟩

/-- Resumed recovery (`Resurrect` with `count` keys already issued, then the first horizon expansion) watches every
    valid index below `count + window`. -/
theorem C16_resume_horizon (w : Nat) (inv : List Nat) (count : Nat) :
    let b' := expand inv (resurrectBranch w inv count)
    b'.nextUnfound = count ∧ (∀ i, i < count + w → Valid inv i → i ∈ b'.addrs) :=
  ⟨(resurrect_expand_horizon w inv count).2.1, (resurrect_expand_horizon w inv count).2.2.2.2.1⟩

/-- Per-branch core of completeness: if a block pays index `i` on a branch whose state is expanded and `i` is within
    the look-ahead hypothesis (`i < nextUnfound + window`, `i` valid), then `i` is in the watched set handed to
    `FilterBlocks`, hence found.  (The lift to the whole loop is the missing part of `C16_complete`.) -/
theorem C16_complete_step_partial (inv : List Nat) (b : Branch) (h : BranchOK inv b) (i : Nat)
    (hi : i < b.nextUnfound + b.window) (hv : Valid inv i) : i ∈ (expand inv b).addrs := by
  have := branch_horizon inv b h
  obtain ⟨_, h2, _, h4⟩ := this
  apply h4 i _ hv
  have hw : (expand inv b).window = b.window := (expand_spec inv b h).2.2.1
  rw [h2, hw]; exact hi

/-- The binary search always returns a block (no timestamp assumption). -/
theorem C16_birthday_terminates (ts : Nat → Int) (b delta : Int) (best : Nat) :
    ∃ r, locateBirthdayBlock ts b delta best = some r ∧ r ≤ best :=
  birthday_terminates ts b delta best

/-- The returned block is the genesis block or its timestamp is at most birthday + delta. -/
theorem C16_birthday_not_late (ts : Nat → Int) (b delta : Int) (hd : 0 ≤ delta) (best : Nat) (hm : Mono ts best)
    (r : Nat) (h : locateBirthdayBlock ts b delta best = some r) : r = 0 ∨ ts r ≤ b + delta :=
  birthday_not_late ts b delta hd best hm r h

/-- Hence, for monotone timestamps, every block up to and including the returned one (scanning starts right above
    it) has a timestamp ≤ birthday + delta: no block that could pay the wallet is skipped. -/
theorem C16_birthday_skips_nothing (ts : Nat → Int) (b delta : Int) (hd : 0 ≤ delta) (best : Nat) (hm : Mono ts best)
    (r : Nat) (h : locateBirthdayBlock ts b delta best = some r) : ∀ k, k ≤ r → r ≠ 0 → ts k ≤ b + delta :=
  birthday_skips_nothing ts b delta hd best hm r h

/-! Non-vacuity -/
example : locateBirthdayBlock (fun h => 10 * h) 31 2 5 = some 3 := by decide
example : BranchOK [2, 3] (expand [2, 3] ((Branch.new 2).reportFound 1)) :=
  (C16_branch_horizon [2, 3] _ (branchOK_reportFound (branchOK_new [2, 3] 2) 1)).1

end Recovery
