/-
C16 — Recovery from seed finds every used address within the look-ahead window; the birthday block is not late.
Property theorems about `Recovery` (model of wallet/recovery.go BranchRecoveryState, expandScopeHorizons,
RecoveryManager.Resurrect and wallet.go locateBirthdayBlock).  Proofs in Lemmas/RecoveryLemmas.lean.

What is proved for ALL inputs: `C16_complete` for the whole batch loop (`recover`: expandAll → filterBlocks →
applyFound, every window, every chain satisfying the look-ahead hypothesis, every set of invalid children, every batch
size, every set of resume points), `C16_complete_resumed` (a later recovery over an extended chain, possibly with
another window, recovered outputs possibly leased or spent by unmined transactions at the restart; the code before
50a099b missed spends of such outputs, `C16_resumed_misses_spend_of_hidden_output`), runs that END EARLY and are
resumed (`C16_complete_interrupted`, `C16_complete_lock_interrupted`: wallet locked / unlock timeout / Stop while the
block loop runs; `C16_complete_after_failed_batch`: FilterBlocks failing inside a batch, then a process restart), the
branch-horizon clause (every window, every set of invalid children, every reachable branch
state, also after Resurrect) and the birthday clauses (every timestamp sequence, birthday, delta).
Proofs: Lemmas/RecoveryLoop.lean (filter, horizon, extendFound, addRelevantTx) and Lemmas/RecoveryComplete.lean
(loop invariant `PInv`/`MInv`, blocks, batches, Resurrect).

The look-ahead hypothesis is `LookAhead` (Lemmas/RecoveryLoop.lean): the payments of a block are all measured
against the next index after the EARLIER blocks (`nextAfter`), exactly as the property says.  That this is the right
reading — the real loop does not re-filter a block after a find in the same block (`batch = batch[BatchIndex+1:]`) —
is shown by `C16_same_block_jump_is_missed`.

INVALID CHILDREN (`invalid`, `inv` below): until /repo d8ace74 the `MarkInvalidChild` path was dead code for a real invalid
child: `expandScopeHorizons` (wallet/wallet.go) and `Resurrect` (wallet/recovery.go) tested
`err == hdkeychain.ErrInvalidChild`, but `ScopedKeyManager.DeriveFromKeyPath` gets the error from `deriveKey`
(waddrmgr/scoped_manager.go), which wraps it in `managerError(ErrKeyChain, str, err)`; a real invalid child (probability
2^-127 per index, cannot be provoked with real keys) would have aborted recovery for ever.  Since d8ace74 the callers use
`errors.Is` (`ManagerError` has `Unwrap`) and the code does what the model says.  `BranchRecoveryState` itself
(ExtendHorizon / NumInvalidInHorizon / MarkInvalidChild) is exercised with invalid children through its exported API; in
the loop they are covered by the theorems only.
Locked/unlocked: the model has no lock state because the real recovery
behaves identically in both (compared by the engine), so the theorem covers both.
-/
import BtcwVerif.Lemmas.RecoveryComplete
import BtcwVerif.Lemmas.RecoveryInterrupt
namespace Recovery

/-- After `expandScopeHorizons` every valid child index below `nextUnfound + window` is watched, at least `window`
    valid indices at or above `nextUnfound` are watched (invalid children extend the horizon), and the bookkeeping
    invariant is kept. -/
theorem C16_branch_horizon (inv : List Nat) (b : Branch) (h : BranchOK inv b) :
    let b' := expand inv b
    BranchOK inv b' ∧ b'.nextUnfound = b.nextUnfound ∧ b'.nextUnfound + b'.window ≤ b'.horizon ∧
      (∀ i, i < b'.nextUnfound + b'.window → Valid inv i → i ∈ b'.addrs) ∧
      b'.window ≤ ((List.range b'.horizon).filter (fun i => decide (b'.nextUnfound ≤ i) && !inv.contains i)).length :=
  ⟨(branch_horizon inv b h).1, (branch_horizon inv b h).2.1, (branch_horizon inv b h).2.2.1, (branch_horizon inv b h).2.2.2,
   (branch_horizon_count inv b h).1⟩

/-- The invariant holds initially and is kept by `ReportFound` (any index), so it holds in every state the recovery
    loop reaches. -/
theorem C16_branch_invariant_reachable (inv : List Nat) (w : Nat) :
    BranchOK inv (Branch.new w) ∧ ∀ b i, BranchOK inv b → BranchOK inv (b.reportFound i) :=
  ⟨branchOK_new inv w, fun _ i h => branchOK_reportFound h i⟩

/-- Resumed recovery (`Resurrect` with `count` keys already issued, then the first horizon expansion) watches every
    valid index below `count + window`. -/
theorem C16_resume_horizon (w : Nat) (inv : List Nat) (count : Nat) :
    let b' := expand inv (resurrectBranch w inv count)
    b'.nextUnfound = count ∧ (∀ i, i < count + w → Valid inv i → i ∈ b'.addrs) :=
  ⟨(resurrect_expand_horizon w inv count).2.1, (resurrect_expand_horizon w inv count).2.2.2.2.1⟩

/-- Per-branch core of completeness: if a block pays index `i` on a branch whose state is expanded and `i` is within
    the look-ahead hypothesis (`i < nextUnfound + window`, `i` valid), then `i` is in the watched set handed to
    `FilterBlocks`, hence found.  (Kept for reference; the whole loop is `C16_complete` below.) -/
theorem C16_complete_step_partial (inv : List Nat) (b : Branch) (h : BranchOK inv b) (i : Nat)
    (hi : i < b.nextUnfound + b.window) (hv : Valid inv i) : i ∈ (expand inv b).addrs := by
  have := branch_horizon inv b h
  obtain ⟨_, h2, _, h4⟩ := this
  apply h4 i _ hv
  have hw : (expand inv b).window = b.window := (expand_spec inv b h).2.2.1
  rw [h2, hw]; exact hi

/-! ### Completeness of the whole recovery loop -/

/-- The conclusion of C16 for a final state `st` after the chain `c`. -/
def Complete (scopes : List Nat) (c : Chain) (st : State) : Prop :=
  -- every used address of the recovered scopes is found (marked used) and the branch's next index is above it
  (∀ k ∈ paidKeys (allTxs c), scopes.contains k.scope = true →
      k ∈ st.used ∧ k.index < st.nextOf (k.scope, k.internal)) ∧
  -- every transaction paying to or spending from them is recorded, in its block
  (∀ h blk, (h, blk) ∈ c → ∀ tx ∈ blk,
      ((∃ o ∈ tx.outs, isW scopes o = true) ∨ (∃ op ∈ tx.ins, op ∈ wops scopes (allTxs c))) → (tx.id, h) ∈ st.txs) ∧
  -- the credits are exactly the wallet outputs of the chain, spent iff the chain spends them
  st.credits = specCredits scopes (allTxs c) ∧
  -- correct balance (`CalculateBalance` deliberately leaves out leased outputs and outputs spent by an unmined
  -- transaction — `hidden`; when there are none it is the ledger balance)
  ((∀ op, hidden st op = false) → balance st = ledgerBalance scopes (allTxs c))

theorem complete_of_pinv {scopes : List Nat} {c : Chain} {st : State} (hp : PInv scopes c c st) :
    Complete scopes c st := by
  refine ⟨fun k hk hs => ⟨(hp.paid k hk hs).2, (hp.paid k hk hs).1⟩, ?_, hp.credits,
    balance_spec scopes _ st hp.credits⟩
  intro h blk hmem tx htx ht
  apply hp.txs_rec h blk hmem tx htx
  simp only [touches, Bool.or_eq_true, List.any_eq_true, List.contains_iff_mem]
  exact ht

/-- C16, whole loop.  For every window `W` (for `W = 0` the hypothesis admits no payment at all), every set of
    invalid child indices, every chain that is well-formed (`ChainWF`: unique transaction ids, wallet outputs are
    spent only by later transactions and at most once, paid child indices are valid) and satisfies the look-ahead
    hypothesis, every batch size and every set of resume points (`cuts n` = the process is interrupted after the
    n-th batch and resumed through `Resurrect`): recovery from seed finds every used address, records every
    transaction paying to or spending from them, ends with exactly the right credits and balance, and leaves each
    branch's next index above the highest used one.
    (`recover` starts from the empty database of a wallet just created from its seed; recovery itself leases nothing
    and stores no unmined transaction, `quiet_recover`, so the balance clause is unconditional here.) -/
theorem C16_complete (invalid : BranchId → List Nat) (W batchSize : Nat) (scopes : List Nat) (c : Chain)
    (cuts : Nat → Bool) (hwf : ChainWF scopes invalid c) (hla : LookAhead W scopes c) :
    Complete scopes c (recover invalid W batchSize scopes c cuts) ∧
    balance (recover invalid W batchSize scopes c cuts) = ledgerBalance scopes (allTxs c) :=
  ⟨complete_of_pinv (recover_inv hwf hla batchSize cuts).1,
   (complete_of_pinv (recover_inv hwf hla batchSize cuts).1).2.2.2 (quiet_recover invalid W batchSize scopes c cuts).hidden⟩

/-- A later recovery (wallet restarted when the chain has grown by `rest`, possibly with another window `W'`),
    starting from what ANY complete earlier run left in the database (`PInv`, e.g. `C16_recover_leaves_pinv`): the
    conclusion holds for the whole chain, provided the NEW blocks satisfy the look-ahead hypothesis with `W'`
    relative to everything before them (`LookAheadFrom … p.length`; nothing is asked of the old blocks again).
    Recovered outputs may be leased (`LeaseOutput`) and the store may hold unmined transactions spending them at the
    restart — `st0.leased`, `st0.unmined` are arbitrary: since 50a099b `Resurrect` is fed `OutputsToWatch` and watches
    such outputs too.  (Before that fix it did not, and spends were missed: `C16_resumed_misses_spend_of_hidden_output`.)
    The balance clause of `Complete` is conditional on nothing being hidden at the end, because `CalculateBalance`
    itself leaves hidden outputs out. -/
theorem C16_complete_resumed (invalid : BranchId → List Nat) (W' batchSize : Nat) (scopes : List Nat) (p rest : Chain)
    (cuts : Nat → Bool) (st0 : State) (hp : PInv scopes p p st0) (hwf : ChainWF scopes invalid (p ++ rest))
    (hla : LookAheadFrom W' scopes p.length (p ++ rest)) :
    Complete scopes (p ++ rest)
      (recoverChain invalid batchSize (rest.length + 1) (resurrect invalid { st0 with window := W' }) rest cuts 0) := by
  obtain ⟨hp1, hm1⟩ := resurrect_inv (invalid := invalid) (W := W') (c := p ++ rest) (p := p) (q := rest) rfl
    (pinv_window W' (pinv_extend hwf hp)) rfl
  exact complete_of_pinv
    (recoverChain_spec hwf hla batchSize cuts (rest.length + 1) rest p _ 0 rfl (Nat.le_refl _) (Nat.lt_succ_self _) hp1 hm1).1

/-- …and a finished `recover` leaves such a database. -/
theorem C16_recover_leaves_pinv (invalid : BranchId → List Nat) (W batchSize : Nat) (scopes : List Nat) (c : Chain)
    (cuts : Nat → Bool) (hwf : ChainWF scopes invalid c) (hla : LookAhead W scopes c) :
    PInv scopes c c (recover invalid W batchSize scopes c cuts) :=
  (recover_inv hwf hla batchSize cuts).1

/-! ### Interrupted-and-resumed recoveries

A run of `Wallet.recovery` can end early: the wallet is locked (`Wallet.Lock`, the unlock timeout) or stopped while
the block loop is running (`endRecovery` sets the quit flag, looked at once per height), or `FilterBlocks` fails inside
a batch.  What is on disk then is what the batches completed before committed — the sync point is stored in the SAME
database transaction as the batch's findings — i.e. the result of a run over a prefix `c.take n` of the chain
(`recoverInterrupted`, `recoverChainFail`).  The next run (`syncWithChain` retried, or the wallet reopened) starts
above the stored sync point through `Resurrect`.  The conclusion of C16 holds for the final state, for every `n`. -/

theorem LookAheadFrom.min_len {W : Nat} {scopes : List Nat} {n : Nat} {c : Chain} (h : LookAheadFrom W scopes n c) :
    LookAheadFrom W scopes (min n c.length) c := by
  intro pre hh blk post e hn
  have hl : c.length = pre.length + (post.length + 1) := by rw [e]; simp
  exact h pre hh blk post e (by omega)

/-- C16 for a from-seed recovery (window `W`, any resume points `cuts`) that got through the first `n` blocks only —
    whatever ended it — and is resumed later with window `W'` (any resume points `cuts'`): every used address is
    found, every transaction recorded, credits and next indices right, for every well-formed chain satisfying the
    look-ahead hypothesis (with `W` on the whole chain, with `W'` on the blocks above `n`; for `W' = W` the second
    follows from the first, `LookAhead.from`). -/
theorem C16_complete_interrupted (invalid : BranchId → List Nat) (W W' batchSize : Nat) (scopes : List Nat) (c : Chain)
    (n : Nat) (cuts cuts' : Nat → Bool) (hwf : ChainWF scopes invalid c) (hla : LookAhead W scopes c)
    (hla' : LookAheadFrom W' scopes n c) :
    Complete scopes c
      (recoverChain invalid batchSize ((c.drop n).length + 1)
        (resurrect invalid { recover invalid W batchSize scopes (c.take n) cuts with window := W' })
        (c.drop n) cuts' 0) := by
  have e : c.take n ++ c.drop n = c := List.take_append_drop n c
  have hwfp : ChainWF scopes invalid (c.take n) := ChainWF.prefix (q := c.drop n) (by rw [e]; exact hwf)
  have hlap : LookAhead W scopes (c.take n) := LookAhead.prefix (q := c.drop n) (by rw [e]; exact hla)
  have hp := C16_recover_leaves_pinv invalid W batchSize scopes (c.take n) cuts hwfp hlap
  have h := C16_complete_resumed invalid W' batchSize scopes (c.take n) (c.drop n) cuts' _ hp (by rw [e]; exact hwf)
    (by rw [e, List.length_take]; exact hla'.min_len)
  rw [e] at h
  exact h

/-- Seed-C16-4 scenario.  The wallet is locked / its unlock timeout fires / it is stopped while `recovery()` fetches
    the `k`-th block: the run ends before block `k+1`, the batches completed by then (`committedAt batchSize k`
    blocks) are on disk (`recoverInterrupted`), and the recovery is resumed above them.  The final state is complete.
    (What `syncWithChain` must NOT do is treat the interrupted run as finished and mark the wallet synced to the tip
    after the ordinary rescan: the blocks above `committedAt batchSize k` would never be scanned with the look-ahead
    window — oracle keys `*.interrupted-by-lock`, `*.interrupted-by-unlock-timeout`, `*.after-stop-interrupt`.) -/
theorem C16_complete_lock_interrupted (invalid : BranchId → List Nat) (W batchSize : Nat) (scopes : List Nat) (c : Chain)
    (k : Nat) (cuts cuts' : Nat → Bool) (hwf : ChainWF scopes invalid c) (hla : LookAhead W scopes c) :
    Complete scopes c
      (recoverChain invalid batchSize ((c.drop (committedAt batchSize k)).length + 1)
        (resurrect invalid
          { recoverInterrupted invalid batchSize (resurrect invalid (State.init W scopes)) c cuts k with window := W })
        (c.drop (committedAt batchSize k)) cuts' 0) :=
  C16_complete_interrupted invalid W W batchSize scopes c (committedAt batchSize k) cuts cuts' hwf hla (hla.from _)

/-- Seed-C16-5 scenario.  `FilterBlocks` fails inside a batch (request number `target`), the process is stopped
    before any in-process retry and restarted: on disk is what the EARLIER batches committed (`recoverChainFail`
    returns that state and the number `n` of blocks it covers — the failed batch's transaction, which also holds the
    batch's sync points, is rolled back), the new process resumes above block `n`.  The final state is complete.
    (Committing the batch's sync points before the batch is scanned breaks exactly this — oracle keys
    `*.after-failed-batch`.  The IN-PROCESS retry after a failed batch is outside the model: KNOWN-FINDING
    retry-after-failed-batch.) -/
theorem C16_complete_after_failed_batch (invalid : BranchId → List Nat) (W W' batchSize : Nat) (scopes : List Nat)
    (c : Chain) (target : Nat) (st1 : State) (n : Nat) (cuts' : Nat → Bool)
    (hf : recoverChainFail invalid batchSize target (c.length + 1) (resurrect invalid (State.init W scopes)) c 0 =
      some (st1, n))
    (hwf : ChainWF scopes invalid c) (hla : LookAhead W scopes c) (hla' : LookAheadFrom W' scopes n c) :
    Complete scopes c
      (recoverChain invalid batchSize ((c.drop n).length + 1) (resurrect invalid { st1 with window := W' })
        (c.drop n) cuts' 0) := by
  obtain ⟨m, hn, hm, hst⟩ := recoverChainFail_spec invalid batchSize target _ _ _ _ _ _ hf
  rw [Nat.zero_add] at hn
  subst hn
  have hrec : st1 = recover invalid W batchSize scopes (c.take n) (fun _ => false) := by
    rw [hst, recover, List.length_take, Nat.min_eq_left hm]
  rw [hrec]
  exact C16_complete_interrupted invalid W W' batchSize scopes c n (fun _ => false) cuts' hwf hla hla'

/-- The hypotheses are decidable: `checkWF` / `checkLA` (run by the driver on every generated chain) imply them. -/
theorem C16_complete_checked (invalid : BranchId → List Nat) (W batchSize : Nat) (scopes : List Nat) (c : Chain)
    (cuts : Nat → Bool) (h1 : checkWF scopes invalid c = true) (h2 : checkLA W scopes c = true) :
    Complete scopes c (recover invalid W batchSize scopes c cuts) ∧
    balance (recover invalid W batchSize scopes c cuts) = ledgerBalance scopes (allTxs c) :=
  C16_complete invalid W batchSize scopes c cuts (checkWF_sound scopes invalid c h1) (checkLA_sound W scopes c h2)

/-! Non-vacuity and tightness.  Window 2, scope 0.  Block 1: tx 1 pays external index 1 (a jump of W-1 = 1 over
    index 0).  Block 2: tx 2 spends that output and pays internal index 0 and external index 3 (= next index 2 + W − 1);
    tx 3 (same block) spends tx 2's change.  Child 2 of the external branch is invalid. -/
def exInvalid : BranchId → List Nat := fun br => if br = (0, false) then [2] else []
def exChain : Chain :=
  [(1, [⟨1, [], [⟨some ⟨0, false, 1⟩, 50⟩, ⟨none, 7⟩]⟩]),
   (2, [⟨2, [(1, 0)], [⟨some ⟨0, true, 0⟩, 30⟩, ⟨some ⟨0, false, 3⟩, 15⟩]⟩, ⟨3, [(2, 0)], [⟨none, 29⟩]⟩])]

example : ChainWF [0] exInvalid exChain := checkWF_sound _ _ _ (by decide)
example : LookAhead 2 [0] exChain := checkLA_sound _ _ _ (by decide)
example : ledgerBalance [0] (allTxs exChain) = 15 := by decide
example : balance (recover exInvalid 2 1 [0] exChain (fun _ => true)) = 15 :=
  (C16_complete_checked exInvalid 2 1 [0] exChain (fun _ => true) (by decide) (by decide)).2.trans (by decide)

/-- …and the restart form: block 1 recovered with window 2, the wallet restarted when block 2 exists. -/
example : Complete [0] exChain
    (recoverChain exInvalid 1 2 (resurrect exInvalid
      { recover exInvalid 2 1 [0] (exChain.take 1) (fun _ => false) with window := 2 }) (exChain.drop 1) (fun _ => false) 0) :=
  C16_complete_resumed exInvalid 2 1 [0] (exChain.take 1) (exChain.drop 1) (fun _ => false) _
    (C16_recover_leaves_pinv exInvalid 2 1 [0] (exChain.take 1) (fun _ => false)
      (checkWF_sound _ _ _ (by decide)) (checkLA_sound _ _ _ (by decide)))
    (checkWF_sound _ _ _ (by decide)) (checkLAFrom_sound _ _ _ _ (by decide))

/-- …and the interrupted forms (batch size 1): the wallet is locked while block 1 is fetched — block 1's batch is
    committed, block 2 is scanned by the resumed run; the 2nd FilterBlocks request (made by block 2's batch) fails —
    block 1 stays, block 2 is scanned after the restart. -/
example : committedAt 1 1 = 1 := by decide
example : Complete [0] exChain
    (recoverChain exInvalid 1 ((exChain.drop (committedAt 1 1)).length + 1)
      (resurrect exInvalid
        { recoverInterrupted exInvalid 1 (resurrect exInvalid (State.init 2 [0])) exChain (fun _ => false) 1 with window := 2 })
      (exChain.drop (committedAt 1 1)) (fun _ => false) 0) :=
  C16_complete_lock_interrupted exInvalid 2 1 [0] exChain 1 (fun _ => false) (fun _ => false)
    (checkWF_sound _ _ _ (by decide)) (checkLA_sound _ _ _ (by decide))
example : (recoverChainFail exInvalid 1 2 3 (resurrect exInvalid (State.init 2 [0])) exChain 0).map (·.2) = some 1 := by
  decide
example : ∀ st1, recoverChainFail exInvalid 1 2 (exChain.length + 1) (resurrect exInvalid (State.init 2 [0])) exChain 0 =
      some (st1, 1) →
    Complete [0] exChain
      (recoverChain exInvalid 1 ((exChain.drop 1).length + 1) (resurrect exInvalid { st1 with window := 2 })
        (exChain.drop 1) (fun _ => false) 0) :=
  fun st1 h => C16_complete_after_failed_batch exInvalid 2 2 1 [0] exChain 2 st1 1 (fun _ => false) h
    (checkWF_sound _ _ _ (by decide)) (checkLA_sound _ _ _ (by decide)) ((checkLA_sound _ _ _ (by decide)).from _)

/-- The look-ahead hypothesis is tight: a jump of `W` beyond the next index (here: window 2, first payment at
    index 2) is outside it, and is indeed missed. -/
theorem C16_lookahead_is_tight :
    let c : Chain := [(1, [⟨1, [], [⟨some ⟨0, false, 2⟩, 50⟩]⟩])]
    ¬ LookAhead 2 [0] c ∧ (recover (fun _ => []) 2 1 [0] c (fun _ => false)).used = [] := by
  refine ⟨?_, by decide⟩
  intro h
  have := h [] 1 _ [] rfl ⟨0, false, 2⟩ (by decide) (by decide)
  revert this; decide

/-- Payments of ONE block are measured against the earlier blocks, not against each other: a block paying indices 1
    and 2 with window 2 (2 is within the window of 1, but not of the next index 0 before the block) violates the
    hypothesis, and the real loop — which does not re-filter a block after a find in it — misses index 2: its
    address is never marked used, the next index stays at 2 and the 5 coins are not credited.  (Outside the
    property's hypothesis as worded: "less than W beyond the highest index paid in EARLIER blocks".) -/
theorem C16_same_block_jump_is_missed :
    let c : Chain := [(1, [⟨1, [], [⟨some ⟨0, false, 1⟩, 50⟩]⟩, ⟨2, [], [⟨some ⟨0, false, 2⟩, 5⟩]⟩])]
    ¬ LookAhead 2 [0] c ∧
    (recover (fun _ => []) 2 1 [0] c (fun _ => false)).used = [⟨0, false, 1⟩] ∧
    (recover (fun _ => []) 2 1 [0] c (fun _ => false)).nextOf (0, false) = 2 ∧
    balance (recover (fun _ => []) 2 1 [0] c (fun _ => false)) = 50 ∧ ledgerBalance [0] (allTxs c) = 55 := by
  refine ⟨?_, by decide, by decide, by decide, by decide⟩
  intro h
  have := h [] 1 _ [] rfl ⟨0, false, 2⟩ (by decide) (by decide)
  revert this; decide

/-- FORMER DEFECT (real code before 50a099b, reproduced through the engine; oracle key `resume-unwatched-output`):
    the pre-50a099b code — `Wallet.recovery` rebuilt the watched outpoints of a resumed recovery from
    `TxStore.UnspentOutputs` (`resurrectOld`), which omits outputs that are leased (`LeaseOutput`) and outputs spent by
    an unmined transaction — misses spends of such outputs.  Block 1 pays wallet address 0 (50); recovery finds it.
    Then (i) the output is leased, or (ii) an unmined transaction 2 spending it reaches the wallet; the wallet stops,
    block 2 confirms transaction 2 (paying somebody else), the wallet restarts: the old resumed recovery does not
    notice transaction 2.  In (i) the output is unspent for the wallet once the lease ends (balance 50, truth 0); in
    (ii) transaction 2 stays unmined for ever.  The fixed code (`resurrect`, `OutputsToWatch`) records transaction 2
    in both cases — an instance of `C16_complete_resumed`. -/
theorem C16_resumed_misses_spend_of_hidden_output :
    let p : Chain := [(1, [⟨1, [], [⟨some ⟨0, false, 0⟩, 50⟩]⟩])]
    let rest : Chain := [(2, [⟨2, [(1, 0)], [⟨none, 49⟩]⟩])]
    let noInv : BranchId → List Nat := fun _ => []
    let st0 := recover noInv 2 1 [0] p (fun _ => false)
    let resumeOld := fun (st : State) => recoverChain noInv 1 2 (resurrectOld noInv st) rest (fun _ => false) 0
    let resume := fun (st : State) => recoverChain noInv 1 2 (resurrect noInv st) rest (fun _ => false) 0
    let t2 : Tx := ⟨2, [(1, 0)], [⟨none, 49⟩]⟩
    checkWF [0] noInv (p ++ rest) = true ∧ checkLAFrom 2 [0] 1 (p ++ rest) = true ∧
    ledgerBalance [0] (allTxs (p ++ rest)) = 0 ∧
    -- control: nothing hidden ⇒ the old code finds the spend, too
    ((2, 2) ∈ (resumeOld st0).txs ∧ balance (resumeOld st0) = 0) ∧
    -- (i) leased output: old code misses, fixed code finds
    (∃ st1, leaseOutput st0 (1, 0) = some st1 ∧ (2, 2) ∉ (resumeOld st1).txs ∧
      (∃ st3, releaseOutput (resumeOld st1) (1, 0) = some st3 ∧ balance st3 = 50) ∧
      (2, 2) ∈ (resume st1).txs ∧ balance (resume st1) = 0) ∧
    -- (ii) spent by an unmined transaction: old code misses, fixed code finds and the unmined record is gone
    ((2, 2) ∉ (resumeOld (addUnmined st0 t2)).txs ∧
      (resumeOld (addUnmined st0 t2)).unmined.any (fun t => t.id == 2) = true ∧
      (2, 2) ∈ (resume (addUnmined st0 t2)).txs ∧ (resume (addUnmined st0 t2)).unmined = []) := by
  refine ⟨by decide, by decide, by decide, ⟨by decide, by decide⟩,
    ⟨_, rfl, by decide, ⟨_, rfl, by decide⟩, by decide, by decide⟩,
    by decide, by decide, by decide, by decide⟩

/-- The binary search always returns a block (no timestamp assumption). -/
theorem C16_birthday_terminates (ts : Nat → Int) (b delta : Int) (best : Nat) :
    ∃ r, locateBirthdayBlock ts b delta best = some r ∧ r ≤ best :=
  birthday_terminates ts b delta best

/-- The returned block is the genesis block or its timestamp is at most birthday + delta. -/
theorem C16_birthday_not_late (ts : Nat → Int) (b delta : Int) (hd : 0 ≤ delta) (best : Nat) (hm : Mono ts best)
    (r : Nat) (h : locateBirthdayBlock ts b delta best = some r) : r = 0 ∨ ts r ≤ b + delta :=
  birthday_not_late ts b delta hd best hm r h

/-- Hence, for monotone timestamps, every block up to and including the returned one (scanning starts right above
    it) has a timestamp ≤ birthday + delta: no block that could pay the wallet is skipped. -/
theorem C16_birthday_skips_nothing (ts : Nat → Int) (b delta : Int) (hd : 0 ≤ delta) (best : Nat) (hm : Mono ts best)
    (r : Nat) (h : locateBirthdayBlock ts b delta best = some r) : ∀ k, k ≤ r → r ≠ 0 → ts k ≤ b + delta :=
  birthday_skips_nothing ts b delta hd best hm r h

/-- **Backend still catching up when the wallet connects** (a full node in initial block download: `IsCurrent()` false,
    `GetBestBlock` at its download height).  `syncWithChain` waits for the backend BEFORE `recovery()` reads the best
    height, so the recovery runs over the whole chain and `C16_complete` applies whatever the node's download height at
    connect time was. -/
theorem C16_backend_catching_up (invalid : BranchId → List Nat) (W batchSize : Nat) (scopes : List Nat) (c : Chain)
    (cuts : Nat → Bool) (download : Nat) (hwf : ChainWF scopes invalid c) (hla : LookAhead W scopes c) :
    Complete scopes c (startupRecover invalid W batchSize scopes true download c cuts) ∧
    balance (startupRecover invalid W batchSize scopes true download c cuts) = ledgerBalance scopes (allTxs c) :=
  C16_complete invalid W batchSize scopes c cuts hwf hla

/-- … and the order matters: were `recovery()` run before the wait (the rescan that follows the wait watches only
    addresses that are already derived), a payment above the node's download height to an address reachable only
    through the look-ahead is lost although the chain satisfies the hypotheses of `C16_complete`. -/
theorem C16_recovery_before_wait_misses_payment :
    let noInv : BranchId → List Nat := fun _ => []
    let c : List (Nat × Block) :=
      [(1, [⟨1, [], [⟨some ⟨0, false, 0⟩, 50⟩]⟩]), (2, [⟨2, [], [⟨some ⟨0, false, 1⟩, 70⟩]⟩])]
    checkWF [0] noInv c = true ∧ checkLA 2 [0] c = true ∧
    (2, 2) ∈ (startupRecover noInv 2 2000 [0] true 1 c (fun _ => false)).txs ∧
    balance (startupRecover noInv 2 2000 [0] true 1 c (fun _ => false)) = 120 ∧
    (2, 2) ∉ (startupRecover noInv 2 2000 [0] false 1 c (fun _ => false)).txs ∧
    (startupRecover noInv 2 2000 [0] false 1 c (fun _ => false)).nextOf (0, false) = 1 := by
  refine ⟨by decide, by decide, by decide, by decide, by decide, by decide⟩

/-! Non-vacuity -/
example : locateBirthdayBlock (fun h => 10 * h) 31 2 5 = some 3 := by decide
example : BranchOK [2, 3] (expand [2, 3] ((Branch.new 2).reportFound 1)) :=
  (C16_branch_horizon [2, 3] _ (branchOK_reportFound (branchOK_new [2, 3] 2) 1)).1

end Recovery
