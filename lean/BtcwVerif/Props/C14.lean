/-
C14 — Unconfirmed transactions are returned parents-first, each exactly once.

Property theorems about `Kahn.dependencySort` (model of wtxmgr/kahnsort.go: `makeGraph`, `graphRoots`,
`DependencySort`, as called by `Store.UnminedTxs` and `Wallet.resendUnminedTxs`).

Quantification: `S` is ANY finite list of transactions with pairwise distinct hashes whose spend graph is acyclic
(chains, diamonds, several edges between the same pair, the same outpoint spent by two siblings or twice by one
transaction, independent components, inputs that refer to transactions outside `S`); `txOrder` is ANY order in
which Go's `range set` may visit the map (a permutation of `S`), `rootOrder` ANY order in which `range graph` may
visit the graph's keys (a permutation of the hashes).  No bound on sizes.

Proof (BtcwVerif/Lemmas/Kahn.lean): (1) `makeGraph_inv`: exact content of the graph built by `makeGraph` — node `h`
has out-edge list = the children of `h` in processing order *with multiplicity* and in-degree = number of edges
into `h` (the "skip duplicate edges" test never fires, see `Kahn.addInput`); (2) `LInv`: the Kahn invariant —
in-degree of a node = number of its edges from not-yet-emitted parents (+ the still unvisited part of the current
out-edge list), a node is emitted-or-queued iff its in-degree is 0, emitted ++ queued has no repeats, and the
emitted prefix is parents-first; (3) `LInv.complete`: when the work list is empty every remaining node has a
remaining parent, which in a finite set forces a cycle (`exists_cycle_of_all_have_parent`).
-/
import BtcwVerif.Lemmas.Kahn
namespace Kahn

/-- **Each exactly once.**  The returned list is a permutation of the transaction set. -/
theorem C14_perm (S txOrder : List Tx) (rootOrder : List Nat)
    (hnd : (hashes S).Nodup) (hdag : Acyclic S)
    (htx : txOrder.Perm S) (hroot : rootOrder.Perm (hashes S)) :
    (dependencySort txOrder rootOrder).Perm S := by
  have hnd' : (hashes txOrder).Nodup := (hashes_perm htx).nodup_iff.mpr hnd
  have hdag' : Acyclic txOrder := hdag.perm htx.symm
  have hroot' : rootOrder.Perm (hashes txOrder) := hroot.trans (hashes_perm htx).symm
  obtain ⟨hmem, hnodup, _⟩ := dependencySort_sound hnd' hdag'.noSelf hroot'
  have hall := dependencySort_complete hnd' hdag' hroot'
  refine List.Perm.trans ?_ htx
  apply (List.perm_ext_iff_of_nodup (nodup_of_hashes hnodup) (nodup_of_hashes hnd')).mpr
  intro t
  constructor
  · exact hmem t
  · intro ht
    obtain ⟨u, hu, hut⟩ := List.mem_map.mp (hall t ht)
    have := hash_inj hnd' (hmem u hu) ht hut
    exact this ▸ hu

/-- Each transaction of `S` occurs exactly once in the result, and nothing else occurs. -/
theorem C14_each_exactly_once (S txOrder : List Tx) (rootOrder : List Nat)
    (hnd : (hashes S).Nodup) (hdag : Acyclic S)
    (htx : txOrder.Perm S) (hroot : rootOrder.Perm (hashes S)) :
    (∀ t ∈ S, (dependencySort txOrder rootOrder).count t = 1) ∧
    (∀ t ∈ dependencySort txOrder rootOrder, t ∈ S) ∧
    (dependencySort txOrder rootOrder).length = S.length := by
  have hp := C14_perm S txOrder rootOrder hnd hdag htx hroot
  have hS : S.Nodup := nodup_of_hashes hnd
  refine ⟨?_, fun t ht => hp.mem_iff.mp ht, hp.length_eq⟩
  intro t ht
  rw [hp.count_eq]
  exact count_eq_one_of_mem hS ht

/-- **Parents first.**  If `c ∈ S` has an input spending an output of `p ∈ S`, then `p` is placed before `c`. -/
theorem C14_parents_first (S txOrder : List Tx) (rootOrder : List Nat)
    (hnd : (hashes S).Nodup) (hdag : Acyclic S)
    (htx : txOrder.Perm S) (hroot : rootOrder.Perm (hashes S)) :
    ∀ c ∈ S, ∀ i ∈ c.ins, ∀ p ∈ S, p.hash = i.1 →
      (hashes (dependencySort txOrder rootOrder)).idxOf p.hash
        < (hashes (dependencySort txOrder rootOrder)).idxOf c.hash := by
  have hnd' : (hashes txOrder).Nodup := (hashes_perm htx).nodup_iff.mpr hnd
  have hdag' : Acyclic txOrder := hdag.perm htx.symm
  have hroot' : rootOrder.Perm (hashes txOrder) := hroot.trans (hashes_perm htx).symm
  obtain ⟨_, _, hclosed⟩ := dependencySort_sound hnd' hdag'.noSelf hroot'
  have hall := dependencySort_complete hnd' hdag' hroot'
  intro c hc i hi p hp hpi
  have he : (p.hash, c.hash) ∈ edges txOrder :=
    mem_edges.mpr ⟨c, htx.mem_iff.mpr hc, rfl, List.mem_map_of_mem (htx.mem_iff.mpr hp), i, hi, hpi.symm⟩
  exact hclosed _ he (hall c (htx.mem_iff.mpr hc))

/-- The verdict functions evaluated by the driver on the real code's output (`perm=`, `pf=`) hold of the model's
output: they are the executable form of the two theorems above. -/
theorem C14_spec_checkers (S txOrder : List Tx) (rootOrder : List Nat)
    (hnd : (hashes S).Nodup) (hdag : Acyclic S)
    (htx : txOrder.Perm S) (hroot : rootOrder.Perm (hashes S)) :
    isPerm S (hashes (dependencySort txOrder rootOrder)) = true ∧
    parentsFirst S (hashes (dependencySort txOrder rootOrder)) = true := by
  have hp := C14_perm S txOrder rootOrder hnd hdag htx hroot
  have hph : (hashes (dependencySort txOrder rootOrder)).Perm (hashes S) := hashes_perm hp
  constructor
  · simp only [isPerm, Bool.and_eq_true, beq_iff_eq, List.all_eq_true]
    refine ⟨by simpa [hashes] using hp.length_eq, ?_⟩
    intro h hh
    rw [hph.count_eq]
    exact count_eq_one_of_mem hnd hh
  · simp only [parentsFirst, List.all_eq_true, decide_eq_true_eq]
    intro e he
    obtain ⟨p, c⟩ := e
    obtain ⟨t, ht, rfl, hpm, i, hi, rfl⟩ := mem_edges.mp he
    obtain ⟨u, hu, hui⟩ := List.mem_map.mp hpm
    simp only [← hui]
    exact C14_parents_first S txOrder rootOrder hnd hdag htx hroot t ht i hi u hu hui

/-- **Cyclic input** (cannot occur for real transactions: a hash commits to the hashes it spends).  Without the
acyclicity hypothesis — only "no transaction spends its own output" — the result still has no repeats, contains only
members of `S` and is parents-first among what it contains; but it may be incomplete (see the examples below: every
transaction on or below a cycle is silently dropped). -/
theorem C14_cyclic_sound_partial (S : List Tx) (rootOrder : List Nat)
    (hnd : (hashes S).Nodup) (hns : ∀ c ∈ S, ∀ i ∈ c.ins, i.1 ≠ c.hash)
    (hroot : rootOrder.Perm (hashes S)) :
    (∀ t ∈ dependencySort S rootOrder, t ∈ S) ∧ (hashes (dependencySort S rootOrder)).Nodup ∧
    ∀ e ∈ edges S, e.2 ∈ hashes (dependencySort S rootOrder) →
      (hashes (dependencySort S rootOrder)).idxOf e.1 < (hashes (dependencySort S rootOrder)).idxOf e.2 :=
  dependencySort_sound hnd hns hroot

/-- The acyclicity hypothesis is decidable: `Kahn.acyclicB` (peel off, |S| times, the hashes without a remaining
parent; acyclic iff nothing is left) decides it, so `decide` can discharge `Acyclic S` on concrete sets. -/
theorem C14_acyclic_decidable (S : List Tx) : Acyclic S ↔ acyclicB S = true := (acyclicB_iff S).symm

/-! ### Non-vacuity and behaviour on concrete graphs -/

/-- diamond with a double edge, a conflicting pair of siblings (2 and 3 both spend outpoint (1,0)), an outside input
and an independent transaction -/
def exS : List Tx :=
  [⟨4, [(2, 0), (3, 0), (2, 1)]⟩, ⟨2, [(1, 0), (77, 3)]⟩, ⟨1, [(99, 0)]⟩, ⟨3, [(1, 0)]⟩, ⟨5, []⟩]

example : (hashes exS).Nodup := by decide
example : Acyclic exS := acyclic_of_rank id (by decide)   -- by a ranking …
example : Acyclic exS := by decide                         -- … or by the decision procedure
example : ¬ Acyclic [⟨1, [(2, 0)]⟩, ⟨2, [(1, 0)]⟩, ⟨3, [(2, 1)]⟩, ⟨4, []⟩] := by decide
-- all hypotheses of the theorems hold of a concrete non-trivial instance (orders are arbitrary permutations)
example : (dependencySort exS.reverse [5, 3, 1, 2, 4]).Perm exS :=
  C14_perm exS exS.reverse [5, 3, 1, 2, 4] (by decide) (by decide) (List.reverse_perm _) (by decide)
example : edges exS = [(2, 4), (3, 4), (2, 4), (1, 2), (1, 3)] := by decide
-- two different pairs of iteration orders, two different (both correct) results
example : hashes (dependencySort exS [4, 2, 1, 3, 5]) = [1, 5, 2, 3, 4] := by decide
example : hashes (dependencySort exS.reverse [5, 3, 1, 2, 4]) = [5, 1, 3, 2, 4] := by decide
-- the double edge 2 → 4 is recorded twice on both sides (the "skip duplicate edges" test is ineffective)
example : ((makeGraph exS).get 2).outEdges = [4, 4] ∧ ((makeGraph exS).get 4).inDegree = 3 := by decide
-- the no-edges shortcut returns the roots in `rootOrder`
example : hashes (dependencySort [⟨1, [(9, 0)]⟩, ⟨2, []⟩, ⟨3, [(9, 0)]⟩] [3, 1, 2]) = [3, 1, 2] := by decide

/-- On a cyclic set the transactions on the cycle (1, 2) and below it (3) are dropped; only 4 is returned. -/
theorem C14_cyclic_drops :
    hashes (dependencySort [⟨1, [(2, 0)]⟩, ⟨2, [(1, 0)]⟩, ⟨3, [(2, 1)]⟩, ⟨4, []⟩] [1, 2, 3, 4]) = [4] := by decide

/-- The only input on which the "skip duplicate edges" test fires: a transaction spending two of its own outputs
(edge 7 → 7 recorded once, in-degree 1); it is never emitted. -/
example : ((makeGraph [⟨7, [(7, 0), (7, 1)]⟩]).get 7).inDegree = 1 ∧
    dependencySort [⟨7, [(7, 0), (7, 1)]⟩] [7] = [] := by decide

end Kahn
