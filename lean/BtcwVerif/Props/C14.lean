/-
C14 — Unconfirmed transactions are returned parents-first, each exactly once.
-/
import BtcwVerif.Model.Kahn
namespace Kahn

example : dependencySort [⟨1, [(2, 0)]⟩, ⟨2, []⟩] [1, 2] = [⟨2, []⟩, ⟨1, [(2, 0)]⟩] := by decide

end Kahn
