/-
C05 — Locked or wrong passphrase means no private-key access, and memory is wiped.
Property theorems about `AddrLock` (model of waddrmgr's lock state, buffers and caches).
-/
import BtcwVerif.Lemmas.AddrLock
import BtcwVerif.Lemmas.AddrDou
import BtcwVerif.Lemmas.AddrWipedStep
namespace AddrLock

/-! ## 1. `C05_denied`: while locked or watching-only every private-material operation is refused -/

/-- the refusal the property asks for -/
def Denied (r : Option Err) : Prop := r = some .locked ∨ r = some .watchingOnly

/-- PrivKey / ExportPrivKey on any managed pub-key address object. -/
theorem C05_denied_privKey (m : Mem) (id : Nat) (hk : (m.heap id).kind = .managed)
    (h : m.locked = true ∨ m.watchOnly = true) :
    Denied (privKeyObj m id).2 ∧ (privKeyObj m id).1 = m := by
  unfold privKeyObj Denied
  simp only [hk]
  rcases h with h | h
  · by_cases hw : m.watchOnly = true <;> simp [h, hw]
  · simp [h]

/-- Script() on a P2SH script address or a *secret* witness / taproot script address. -/
theorem C05_denied_script (m : Mem) (id : Nat)
    (hk : (m.heap id).kind = .script ∨ (m.heap id).kind = .wscript true ∨ (m.heap id).kind = .tscript true)
    (h : m.locked = true ∨ m.watchOnly = true) :
    Denied (scriptObj m id).2 ∧ (scriptObj m id).1 = m := by
  unfold scriptObj Denied
  rcases hk with hk | hk | hk <;> simp only [hk] <;>
    (rcases h with h | h
     · by_cases hw : m.watchOnly = true <;> simp [h, hw]
     · simp [h])

/-- Manager.Encrypt / Decrypt with CKTPrivate (0) or CKTScript (1). -/
theorem C05_denied_crypt (m : Mem) (kt : Nat) (hkt : kt ≤ 1) (h : m.locked = true ∨ m.watchOnly = true) :
    cryptOp m kt = some .locked := by
  unfold cryptOp
  rcases h with h | h <;> simp [hkt, h]

/-- NewAccount (a non-watch-only account needs the cointype private key). -/
theorem C05_denied_newAccount (d : Disk) (m : Mem) (sc : Nat) (name : String)
    (h : m.locked = true ∨ m.watchOnly = true) :
    ((newAccount d m sc name false).2 = .error .locked ∨ (newAccount d m sc name false).2 = .error .watchingOnly)
    ∧ (newAccount d m sc name false).1 = d := by
  unfold newAccount
  rcases h with h | h
  · by_cases hw : m.watchOnly = true <;> simp [h, hw]
  · simp [h]

/-- ImportPrivateKey on a locked (non watching-only) manager. In watching-only mode the call is documented to
store the public key only; `C05_watchOnly_import_no_private` below shows that nothing private is kept then. -/
theorem C05_denied_importPrivateKey (d : Disk) (m : Mem) (sc k : Nat)
    (h : m.locked = true) (hw : m.watchOnly = false) :
    importKey d m sc k true = (d, m, some .locked) := by
  unfold importKey; simp [h, hw]

theorem C05_watchOnly_import_no_private (d : Disk) (m : Mem) (sc k : Nat) (hw : m.watchOnly = true)
    (hne : existsAddr d m sc (.imp k) = false) :
    let r := importKey d m sc k true
    aget (r.1.scopes sc).addrs (.imp k) = some (.imp false) ∧
    r.2.1.heap m.heapN = { key := .imp k, kind := .managed, hasEnc := false, ct := false, acct := IMPORTED } := by
  simp [importKey, hw, hne, Disk.updScope, Mem.updScope, Mem.alloc, aget_aset_self]

/-- ImportScript of a secret script (P2SH scripts are always secret). -/
theorem C05_denied_importScript (d : Disk) (m : Mem) (sc kind sid : Nat) (secret : Bool)
    (hs : kind = 0 ∨ secret = true) (h : m.locked = true ∨ m.watchOnly = true) :
    Denied (importScript d m sc kind sid secret).2.2 ∧ (importScript d m sc kind sid secret).1 = d := by
  unfold importScript Denied
  have hsec : (if kind = 0 then true else secret) = true := by
    rcases hs with hs | hs <;> simp [hs]
  simp only [hsec]
  rcases h with h | h
  · simp [h]
  · by_cases hl : m.locked = true <;> simp [h, hl]

/-- DeriveFromKeyPath followed by PrivKey(): never succeeds (the lookup fails, or PrivKey is refused). -/
theorem C05_denied_derivePath (d : Disk) (m : Mem) (sc acct br idx : Nat)
    (h : m.locked = true ∨ m.watchOnly = true) :
    (derivePath d m sc acct br idx).2 ≠ none ∧
    (∀ r, chainRowToManaged d m sc acct br idx = .ok r → Denied (derivePath d m sc acct br idx).2) := by
  unfold derivePath
  cases hc : chainRowToManaged d m sc acct br idx with
  | error e => simp
  | ok r =>
    have hsc := scal_chainRow hc
    have hl : r.1.locked = m.locked := congrArg (·.1) hsc
    have hw : r.1.watchOnly = m.watchOnly := congrArg (·.2.1) hsc
    have hd := (C05_denied_privKey r.1 r.2 (kind_chainRow hc) (by rw [hl, hw]; exact h)).1
    refine ⟨?_, fun _ _ => hd⟩
    rcases hd with h1 | h1 <;> simp [h1]

/-- DeriveFromKeyPathCache on the fixed tree (f1): refused up front, whatever is cached. -/
theorem C05_denied_deriveCache (cfg : Cfg) (hf : cfg.f1 = true) (m : Mem) (sc : Nat) (p : Path)
    (h : m.locked = true ∨ m.watchOnly = true) :
    Denied (deriveCache cfg m sc p).2 ∧ (deriveCache cfg m sc p).1 = m := by
  unfold deriveCache Denied
  rcases h with h | h
  · by_cases hw : m.watchOnly = true <;> simp [hf, h, hw]
  · simp [hf, h]

/-- F1 on the original snapshot (f1 = false): a path derived before Lock() is handed out while locked. -/
theorem C05_counterexample_F1 :
    let s := run {cfg := Cfg.snapshot}
      [.create 5 1, .unlock 1, .derive 1 0 0 3, .deriveCache 1 0 0 3, .lock]
    (s.mem.map (·.locked)) = some true ∧ (step s (.deriveCache 1 0 0 3)).2 = .ok := by
  decide


/-! ## 2. `C05_wiped`: locking clears every clear-text key buffer -/

-- `KeyClear m` (every in-memory clear-text copy of master, crypto, account and address private keys, and the cached
-- derived keys, is nil / zero; P2SH script clear text included, secret witness / taproot script clear text NOT —
-- observation O1) is defined in `Lemmas/AddrWiped.lean`, where it is carried through the operations.

/-- `Manager.lock()` on the fixed tree (f1: cache purge, f11: last addresses) clears everything, from ANY state. -/
theorem C05_wiped_by_lock (cfg : Cfg) (hf1 : cfg.f1 = true) (hf11 : cfg.f11 = true) (m : Mem) :
    KeyClear (lockMem cfg m) := keyClear_lockMem cfg hf1 hf11 m

/-- `Lock()` that succeeds leaves every key buffer clear — for every state, hence after every history.  That every
reachable LOCKED state is clear (not only the one right after `Lock()`) is `C05_wiped_histories` below (needs f13). -/
theorem C05_wiped (cfg : Cfg) (hf1 : cfg.f1 = true) (hf11 : cfg.f11 = true) (m : Mem)
    (h : (lockOp cfg m).2 = none) : KeyClear (lockOp cfg m).1 ∧ (lockOp cfg m).1.locked = true := by
  unfold lockOp at h ⊢
  split at h
  · cases h
  · split at h
    · cases h
    · rename_i h1 h2; simp only [h1, h2]; exact ⟨C05_wiped_by_lock cfg hf1 hf11 m, rfl⟩

/-- is the manager locked? / clear-text flag of the cached last external address / of a cached address -/
def lockedOf (s : State) : Option Bool := s.mem.map (·.locked)
def lastExtCT (s : State) (sc acct : Nat) : Option Bool :=
  s.mem.bind fun m => (acctInfoOf m sc acct).map fun ai => (m.heap ai.lastExt).ct
def addrCT (s : State) (sc : Nat) (k : AKey) : Option Bool :=
  s.mem.bind fun m => (aget (m.scopes sc).addrs k).map fun id => (m.heap id).kind == .managed && (m.heap id).ct

/-- F11 on a tree without the fix: after Lock() the cached last external address still holds its clear-text key. -/
theorem C05_counterexample_F11 :
    let s := run {cfg := { Cfg.fixed with f11 := false }} [.create 5 1, .unlock 1, .q (.lastAddr 1 0 false), .lock]
    lockedOf s = some true ∧ lastExtCT s 1 0 = some true := by
  decide

/-- F13 (tree without the fix): the OnCommit closure of nextAddresses re-inserts address objects that were
built while unlocked; if the manager is locked between the call and the commit, the cache holds a clear-text key
while locked.  So "stays clear while locked" is NOT an invariant of bracketed histories on such a tree; on the
current tree (f13) it is: `C05_wiped_histories`. -/
theorem C05_counterexample_F13 :
    let s := run {cfg := { Cfg.fixed with f13 := false }} [.create 5 1, .unlock 1, .begin, .next 1 0 1 false, .lock, .commit]
    lockedOf s = some true ∧ addrCT s 1 (.chain 0 0 0) = some true := by
  decide

/-- … and with the F13 fix the same history leaves the cached object clear. -/
example :
    let s := run {cfg := Cfg.fixed} [.create 5 1, .unlock 1, .begin, .next 1 0 1 false, .lock, .commit]
    lockedOf s = some true ∧ addrCT s 1 (.chain 0 0 0) = some false := by
  decide

/-! ## 3. passphrases: the current one unlocks, any other fails and leaves the manager locked -/

/-- while unlocked, the stored salted hash is the hash of the current passphrase under the current salt -/
def PassOK (m : Mem) : Prop := m.locked = false → m.hashed = some (m.privPass, m.saltZero)

theorem passOK_of_scal {m m' : Mem} (h : Scal m' = Scal m) (hp : PassOK m) : PassOK m' := by
  unfold PassOK at *
  have h1 : m'.locked = m.locked := congrArg (·.1) h
  have h2 : m'.hashed = m.hashed := congrArg (·.2.2.2.2.2.1) h
  have h3 : m'.privPass = m.privPass := congrArg (·.2.2.2.2.2.2.1) h
  have h4 : m'.saltZero = m.saltZero := congrArg (·.2.2.2.2.2.2.2.2) h
  rw [h1, h2, h3, h4]; exact hp

/-- any passphrase other than the current one is refused and the manager is locked afterwards — also when it was
unlocked before. -/
theorem C05_unlock_wrong (cfg : Cfg) (d : Disk) (m : Mem) (p : Nat) (hw : m.watchOnly = false)
    (hinv : PassOK m) (hp : p ≠ m.privPass) :
    (unlock cfg d m p).2 = some .wrongPassphrase ∧ (unlock cfg d m p).1.locked = true := by
  unfold unlock
  simp only [hw]
  by_cases hl : m.locked = true
  · simp [hl, hp, lockMem]
  · have hl' : m.locked = false := by simpa using hl
    have hh := hinv hl'
    have : ¬ (m.hashed = some (p, m.saltZero)) := by
      rw [hh]; intro h; injection h with h; injection h with h; exact hp h.symm
    simp [hl', this, lockMem]

theorem unlockAccts_f2 (cfg : Cfg) (hf2 : cfg.f2 = true) (l : List (Nat × AcctInfo)) :
    ∃ l', unlockAccts cfg l = some l' ∧ l'.map (·.1) = l.map (·.1) := by
  induction l with
  | nil => exact ⟨[], rfl, rfl⟩
  | cons p t ih =>
    obtain ⟨a, i⟩ := p
    obtain ⟨t', ht, hm⟩ := ih
    by_cases hi : i.hasEnc = true
    · exact ⟨(a, { i with keyPriv := true }) :: t', by simp [unlockAccts, hi, ht], by simp [hm]⟩
    · exact ⟨(a, i) :: t', by simp [unlockAccts, hi, hf2, ht], by simp [hm]⟩

-- `aget_isSome_of_keys` and `DouOK` (every address queued for derive-on-unlock belongs to an account that is in the
-- account cache) live in `Lemmas/AddrDou.lean`, where `DouOK` is carried through every operation.

/-- processing a derive-on-unlock list whose accounts are all cached never fails on the fixed tree (f2b), touches
only scope `sc` and the heap, and keeps the cached account numbers. -/
theorem unlockDou_ok (cfg : Cfg) (hf : cfg.f2b = true) (d : Disk) (sc : Nat) (es : List Dou) (m : Mem)
    (hes : ∀ e ∈ es, (aget (m.scopes sc).acctInfo e.acct).isSome = true) :
    (unlockDou cfg d sc es m).2 = none ∧
    (∀ sc', sc' ≠ sc → (unlockDou cfg d sc es m).1.scopes sc' = m.scopes sc') ∧
    ((unlockDou cfg d sc es m).1.scopes sc).acctInfo = (m.scopes sc).acctInfo ∧
    Scal (unlockDou cfg d sc es m).1 = Scal m := by
  induction es generalizing m with
  | nil => exact ⟨rfl, fun _ _ => rfl, rfl, rfl⟩
  | cons e es ih =>
    have he := hes e List.mem_cons_self
    have hload : loadAcct d m sc e.acct = .ok m := by
      unfold loadAcct
      cases hc : aget (m.scopes sc).acctInfo e.acct with
      | none => simp [hc] at he
      | some _ => rfl
    have stepX : ∀ X : Mem, (X.scopes sc).acctInfo = (m.scopes sc).acctInfo →
        (∀ sc', sc' ≠ sc → X.scopes sc' = m.scopes sc') → Scal X = Scal m →
        (unlockDou cfg d sc es X).2 = none ∧
        (∀ sc', sc' ≠ sc → (unlockDou cfg d sc es X).1.scopes sc' = m.scopes sc') ∧
        ((unlockDou cfg d sc es X).1.scopes sc).acctInfo = (m.scopes sc).acctInfo ∧
        Scal (unlockDou cfg d sc es X).1 = Scal m := by
      intro X hx1 hx2 hx3
      obtain ⟨h1, h2, h3, h4⟩ := ih X (by intro e' he'; rw [hx1]; exact hes e' (List.mem_cons_of_mem _ he'))
      exact ⟨h1, fun sc' hne => by rw [h2 sc' hne, hx2 sc' hne], by rw [h3, hx1], by rw [h4, hx3]⟩
    simp only [unlockDou, hload]
    by_cases hb : (!keyPrivOf m sc e.acct) = true
    · simp only [hb, ↓reduceIte, hf]
      apply stepX
      · simp [Mem.updScope]
      · intro sc' hne; simp [Mem.updScope, hne]
      · rfl
    · simp only [hb, ↓reduceIte]
      apply stepX
      · simp [Mem.updScope, Mem.setObj]
      · intro sc' hne; simp [Mem.updScope, Mem.setObj, hne]
      · rfl

theorem unlockScopes_ok (cfg : Cfg) (hf2 : cfg.f2 = true) (hf2b : cfg.f2b = true) (d : Disk) (scs : List Nat)
    (m : Mem)
    (hd : ∀ sc ∈ scs, ∀ e ∈ (m.scopes sc).dou, (aget (m.scopes sc).acctInfo e.acct).isSome = true)
    (hnd : scs.Nodup) :
    (unlockScopes cfg d scs m).2 = none ∧ Scal (unlockScopes cfg d scs m).1 = Scal m := by
  induction scs generalizing m with
  | nil => exact ⟨rfl, rfl⟩
  | cons sc rest ih =>
    obtain ⟨ai, hai, hkeys⟩ := unlockAccts_f2 cfg hf2 (m.scopes sc).acctInfo
    simp only [unlockScopes, hai]
    have hes : ∀ e ∈ ((m.updScope sc fun s => { s with acctInfo := ai }).scopes sc).dou,
        (aget ((m.updScope sc fun s => { s with acctInfo := ai }).scopes sc).acctInfo e.acct).isSome = true := by
      intro e he
      simp only [Mem.updScope, if_true] at he ⊢
      rw [aget_isSome_of_keys _ _ hkeys]; exact hd sc List.mem_cons_self e he
    obtain ⟨h1, h2, h3, h4⟩ := unlockDou_ok cfg hf2b d sc _ _ hes
    cases hr : unlockDou cfg d sc ((m.updScope sc fun s => { s with acctInfo := ai }).scopes sc).dou
        (m.updScope sc fun s => { s with acctInfo := ai }) with
    | mk m2 e =>
      rw [hr] at h1 h2 h3 h4
      simp only at h1 h2 h3 h4
      subst h1
      simp only
      have hnd' := List.nodup_cons.mp hnd
      have := ih m2 (by
        intro sc' hsc' e he
        have hne : sc' ≠ sc := fun h => hnd'.1 (h ▸ hsc')
        rw [h2 sc' hne] at he ⊢
        simp only [Mem.updScope, hne, if_false] at he ⊢
        exact hd sc' (List.mem_cons_of_mem _ hsc') e he) hnd'.2
      exact ⟨this.1, by rw [this.2, h4]; rfl⟩

/-- the current private passphrase always unlocks (fixed tree: f2, f2b), whatever accounts and addresses are cached. -/
theorem C05_unlock_right (cfg : Cfg) (hf2 : cfg.f2 = true) (hf2b : cfg.f2b = true) (d : Disk) (m : Mem)
    (hw : m.watchOnly = false) (hinv : PassOK m) (hd : DouOK m) :
    (unlock cfg d m m.privPass).2 = none ∧ (unlock cfg d m m.privPass).1.locked = false := by
  unfold unlock
  by_cases hl : m.locked = true
  · have h := unlockScopes_ok cfg hf2 hf2b d (List.range nScopes)
      (unlockStart cfg m) (fun sc _ e he => hd sc e he) List.nodup_range
    rw [if_neg (by simp [hw]), if_neg (by simp [hl]), if_neg (by simp)]
    dsimp only
    cases hr : unlockScopes cfg d (List.range nScopes) (unlockStart cfg m) with
    | mk m2 e =>
      rw [hr] at h
      obtain ⟨h1, _⟩ := h
      simp only at h1
      subst h1
      exact ⟨rfl, rfl⟩
  · have hl' : m.locked = false := by simpa using hl
    simp [hw, hl', hinv hl']

/-! ### the bookkeeping invariant `PassOK` holds after every history -/

/-- passphrase arguments of the op are not the EMPTY passphrase -/
def Op.noEmpty : Op → Bool
  | .unlock p => p != EMPTY
  | .changePass _ n true => n != EMPTY
  | _ => true

theorem scal_unlockDou (cfg : Cfg) (d : Disk) (sc : Nat) (es : List Dou) (m : Mem) :
    Scal (unlockDou cfg d sc es m).1 = Scal m := by
  induction es generalizing m with
  | nil => rfl
  | cons e es ih =>
    simp only [unlockDou]
    split
    · rfl
    · rename_i m1 hl
      have h1 := scal_loadAcct hl
      split
      · split
        · rw [ih]; exact h1
        · exact h1
      · rw [ih]; exact h1

theorem scal_unlockScopes (cfg : Cfg) (d : Disk) (scs : List Nat) (m : Mem) :
    Scal (unlockScopes cfg d scs m).1 = Scal m := by
  induction scs generalizing m with
  | nil => rfl
  | cons sc rest ih =>
    simp only [unlockScopes]
    split
    · rfl
    · rename_i ai _
      have h1 := scal_unlockDou cfg d sc ((m.updScope sc fun s => { s with acctInfo := ai }).scopes sc).dou
        (m.updScope sc fun s => { s with acctInfo := ai })
      split
      · rename_i m2 e heq; rw [heq] at h1; exact h1
      · rename_i m2 heq; rw [heq] at h1; rw [ih]; exact h1

theorem scal_unlockScopes_gen (cfg : Cfg) (d : Disk) (scs : List Nat) (m : Mem) :
    (unlockScopes cfg d scs m).1.locked = m.locked ∧ (unlockScopes cfg d scs m).1.privPass = m.privPass ∧
    (unlockScopes cfg d scs m).1.saltZero = m.saltZero := by
  have h := scal_unlockScopes cfg d scs m
  exact ⟨congrArg (·.1) h, congrArg (·.2.2.2.2.2.2.1) h, congrArg (·.2.2.2.2.2.2.2.2) h⟩

theorem passOK_unlock (cfg : Cfg) (d : Disk) (m : Mem) (p : Nat) (h : PassOK m)
    (hc : cfg.f12 = true ∨ p ≠ EMPTY) : PassOK (unlock cfg d m p).1 := by
  have hsalt : ∀ x : Mem, saltAfter cfg x p = x.saltZero := by
    intro x; unfold saltAfter
    rcases hc with hc | hc <;> simp [hc]
  unfold unlock
  split
  · exact h
  · split
    · rename_i hl
      have hl' : m.locked = false := by simpa using hl
      dsimp only
      split
      · rename_i hh
        intro _
        simp only [hsalt]
        have := h hl'
        rw [this] at hh ⊢
      · intro hlk; simp [lockMem] at hlk
    · rename_i hnl
      have hlocked : m.locked = true := by simpa using hnl
      split
      · intro hlk; simp [lockMem] at hlk
      · rename_i hp
        have hp' : p = m.privPass := by simpa using hp
        dsimp only
        have key := scal_unlockScopes_gen cfg d (List.range nScopes) (unlockStart cfg m)
        have hus : (unlockStart cfg m).locked = m.locked ∧ (unlockStart cfg m).privPass = m.privPass ∧
            (unlockStart cfg m).saltZero = m.saltZero := ⟨rfl, rfl, rfl⟩
        rw [hus.1, hus.2.1, hus.2.2] at key
        split
        · rename_i m2 heq
          rw [heq] at key; simp only at key
          intro hlk; rw [key.1, hlocked] at hlk; cases hlk
        · intro hlk; simp [lockMem] at hlk
        · rename_i m2 heq
          rw [heq] at key; simp only at key
          intro _
          show some (p, m2.saltZero) = some (m2.privPass, saltAfter cfg m2 p)
          rw [hsalt, key.2.1, hp']

theorem passOK_locked {m : Mem} (h : m.locked = true) : PassOK m := by
  intro h'; rw [h] at h'; cases h'

theorem passOK_lockMem (cfg : Cfg) (m : Mem) : PassOK (lockMem cfg m) := passOK_locked rfl

theorem passOK_changePass (cfg : Cfg) (d : Disk) (m : Mem) (o n : Nat) (pr : Bool) (h : PassOK m)
    (hc : cfg.f12 = true ∨ (pr = true → n ≠ EMPTY)) : PassOK (changePass cfg d m o n pr).2.1 := by
  unfold changePass
  split
  · exact h
  · split
    · rename_i hpr
      split
      · exact h
      · intro hl
        simp only at hl ⊢
        have : (!cfg.f12 && decide (n = EMPTY)) = false := by
          rcases hc with hc | hc
          · simp [hc]
          · simp [hc hpr]
        simp [hl, this]
    · split
      · exact h
      · exact passOK_of_scal rfl h

theorem passOK_convertWO (cfg : Cfg) (d : Disk) (m : Mem) (h : PassOK m) : PassOK (convertWO cfg d m).2 := by
  unfold convertWO
  split
  · exact h
  · apply passOK_locked
    dsimp only
    by_cases hl : m.locked = true
    · simp [hl]
    · simp [hl, lockMem]

theorem passOK_exec (s : State) (m : Mem) (hs : s.mem = some m) (op : Op) (h : PassOK m)
    (hc : s.cfg.f12 = true ∨ op.noEmpty = true) (m' : Mem) (hm : (exec s m op).1.mem = some m') : PassOK m' := by
  by_cases hp : op.plain = true
  · exact passOK_of_scal (scal_exec s m hs op hp m' hm) h
  · cases op <;> simp only [Op.plain] at hp <;> simp only [exec] at hm
    all_goals try (exact absurd trivial hp)
    case create => rw [hs] at hm; cases hm; exact h
    case reopen => rw [hs] at hm; cases hm; exact h
    case begin => rw [hs] at hm; cases hm; exact h
    case commit => rw [hs] at hm; cases hm; exact h
    case rollback => rw [hs] at hm; cases hm; exact h
    case unlock p =>
      cases hm
      exact passOK_unlock _ _ _ _ h (by
        rcases hc with hc | hc
        · exact Or.inl hc
        · right; simpa [Op.noEmpty] using hc)
    case lock =>
      cases hm
      unfold lockOp; split
      · exact h
      · split
        · exact h
        · exact passOK_lockMem _ _
    case changePass o n pr =>
      cases hm
      exact passOK_changePass _ _ _ _ _ _ h (by
        rcases hc with hc | hc
        · exact Or.inl hc
        · right; intro hpr; subst hpr; simpa [Op.noEmpty] using hc)
    case convertWO => cases hm; exact passOK_convertWO _ _ _ h

/-- the passphrase bookkeeping invariant at the level of states -/
def StPassOK (s : State) : Prop := ∀ m, s.mem = some m → PassOK m

-- `exec_cfg` / `step_cfg` / `run_cfg` (the configuration never changes) live in `Lemmas/AddrDou.lean`.

theorem passOK_commitTx (s : State) (h : StPassOK s) : StPassOK (commitTx s) := by
  intro m hm
  simp only [commitTx] at hm
  cases hs : s.mem with
  | none => rw [hs] at hm; cases hm
  | some m0 =>
    rw [hs] at hm; simp only [Option.map] at hm; cases hm
    exact passOK_of_scal (scal_foldl_runPend _ _ _) (h m0 hs)

theorem passOK_step (s : State) (op : Op) (h : StPassOK s) (hc : s.cfg.f12 = true ∨ op.noEmpty = true) :
    StPassOK (step s op).1 := by
  have generic : ∀ m, s.mem = some m →
      StPassOK (if s.snap.isSome || !op.writes then exec s m op
        else
          let r := exec { s with snap := some s.disk, pend := [] } m op
          if isErr r.2 then (rollbackTx r.1, r.2) else (commitTx r.1, r.2)).1 := by
    intro m hs
    split
    · intro m' hm'; exact passOK_exec s m hs op (h m hs) hc m' hm'
    · dsimp only
      have hex : StPassOK (exec { s with snap := some s.disk, pend := [] } m op).1 := by
        intro m' hm'
        exact passOK_exec { s with snap := some s.disk, pend := [] } m hs op (h m hs) hc m' hm'
      split
      · intro m' hm'; exact hex m' (by simpa [rollbackTx] using hm')
      · exact passOK_commitTx _ hex
  unfold step
  cases op
  case create =>
    simp only []; split
    · exact h
    · split
      · exact h
      · intro m hm; simp only at hm; cases hm; exact passOK_locked rfl
  case reopen =>
    simp only []; split
    · exact h
    · split
      · exact h
      · split
        · intro m hm; cases hm
        · intro m hm; simp only at hm; cases hm; exact passOK_locked rfl
  case begin => simp only []; split <;> exact h
  case commit => simp only []; split; exact h; exact passOK_commitTx _ h
  case rollback => simp only []; split; exact h; exact h
  all_goals
    simp only []
    split
    · exact h
    · rename_i m hs; exact generic m hs

theorem passOK_run (s : State) (ops : List Op) (h : StPassOK s)
    (hc : s.cfg.f12 = true ∨ ∀ op ∈ ops, op.noEmpty = true) : StPassOK (run s ops) := by
  induction ops generalizing s with
  | nil => exact h
  | cons op ops ih =>
    simp only [run]
    apply ih
    · exact passOK_step s op h (by
        rcases hc with hc | hc
        · exact Or.inl hc
        · exact Or.inr (hc op List.mem_cons_self))
    · rw [step_cfg]
      rcases hc with hc | hc
      · exact Or.inl hc
      · exact Or.inr (fun o ho => hc o (List.mem_cons_of_mem _ ho))

/-- `PassOK` in every state reachable from the empty state, for every history — on a tree with the salt fix (f12),
or (current tree) for histories that never use the EMPTY private passphrase. -/
theorem C05_passOK_invariant (cfg : Cfg) (ops : List Op)
    (hc : cfg.f12 = true ∨ ∀ op ∈ ops, op.noEmpty = true) : StPassOK (run { cfg := cfg } ops) :=
  passOK_run { cfg := cfg } ops (fun m hm => by cases hm) hc

/-- after EVERY history: any passphrase other than the current one fails with ErrWrongPassphrase and leaves the
manager locked (whether it was locked or unlocked before).  `_partial`: the hypothesis `hc` — on a tree without the
salt fix (f12 = false) the histories must not use the EMPTY private passphrase (see `C05_counterexample_F12` for what
goes wrong otherwise — for the *right* passphrase; the wrong-passphrase clause itself is not known to fail).  On the
current tree (/repo aeb55de and later, f12 = true, detected by the engine's probe) the first disjunct of `hc` holds
and the statement covers every history.
SUPERSEDED for the current tree by `C05_unlock_wrong_histories` below (no hypothesis `hc`). -/
theorem C05_unlock_wrong_histories_partial (cfg : Cfg) (ops : List Op)
    (hc : cfg.f12 = true ∨ ∀ op ∈ ops, op.noEmpty = true) (m : Mem)
    (hm : (run { cfg := cfg } ops).mem = some m) (hw : m.watchOnly = false) (p : Nat) (hp : p ≠ m.privPass) (d : Disk) :
    (unlock cfg d m p).2 = some .wrongPassphrase ∧ (unlock cfg d m p).1.locked = true :=
  C05_unlock_wrong cfg d m p hw (C05_passOK_invariant cfg ops hc m hm) hp

/-- after every history (same restriction), on the fixed tree (f2, f2b): the current passphrase unlocks.
`_partial`: `DouOK` (every queued derive-on-unlock address belongs to a cached account) is a hypothesis here; it
is a structural invariant of the model (entries are only appended right after their account was cached, the
account cache never shrinks) that was not proved over histories when this theorem was written.
SUPERSEDED for the current tree by `C05_unlock_right_histories` below: `DouOK` is now proved for every history
(`C05_douOK_invariant`) and `hc` is discharged by the configuration. -/
theorem C05_unlock_right_histories_partial (cfg : Cfg) (hf2 : cfg.f2 = true) (hf2b : cfg.f2b = true) (ops : List Op)
    (hc : cfg.f12 = true ∨ ∀ op ∈ ops, op.noEmpty = true) (m : Mem)
    (hm : (run { cfg := cfg } ops).mem = some m) (hw : m.watchOnly = false) (hd : DouOK m) (d : Disk) :
    (unlock cfg d m m.privPass).2 = none ∧ (unlock cfg d m m.privPass).1.locked = false :=
  C05_unlock_right cfg hf2 hf2b d m hw (C05_passOK_invariant cfg ops hc m hm) hd

/-! ### the full statements for the current tree (every fix flag on)

`C05_unlock_wrong_histories_partial` / `C05_unlock_right_histories_partial` above are SUPERSEDED for the current tree
by the two theorems below: hypothesis (a) "f12 or no EMPTY passphrase" is discharged by the configuration (the
engine's probes report every flag on for /repo today, so the tree under test is `Cfg.fixed`-like), hypothesis (b)
`DouOK` is an invariant of every history (`stDou_run`, Lemmas/AddrDou.lean).  The model has no
InvalidateAccountCache op (waddrmgr's `InvalidateAccountCache`, which since /repo 4e25286 also drops the queued
derive-on-unlock entries of the account, is outside the op set): no operation of the model removes an account from the
account cache, so no operation can break `DouOK`; a restart (`reopen`) builds a fresh memory with empty caches and an
empty queue.  "Current passphrase" is `m.privPass`, the passphrase the master-key parameters held by the RUNNING
manager were made from (equal to the database's except after a rolled-back ChangePassphrase, observation O3). -/

/-- the configuration of the current tree: every fix flag on (`cap` is free) -/
def Cfg.allFixed (c : Cfg) : Prop :=
  c.f1 = true ∧ c.f2 = true ∧ c.f2b = true ∧ c.f3 = true ∧ c.f11 = true ∧ c.f12 = true ∧ c.f13 = true ∧ c.fo1 = true

theorem Cfg.fixed_allFixed : Cfg.fixed.allFixed := ⟨rfl, rfl, rfl, rfl, rfl, rfl, rfl, rfl⟩

/-- `DouOK` and the pending-closure facts hold after EVERY history (any configuration). -/
theorem C05_douOK_invariant (cfg : Cfg) (ops : List Op) : StDou (run { cfg := cfg } ops) :=
  stDou_run _ ops (stDou_init cfg)

/-- After EVERY history of model operations from `create` (brackets begin/commit/rollback, imports, watch-only
accounts, lock/unlock, public and private passphrase changes locked or unlocked, restarts — any `List Op`), on the
current tree, on a non-watching-only manager: `Unlock(current passphrase)` succeeds and leaves it unlocked — whatever
database view `d` the call runs against. -/
theorem C05_unlock_right_histories (cfg : Cfg) (hfix : cfg.allFixed) (ops : List Op) (m : Mem)
    (hm : (run { cfg := cfg } ops).mem = some m) (hw : m.watchOnly = false) (d : Disk) :
    (unlock cfg d m m.privPass).2 = none ∧ (unlock cfg d m m.privPass).1.locked = false :=
  C05_unlock_right cfg hfix.2.1 hfix.2.2.1 d m hw
    (C05_passOK_invariant cfg ops (Or.inl hfix.2.2.2.2.2.1) m hm) ((C05_douOK_invariant cfg ops).mem m hm).1

/-- After EVERY history, on the current tree, on a non-watching-only manager: `Unlock(p)` for any `p` other than the
current passphrase fails with ErrWrongPassphrase and leaves the manager locked — also when it was unlocked before. -/
theorem C05_unlock_wrong_histories (cfg : Cfg) (hfix : cfg.allFixed) (ops : List Op) (m : Mem)
    (hm : (run { cfg := cfg } ops).mem = some m) (hw : m.watchOnly = false) (p : Nat) (hp : p ≠ m.privPass) (d : Disk) :
    (unlock cfg d m p).2 = some .wrongPassphrase ∧ (unlock cfg d m p).1.locked = true :=
  C05_unlock_wrong cfg d m p hw (C05_passOK_invariant cfg ops (Or.inl hfix.2.2.2.2.2.1) m hm) hp

/-- the same two facts as results of the model's `unlock` OPERATION issued after the history (inside or outside a
bracket): `.ok` and unlocked for the current passphrase; `.err wrongPassphrase` and locked for any other. -/
theorem C05_unlock_histories_step (cfg : Cfg) (hfix : cfg.allFixed) (ops : List Op) (m : Mem)
    (hm : (run { cfg := cfg } ops).mem = some m) (hw : m.watchOnly = false) :
    let s := run { cfg := cfg } ops
    ((step s (.unlock m.privPass)).2 = .ok ∧ lockedOf (step s (.unlock m.privPass)).1 = some false) ∧
    ∀ p, p ≠ m.privPass →
      (step s (.unlock p)).2 = .err .wrongPassphrase ∧ lockedOf (step s (.unlock p)).1 = some true := by
  intro s
  have hcfg : s.cfg = cfg := run_cfg _ ops
  have hm' : s.mem = some m := hm
  have hstep : ∀ p, step s (.unlock p) =
      ({ s with mem := some (unlock s.cfg s.disk m p).1 }, ofErr (unlock s.cfg s.disk m p).2) := by
    intro p
    simp only [step, hm', exec, Op.writes, Bool.not_false, Bool.or_true, if_true]
  refine ⟨?_, fun p hp => ?_⟩
  · obtain ⟨h1, h2⟩ := C05_unlock_right_histories cfg hfix ops m hm hw s.disk
    rw [hstep, hcfg]; simp [lockedOf, h1, h2, ofErr]
  · obtain ⟨h1, h2⟩ := C05_unlock_wrong_histories cfg hfix ops m hm hw p hp s.disk
    rw [hstep, hcfg]; simp [lockedOf, h1, h2, ofErr]

/-- non-vacuity of the full statements: a bracketed history with a watch-only account loaded while locked, addresses
issued while locked inside a bracket, a Lock between issue and commit, a rolled-back bracket, a private passphrase
change to the EMPTY passphrase and a restart reaches a non-watching-only manager; the theorems' conclusions are
what the model computes. -/
example :
    let s := run { cfg := Cfg.fixed }
      [.create 5 1, .unlock 1, .newAccount 1 "a" false, .newAccount 1 "x" true, .lock, .q (.props 1 2),
       .begin, .next 1 2 2 false, .next 1 0 1 true, .commit, .begin, .next 1 1 1 false, .rollback,
       .changePass 1 EMPTY true, .reopen 5, .q (.props 1 2), .next 1 1 1 false]
    (s.mem.map fun m => (m.watchOnly, m.privPass, (step s (.unlock EMPTY)).2, (step s (.unlock 1)).2)) =
      some (false, EMPTY, .ok, .err .wrongPassphrase) := by
  decide

/-! ### "stays wiped while locked", over ALL histories, on the current tree

`C05_wiped_by_lock` / `C05_wiped` above say that locking wipes.  Before the F13 fix (/repo bb83ae8, flag f13) that
was all that could be proved: `C05_counterexample_F13` shows a bracketed history after which a LOCKED manager caches a
clear-text key.  On the current tree the full statement holds: -/

/-- In EVERY state reachable from `create` by ANY history of model operations (brackets, commits of closures
registered before a Lock, rollbacks, imports, watch-only accounts, passphrase changes, restarts, failed and
successful unlocks) on the current tree, a LOCKED manager holds no clear-text key: master / crypto / script keys and
the hashed passphrase are nil or zero, no cached account has its private key, the derived-key cache is empty, and
every address object in `s.addrs` and every cached last-address object is wiped (`KeyClear`). -/
theorem C05_wiped_histories (cfg : Cfg) (hfix : cfg.allFixed) (ops : List Op) (m : Mem)
    (hm : (run { cfg := cfg } ops).mem = some m) (hl : m.locked = true) : KeyClear m :=
  ((stW_run { cfg := cfg } ⟨hfix.1, hfix.2.2.2.2.1, hfix.2.2.1, hfix.2.2.2.2.2.2.1⟩ ops (stW_init cfg)).mem m hm).1 hl

/-- the same statement with only the four flags it depends on: f1 (28aa715), f11 (15e7986), f2b (2a11dd6: Unlock
cannot stop half-way with a panic, keys restored and `locked` still set), f13 (bb83ae8). -/
theorem C05_wiped_histories_flags (cfg : Cfg) (hf1 : cfg.f1 = true) (hf11 : cfg.f11 = true) (hf2b : cfg.f2b = true)
    (hf13 : cfg.f13 = true) (ops : List Op) (m : Mem)
    (hm : (run { cfg := cfg } ops).mem = some m) (hl : m.locked = true) : KeyClear m :=
  ((stW_run { cfg := cfg } ⟨hf1, hf11, hf2b, hf13⟩ ops (stW_init cfg)).mem m hm).1 hl

/-- the same over the buffer map exactly as the hook `VerifBufferReport` lists it: in every reachable locked state
also the clear-text key of both cached last-address objects of every cached account is nil, whatever their kind
(`BufClear`; the model invariant `LastKind` — those slots always hold live `*managedAddress` objects — discharges the
`kind = managed` premise of `KeyClear.last`).  Not covered (observation O1, as everywhere in C05): the clear text of
SECRET witness / taproot scripts, which `lock()` does not wipe. -/
theorem C05_wiped_histories_bufmap (cfg : Cfg) (hfix : cfg.allFixed) (ops : List Op) (m : Mem)
    (hm : (run { cfg := cfg } ops).mem = some m) (hl : m.locked = true) : BufClear m :=
  have h := (stW_run { cfg := cfg } ⟨hfix.1, hfix.2.2.2.2.1, hfix.2.2.1, hfix.2.2.2.2.2.2.1⟩ ops (stW_init cfg)).mem m hm
  bufClear_of (h.1 hl) h.2.1

/-- non-vacuity: the history of `C05_counterexample_F13` extended by more bracketed issuing, a failed Unlock of an
unlocked manager and a conversion reaches locked states (with cached addresses and accounts) on the current tree. -/
example :
    let s := run { cfg := Cfg.fixed }
      [.create 5 1, .unlock 1, .q (.lastAddr 1 0 false), .begin, .next 1 0 2 false, .importKey 1 7 true, .lock, .commit,
       .unlock 1, .derive 1 0 0 5, .deriveCache 1 0 0 5, .begin, .next 1 0 1 true, .unlock 9, .commit]
    lockedOf s = some true ∧ addrCT s 1 (.chain 0 0 1) = some false ∧ addrCT s 1 (.chain 0 1 0) = some false ∧
    addrCT s 1 (.imp 7) = some false ∧ lastExtCT s 1 0 = some false := by
  decide

/-- non-vacuity: a concrete history with accounts, a watch-only account, addresses issued while locked, and a
passphrase change reaches a state where the hypotheses hold and Unlock(current) succeeds. -/
example :
    let s := run { cfg := Cfg.repo }
      [.create 5 1, .unlock 1, .newAccount 1 "a" false, .newAccount 1 "x" true, .lock, .q (.props 1 2),
       .next 1 2 2 false, .next 1 0 1 true, .changePass 1 2 true]
    (s.mem.map fun m => ((unlock s.cfg s.disk m 2).2, (unlock s.cfg s.disk m 1).2)) =
      some (none, some .wrongPassphrase) := by
  decide

/-! ### a watching-only manager is always locked; the current passphrase as a function of the history -/

theorem step_mem_cases (s : State) (op : Op) (P : Mem → Prop)
    (hopen : ∀ d, P (openMem d)) (hold : ∀ m, s.mem = some m → P m)
    (hexec : ∀ (s' : State) m, s'.mem = some m → s.mem = some m → s'.cfg = s.cfg → s'.disk = s.disk →
      ∀ m', (exec s' m op).1.mem = some m' → P m')
    (hpend : ∀ cfg m p, P m → P (runPend cfg m p)) :
    ∀ m', (step s op).1.mem = some m' → P m' := by
  have hfold : ∀ cfg (ps : List Pend) m, P m → P (ps.foldl (runPend cfg) m) := by
    intro cfg ps
    induction ps with
    | nil => intro m h; exact h
    | cons p ps ih => intro m h; simp only [List.foldl]; exact ih _ (hpend cfg m p h)
  have hcommit : ∀ s' : State, (∀ m, s'.mem = some m → P m) → ∀ m, (commitTx s').mem = some m → P m := by
    intro s' h m hm
    simp only [commitTx] at hm
    cases hs : s'.mem with
    | none => rw [hs] at hm; cases hm
    | some m0 => rw [hs] at hm; simp only [Option.map] at hm; cases hm; exact hfold _ _ _ (h m0 hs)
  have generic : ∀ m, s.mem = some m →
      ∀ m', (if s.snap.isSome || !op.writes then exec s m op
        else
          let r := exec { s with snap := some s.disk, pend := [] } m op
          if isErr r.2 then (rollbackTx r.1, r.2) else (commitTx r.1, r.2)).1.mem = some m' → P m' := by
    intro m hs
    split
    · intro m' hm'; exact hexec s m hs hs rfl rfl m' hm'
    · dsimp only
      have hex : ∀ m', (exec { s with snap := some s.disk, pend := [] } m op).1.mem = some m' → P m' :=
        fun m' hm' => hexec { s with snap := some s.disk, pend := [] } m hs hs rfl rfl m' hm'
      split
      · intro m' hm'; exact hex m' (by simpa [rollbackTx] using hm')
      · exact hcommit _ hex
  unfold step
  cases op
  case create =>
    simp only []; split
    · exact hold
    · split
      · exact hold
      · intro m hm; simp only at hm; cases hm; exact hopen _
  case reopen =>
    simp only []; split
    · exact hold
    · split
      · exact hold
      · split
        · intro m hm; cases hm
        · intro m hm; simp only at hm; cases hm; exact hopen _
  case begin => simp only []; split <;> exact hold
  case commit => simp only []; split; exact hold; exact hcommit _ hold
  case rollback => simp only []; split; exact hold; exact hold
  all_goals
    simp only []
    split
    · exact hold
    · rename_i m hs; exact generic m hs

/-- a watching-only manager is locked -/
def WOLocked (m : Mem) : Prop := m.watchOnly = true → m.locked = true

theorem woLocked_of_scal {m m' : Mem} (h : Scal m' = Scal m) (hp : WOLocked m) : WOLocked m' := by
  unfold WOLocked at *
  have h1 : m'.locked = m.locked := congrArg (·.1) h
  have h2 : m'.watchOnly = m.watchOnly := congrArg (·.2.1) h
  rw [h1, h2]; exact hp

theorem woLocked_locked {m : Mem} (h : m.locked = true) : WOLocked m := fun _ => h

theorem woLocked_unlock (cfg : Cfg) (d : Disk) (m : Mem) (p : Nat) (h : WOLocked m) : WOLocked (unlock cfg d m p).1 := by
  unfold unlock
  split
  · exact h
  · rename_i hw
    have hw' : m.watchOnly = false := by simpa using hw
    split
    · dsimp only; split
      · intro hc; rw [hw'] at hc; cases hc
      · exact woLocked_locked rfl
    · split
      · exact woLocked_locked rfl
      · dsimp only
        have key := scal_unlockScopes cfg d (List.range nScopes) (unlockStart cfg m)
        split
        · rename_i m2 heq; rw [heq] at key
          exact woLocked_of_scal (m := unlockStart cfg m) key (fun hc => by rw [show (unlockStart cfg m).watchOnly = m.watchOnly from rfl, hw'] at hc; cases hc)
        · exact woLocked_locked rfl
        · rename_i m2 heq; rw [heq] at key
          have h2 : m2.watchOnly = m.watchOnly := congrArg (·.2.1) key
          intro hc; rw [show ({ m2 with locked := false, hashed := some (p, m2.saltZero), saltZero := saltAfter cfg m2 p } : Mem).watchOnly = m2.watchOnly from rfl, h2, hw'] at hc; cases hc

theorem woLocked_exec (s : State) (m : Mem) (hs : s.mem = some m) (op : Op) (h : WOLocked m)
    (m' : Mem) (hm : (exec s m op).1.mem = some m') : WOLocked m' := by
  by_cases hp : op.plain = true
  · exact woLocked_of_scal (scal_exec s m hs op hp m' hm) h
  · cases op <;> simp only [Op.plain] at hp <;> simp only [exec] at hm
    all_goals try (exact absurd trivial hp)
    case create => rw [hs] at hm; cases hm; exact h
    case reopen => rw [hs] at hm; cases hm; exact h
    case begin => rw [hs] at hm; cases hm; exact h
    case commit => rw [hs] at hm; cases hm; exact h
    case rollback => rw [hs] at hm; cases hm; exact h
    case unlock p => cases hm; exact woLocked_unlock _ _ _ _ h
    case lock =>
      cases hm
      unfold lockOp; split
      · exact h
      · split
        · exact h
        · exact woLocked_locked rfl
    case changePass o n pr =>
      cases hm
      unfold changePass
      repeat' split
      all_goals first | exact h | (intro hc; exact h hc)
    case convertWO =>
      cases hm
      unfold convertWO
      split
      · exact h
      · apply woLocked_locked
        dsimp only
        by_cases hl : m.locked = true
        · simp [hl]
        · simp [hl, lockMem]

theorem woLocked_run (ops : List Op) (s : State) (h : ∀ m, s.mem = some m → WOLocked m) :
    ∀ m, (run s ops).mem = some m → WOLocked m := by
  induction ops generalizing s with
  | nil => exact h
  | cons op ops ih =>
    simp only [run]
    apply ih
    exact step_mem_cases s op WOLocked (fun d => woLocked_locked rfl) h
      (fun s' m hs' hs _ _ m' hm' => woLocked_exec s' m hs' op (h m hs) m' hm')
      (fun cfg m p hp => woLocked_of_scal (scal_runPend cfg m p) hp)

/-- after EVERY history (any configuration): a watching-only manager is locked -/
theorem C05_watchOnly_locked (cfg : Cfg) (ops : List Op) (m : Mem)
    (hm : (run { cfg := cfg } ops).mem = some m) (hw : m.watchOnly = true) : m.locked = true :=
  woLocked_run ops { cfg := cfg } (fun m hm => by cases hm) m hm hw

/-- hence, on the current tree, EVERY reachable state that is locked OR watching-only holds no clear-text key -/
theorem C05_wiped_histories_all (cfg : Cfg) (hfix : cfg.allFixed) (ops : List Op) (m : Mem)
    (hm : (run { cfg := cfg } ops).mem = some m) (hl : m.locked = true ∨ m.watchOnly = true) : KeyClear m :=
  C05_wiped_histories cfg hfix ops m hm (hl.elim id (C05_watchOnly_locked cfg ops m hm))

/-! ### which passphrase is "current": `m.privPass` as a function of the history

`create pub priv` and `reopen` install the database's passphrase (`openMem`), a successful private ChangePassphrase
installs the new one (in memory at once, in the transaction's view of the database), and NO other operation —
unlock, lock, public change, conversion, accounts, addresses, imports, queries, begin / commit (OnCommit closures) /
rollback — touches it. -/

theorem unlock_privPass (cfg : Cfg) (d : Disk) (m : Mem) (p : Nat) : (unlock cfg d m p).1.privPass = m.privPass := by
  unfold unlock
  split
  · rfl
  · split
    · dsimp only; split <;> rfl
    · split
      · rfl
      · dsimp only
        have key := (scal_unlockScopes_gen cfg d (List.range nScopes) (unlockStart cfg m)).2.1
        split
        · rename_i m2 heq; rw [heq] at key; exact key
        · rename_i m2 e _ heq; rw [heq] at key; exact key
        · rename_i m2 heq; rw [heq] at key; exact key

/-- every operation other than a private ChangePassphrase leaves the current passphrase alone -/
theorem C05_currentPass_frame (s : State) (m : Mem) (hs : s.mem = some m) (op : Op)
    (hop : ∀ o n, op ≠ .changePass o n true) (m' : Mem) (hm : (exec s m op).1.mem = some m') :
    m'.privPass = m.privPass := by
  by_cases hp : op.plain = true
  · exact congrArg (·.2.2.2.2.2.2.1) (scal_exec s m hs op hp m' hm)
  · cases op <;> simp only [Op.plain] at hp <;> simp only [exec] at hm
    all_goals try (exact absurd trivial hp)
    case create => rw [hs] at hm; cases hm; rfl
    case reopen => rw [hs] at hm; cases hm; rfl
    case begin => rw [hs] at hm; cases hm; rfl
    case commit => rw [hs] at hm; cases hm; rfl
    case rollback => rw [hs] at hm; cases hm; rfl
    case unlock p => cases hm; exact unlock_privPass ..
    case lock =>
      cases hm; unfold lockOp; split
      · rfl
      · split <;> rfl
    case changePass o n pr =>
      cases hm
      cases pr
      · unfold changePass; simp only [Bool.false_and, Bool.false_eq_true, if_false]; split <;> rfl
      · exact absurd rfl (hop o n)
    case convertWO =>
      cases hm; unfold convertWO; split
      · rfl
      · dsimp only; split <;> rfl

/-- a private ChangePassphrase that succeeds makes the new passphrase current (memory and database view); one that
fails changes neither -/
theorem C05_currentPass_change (cfg : Cfg) (d : Disk) (m : Mem) (o n : Nat) :
    ((changePass cfg d m o n true).2.2 = none →
      (changePass cfg d m o n true).2.1.privPass = n ∧ (changePass cfg d m o n true).1.privPass = n) ∧
    ((changePass cfg d m o n true).2.2 ≠ none →
      (changePass cfg d m o n true).2.1 = m ∧ (changePass cfg d m o n true).1 = d) := by
  unfold changePass
  simp only [Bool.true_and, if_true]
  repeat' split
  all_goals simp

/-- the OnCommit closures run by a commit do not touch it -/
theorem C05_currentPass_commit (s : State) : (commitTx s).mem.map (·.privPass) = s.mem.map (·.privPass) := by
  simp only [commitTx]
  cases s.mem with
  | none => rfl
  | some m =>
    simp only [Option.map]
    exact congrArg some (congrArg (·.2.2.2.2.2.2.1) (scal_foldl_runPend s.cfg s.pend m))

/-- `create` / `reopen` install the database's private passphrase -/
theorem C05_currentPass_open (d : Disk) : (openMem d).privPass = d.privPass ∧ (createDisk pub priv).privPass = priv :=
  ⟨rfl, rfl⟩

/-! ## 4. `C05_change`: after a private passphrase change the new one works and the old one fails, immediately and
after a restart -/

theorem C05_change (cfg : Cfg) (hf2 : cfg.f2 = true) (hf2b : cfg.f2b = true) (d : Disk) (m : Mem) (old new : Nat)
    (hw : m.watchOnly = false) (hdw : d.watchOnly = false) (hinv : PassOK m) (hd : DouOK m) (hne : old ≠ new)
    (hc : cfg.f12 = true ∨ new ≠ EMPTY)
    (hok : (changePass cfg d m old new true).2.2 = none) :
    let d' := (changePass cfg d m old new true).1
    let m' := (changePass cfg d m old new true).2.1
    -- immediately, on the running manager
    ((unlock cfg d' m' new).2 = none ∧ (unlock cfg d' m' new).1.locked = false) ∧
    ((unlock cfg d' m' old).2 = some .wrongPassphrase ∧ (unlock cfg d' m' old).1.locked = true) ∧
    -- after a restart (a manager freshly opened on the changed database)
    ((unlock cfg d' (openMem d') new).2 = none ∧ (unlock cfg d' (openMem d') new).1.locked = false) ∧
    ((unlock cfg d' (openMem d') old).2 = some .wrongPassphrase ∧ (unlock cfg d' (openMem d') old).1.locked = true) := by
  have hold : old = m.privPass := by
    unfold changePass at hok
    simp only [hw, Bool.and_false, Bool.false_eq_true, if_false, if_true] at hok
    by_cases h : old = m.privPass
    · exact h
    · simp [h] at hok
  have hcp : changePass cfg d m old new true =
      ({ d with privPass := new },
       { m with privPass := new, masterPriv := if m.locked then .zero else .nonzero,
                hashed := if m.locked then none else some (new, false),
                saltZero := if m.locked then false else (!cfg.f12 && new = EMPTY) }, none) := by
    unfold changePass; simp [hw, hold]
  have hpok := passOK_changePass cfg d m old new true hinv (by
    rcases hc with hc | hc
    · exact Or.inl hc
    · exact Or.inr (fun _ => hc))
  rw [hcp] at hpok ⊢
  dsimp only at hpok ⊢
  refine ⟨?_, ?_, ?_, ?_⟩
  · exact C05_unlock_right cfg hf2 hf2b _ _ hw hpok hd
  · exact C05_unlock_wrong cfg _ _ old hw hpok hne
  · exact C05_unlock_right cfg hf2 hf2b _ (openMem { d with privPass := new }) (by simp [openMem, hdw])
      (passOK_locked rfl) (fun sc e he => by simp [openMem] at he)
  · exact C05_unlock_wrong cfg _ (openMem { d with privPass := new }) old (by simp [openMem, hdw])
      (passOK_locked rfl) (by simpa [openMem] using hne)

/-! ## 5. counter-examples on trees without the fixes -/

/-- F2 (original snapshot): Unlock(correct passphrase) fails with a crypto error and leaves the manager locked
once a watch-only (imported xpub) account is in the account cache. -/
theorem C05_counterexample_F2 :
    let s := run { cfg := { Cfg.fixed with f2 := false, f2b := false } }
      [.create 5 1, .newAccount 1 "xp" true, .q (.props 1 1)]
    (step s (.unlock 1)).2 = .err .crypto ∧ lockedOf (step s (.unlock 1)).1 = some true := by
  decide

/-- F2b (tree with 37f56ec only): the same history makes Unlock(correct passphrase) panic in the derive-on-unlock
loop (nil private key of a watch-only account's address). -/
theorem C05_counterexample_F2b :
    let s := run { cfg := { Cfg.fixed with f2b := false } }
      [.create 5 1, .newAccount 1 "xp" true, .q (.props 1 1)]
    (step s (.unlock 1)).2 = .err .panic := by
  decide

/-- F12 (tree without the fix; fixed in /repo aeb55de — `Cfg.repo` is /repo at ebb54a5, before that commit, with
f12 = false): with an EMPTY private passphrase (accepted by ChangePassphrase) the first
Unlock(current passphrase) of an unlocked manager fails and locks it (the salt was wiped through the aliasing
`append(salt[:], passphrase...)`). -/
theorem C05_counterexample_F12 :
    let s := run { cfg := Cfg.repo } [.create 5 1, .unlock 1, .changePass 1 EMPTY true]
    lockedOf s = some false ∧ (step s (.unlock EMPTY)).2 = .err .wrongPassphrase ∧
    lockedOf (step s (.unlock EMPTY)).1 = some true := by
  decide

/-- … and with the salt fix (f12) the same history is fine. -/
example :
    let s := run { cfg := Cfg.fixed } [.create 5 1, .unlock 1, .changePass 1 EMPTY true]
    (step s (.unlock EMPTY)).2 = .ok := by
  decide

/-! ## 6. the crypto keys while unlocked (tree with b81a3ff: Unlock restores the script key too) -/

/-- a successful Unlock of a locked manager leaves the master key, the private crypto key and (fo1) the script
crypto key populated: secret scripts are sealed under a real key, not the all-zero one.  Together with
`C05_wiped_by_lock` (all three are zero after lock) this is the buffer map of the keys. -/
theorem C05_unlock_restores_keys (cfg : Cfg) (hfo1 : cfg.fo1 = true) (d : Disk) (m : Mem) (p : Nat)
    (hl : m.locked = true) (h : (unlock cfg d m p).2 = none) :
    (unlock cfg d m p).1.locked = false ∧ (unlock cfg d m p).1.masterPriv = .nonzero ∧
    (unlock cfg d m p).1.cryptoPriv = .nonzero ∧ (unlock cfg d m p).1.cryptoScript = .nonzero := by
  unfold unlock at h ⊢
  split at h
  · cases h
  · rename_i hw
    rw [if_neg hw]
    split at h
    · rename_i hnl; simp [hl] at hnl
    · rename_i hnl
      rw [if_neg hnl]
      split at h
      · cases h
      · rename_i hp
        rw [if_neg hp]
        dsimp only at h ⊢
        have key := scal_unlockScopes cfg d (List.range nScopes) (unlockStart cfg m)
        cases hr : unlockScopes cfg d (List.range nScopes) (unlockStart cfg m) with
        | mk m2 e =>
          rw [hr] at h key
          simp only at key
          have h3 : m2.masterPriv = .nonzero := congrArg (·.2.2.1) key
          have h4 : m2.cryptoPriv = .nonzero := congrArg (·.2.2.2.1) key
          have h5 : m2.cryptoScript = .nonzero := by
            have h5' : m2.cryptoScript = (unlockStart cfg m).cryptoScript := congrArg (·.2.2.2.2.1) key
            rw [h5']; simp [unlockStart, hfo1]
          cases e with
          | none => exact ⟨rfl, h3, h4, h5⟩
          | some e => cases e <;> simp at h

end AddrLock
