import BtcwVerif.Lemmas.AddrRows
/-!
# C04 — no secret reaches the database file unencrypted

`run cfg hd ops` is the state reached by the history `ops` together with *every* row any operation handed to the
database (committed or not).  All theorems are about the official tree (`Cfg.fixed`: every defect of DESIGN §7 that touched this
property — O1 zero script key, secret taproot rows surviving conversion — is fixed by b81a3ff); the configurations
with a defect switched back on appear only in the counter-example theorems at the end.
-/
set_option linter.unusedSectionVars false
namespace AddrDerive
open AddrSym

variable {K P : Type} [DecidableEq K] [DecidableEq P]

/-- **No secret in the clear.**  No write of any history exposes a secret (extended private keys, address /
    imported private keys, secret scripts, crypto keys) outside a box sealed under a real key. -/
theorem C04_no_plain_secret (hd : HD K P) (ops : List (Op K P)) :
    ∀ w ∈ (run Cfg.fixed hd ops).2, w.exposesSecret = false :=
  fun w hw => ((run_good Cfg.fixed hd ops w hw).2 rfl).1

/-- **No public key material in the clear** (address-manager namespace): xpubs, public keys, address ids and
    public scripts only occur sealed or under `sha256`. -/
theorem C04_no_plain_public (hd : HD K P) (ops : List (Op K P)) :
    ∀ w ∈ (run Cfg.fixed hd ops).2, w.exposesPublic = false :=
  fun w hw => (run_good Cfg.fixed hd ops w hw).1

/-- **Right key class.**  Private material is sealed only under private-class keys (`priv`/`script` crypto keys,
    private master key), never under the public crypto key, the public master key or the all-zero key. -/
theorem C04_right_key_class (hd : HD K P) (ops : List (Op K P)) :
    ∀ w ∈ (run Cfg.fixed hd ops).2, w.rightClass = true :=
  fun w hw => ((run_good Cfg.fixed hd ops w hw).2 rfl).2

/-- the public clause does not depend on any of the (fixed) defects: it holds for every configuration -/
theorem no_plain_public_any_cfg (cfg : Cfg) (hd : HD K P) (ops : List (Op K P)) :
    ∀ w ∈ (run cfg hd ops).2, w.exposesPublic = false :=
  fun w hw => (run_good cfg hd ops w hw).1

-- ---------------------------------------------------------------------------------------------------------
-- watching-only conversion

/-- the database holds nothing private any more -/
def ScopePrivless (sd : ScopeDisk K P) : Prop :=
  sd.coinPriv = none ∧
  (∀ e ∈ sd.accts, ∀ pub priv ne ni name, e.2 = AcctRow.dflt pub priv ne ni name → priv = none) ∧
  (∀ e ∈ sd.addrs, (∀ k c hp, e.2 = AddrRow.imp k c hp → hp = false) ∧
                    (∀ k kind e', e.2 = AddrRow.scr k kind true e' → e' = none))

theorem stripAddrRow_privless (cfg : Cfg) (ht : cfg.t1 = false) (r : AddrRow) :
    (∀ k c hp, stripAddrRow cfg r = AddrRow.imp k c hp → hp = false) ∧
    (∀ k kind e', stripAddrRow cfg r = AddrRow.scr k kind true e' → e' = none) := by
  cases r with
  | chain a b i => simp [stripAddrRow]
  | imp k c hp => simp [stripAddrRow]
  | scr k kd s e =>
    rcases kd with _ | _ | n
    · simp [stripAddrRow]; intro _ _ _ _ _ _ h; exact h.symm
    · cases s <;> simp [stripAddrRow]
      all_goals (try (intros; subst_vars; rfl))
    · cases s <;> simp [stripAddrRow, ht]
      all_goals (try (intros; subst_vars; rfl))

theorem stripScope_privless (cfg : Cfg) (ht : cfg.t1 = false) (sc : Scope) (sd : ScopeDisk K P) :
    ScopePrivless (stripScope cfg sc sd).1 := by
  unfold stripScope
  refine ⟨rfl, ?_, ?_⟩
  · intro e he pub priv ne ni name h
    rcases List.mem_map.mp he with ⟨e0, _, rfl⟩
    cases hr : e0.2 with
    | dflt p q a b c => simp [hr, stripAcctRow] at h; exact h.2.1.symm
    | wo p f a b c d g => simp [hr, stripAcctRow] at h
  · intro e he
    rcases List.mem_map.mp he with ⟨e0, _, rfl⟩
    exact stripAddrRow_privless cfg ht e0.2

/-- **Watching-only conversion.**  After `ConvertToWatchingOnly` (from any state of a non-watch-only manager)
    and a restart:
    * no passphrase unlocks the manager, and no `PrivKey()` / secret `Script()` call returns anything;
    * the database holds no private key of any kind, no secret script (taproot ones included) and no private
      master / crypto key parameters;
    * every address row that existed before still exists (same ids in every scope). -/
theorem watch_only_cfg (cfg : Cfg) (hd : HD K P) (s : State K P) (hw : s.mem.watchOnly = false) (ht : cfg.t1 = false) :
    let s1 := (opConvertWO cfg s).1
    let s2 := (opRestart (K := K) s1).1
    (∀ p, (opUnlock cfg hd s2 p).2.1 = .err .watchOnly) ∧
    (∀ o : KeyObj K P, privKeyOf s2 o = .error .watchOnly) ∧
    (∀ o : ScrObj, (o.kind = 0 ∨ o.secret = true) → scriptOf cfg s2 o = .error .watchOnly) ∧
    s2.disk.watchOnly = true ∧ s2.disk.rootPriv = none ∧ s2.disk.privPass = none ∧
    (∀ e ∈ s2.disk.scopes, ScopePrivless e.2) ∧
    (s2.disk.scopes.map fun e => (e.1, e.2.addrs.map (·.1))) = (s.disk.scopes.map fun e => (e.1, e.2.addrs.map (·.1))) := by
  have hs2 : (opRestart (K := K) (opConvertWO cfg s).1).1.mem.watchOnly = true := by
    simp [opRestart, opConvertWO, hw, freshMem]
  refine ⟨?_, ?_, ?_, ?_, ?_, ?_, ?_, ?_⟩
  · intro p; simp [opUnlock, hs2]
  · intro o; simp [privKeyOf, hs2]
  · intro o ho
    simp only [scriptOf, hs2]
    rcases ho with h | h <;> simp [h]
  · simp [opRestart, opConvertWO, hw]
  · simp [opRestart, opConvertWO, hw]
  · simp [opRestart, opConvertWO, hw]
  · intro e he
    simp [opRestart, opConvertWO, hw] at he
    rcases he with ⟨a, b, w, _, rfl⟩
    exact stripScope_privless cfg ht (a, b) w
  · simp [opRestart, opConvertWO, hw, stripScope, List.map_map, Function.comp_def]

/-- **Watching-only conversion** on the official tree, after any history: see `watch_only_cfg` for the clauses
    (nothing unlocks, no private accessor answers, nothing private left in the database — secret taproot
    scripts included —, every address row still there). -/
theorem C04_watch_only (hd : HD K P) (ops : List (Op K P)) (hw : (run Cfg.fixed hd ops).1.mem.watchOnly = false) :
    let s := (run Cfg.fixed hd ops).1
    let s2 := (opRestart (K := K) (opConvertWO Cfg.fixed s).1).1
    (∀ p, (opUnlock Cfg.fixed hd s2 p).2.1 = .err .watchOnly) ∧
    (∀ o : KeyObj K P, privKeyOf s2 o = .error .watchOnly) ∧
    (∀ o : ScrObj, (o.kind = 0 ∨ o.secret = true) → scriptOf Cfg.fixed s2 o = .error .watchOnly) ∧
    s2.disk.watchOnly = true ∧ s2.disk.rootPriv = none ∧ s2.disk.privPass = none ∧
    (∀ e ∈ s2.disk.scopes, ScopePrivless e.2) ∧
    (s2.disk.scopes.map fun e => (e.1, e.2.addrs.map (·.1))) = (s.disk.scopes.map fun e => (e.1, e.2.addrs.map (·.1))) :=
  watch_only_cfg Cfg.fixed hd _ hw rfl

-- ---------------------------------------------------------------------------------------------------------
-- counter-examples on the configurations with the defects, and non-vacuity

/-- a concrete `HD` (keys are derivation paths) used for the examples -/
def demoHD04 : HD (List Nat) (List Nat) :=
  { child := fun k i => some (k ++ [i]), neuter := id, pubChild := fun p i => some (p ++ [i]) }

def demo04ImportScript : List (Op (List Nat) (List Nat)) :=
  [.create [0], .unlock 0, .importScript (84, 0) 1 0 true 1]

/-- **Defect O1 (what reverting b81a3ff breaks).**  With the script crypto key left all-zero, importing a secret script after
    unlocking writes a row from which the script can be read without any passphrase. -/
theorem C04_zero_key_counterexample :
    ((run { o1 := true } demoHD04 demo04ImportScript).2.any Row.exposesSecret) = true := by decide

/-- the same history is clean once `Unlock` restores the script key (instance of `C04_no_plain_secret`) -/
example : ((run {} demoHD04 demo04ImportScript).2.any Row.exposesSecret) = false := by decide

def demo04Taproot : List (Op (List Nat) (List Nat)) :=
  [.create [0], .unlock 0, .importScript (86, 0) 1 2 true 1, .convertWO, .restart]

/-- **Defect (what reverting b81a3ff's `deletePrivateKeys` part breaks): secret taproot script rows survive
    `ConvertToWatchingOnly`.** -/
theorem C04_taproot_row_counterexample :
    ((run { t1 := true } demoHD04 demo04Taproot).1.disk.scopes.any fun e =>
      e.2.addrs.any fun a => match a.2 with | .scr _ _ true (some _) => true | _ => false) = true := by decide

example : ((run {} demoHD04 demo04Taproot).1.disk.scopes.any fun e =>
      e.2.addrs.any fun a => match a.2 with | .scr _ _ true (some _) => true | _ => false) = false := by decide

/-- non-vacuity of `C04_watch_only`: a reachable unlocked state with imported key, script and issued addresses -/
example : (run Cfg.fixed demoHD04 [.create [0], .unlock 0, .next (84, 0) 0 2 false 1, .importPriv (84, 0) 7 true 5,
    .importScript (84, 0) 1 1 true 6]).1.mem.watchOnly = false := by decide

/-- the write stream of a history is not empty (the theorems above are not about an empty list) -/
example : 20 < (run {} demoHD04 demo04ImportScript).2.length := by decide

end AddrDerive
