import BtcwVerif.Lemmas.AddrRows
import BtcwVerif.Model.AddrTx
import BtcwVerif.Lemmas.AddrWallet
/-!
# C04 — no secret reaches the database file unencrypted

`run cfg hd ops` is the state reached by the history `ops` together with *every* row any operation handed to the
database (committed or not).  All theorems are about the official tree (`Cfg.fixed`: every defect of DESIGN §7 that touched this
property — O1 zero script key, secret taproot rows surviving conversion — is fixed by b81a3ff); the configurations
with a defect switched back on appear only in the counter-example theorems at the end.
-/
set_option linter.unusedSectionVars false
namespace AddrDerive
open AddrSym

variable {K P : Type} [DecidableEq K] [DecidableEq P]

/-- **No secret in the clear.**  No write of any history exposes a secret (extended private keys, address /
    imported private keys, secret scripts, crypto keys) outside a box sealed under a real key. -/
theorem C04_no_plain_secret (hd : HD K P) (ops : List (Op K P)) :
    ∀ w ∈ (run Cfg.fixed hd ops).2, w.exposesSecret = false :=
  fun w hw => ((run_good Cfg.fixed hd ops w hw).2 rfl).1

/-- **No public key material in the clear** (address-manager namespace): xpubs, public keys, address ids and
    public scripts only occur sealed or under `sha256`. -/
theorem C04_no_plain_public (hd : HD K P) (ops : List (Op K P)) :
    ∀ w ∈ (run Cfg.fixed hd ops).2, w.exposesPublic = false :=
  fun w hw => (run_good Cfg.fixed hd ops w hw).1

/-- **Right key class.**  Private material is sealed only under private-class keys (`priv`/`script` crypto keys,
    private master key), never under the public crypto key, the public master key or the all-zero key. -/
theorem C04_right_key_class (hd : HD K P) (ops : List (Op K P)) :
    ∀ w ∈ (run Cfg.fixed hd ops).2, w.rightClass = true :=
  fun w hw => ((run_good Cfg.fixed hd ops w hw).2 rfl).2

/-- the public clause does not depend on any of the (fixed) defects: it holds for every configuration -/
theorem no_plain_public_any_cfg (cfg : Cfg) (hd : HD K P) (ops : List (Op K P)) :
    ∀ w ∈ (run cfg hd ops).2, w.exposesPublic = false :=
  fun w hw => (run_good cfg hd ops w hw).1

-- ---------------------------------------------------------------------------------------------------------
-- the boundary of the public clause: the whole database file, `waddrmgr` next to `wtxmgr`

theorem wstep_mgr_good (cfg : Cfg) (hd : HD K P) (s : State K P) (op : WOp K P) :
    ∀ w ∈ (wstep cfg hd s op).2.2, (w.1 = Ns.waddrmgr → Good cfg.o1 w.2) ∧
      (w.1 = Ns.wtxmgr → op.isTx = true ∧ w.2.exposesSecret = false) := by
  intro w hw
  cases op with
  | mgr op =>
    simp only [wstep, List.mem_map] at hw
    obtain ⟨r, hr, rfl⟩ := hw
    exact ⟨fun _ => step_good cfg hd s op r hr, fun h => (by cases h)⟩
  | recordTx desc =>
    simp only [wstep] at hw
    split at hw
    · cases hw
    · simp only [List.mem_map] at hw
      obtain ⟨r, hr, rfl⟩ := hw
      refine ⟨fun h => (by cases h), fun _ => ⟨rfl, ?_⟩⟩
      simp only [txRows, List.mem_cons, List.mem_nil_iff, or_false] at hr
      rcases hr with rfl | rfl <;> simp [Row.exposesSecret, exposesSecret]

theorem wfoldl_good (cfg : Cfg) (hd : HD K P) (ops : List (WOp K P)) :
    ∀ (acc : State K P × List NsRow),
      (∀ w ∈ acc.2, (w.1 = Ns.waddrmgr → Good cfg.o1 w.2) ∧ (w.1 = Ns.wtxmgr → w.2.exposesSecret = false)) →
      ∀ w ∈ (ops.foldl (fun acc op => let r := wstep cfg hd acc.1 op; (r.1, acc.2 ++ r.2.2)) acc).2,
        (w.1 = Ns.waddrmgr → Good cfg.o1 w.2) ∧ (w.1 = Ns.wtxmgr → w.2.exposesSecret = false) := by
  induction ops with
  | nil => intro acc h w hw; exact h w hw
  | cons op rest ih =>
    intro acc h
    simp only [List.foldl_cons]
    apply ih
    intro w hw
    rcases List.mem_append.mp hw with hw | hw
    · exact h w hw
    · have := wstep_mgr_good cfg hd acc.1 op w hw
      exact ⟨this.1, fun e => (this.2 e).2⟩

/-- **The address-manager namespace never shows public key material (nor a secret), transactions or not.**
    In every history of the whole wallet database — address-manager operations interleaved in any way with
    recorded transactions — every write below the `waddrmgr` namespace is free of clear-text public key material
    (xpubs, public keys, address ids / hashes, public scripts), free of exposed secrets, and seals private material
    under the right key class.  Recording transactions changes nothing for this namespace. -/
theorem C04_waddrmgr_never_public (hd : HD K P) (ops : List (WOp K P)) :
    ∀ w ∈ (wrun Cfg.fixed hd ops).2, w.1 = Ns.waddrmgr →
      w.2.exposesPublic = false ∧ w.2.exposesSecret = false ∧ w.2.rightClass = true := by
  intro w hw hns
  have := (wfoldl_good Cfg.fixed hd ops (emptyState, []) (by intro w hw; cases hw) w hw).1 hns
  exact ⟨this.1, (this.2 rfl).1, (this.2 rfl).2⟩

/-- the transaction store never holds a secret either -/
theorem C04_wtxmgr_no_secret (hd : HD K P) (ops : List (WOp K P)) :
    ∀ w ∈ (wrun Cfg.fixed hd ops).2, w.2.exposesSecret = false := by
  intro w hw
  have := wfoldl_good Cfg.fixed hd ops (emptyState, []) (by intro w hw; cases hw) w hw
  cases hns : w.1 with
  | waddrmgr => exact ((this.1 hns).2 rfl).1
  | wtxmgr => exact this.2 hns

theorem wfoldl_no_tx (cfg : Cfg) (hd : HD K P) (ops : List (WOp K P)) (hno : ops.all (fun op => !op.isTx) = true) :
    ∀ (acc : State K P × List NsRow), (∀ w ∈ acc.2, w.1 = Ns.waddrmgr) →
      ∀ w ∈ (ops.foldl (fun acc op => let r := wstep cfg hd acc.1 op; (r.1, acc.2 ++ r.2.2)) acc).2, w.1 = Ns.waddrmgr := by
  induction ops with
  | nil => intro acc h w hw; exact h w hw
  | cons op rest ih =>
    intro acc h
    simp only [List.all_cons, Bool.and_eq_true] at hno
    simp only [List.foldl_cons]
    apply ih hno.2
    intro w hw
    rcases List.mem_append.mp hw with hw | hw
    · exact h w hw
    · cases op with
      | mgr op =>
        simp only [wstep, List.mem_map] at hw
        obtain ⟨r, _, rfl⟩ := hw
        rfl
      | recordTx d => simp [WOp.isTx] at hno

/-- **Until a transaction is recorded, nothing public is in the file at all; afterwards only the transaction store
    holds it.**  (i) While no transaction has been recorded, no write to the database file, in whichever
    top-level bucket, shows public key material in the clear.  (ii) In any history, a write that shows public key
    material lies in the `wtxmgr` namespace. -/
theorem C04_public_boundary (hd : HD K P) (ops : List (WOp K P)) :
    (ops.all (fun op => !op.isTx) = true → ∀ w ∈ (wrun Cfg.fixed hd ops).2, w.2.exposesPublic = false) ∧
    (∀ w ∈ (wrun Cfg.fixed hd ops).2, w.2.exposesPublic = true → w.1 = Ns.wtxmgr) := by
  constructor
  · intro hno w hw
    have hns := wfoldl_no_tx Cfg.fixed hd ops hno (emptyState, []) (by intro w hw; cases hw) w hw
    exact (C04_waddrmgr_never_public hd ops w hw hns).1
  · intro w hw hp
    cases hns : w.1 with
    | wtxmgr => rfl
    | waddrmgr =>
      have := (C04_waddrmgr_never_public hd ops w hw hns).1
      rw [this] at hp; cases hp

/-- the address-manager part of a whole-database history is a history of the address manager: projecting away the
    recorded transactions gives the same manager state and the same `waddrmgr` writes (so every `C03_*` / `C04_*`
    theorem about `run` applies to the manager inside the full wallet) -/
def mgrOps : List (WOp K P) → List (Op K P)
  | [] => []
  | .mgr op :: t => op :: mgrOps t
  | .recordTx _ :: t => mgrOps t

theorem wfoldl_state (cfg : Cfg) (hd : HD K P) : ∀ (ops : List (WOp K P)) (s : State K P) (r : List NsRow) (r' : List Row),
    (ops.foldl (fun acc op => let x := wstep cfg hd acc.1 op; (x.1, acc.2 ++ x.2.2)) (s, r)).1 =
    ((mgrOps ops).foldl (fun acc op => let x := step cfg hd acc.1 op; (x.1, acc.2 ++ x.2.2)) (s, r')).1 := by
  intro ops
  induction ops with
  | nil => intro s r r'; rfl
  | cons op t ih =>
    intro s r r'
    cases op with
    | mgr op => simp only [List.foldl_cons, mgrOps, wstep]; exact ih _ _ _
    | recordTx d =>
      simp only [List.foldl_cons, mgrOps]
      have : (wstep cfg hd s (WOp.recordTx d)).1 = s := by simp only [wstep]; split <;> rfl
      rw [this]; exact ih _ _ _

/-- the manager state inside the whole-database history is the state of the projected manager history -/
theorem C04_wrun_mgr_state (hd : HD K P) (ops : List (WOp K P)) :
    (wrun Cfg.fixed hd ops).1 = (run Cfg.fixed hd (mgrOps ops)).1 := by
  unfold wrun run
  cases hm : mgrOps ops with
  | nil =>
    have := wfoldl_state Cfg.fixed hd ops emptyState [] []
    rw [hm] at this; exact this
  | cons op t =>
    have := wfoldl_state Cfg.fixed hd ops emptyState [] []
    rw [hm] at this; exact this

-- ---------------------------------------------------------------------------------------------------------
-- watching-only conversion

/-- the database holds nothing private any more -/
def ScopePrivless (sd : ScopeDisk K P) : Prop :=
  sd.coinPriv = none ∧
  (∀ e ∈ sd.accts, ∀ pub priv ne ni name, e.2 = AcctRow.dflt pub priv ne ni name → priv = none) ∧
  (∀ e ∈ sd.addrs, (∀ k c hp, e.2 = AddrRow.imp k c hp → hp = false) ∧
                    (∀ k kind e', e.2 = AddrRow.scr k kind true e' → e' = none))

theorem stripAddrRow_privless (cfg : Cfg) (ht : cfg.t1 = false) (r : AddrRow) :
    (∀ k c hp, stripAddrRow cfg r = AddrRow.imp k c hp → hp = false) ∧
    (∀ k kind e', stripAddrRow cfg r = AddrRow.scr k kind true e' → e' = none) := by
  cases r with
  | chain a b i => simp [stripAddrRow]
  | imp k c hp => simp [stripAddrRow]
  | scr k kd s e =>
    rcases kd with _ | _ | n
    · simp [stripAddrRow]; intro _ _ _ _ _ _ h; exact h.symm
    · cases s <;> simp [stripAddrRow]
      all_goals (try (intros; subst_vars; rfl))
    · cases s <;> simp [stripAddrRow, ht]
      all_goals (try (intros; subst_vars; rfl))

theorem stripScope_privless (cfg : Cfg) (ht : cfg.t1 = false) (sc : Scope) (sd : ScopeDisk K P) :
    ScopePrivless (stripScope cfg sc sd).1 := by
  unfold stripScope
  refine ⟨rfl, ?_, ?_⟩
  · intro e he pub priv ne ni name h
    rcases List.mem_map.mp he with ⟨e0, _, rfl⟩
    cases hr : e0.2 with
    | dflt p q a b c => simp [hr, stripAcctRow] at h; exact h.2.1.symm
    | wo p f a b c d g => simp [hr, stripAcctRow] at h
  · intro e he
    rcases List.mem_map.mp he with ⟨e0, _, rfl⟩
    exact stripAddrRow_privless cfg ht e0.2

/-- **Watching-only conversion.**  After `ConvertToWatchingOnly` (from any state of a non-watch-only manager)
    and a restart:
    * no passphrase unlocks the manager, and no `PrivKey()` / secret `Script()` call returns anything;
    * the database holds no private key of any kind, no secret script (taproot ones included) and no private
      master / crypto key parameters;
    * every address row that existed before still exists (same ids in every scope). -/
theorem watch_only_cfg (cfg : Cfg) (hd : HD K P) (s : State K P) (hw : s.mem.watchOnly = false) (ht : cfg.t1 = false) :
    let s1 := (opConvertWO cfg s).1
    let s2 := (opRestart (K := K) s1).1
    (∀ p, (opUnlock cfg hd s2 p).2.1 = .err .watchOnly) ∧
    (∀ o : KeyObj K P, privKeyOf s2 o = .error .watchOnly) ∧
    (∀ o : ScrObj, (o.kind = 0 ∨ o.secret = true) → scriptOf cfg s2 o = .error .watchOnly) ∧
    s2.disk.watchOnly = true ∧ s2.disk.rootPriv = none ∧ s2.disk.privPass = none ∧
    (∀ e ∈ s2.disk.scopes, ScopePrivless e.2) ∧
    (s2.disk.scopes.map fun e => (e.1, e.2.addrs.map (·.1))) = (s.disk.scopes.map fun e => (e.1, e.2.addrs.map (·.1))) := by
  have hs2 : (opRestart (K := K) (opConvertWO cfg s).1).1.mem.watchOnly = true := by
    simp [opRestart, opConvertWO, hw, freshMem]
  refine ⟨?_, ?_, ?_, ?_, ?_, ?_, ?_, ?_⟩
  · intro p; simp [opUnlock, hs2]
  · intro o; simp [privKeyOf, hs2]
  · intro o ho
    simp only [scriptOf, hs2]
    rcases ho with h | h <;> simp [h]
  · simp [opRestart, opConvertWO, hw]
  · simp [opRestart, opConvertWO, hw]
  · simp [opRestart, opConvertWO, hw]
  · intro e he
    simp [opRestart, opConvertWO, hw] at he
    rcases he with ⟨a, b, w, _, rfl⟩
    exact stripScope_privless cfg ht (a, b) w
  · simp [opRestart, opConvertWO, hw, stripScope, List.map_map, Function.comp_def]

/-- **Watching-only conversion** on the official tree, after any history: see `watch_only_cfg` for the clauses
    (nothing unlocks, no private accessor answers, nothing private left in the database — secret taproot
    scripts included —, every address row still there). -/
theorem C04_watch_only (hd : HD K P) (ops : List (Op K P)) (hw : (run Cfg.fixed hd ops).1.mem.watchOnly = false) :
    let s := (run Cfg.fixed hd ops).1
    let s2 := (opRestart (K := K) (opConvertWO Cfg.fixed s).1).1
    (∀ p, (opUnlock Cfg.fixed hd s2 p).2.1 = .err .watchOnly) ∧
    (∀ o : KeyObj K P, privKeyOf s2 o = .error .watchOnly) ∧
    (∀ o : ScrObj, (o.kind = 0 ∨ o.secret = true) → scriptOf Cfg.fixed s2 o = .error .watchOnly) ∧
    s2.disk.watchOnly = true ∧ s2.disk.rootPriv = none ∧ s2.disk.privPass = none ∧
    (∀ e ∈ s2.disk.scopes, ScopePrivless e.2) ∧
    (s2.disk.scopes.map fun e => (e.1, e.2.addrs.map (·.1))) = (s.disk.scopes.map fun e => (e.1, e.2.addrs.map (·.1))) :=
  watch_only_cfg Cfg.fixed hd _ hw rfl

-- ---------------------------------------------------------------------------------------------------------
-- counter-examples on the configurations with the defects, and non-vacuity

/-- a concrete `HD` (keys are derivation paths) used for the examples -/
def demoHD04 : HD (List Nat) (List Nat) :=
  { child := fun k i => some (k ++ [i]), neuter := id, pubChild := fun p i => some (p ++ [i]) }

def demo04ImportScript : List (Op (List Nat) (List Nat)) :=
  [.create [0], .unlock 0, .importScript (84, 0) 1 0 true 1]

/-- **Defect O1 (what reverting b81a3ff breaks).**  With the script crypto key left all-zero, importing a secret script after
    unlocking writes a row from which the script can be read without any passphrase. -/
theorem C04_zero_key_counterexample :
    ((run { o1 := true } demoHD04 demo04ImportScript).2.any Row.exposesSecret) = true := by decide

/-- the same history is clean once `Unlock` restores the script key (instance of `C04_no_plain_secret`) -/
example : ((run {} demoHD04 demo04ImportScript).2.any Row.exposesSecret) = false := by decide

def demo04Taproot : List (Op (List Nat) (List Nat)) :=
  [.create [0], .unlock 0, .importScript (86, 0) 1 2 true 1, .convertWO, .restart]

/-- **Defect (what reverting b81a3ff's `deletePrivateKeys` part breaks): secret taproot script rows survive
    `ConvertToWatchingOnly`.** -/
theorem C04_taproot_row_counterexample :
    ((run { t1 := true } demoHD04 demo04Taproot).1.disk.scopes.any fun e =>
      e.2.addrs.any fun a => match a.2 with | .scr _ _ true (some _) => true | _ => false) = true := by decide

example : ((run {} demoHD04 demo04Taproot).1.disk.scopes.any fun e =>
      e.2.addrs.any fun a => match a.2 with | .scr _ _ true (some _) => true | _ => false) = false := by decide

/-- non-vacuity of `C04_watch_only`: a reachable unlocked state with imported key, script and issued addresses -/
example : (run Cfg.fixed demoHD04 [.create [0], .unlock 0, .next (84, 0) 0 2 false 1, .importPriv (84, 0) 7 true 5,
    .importScript (84, 0) 1 1 true 6]).1.mem.watchOnly = false := by decide

/-- non-vacuity of the boundary: after a recorded transaction the file does hold an address hash in the clear — in
    the `wtxmgr` namespace — and the address manager's own rows (issue, mark used) still show none -/
example : ((wrun Cfg.fixed demoHD04 [.mgr (.create [0]), .mgr (.next (84, 0) 0 1 false 1), .recordTx "84:0:0:0:0",
      .mgr (.markUsed (84, 0) (.key (.hd [0, 84 + H, 0 + H, 0 + H, 0, 0]) 0 true) "84:0:0:0:0")]).2.any
      fun w => w.1 == Ns.wtxmgr && w.2.exposesPublic) = true := by decide

/-- the write stream of a history is not empty (the theorems above are not about an empty list) -/
example : 20 < (run {} demoHD04 demo04ImportScript).2.length := by decide

-- ---------------------------------------------------------------------------------------------------------
-- round 2: the wallet-level entry point of the conversion, `Wallet.InitAccounts(scope, watchOnly, num)`

/-- `InitAccounts(watchOnly = true)` from any state of a non-watching-only manager: if the call reports success, then
    after a reopen nothing unlocks, no private accessor answers, the database holds nothing private, and the stored
    address ids are those of before the call — see `watch_only_cfg`.  Whether accounts `1 … num` had to be created or
    were all there already (a wallet started earlier with `watchOnly = false`) makes no difference. -/
theorem init_accounts_watch_only_cfg (cfg : Cfg) (hd : HD K P) (s : State K P) (sc : Scope) (num : Nat)
    (hw : s.mem.watchOnly = false) (ht : cfg.t1 = false)
    (hok : (opInitAccounts cfg hd s sc true num).2.1 = .ok) :
    let s2 := (opRestart (K := K) (opInitAccounts cfg hd s sc true num).1).1
    (∀ p, (opUnlock cfg hd s2 p).2.1 = .err .watchOnly) ∧
    (∀ o : KeyObj K P, privKeyOf s2 o = .error .watchOnly) ∧
    (∀ o : ScrObj, (o.kind = 0 ∨ o.secret = true) → scriptOf cfg s2 o = .error .watchOnly) ∧
    s2.mem.watchOnly = true ∧ s2.disk.watchOnly = true ∧ s2.disk.rootPriv = none ∧ s2.disk.privPass = none ∧
    (∀ e ∈ s2.disk.scopes, ScopePrivless e.2) ∧
    addrIds s2 = addrIds s := by
  obtain ⟨sMid, hm1, hm2, hm3⟩ := opInitAccounts_converts cfg hd s sc num hok
  intro s2
  have hs2 : s2 = (opRestart (K := K) (opConvertWO cfg sMid).1).1 := by show (opRestart _).1 = _; rw [hm3]
  obtain ⟨h1, h2, h3, h4, h5, h6, h7, h8⟩ := watch_only_cfg cfg hd sMid (hm1.trans hw) ht
  rw [hs2]
  refine ⟨h1, h2, h3, ?_, h4, h5, h6, h7, ?_⟩
  · simp [opRestart, opConvertWO, hm1.trans hw, freshMem]
  · exact h8.trans hm2

/-- **Watching-only migration through the wallet** (official tree, after ANY history — in particular one in which an
    earlier start already ran `InitAccounts(scope, false, num)` and created every account): a successful
    `InitAccounts(scope, true, num)` followed by a reopen leaves a wallet that still knows every address, that no
    passphrase unlocks, and from which no call returns private material; the database holds no private key, secret
    script or private KDF parameter. -/
theorem C04_init_accounts_watch_only (hd : HD K P) (ops : List (Op K P)) (sc : Scope) (num : Nat)
    (hw : (run Cfg.fixed hd ops).1.mem.watchOnly = false)
    (hok : (opInitAccounts Cfg.fixed hd (run Cfg.fixed hd ops).1 sc true num).2.1 = .ok) :
    let s := (run Cfg.fixed hd ops).1
    let s2 := (opRestart (K := K) (opInitAccounts Cfg.fixed hd s sc true num).1).1
    (∀ p, (opUnlock Cfg.fixed hd s2 p).2.1 = .err .watchOnly) ∧
    (∀ o : KeyObj K P, privKeyOf s2 o = .error .watchOnly) ∧
    (∀ o : ScrObj, (o.kind = 0 ∨ o.secret = true) → scriptOf Cfg.fixed s2 o = .error .watchOnly) ∧
    s2.mem.watchOnly = true ∧ s2.disk.watchOnly = true ∧ s2.disk.rootPriv = none ∧ s2.disk.privPass = none ∧
    (∀ e ∈ s2.disk.scopes, ScopePrivless e.2) ∧
    addrIds s2 = addrIds s :=
  init_accounts_watch_only_cfg Cfg.fixed hd _ sc num hw rfl hok

/-- non-vacuity: first start `InitAccounts(false, 2)` creates accounts 1 and 2; on the second start nothing is missing
    (the walk creates nothing) and `InitAccounts(true, 2)` still succeeds — and converts -/
def demo04Started : List (Op (List Nat) (List Nat)) := [.create [0], .unlock 0]

example :
    let s1 := (opRestart (opInitAccounts Cfg.fixed demoHD04 (run Cfg.fixed demoHD04 demo04Started).1 (84, 0) false 2).1).1
    let s1u := (step Cfg.fixed demoHD04 s1 (.unlock 0)).1
    (s1u.mem.watchOnly, missingAccts s1u (84, 0) 2 1,
      match (opInitAccounts Cfg.fixed demoHD04 s1u (84, 0) true 2).2.1 with | .ok => true | _ => false,
      (opInitAccounts Cfg.fixed demoHD04 s1u (84, 0) true 2).1.disk.watchOnly) = (false, [], true, true) := by decide

end AddrDerive
