import BtcwVerif.Lemmas.AddrIssue
import BtcwVerif.Gen.AddrSitesGen

/-!
# C09 — concurrent requests never receive the same address

Model: `BtcwVerif/Model/AddrIssue.lean` (small-step interleaving of N callers; the post-commit callback that
advances the in-memory index runs AFTER bbolt released the writer lock — `go.etcd.io/bbolt` `(*Tx).Commit`:
`tx.close()` then `for fn in tx.commitHandlers`).  A schedule is any list of caller ids; steps that need a lock held
by somebody else are not enabled.  The theorems quantify over every number of callers, every caller program
(site × arguments), every starting index pair and every schedule.
-/
namespace C09
open AddrIssue

/-- **Safety.** If every caller's site holds `w.newAddrMtx`, then for every number of callers, every schedule
after which all callers have returned:
* the issued (branch, index) pairs are pairwise distinct,
* on each branch they are exactly the gap-free range `[base, next)` (in commit order),
* the in-memory next indices equal the database's. -/
theorem C09_safe (cs : List Caller) (hall : ∀ c ∈ cs, c.holdsMutex = true) (base : Idx) (sched : List Nat)
    (hdone : allDone cs (exec cs base sched)) :
    (exec cs base sched).issued.Nodup ∧
    (∀ b, issuedOn b (exec cs base sched).issued
        = List.range' (base.get b) ((exec cs base sched).mem.get b - base.get b)) ∧
    (exec cs base sched).mem = (exec cs base sched).disk := by
  have hinv : Inv cs base (exec cs base sched) := inv_run hall sched _ (inv_init cs base)
  generalize exec cs base sched = σ at hinv hdone
  -- nobody can still own the mutex
  have hfree : σ.mtx = none := by
    cases hmx : σ.mtx with
    | none => rfl
    | some h =>
      obtain ⟨c, hc, hok⟩ := hinv.holder h hmx
      have hlt : h < cs.length := by
        rcases Nat.lt_or_ge h cs.length with hl | hl
        · exact hl
        · rw [List.getElem?_eq_none hl] at hc; cases hc
      have := hdone h hlt
      simp [HolderOK, this] at hok
  obtain ⟨_, _, hmd⟩ := hinv.free hfree
  have hq := hinv.q
  have hrange : ∀ b, issuedOn b σ.issued = List.range' (base.get b) (σ.mem.get b - base.get b) := by
    intro b; rw [hmd]; exact (hq b).2
  refine ⟨?_, hrange, hmd⟩
  apply nodup_of_issuedOn
  intro b; rw [hrange b]; exact List.nodup_range' 1

/-- The same holds at every moment at which the mutex is free (not only at the end), and the database is never
behind: safety is an invariant, `C09_safe` is its instance at completion. -/
theorem C09_safe_invariant (cs : List Caller) (hall : ∀ c ∈ cs, c.holdsMutex = true) (base : Idx)
    (sched : List Nat) :
    (exec cs base sched).issued.Nodup ∧
    (∀ b, issuedOn b (exec cs base sched).issued
        = List.range' (base.get b) ((exec cs base sched).disk.get b - base.get b)) ∧
    ((exec cs base sched).mtx = none → (exec cs base sched).mem = (exec cs base sched).disk) := by
  have hinv : Inv cs base (exec cs base sched) := inv_run hall sched _ (inv_init cs base)
  generalize exec cs base sched = σ at hinv
  refine ⟨?_, fun b => (hinv.q b).2, fun h => (hinv.free h).2.2⟩
  apply nodup_of_issuedOn
  intro b; rw [(hinv.q b).2]; exact List.nodup_range' 1

/-- **No deadlock.** With the mutex at every site (lock order `newAddrMtx` → bbolt writer lock → `s.mtx`), in every
reachable state in which some caller has not returned, some caller has an enabled step. -/
theorem C09_no_deadlock (cs : List Caller) (hall : ∀ c ∈ cs, c.holdsMutex = true) (base : Idx) (sched : List Nat)
    (hnot : ¬ allDone cs (exec cs base sched)) :
    ∃ i, i < cs.length ∧ (step cs (exec cs base sched) i).pc i ≠ (exec cs base sched).pc i :=
  inv_no_deadlock hall (inv_run hall sched _ (inv_init cs base)) hnot

/-- **Every schedule prefix can be completed** (so the hypothesis `allDone` of `C09_safe` is satisfiable for every
population of callers and after every prefix; non-vacuity in general). -/
theorem C09_can_complete (cs : List Caller) (hall : ∀ c ∈ cs, c.holdsMutex = true) (base : Idx) (sched : List Nat) :
    ∃ more, allDone cs (exec cs base (sched ++ more)) := by
  obtain ⟨more, h⟩ := inv_can_complete hall _ _ (inv_run hall sched _ (inv_init cs base)) (Nat.le_refl _)
  refine ⟨more, ?_⟩
  unfold exec
  rw [run_append]
  exact h

/-- What the Go schedule controller can force (coarse steps: park at transaction begin / before commit / before
the post-commit callback; callers blocked on entry run on by themselves) is a schedule of the model: the state the
driver reports for a harness schedule is `exec` of some fine schedule, so every theorem above speaks about it. -/
theorem C09_harness_schedules_are_model_schedules (cs : List Caller) (base : Idx) (sched : List Nat) :
    ∃ fine, (coarseRun cs base sched).σ = exec cs base fine :=
  coarseRun_reach cs base sched

/-- The premise of `C09_safe`, checked on the table regenerated from `/repo/wallet/*.go` on every run:
every function of package wallet that reaches `Next{External,Internal}Addresses` inside a read-write
transaction takes `w.newAddrMtx` — the same mutex, a field of the receiver — around it. -/
theorem C09_generated_sites_hold : AddrSitesGen.sites.all SiteInfo.ok = true := by decide

/-- `C09_safe` for callers running any of the extracted sites. -/
theorem C09_safe_generated (cs : List Caller)
    (hsites : ∀ c ∈ cs, ∃ s ∈ AddrSitesGen.sites, c.holdsMutex = s.holdsMutex)
    (base : Idx) (sched : List Nat) (hdone : allDone cs (exec cs base sched)) :
    (exec cs base sched).issued.Nodup ∧
    (∀ b, issuedOn b (exec cs base sched).issued
        = List.range' (base.get b) ((exec cs base sched).mem.get b - base.get b)) ∧
    (exec cs base sched).mem = (exec cs base sched).disk := by
  apply C09_safe cs _ base sched hdone
  intro c hc
  obtain ⟨s, hs, he⟩ := hsites c hc
  rw [he]
  have := List.all_eq_true.mp C09_generated_sites_hold s hs
  simp only [SiteInfo.ok, Bool.and_eq_true] at this
  exact this.1

/-! ## Sensitivity: the hazard is real in the model -/

/-- a caller whose site does NOT take the mutex (NewChangeAddress with the Lock removed) -/
def unlockedSite : Caller := { holdsMutex := false, branch := .int }
/-- a caller whose site takes it -/
def lockedSite : Caller := { holdsMutex := true, branch := .int }

/-- "A committed, A's callback pending, B begins and reads the stale in-memory index":
A runs to `cbWait` (8 steps), B runs completely (12 steps), A finishes (4 steps). -/
def hazard : List Nat := List.replicate 8 0 ++ List.replicate 12 1 ++ List.replicate 4 0

/-- Two callers on a site without the mutex: a complete schedule that hands out the same address twice. -/
theorem C09_sensitive :
    ∃ sched, allDoneB [unlockedSite, unlockedSite] (exec [unlockedSite, unlockedSite] ⟨0, 0⟩ sched) = true ∧
      ¬ (exec [unlockedSite, unlockedSite] ⟨0, 0⟩ sched).issued.Nodup :=
  ⟨hazard, by decide⟩

/-- One unlocked site is enough: the other caller's site DOES hold the mutex and the address is still duplicated
(this is why all six sites must take it). -/
theorem C09_sensitive_one_site :
    ∃ sched, allDoneB [lockedSite, unlockedSite] (exec [lockedSite, unlockedSite] ⟨0, 0⟩ sched) = true ∧
      ¬ (exec [lockedSite, unlockedSite] ⟨0, 0⟩ sched).issued.Nodup :=
  ⟨hazard, by decide⟩

/-- With three callers the late callback even moves the in-memory index BACKWARDS: memory and database disagree
after all calls returned (A pending; B and C issue 0 and 1; A's callback sets the in-memory next index to 1,
the database says 2). -/
theorem C09_sensitive_mem_behind_disk :
    ∃ sched, allDoneB [unlockedSite, unlockedSite, unlockedSite]
        (exec [unlockedSite, unlockedSite, unlockedSite] ⟨0, 0⟩ sched) = true ∧
      (exec [unlockedSite, unlockedSite, unlockedSite] ⟨0, 0⟩ sched).mem ≠
      (exec [unlockedSite, unlockedSite, unlockedSite] ⟨0, 0⟩ sched).disk :=
  ⟨List.replicate 8 0 ++ List.replicate 12 1 ++ List.replicate 12 2 ++ List.replicate 4 0, by decide⟩

/-! ## Non-vacuity: complete schedules exist for callers that hold the mutex, and `C09_safe` applies to them -/

/-- round robin: one of the callers is blocked on the mutex until the other has returned -/
def roundRobin2 : List Nat := (List.replicate 26 [1, 0]).flatten

set_option maxRecDepth 4096 in
example : allDone [lockedSite, lockedSite] (exec [lockedSite, lockedSite] ⟨3, 5⟩ roundRobin2) := by decide
set_option maxRecDepth 4096 in
example : (exec [lockedSite, lockedSite] ⟨3, 5⟩ roundRobin2).issued = [(.int, 5), (.int, 6)] := by decide
set_option maxRecDepth 4096 in
example : (exec [lockedSite, lockedSite] ⟨3, 5⟩ roundRobin2).mem = ⟨3, 7⟩ := by decide
-- a mixed population: NewAddress, NewChangeAddress, CurrentAddress (last address used), a dry run
set_option maxRecDepth 8192 in
example :
    let cs : List Caller := [{ holdsMutex := true, branch := .ext }, { holdsMutex := true, branch := .int },
      { holdsMutex := true, branch := .ext, cond := true, used := [0, 1] },
      { holdsMutex := true, branch := .int, dry := true }]
    let sched := (List.replicate 50 [2, 0, 3, 1]).flatten
    allDoneB cs (exec cs ⟨1, 0⟩ sched) = true ∧ (exec cs ⟨1, 0⟩ sched).issued = [(.ext, 1), (.ext, 2), (.int, 0)] := by
  decide

end C09
