import BtcwVerif.Model.AddrIssue
import BtcwVerif.Gen.AddrSitesGen

namespace C09
open AddrIssue

/-- The premise of `C09_safe`, checked on the table regenerated from `/repo/wallet/*.go` on every run. -/
theorem C09_generated_sites_hold : AddrSitesGen.sites.all (·.holdsMutex) = true := by decide

end C09
