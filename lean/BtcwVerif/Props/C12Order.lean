import BtcwVerif.Props.C12
import BtcwVerif.Lemmas.RefExact
/-!
# C12 — `ListLockedOutputs` as an ORDERED list (tx3)

`C12_list_exact` (Props/C12.lean) characterises the answer of `ListLockedOutputs` per outpoint.  After every
chain-consistent history the lease bucket is in bbolt key order (`SortedS`, Lemmas/SortedStore.lean), so the answer is
the ledger's leases in force, listed in ascending outpoint order (hash, then index).
-/
namespace TxStore.C12
open KMap Ledger

theorem nodup_of_nodup_map {α β : Type} (f : α → β) {l : List α} (h : (l.map f).Nodup) : l.Nodup := by
  rw [List.Nodup, List.pairwise_map] at h
  exact h.imp (fun hne e => hne (by rw [e]))

/-- a `ListLockedOutputs` entry as the ledger writes it: stored whole seconds → the instant handed to the caller -/
def leaseEntry (p : OutPoint × TxStore.Lease) : OutPoint × (Nat × Int) := (p.1, (p.2.id, p.2.expiry * 1000000000))

/-- **C12, `ListLockedOutputs`, exact order**: after every chain-consistent history `ListLockedOutputs` (at the ledger's
clock) lists exactly the leases in force of the ledger — same outpoint, same lock id, stored seconds × 10⁹ = the expiry
handed to the caller — each once, in ascending outpoint order; a permutation in strictly ascending key order is
unique, so this determines the list -/
theorem C12_list_order (es : List Event) (hc : ConsistentHistory {} es) :
    ∃ s, storeAfter Store.empty {} es = .ok s ∧
      ((listLockedOutputs s (ledgerAfter {} es).now).map (·.1)).Pairwise OutPoint.before ∧
      ((listLockedOutputs s (ledgerAfter {} es).now).map leaseEntry).Perm
        ((Ledger.locked (ledgerAfter {} es)).map fun p => (p.1, (p.2.id, p.2.expiry))) := by
  obtain ⟨s, h1, hg, _, hs⟩ := good_sorted_reachable es hc
  refine ⟨s, h1, ?_, ?_⟩
  · unfold listLockedOutputs
    exact sorted_keys_before _ (sorted_filter _ _ hs.locked)
  · generalize ledgerAfter {} es = L at hg
    have hnl := hg.ref.nodupLocked
    have hnk := hg.lwf.leaseKeys
    have n1 : ((listLockedOutputs s L.now).map leaseEntry).Nodup := by
      apply nodup_of_nodup_map (fun x : OutPoint × (Nat × Int) => x.1)
      rw [List.map_map]
      show ((listLockedOutputs s L.now).map (·.1)).Nodup
      unfold listLockedOutputs
      exact List.Nodup.sublist (List.Sublist.map _ List.filter_sublist) hnl
    have n2 : ((Ledger.locked L).map fun p => (p.1, (p.2.id, p.2.expiry))).Nodup := by
      apply nodup_of_nodup_map (fun x : OutPoint × (Nat × Int) => x.1)
      rw [List.map_map]
      show ((Ledger.locked L).map (·.1)).Nodup
      unfold Ledger.locked
      exact List.Nodup.sublist (List.Sublist.map _ List.filter_sublist) hnk
    rw [List.perm_ext_iff_of_nodup n1 n2]
    rintro ⟨op, i, e⟩
    unfold listLockedOutputs Ledger.locked leaseEntry
    simp only [List.mem_map, List.mem_filter, decide_eq_true_eq, Prod.mk.injEq]
    have hl := hg.ref.leases op
    constructor
    · rintro ⟨⟨op', l⟩, ⟨hm, hlt⟩, rfl, rfl, rfl⟩
      have hf := find?_of_mem _ hnl hm
      rw [hf] at hl
      cases hlk : lookup L.leases op' with
      | none => rw [hlk] at hl; cases hl
      | some l' =>
        rw [hlk] at hl
        simp only [Option.map_some, Option.some.injEq, Prod.mk.injEq] at hl
        refine ⟨(op', l'), ⟨(lookup_eq_some_iff _ hnk _ _).mp hlk, ?_⟩, rfl, hl.1.symm, hl.2.symm⟩
        simp only at hlt ⊢
        rw [← hl.2]; exact hlt
    · rintro ⟨⟨op', l'⟩, ⟨hm, hlt⟩, rfl, rfl, rfl⟩
      have hlk := (lookup_eq_some_iff _ hnk _ _).mpr hm
      rw [hlk] at hl
      cases hf : s.locked.find? op' with
      | none => rw [hf] at hl; cases hl
      | some l =>
        rw [hf] at hl
        simp only [Option.map_some, Option.some.injEq, Prod.mk.injEq] at hl
        refine ⟨(op', l), ⟨mem_of_find? _ hf, ?_⟩, rfl, hl.1, hl.2⟩
        simp only at hlt ⊢
        rw [hl.2]; exact hlt

/-- the store-level half, on any store whose lease bucket is in key order: the answer is ascending in outpoint order -/
theorem C12_list_sorted (s : Store) (now : Nat) (h : Sorted s.locked) :
    ((listLockedOutputs s now).map (·.1)).Pairwise OutPoint.before := by
  unfold listLockedOutputs
  exact sorted_keys_before _ (sorted_filter _ _ h)

/-- non-vacuity: leases taken in the order `(2,1)`, `(1,0)` are listed in outpoint order -/
def exLeases : List Event :=
  [.confirmed ⟨⟨1, 11⟩, 100⟩ ⟨1, [⟨0, nullIndex⟩], [5000]⟩ [(0, false)],
   .confirmed ⟨⟨2, 22⟩, 200⟩ ⟨2, [⟨77, 0⟩], [300, 400]⟩ [(0, false), (1, true)],
   .lease 7 ⟨2, 1⟩ 5000000000,
   .lease 8 ⟨1, 0⟩ 3000000000]

example : (storeAfter Store.empty {} exLeases >>= fun s => pure ((listLockedOutputs s 0).map (·.1))) =
    .ok [⟨1, 0⟩, ⟨2, 1⟩] := by decide
example : (Ledger.locked (ledgerAfter {} exLeases)).map (·.1) = [⟨2, 1⟩, ⟨1, 0⟩] := by decide
example : ConsistentHistory {} exLeases := by
  unfold exLeases
  refine ⟨?_, ?_, ?_, ?_, trivial⟩ <;>
    exact ⟨by decide, by decide, fun t ht => by
      first
        | (cases ht; exact ⟨by decide, by decide⟩)
        | cases ht⟩

end TxStore.C12
