/-
C10 — A failed database write never leaves a half-applied or silently lost change.

Property theorems over the generic write-program model `FaultOps` (every operation program, every state, every
fault position) + the generated-fact obligations about `Gen/ErrSitesGen.lean` (the error handling of every call in
wtxmgr / waddrmgr through which a mutating walletdb primitive is reached, extracted from the current source).

The unchanged tree has ONE site that does not propagate:  `waddrmgr.putAddrAccountIndex` (waddrmgr/db.go:1216)
`err = bucket.Put(addrHash, uint32ToBytes(account)); if err != nil { return nil }`.  The generated-fact theorem is
therefore the `_partial` one ("all sites propagate except exactly that one"); `C10_putAddrAccountIndex_*` show that
a site with that handling yields success with a partial effect.  With repo-patches/fix-C10-putAddrAccountIndex.diff
applied the exception list is empty and `ErrSitesGen.allPropagated = true` is provable by `decide` (see the end).
-/
import BtcwVerif.Model.FaultOps
import BtcwVerif.Lemmas.FaultOps
import BtcwVerif.Gen.ErrSitesGen
namespace FaultOps
variable {σ δ μ : Type}

/-! ### error-or-full-effect -/

/-- If every write site of the operation propagates its error then, for every state and every fault position,
the run is an error or it is identical (disk, memory, pending OnCommit callbacks, result) to the fault-free run. -/
theorem C10_fault_atomic (tbl : σ → Handling) (op : Prog σ δ μ)
    (hsites : ∀ s ∈ sitesOf op, tbl s = .propagated) (c : Cfg δ μ) (k : Nat) :
    (run tbl op c (some k)).2.2 = .err ∨
      ((run tbl op c (some k)).1 = (run tbl op c none).1 ∧
       (run tbl op c (some k)).2.2 = (run tbl op c none).2.2) :=
  run_atomic tbl op hsites c (some k)

/-- The same through `walletdb.Update`: error, or the committed state equals the fault-free one. -/
theorem C10_bracket_fault_atomic (tbl : σ → Handling) (op : Prog σ δ μ)
    (hsites : ∀ s ∈ sitesOf op, tbl s = .propagated) (s : St δ μ) (k : Nat) :
    (bracket tbl op s (some k)).2 = .err ∨ bracket tbl op s (some k) = bracket tbl op s none := by
  have h := run_atomic tbl op hsites ⟨s.disk, s.mem, []⟩ (some k)
  rcases hk : run tbl op ⟨s.disk, s.mem, []⟩ (some k) with ⟨c, f, o⟩
  rcases hn : run tbl op ⟨s.disk, s.mem, []⟩ none with ⟨c0, f0, o0⟩
  rw [hk, hn] at h; simp only at h
  cases o with
  | err => left; simp only [bracket, hk]
  | ok =>
    rcases h with h | ⟨h1, h2⟩
    · cases h
    · right; subst h1; subst h2; simp only [bracket, hk, hn]

example : -- non-vacuity: a two-write operation whose sites propagate
    ∀ s ∈ sitesOf (Prog.seq (.write 0 (fun d => d ++ [1])) (.write 1 (fun d => d ++ [2])) : Prog Nat (List Nat) Unit),
      (fun _ => Handling.propagated) s = .propagated := by intro s _; rfl

/-! ### after the rollback everything answers as before -/

/-- An operation that failed inside `walletdb.Update` leaves the disk as it was (this is the C11 assumption made
explicit in `bracket`), and - under the memory-after-disk discipline `noEagerBeforeWrite` - the manager memory as it
was; hence every query of disk and memory answers as before.  No hypothesis on the handling table. -/
theorem C10_rollback_restores (tbl : σ → Handling) (op : Prog σ δ μ) (s : St δ μ) (f : Option Nat)
    (hdisc : noEagerBeforeWrite op = true) (herr : (bracket tbl op s f).2 = .err) :
    (bracket tbl op s f).1 = s := by
  have hk := run_errKeepsMem tbl op hdisc ⟨s.disk, s.mem, []⟩ f
  rcases hr : run tbl op ⟨s.disk, s.mem, []⟩ f with ⟨c, f', o⟩
  rw [hr] at hk; simp only at hk
  cases o with
  | ok => simp only [bracket, hr] at herr; cases herr
  | err =>
    simp only [bracket, hr]
    have := hk rfl
    cases s; simp only at this; simp only [this]

/-- Query form: any observable `q` of (disk, memory) answers as before the failed operation. -/
theorem C10_rollback_queries {α : Type} (tbl : σ → Handling) (op : Prog σ δ μ) (s : St δ μ) (f : Option Nat)
    (hdisc : noEagerBeforeWrite op = true) (herr : (bracket tbl op s f).2 = .err) (q : St δ μ → α) :
    q (bracket tbl op s f).1 = q s := by
  rw [C10_rollback_restores tbl op s f hdisc herr]

/-- The disk part needs no discipline at all. -/
theorem C10_rollback_restores_disk (tbl : σ → Handling) (op : Prog σ δ μ) (s : St δ μ) (f : Option Nat)
    (herr : (bracket tbl op s f).2 = .err) : (bracket tbl op s f).1.disk = s.disk := by
  rcases hr : run tbl op ⟨s.disk, s.mem, []⟩ f with ⟨c, f', o⟩
  cases o with
  | ok => simp only [bracket, hr] at herr; cases herr
  | err => simp only [bracket, hr]

/-- The discipline is necessary: an eager in-memory mutation followed by a write that fails leaves the memory
ahead of the rolled-back disk (shape of `loadAndCacheAddress` between two `putChainedAddress` in `nextAddresses`,
of `RenameAccount`'s cache update, ...). -/
theorem C10_eager_before_write_counterexample :
    let op : Prog Nat (List Nat) (List Nat) :=
      .seq (.write 0 (fun d => d ++ [1])) (.seq (.memEager (fun m => m ++ [1])) (.write 1 (fun d => d ++ [2])))
    noEagerBeforeWrite op = false ∧
    (bracket (fun _ => .propagated) op ⟨[], []⟩ (some 2)).2 = .err ∧
    (bracket (fun _ => .propagated) op ⟨[], []⟩ (some 2)).1.disk = [] ∧
    (bracket (fun _ => .propagated) op ⟨[], []⟩ (some 2)).1.mem = [1] := by
  decide

example : -- non-vacuity of the discipline: write, write, then deferred + eager memory update (nextAddresses shape)
    noEagerBeforeWrite (Prog.seq (.write 0 (fun d => d ++ [1]))
      (.seq (.write 1 (fun d => d ++ [2])) (.seq (.memOnCommit (fun m => m ++ [1])) (.memEager (fun m => m ++ [2])))) :
        Prog Nat (List Nat) (List Nat)) = true := by decide

/-- Shape of `ScopedKeyManager.nextAddresses` for `n` addresses: per address the row/index writes followed by the
eager `loadAndCacheAddress`, and at the end the OnCommit closure that advances the index (scoped_manager.go). -/
def nextAddressesShape (n : Nat) : Prog Nat (List Nat) (List Nat) :=
  .seq (.loop (fun _ _ => n)
          (.seq (.write 0 (fun d => d ++ [0])) (.seq (.write 1 (fun d => d ++ [1])) (.memEager (fun m => m ++ [7])))))
       (.memOnCommit (fun m => m ++ [9]))

/-- The real shape violates the discipline as soon as a loop iteration can follow another ... -/
example : noEagerBeforeWrite (nextAddressesShape 2) = false := by decide

/-- ... and the model exhibits the finding F-C10-3: two addresses, the first write of the second address fails:
error, disk restored, the cache entry of the first address stays (memory `[7]`), the index is not advanced. -/
theorem C10_nextAddresses_shape_memory_ahead :
    (bracket (fun _ => .propagated) (nextAddressesShape 2) ⟨[], []⟩ (some 3)).2 = .err ∧
    (bracket (fun _ => .propagated) (nextAddressesShape 2) ⟨[], []⟩ (some 3)).1.disk = [] ∧
    (bracket (fun _ => .propagated) (nextAddressesShape 2) ⟨[], []⟩ (some 3)).1.mem = [7] ∧
    (bracket (fun _ => .propagated) (nextAddressesShape 2) ⟨[], []⟩ none).1.mem = [7, 7, 9] := by
  decide

/-- Fault atomicity still holds for it (loops and deferred steps are covered by the general theorem). -/
example (k : Nat) :
    (bracket (fun _ => .propagated) (nextAddressesShape 3) ⟨[], []⟩ (some k)).2 = .err ∨
    bracket (fun _ => .propagated) (nextAddressesShape 3) ⟨[], []⟩ (some k) =
      bracket (fun _ => .propagated) (nextAddressesShape 3) ⟨[], []⟩ none :=
  C10_bracket_fault_atomic _ _ (fun _ _ => rfl) _ k

/-! ### retry -/

/-- A run that failed (fault at any position, or none) and was rolled back, retried without fault, gives exactly
the result and state of a fault-free run from the original state. -/
theorem C10_retry (tbl : σ → Handling) (op : Prog σ δ μ) (s : St δ μ) (k : Nat)
    (hdisc : noEagerBeforeWrite op = true) (herr : (bracket tbl op s (some k)).2 = .err) :
    bracket tbl op (bracket tbl op s (some k)).1 none = bracket tbl op s none := by
  rw [C10_rollback_restores tbl op s (some k) hdisc herr]

/-- Complete statement for one injected fault: either the faulted run already equals the fault-free run, or it
reports an error, changes nothing, and the retry equals the fault-free run. -/
theorem C10_fault_then_retry (tbl : σ → Handling) (op : Prog σ δ μ)
    (hsites : ∀ s ∈ sitesOf op, tbl s = .propagated) (hdisc : noEagerBeforeWrite op = true)
    (s : St δ μ) (k : Nat) :
    bracket tbl op s (some k) = bracket tbl op s none ∨
    ((bracket tbl op s (some k)).2 = .err ∧ (bracket tbl op s (some k)).1 = s ∧
      bracket tbl op (bracket tbl op s (some k)).1 none = bracket tbl op s none) := by
  rcases C10_bracket_fault_atomic tbl op hsites s k with h | h
  · right; exact ⟨h, C10_rollback_restores tbl op s _ hdisc h, C10_retry tbl op s k hdisc h⟩
  · left; exact h

/-! ### sensitivity: a site that does not propagate -/

/-- Any write whose site does not propagate, failing as the first write of `write; rest`-shaped programs: the
operation reports success although the write was lost. Concrete two-write instance, decided by evaluation. -/
theorem C10_ignored_site_partial_effect :
    let op : Prog Nat (List Nat) Unit := .seq (.write 0 (fun d => d ++ [1])) (.write 1 (fun d => d ++ [2]))
    let tbl : Nat → Handling := fun s => if s = 0 then .ignored else .propagated
    (bracket tbl op ⟨[], ()⟩ (some 1)).2 = .ok ∧
    (bracket tbl op ⟨[], ()⟩ (some 1)).1.disk = [2] ∧
    (bracket tbl op ⟨[], ()⟩ none).1.disk = [1, 2] := by
  decide

/-- General form: a single failing write whose site is not `propagated` reports success and loses the write. -/
theorem C10_nonpropagated_write_lost (tbl : σ → Handling) (site : σ) (eff : δ → δ) (s : St δ μ)
    (h : tbl site ≠ .propagated) :
    bracket tbl (.write site eff : Prog σ δ μ) s (some 1) = (s, .ok) ∧
    bracket tbl (.write site eff : Prog σ δ μ) s none = (⟨eff s.disk, s.mem⟩, .ok) := by
  constructor
  · simp only [bracket, run, tick, h, if_false, applyPending, List.foldl]
  · simp only [bracket, run, tick, applyPending, List.foldl]

/-! ### generated facts: the error handling of the real call sites -/

set_option maxRecDepth 100000

/-- The one call site of the unchanged tree that swallows a write error (see the header). -/
def knownOffender (s : ErrSitesGen.Site) : Bool :=
  s.fn == "waddrmgr.putAddrAccountIndex" && s.ord == 0 && s.handling == .converted

/-- PARTIAL (the full statement `ErrSitesGen.allPropagated = true` is false of the unchanged tree because of
`putAddrAccountIndex`): every extracted site propagates the error of the write it leads to, except that one. -/
theorem C10_generated_sites_propagate_partial :
    (ErrSitesGen.sites.all (fun s => s.handling == .propagated || knownOffender s)) = true := by
  decide

/-- Same fact for the frame table with which the driver resolves the dynamic call stacks: at most one frame key
(the line of that one site) is not `propagated`.  (Line numbers move with unrelated edits, so the key itself is
not named here; the site is named by function and ordinal in the theorem above.) -/
theorem C10_generated_table_propagates_partial :
    (ErrSitesGen.table.filter (fun e => !(e.2 == .propagated))).length ≤ 1 := by
  decide

/-- Corollary tying the generic theorem to the generated table: an operation all of whose dynamic call chains
consist of extracted sites other than the known offender is fault-atomic.  (`hall` is discharged by `decide` for
the patched tree; for the unchanged tree it holds of the table with the offending line removed.) -/
theorem C10_fault_atomic_generated (tab : List (String × Handling)) (hall : allPropagatedTab tab = true)
    (op : Prog (List String) δ μ)
    (hknown : ∀ ch ∈ sitesOf op, ∀ k ∈ ch, (tab.lookup k).isSome = true) (s : St δ μ) (k : Nat) :
    (bracket (chainHandling tab) op s (some k)).2 = .err ∨
      bracket (chainHandling tab) op s (some k) = bracket (chainHandling tab) op s none :=
  C10_bracket_fault_atomic _ op (fun ch hch => chainHandling_of_all tab hall ch (hknown ch hch)) s k

/-- The offending handling, replayed in the model: `putAddress`-like program (row write, index write [swallowed],
null-entry write skipped by the early `return nil`) succeeds with the index entry missing. -/
theorem C10_putAddrAccountIndex_counterexample :
    let tab : List (String × Handling) := [("putAddress:row", .propagated), ("putAddrAccountIndex:1216", .converted)]
    let op : Prog (List String) (List Nat) Unit :=
      .seq (.write ["putAddress:row"] (fun d => d ++ [1])) (.write ["putAddrAccountIndex:1216"] (fun d => d ++ [2]))
    (bracket (chainHandling tab) op ⟨[], ()⟩ (some 2)).2 = .ok ∧
    (bracket (chainHandling tab) op ⟨[], ()⟩ (some 2)).1.disk = [1] ∧
    (bracket (chainHandling tab) op ⟨[], ()⟩ none).1.disk = [1, 2] := by
  decide

/-- FULL statement (holds since /repo 277cb7d "putAddrAccountIndex reports a failed address-index write"): every
extracted call site that leads to a database write propagates that write's error.  Regenerated from the source on
every run; a site that ignores, only logs, converts or shadows the error makes this `decide` fail. -/
theorem C10_generated_sites_propagate : ErrSitesGen.allPropagated = true := by decide

/-- … and therefore the generic atomicity theorem applies to the generated frame table as it stands. -/
theorem C10_generated_table_propagates : allPropagatedTab ErrSitesGen.table = true := by decide

end FaultOps
