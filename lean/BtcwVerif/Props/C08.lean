/-
C08 — What the wallet says in memory is what a restart would say.
Property theorems about `AddrLock` (memory caches vs database rows, transaction brackets).

Status (see notes/C08.md): the clauses that hold on the current tree are proved; the equivalence
"running manager == freshly opened manager" is FALSE on the current tree after a rolled-back / failed
transaction that contained an eager cache mutation, and after one committed transaction shape
(nextAddresses followed by extendAddresses on the same branch). Each is a proved counter-example below and a
Go-side oracle key.
-/
import BtcwVerif.Lemmas.AddrGoodStep
namespace AddrLock

/-- answer of query `q` on the running manager / on a manager freshly opened on the same database -/
def ansRun (s : State) (q : Query) : Option QRes := s.mem.map fun m => (query s.disk m q).2
def ansFresh (s : State) (q : Query) : QRes := (query s.disk (openMem s.disk) q).2

/-! ## 1. queries that only read the database agree with a restart in EVERY state (all histories, including
rolled-back and failed transactions) -/

/-- LookupAccount, AccountName and BlockHash are answered from the database alone. -/
theorem C08_disk_queries_eq_reopen (d : Disk) (m : Mem) (q : Query)
    (hq : (∃ sc n, q = .lookup sc n) ∨ (∃ sc a, q = .acctName sc a) ∨ (∃ h, q = .blockHash h)) :
    (query d m q).2 = (query d (openMem d) q).2 := by
  rcases hq with ⟨sc, n, rfl⟩ | ⟨sc, a, rfl⟩ | ⟨h, rfl⟩ <;> simp only [query] <;> split <;> rfl

/-! ## 1b. coherent caches answer EVERY query of the property exactly as a freshly opened manager -/

/-- `Coherent d m` (Lemmas/AddrCoherent.lean): every cached account info agrees with its account row (name, next
indices, last addresses), every cached address is what the database would load for that key, the sync state equals
the stored one, and the manager never needs a private key the database lacks.  Then Address, AccountProperties,
Last{External,Internal}Address, LookupAccount, AccountName, Used, SyncedTo and BlockHash all answer as on a manager
freshly opened on the same database (whose answers are the database-only function `qAns`). -/
theorem C08_query_eq_of_coherent (d : Disk) (m : Mem) (h : Coherent d m) (q : Query) :
    (query d m q).2 = (query d (openMem d) q).2 := by
  rw [query_ans h q, query_ans (coherent_open d) q]

/-- non-vacuity / the restart itself: a freshly opened manager is coherent -/
theorem C08_reopen_coherent (d : Disk) : Coherent d (openMem d) := coherent_open d

/-! ## 1c. the invariant holds after every history of operations that each run in their own transaction -/

/-- **C08, first sentence.** For EVERY history of operations each executed in its own database transaction
(`walletdb.Update`: committed when the operation returns nil, rolled back when it returns an error) — unlock/lock
with right and wrong passphrases, passphrase changes, conversion to watching-only, account creation and renaming,
NextAddresses (including its OnCommit closure), ExtendAddresses, imports, MarkUsed, SetSyncedTo, lookups,
restarts — and for every code variant `cfg`: the running manager answers every query of the property exactly as
a manager freshly opened on the same database.

`_partial`: explicit multi-operation brackets and transactions rolled back AFTER their operations succeeded
(dry runs, failed commits) are excluded — those are exactly where the equivalence is false on the current tree
(counter-examples in section 3). -/
theorem C08_mem_eq_reopen_partial (cfg : Cfg) (ops : List Op) (hops : ∀ op ∈ ops, op.single = true)
    (m : Mem) (hm : (run { cfg := cfg } ops).mem = some m) (q : Query) :
    (query (run { cfg := cfg } ops).disk m q).2 =
    (query (run { cfg := cfg } ops).disk (openMem (run { cfg := cfg } ops).disk) q).2 := by
  obtain ⟨_, _, _, h4⟩ := stGood_run { cfg := cfg } ops (stGood_init cfg) hops
  exact C08_query_eq_of_coherent _ m (h4 m hm).coh q

/-- the invariant behind it, for use at any transaction boundary -/
theorem C08_coherent_invariant (s : State) (ops : List Op) (h : StGood s) (hops : ∀ op ∈ ops, op.single = true) :
    StGood (run s ops) := stGood_run s ops h hops

/-! ## 2. a rolled-back (or failed-commit) transaction leaves the database exactly as it was -/

theorem exec_snap (s : State) (m : Mem) (op : Op) : (exec s m op).1.snap = s.snap := by
  cases op <;> simp only [exec] <;> (repeat' split) <;> rfl

/-- inside an open bracket no step touches the committed image -/
theorem step_snap_in_bracket (s : State) (op : Op) (h : s.snap.isSome = true)
    (hop : op ≠ .commit ∧ op ≠ .rollback) : (step s op).1.snap = s.snap := by
  unfold step
  cases op <;> simp only [] <;> (try simp only [h, if_true]) <;> (try rfl)
  case commit => exact absurd rfl hop.1
  case rollback => exact absurd rfl hop.2
  all_goals
    split
    · rfl
    · simp only [Bool.true_or, if_true]; exact exec_snap _ _ _

def noEnd : Op → Prop := fun op => op ≠ .commit ∧ op ≠ .rollback

theorem run_snap_in_bracket (s : State) (ops : List Op) (h : s.snap.isSome = true)
    (hops : ∀ op ∈ ops, noEnd op) : (run s ops).snap = s.snap := by
  induction ops generalizing s with
  | nil => rfl
  | cons op ops ih =>
    simp only [run]
    have h1 := step_snap_in_bracket s op h (hops op List.mem_cons_self)
    rw [ih _ (by rw [h1]; exact h) (fun o ho => hops o (List.mem_cons_of_mem _ ho)), h1]

/-- `begin; ops; rollback` (also: `begin; ops; commit-that-fails`) restores the database image for EVERY op list:
no address row, next index, name, used flag or sync entry of the transaction survives. -/
theorem C08_rollback_restores_disk (s : State) (ops : List Op) (h : s.snap = none)
    (hops : ∀ op ∈ ops, noEnd op) :
    (run s (.begin :: ops ++ [.rollback])).disk = s.disk ∧ (run s (.begin :: ops ++ [.rollback])).snap = none := by
  have hb : (step s .begin).1 = { s with snap := some s.disk, pend := [] } := by
    simp [step, h]
  have run_append : ∀ (s : State) (a b : List Op), run s (a ++ b) = run (run s a) b := by
    intro s a b
    induction a generalizing s with
    | nil => rfl
    | cons x xs ih => simp only [List.cons_append, run]; exact ih _
  simp only [List.cons_append, run, hb]
  rw [run_append]
  have hs := run_snap_in_bracket { s with snap := some s.disk, pend := [] } ops rfl hops
  simp only [run, step]
  simp [hs, rollbackTx]

/-- the addresses a freshly opened manager would issue for the request -/
def freshNext (s : State) (sc acct n : Nat) (int : Bool) : Option (List AKey) :=
  match (nextAddresses s.disk (openMem s.disk) sc acct n int).res with
  | .ok l => some l
  | .error _ => none

/-! ## 2b. a rolled-back NextAddresses (the dry-run shape) does not advance the index, and the next committed request
issues the very address a restarted wallet would issue -/

/-- state after `begin; NextAddresses; rollback` from a boundary state with an open manager -/
theorem run_next_rollback (s : State) (m : Mem) (h1 : s.snap = none) (hm : s.mem = some m) (sc a n : Nat) (int : Bool) :
    run s [.begin, .next sc a n int, .rollback] =
      { s with disk := s.disk, snap := none, pend := [], mem := some (nextAddresses s.disk m sc a n int).mem } := by
  simp only [run, step, h1, hm, Option.isSome, Option.isNone, exec]
  cases hr : (nextAddresses s.disk m sc a n int).res <;> simp [hr, rollbackTx]

/-- **C08, second sentence (1).** After a rolled-back NextAddresses the database is as before and the account cache
(name, next indices, last addresses) of the running manager agrees with it: AccountProperties and
Last{External,Internal}Address answer as on a restarted manager — the index did not advance. -/
theorem C08_rollback_keeps_index (s : State) (h : StGood s) (m : Mem) (hm : s.mem = some m) (sc a n : Nat) (int : Bool) :
    let s' := run s [.begin, .next sc a n int, .rollback]
    s'.disk = s.disk ∧ s'.snap = none ∧
    ∃ m', s'.mem = some m' ∧ AcctCoh s'.disk m' ∧
      (∀ sc' a', (query s'.disk m' (.props sc' a')).2 = (query s'.disk (openMem s'.disk) (.props sc' a')).2) ∧
      (∀ sc' a' i, (query s'.disk m' (.lastAddr sc' a' i)).2 = (query s'.disk (openMem s'.disk) (.lastAddr sc' a' i)).2) := by
  obtain ⟨h1, _, _, h4⟩ := h
  rw [run_next_rollback s m h1 hm]
  have hc := next_rollback_acct (h4 m hm) sc a n int
  have ho := coherent_open s.disk
  refine ⟨rfl, rfl, _, rfl, hc, ?_, ?_⟩
  · intro sc' a'
    exact (query_props_ans hc.1 hc.2 sc' a').trans (query_props_ans ho.acct ho.priv sc' a').symm
  · intro sc' a' i
    exact (query_last_ans hc.1 hc.2 sc' a' i).trans (query_last_ans ho.acct ho.priv sc' a' i).symm

/-- **C08, second sentence (2).** … and whatever the next committed NextAddresses request issues is exactly what a
manager restarted on that database would issue. -/
theorem C08_next_after_rollback (s : State) (h : StGood s) (m : Mem) (hm : s.mem = some m) (sc a n : Nat) (int : Bool)
    (sc' a' n' : Nat) (int' : Bool) (l : List AKey) :
    let s' := run s [.begin, .next sc a n int, .rollback]
    (step s' (.next sc' a' n' int')).2 = .keys l → freshNext s' sc' a' n' int' = some l := by
  obtain ⟨h1, _, _, h4⟩ := h
  rw [run_next_rollback s m h1 hm]
  have hc := next_rollback_acct (h4 m hm) sc a n int
  dsimp only
  intro hres
  have hok : (nextAddresses s.disk (nextAddresses s.disk m sc a n int).mem sc' a' n' int').res = .ok l := by
    simp only [step, Option.isSome, Op.writes, exec] at hres
    cases hr : (nextAddresses s.disk (nextAddresses s.disk m sc a n int).mem sc' a' n' int').res with
    | error e => simp [hr, isErr] at hres
    | ok l' => simp [hr, isErr] at hres; rw [hres]
  have := next_same_as_fresh hc sc' a' n' int' l hok
  simp only [freshNext, this]

/-! ## 3. what does NOT hold on the current tree (model = code, replayed by the Go engine) -/

/-- did the running manager and a restarted one answer `q` the same? -/
def agrees (s : State) (q : Query) : Bool := ansRun s q == some (ansFresh s q)

/-- F9: after a rolled-back NextInternalAddresses (dry run) the running manager still finds the address
(`loadAndCacheAddress` cached it eagerly), a restarted manager does not.  Indices agree. -/
theorem C08_counterexample_F9_address_cache :
    let s := run { cfg := Cfg.repo } [.create 5 1, .begin, .next 1 0 1 true, .rollback]
    agrees s (.address 1 (.chain 0 1 0)) = false ∧ agrees s (.props 1 0) = true := by
  decide

/-- eager mutator 1: RenameAccount in a rolled-back transaction — AccountProperties keeps the new name. -/
theorem C08_counterexample_rename :
    let s := run { cfg := Cfg.repo } [.create 5 1, .q (.props 1 0), .begin, .rename 1 0 "renamed", .rollback]
    agrees s (.props 1 0) = false ∧ agrees s (.lookup 1 "renamed") = true := by
  decide

/-- eager mutator 2: ExtendAddresses in a rolled-back transaction ADVANCES the in-memory next index; the next
committed request then issues index 3 where a restarted wallet issues index 0. -/
theorem C08_counterexample_extend_index :
    let s := run { cfg := Cfg.repo } [.create 5 1, .begin, .extend 1 0 2 false, .rollback]
    agrees s (.props 1 0) = false ∧
    (step s (.next 1 0 1 false)).2 = .keys [.chain 0 0 3] ∧
    freshNext s 1 0 1 false = some [.chain 0 0 0] := by
  decide

/-- eager mutator 3: imports in a rolled-back transaction stay in the address cache; the same key can then not
be imported again until restart (ErrDuplicateAddress from the cache). -/
theorem C08_counterexample_import :
    let s := run { cfg := Cfg.repo } [.create 5 1, .begin, .importKey 1 7 false, .rollback]
    agrees s (.address 1 (.imp 7)) = false ∧ (step s (.importKey 1 7 false)).2 = .err .duplicateAddress := by
  decide

/-- eager mutator 4: SetSyncedTo in a rolled-back transaction — SyncedTo() stays ahead of the database. -/
theorem C08_counterexample_synced :
    let s := run { cfg := Cfg.repo } [.create 5 1, .begin, .setSynced 1 77, .rollback]
    agrees s .syncedTo = false := by
  decide

/-- an account created and looked at inside a rolled-back transaction stays in the account cache. -/
theorem C08_counterexample_account_cache :
    let s := run { cfg := Cfg.repo } [.create 5 1, .unlock 1, .begin, .newAccount 1 "fresh" false, .q (.props 1 1), .rollback]
    agrees s (.props 1 1) = false := by
  decide

/-- a COMMITTED transaction that calls nextAddresses and then extendAddresses on the same branch leaves the
in-memory next index BEHIND the database (the deferred onCommit closure overwrites the eager update). -/
theorem C08_counterexample_committed_next_then_extend :
    let s := run { cfg := Cfg.repo } [.create 5 1, .begin, .next 1 0 1 false, .extend 1 0 3 false, .commit]
    agrees s (.props 1 0) = false := by
  decide

/-- consequence of the stale account cache that reaches the DATABASE: a NextAddresses (or ExtendAddresses) on an
account that only lives in the cache fails in `putChainedAddress` AFTER `putAddress` has written the address row
(the account row is missing); when the caller commits the bracket in spite of the error, the orphan address row is
committed.  The running manager resolves it through the cached account, a restarted one answers
ErrAccountNotFound.  (Found by the thorough differential tier; replay: corpus/addrmgr-lock/
orphan-address-row-failed-next-committed.ops.) -/
theorem C08_counterexample_orphan_address_row :
    let s0 := run { cfg := Cfg.repo2 }
      [.create 5 1, .unlock 1, .begin, .newAccount 1 "fresh" false, .q (.props 1 1), .rollback, .begin]
    let r := step s0 (.next 1 1 1 false)
    let s := (step r.1 .commit).1
    r.2 = .err .database ∧
    aget (s.disk.scopes 1).addrs (.chain 1 0 0) = some .chain ∧ aget (s.disk.scopes 1).accts 1 = none ∧
    (s.mem.map fun m => (query s.disk m (.address 1 (.chain 1 0 0))).2) = some (.addr (.chain 1 0 0) 1) ∧
    (query s.disk (openMem s.disk) (.address 1 (.chain 1 0 0))).2 = .err .accountNotFound ∧
    agrees s (.address 1 (.chain 1 0 0)) = false := by
  decide

/-- the same through ExtendAddresses (the shape the thorough tier hit): only the FIRST address row of the failing
write loop is left behind. -/
theorem C08_counterexample_orphan_address_row_extend :
    let s := run { cfg := Cfg.repo2 }
      [.create 5 1, .unlock 1, .begin, .newAccount 1 "fresh" false, .q (.props 1 1), .rollback,
       .begin, .extend 1 1 2 true, .commit]
    agrees s (.address 1 (.chain 1 1 0)) = false ∧ agrees s (.address 1 (.chain 1 1 1)) = true ∧
    aget (s.disk.scopes 1).addrs (.chain 1 1 1) = none := by
  decide

/-- … whereas committed single operations agree (non-vacuity of `agrees`, and the shape the wallet uses). -/
example :
    let s := run { cfg := Cfg.repo }
      [.create 5 1, .unlock 1, .next 1 0 2 false, .extend 1 0 4 true, .rename 1 0 "main", .importKey 1 3 true,
       .setSynced 1 9, .markUsed 1 (.chain 0 0 1), .newAccount 1 "second" false, .next 1 1 1 true]
    ([Query.address 1 (.chain 0 0 1), .address 1 (.chain 0 1 4), .address 1 (.imp 3), .props 1 0, .props 1 1,
      .lastAddr 1 0 false, .lastAddr 1 0 true, .lastAddr 1 1 true, .lookup 1 "main", .acctName 1 1,
      .used 1 (.chain 0 0 1), .syncedTo, .blockHash 1].all (agrees s)) = true := by
  decide

/-- a rolled-back NextAddresses does not advance the index, and the next committed request issues the address a
restarted wallet would issue (instance; the general statement is checked by the differential run, see notes). -/
example :
    let s := run { cfg := Cfg.repo } [.create 5 1, .next 1 0 2 false, .begin, .next 1 0 3 false, .rollback]
    agrees s (.props 1 0) = true ∧
    (step s (.next 1 0 1 false)).2 = .keys [.chain 0 0 2] ∧
    freshNext s 1 0 1 false = some [.chain 0 0 2] := by
  decide

end AddrLock
