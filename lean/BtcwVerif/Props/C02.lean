import BtcwVerif.Lemmas.InvPres
import BtcwVerif.Lemmas.Rollback
import BtcwVerif.Model.Ledger
import BtcwVerif.Lemmas.RefFacts
import BtcwVerif.Lemmas.RefExact
/-!
# C02 — reorgs converge; state depends on the surviving facts

Proved here, for all stores / ledgers / transactions (no bounds):
* model: conflict removal (`removeConflict`, used on confirmation of a double spend, on abandonment and for spenders of
  detached coinbases) removes the transaction itself, never touches the mined part of the store (blocks, records,
  credits, unspent index, counter) and never adds anything to the unconfirmed buckets; recording an unconfirmed
  transaction never removes another one (conflicting unconfirmed transactions coexist);
* specification: what `Ledger.apply` says for *disconnected* and *confirmed* really is the sentence of C02 (blocks at
  or above the height vanish; every non-coinbase transaction of a detached block that does not depend on a detached
  coinbase is unconfirmed afterwards with its credits intact; on confirmation unrelated unconfirmed transactions and
  their credits stay).
Ledger level (end of the file, from the refinement Lemmas/Ref*.lean): `C02_disconnect`, `C02_confirm`, `C02_abandon`
— `rollback`, `insertMinedTx` (+ credits) and `RemoveUnminedTx` realise `Ledger.apply` on every good pair;
`C02_refines` — after every chain-consistent history the store refines the ledger; `C02_path_independence` — two
chain-consistent histories whose final ledgers hold the same facts answer every query alike.
-/
namespace TxStore.C02
open TxStore KMap

/-- `removeConflict` removes the transaction it is asked to remove -/
theorem C02_removeConflict_removes (n : Nat) (s s' : Store) (rec : Tx) (h : removeConflict n s rec = .ok s') :
    s'.unmined.find? rec.hash = none := by
  cases n with
  | zero => cases h
  | succ n =>
    unfold removeConflict removeConflictBody at h
    simp only [bind, Except.bind] at h
    split at h
    · cases h
    · simp only [pure, Except.pure, Except.ok.injEq] at h
      subst h
      simp

/-- conflict removal (any depth) leaves the mined part of the store alone: confirmed transactions, their credits, the
unspent index and the balance counter are untouched when unconfirmed conflicts and their descendants disappear -/
theorem C02_removeConflict_mined_untouched (n : Nat) (s s' : Store) (rec : Tx) (h : removeConflict n s rec = .ok s') :
    s'.blocks = s.blocks ∧ s'.txrecs = s.txrecs ∧ s'.credits = s.credits ∧ s'.unspent = s.unspent ∧
      s'.minedBalance = s.minedBalance ∧ s'.debits = s.debits :=
  sameMined_removeConflict n s rec s' h

/-- the unconfirmed buckets only shrink -/
def Shrinks (s s' : Store) : Prop :=
  (∀ k, s'.unmined.find? k = none ∨ s'.unmined.find? k = s.unmined.find? k) ∧
  (∀ k, s'.unminedCredits.find? k = none ∨ s'.unminedCredits.find? k = s.unminedCredits.find? k)

theorem Shrinks.refl (s : Store) : Shrinks s s := ⟨fun _ => Or.inr rfl, fun _ => Or.inr rfl⟩

theorem Shrinks.trans {a b c : Store} (h1 : Shrinks a b) (h2 : Shrinks b c) : Shrinks a c := by
  constructor
  · intro k
    rcases h2.1 k with h | h
    · exact Or.inl h
    · rcases h1.1 k with h' | h'
      · exact Or.inl (h.trans h')
      · exact Or.inr (h.trans h')
  · intro k
    rcases h2.2 k with h | h
    · exact Or.inl h
    · rcases h1.2 k with h' | h'
      · exact Or.inl (h.trans h')
      · exact Or.inr (h.trans h')

private theorem shrinks_deleteInput (s : Store) (k : OutPoint) (h : Nat) : Shrinks s (deleteRawUnminedInput s k h) := by
  unfold deleteRawUnminedInput
  split
  · exact Shrinks.refl s
  · split
    · exact Shrinks.refl s
    · dsimp only
      split <;> exact ⟨fun _ => Or.inr rfl, fun _ => Or.inr rfl⟩

private theorem shrinks_body (rc : Store → Tx → M Store) (hrc : ∀ s t s', rc s t = .ok s' → Shrinks s s')
    {s s' : Store} {rec : Tx} (h : removeConflictBody rc s rec = .ok s') : Shrinks s s' := by
  unfold removeConflictBody at h
  simp only [bind, Except.bind] at h
  split at h
  · cases h
  · rename_i s1 h1
    simp only [pure, Except.pure, Except.ok.injEq] at h
    subst h
    have hs1 : Shrinks s s1 := by
      refine foldlM_preserves (Shrinks s) _ ?_ _ s s1 (Shrinks.refl s) h1
      intro a io a' ha hstep
      obtain ⟨i, o⟩ := io
      simp only [bind, Except.bind] at hstep
      split at hstep
      · cases hstep
      · rename_i a2 h2
        simp only [pure, Except.pure, Except.ok.injEq] at hstep
        subst hstep
        have : Shrinks a a2 := by
          refine foldlM_preserves (Shrinks a) _ ?_ _ a a2 (Shrinks.refl a) h2
          intro b hsh b' hb hst
          split at hst
          · simp only [pure, Except.pure, Except.ok.injEq] at hst; subst hst; exact hb
          · exact hb.trans (hrc _ _ _ hst)
        refine (ha.trans this).trans ⟨fun _ => Or.inr rfl, fun k => ?_⟩
        simp only [find?_erase]
        split
        · exact Or.inl rfl
        · exact Or.inr rfl
    have hs2 := foldl_preserves (Shrinks s) (fun s inp => deleteRawUnminedInput s inp rec.hash)
      (fun a p hp => hp.trans (shrinks_deleteInput a p rec.hash)) rec.ins s1 hs1
    refine hs2.trans ⟨fun k => ?_, fun _ => Or.inr rfl⟩
    simp only [find?_erase]
    split
    · exact Or.inl rfl
    · exact Or.inr rfl

/-- conflict removal never adds an unconfirmed transaction or an unconfirmed credit, and never alters one it keeps -/
theorem C02_removeConflict_only_removes : ∀ (n : Nat) (s : Store) (t : Tx) (s' : Store),
    removeConflict n s t = .ok s' → Shrinks s s' := by
  intro n
  induction n with
  | zero => intro s t s' h; cases h
  | succ n ih => intro s t s' h; exact shrinks_body (removeConflict n) ih h

/-- **conflicting unconfirmed transactions coexist**: recording an unconfirmed transaction removes nothing; the
unconfirmed bucket afterwards is the old one plus (at most) the new record -/
theorem C02_seen_removes_nothing (s s' : Store) (rec : Tx) (h : insertMemPoolTx s rec = .ok s') (k : Nat) :
    s'.unmined.find? k = s.unmined.find? k ∨ (k = rec.hash ∧ s'.unmined.find? k = some rec) := by
  unfold insertMemPoolTx at h
  split at h
  · cases h
  · split at h
    · cases h; exact Or.inl rfl
    · cases h
      have : ∀ (l : List OutPoint) (a : Store),
          (l.foldl (fun s inp => putRawUnminedInput s inp rec.hash) a).unmined = a.unmined := by
        intro l
        induction l with
        | nil => intro a; rfl
        | cons x t ih => intro a; rw [List.foldl_cons, ih]; rfl
      rw [this]
      simp only [find?_insert]
      by_cases hk : rec.hash = k
      · exact Or.inr ⟨hk.symm, by simp [hk]⟩
      · exact Or.inl (by simp [hk])

private theorem takeWhile_all {α : Type} (q : α → Bool) : ∀ (l : List α), ∀ p ∈ l.takeWhile q, q p = true := by
  intro l
  induction l with
  | nil => intro p hp; cases hp
  | cons a t ih =>
    intro p hp
    by_cases ha : q a = true
    · simp only [List.takeWhile_cons, ha, if_true] at hp
      cases hp with
      | head => exact ha
      | tail _ h' => exact ih p h'
    · simp [List.takeWhile_cons, ha] at hp

/-- **blocks are disconnected**: after a successful `Rollback(height)` no block record at or above `height` is left
and every block record below `height` is exactly as before (block records are in height order, as bbolt keeps them). -/
theorem C02_rollback_blocks (s s' : Store) (height : Int) (h : rollback s height = .ok s')
    (hs : (s.blocks.map (·.1)).Pairwise (· < ·)) :
    (∀ k : Nat, (s'.blocks.find? k).isSome → (k : Int) < height) ∧
    (∀ k : Nat, (k : Int) < height → s'.blocks.find? k = s.blocks.find? k) := by
  have hb := rollback_blocks h
  constructor
  · intro k hk
    rw [hb k] at hk
    by_cases hm : k ∈ (s.blocks.reverse.takeWhile fun p => !decide ((p.1 : Int) < height)).map (·.1)
    · simp [hm] at hk
    · simp only [hm, if_false] at hk
      cases hv : s.blocks.find? k with
      | none => rw [hv] at hk; cases hk
      | some v =>
        have hmem : (k, v) ∈ s.blocks.reverse := by simpa using mem_of_find? _ hv
        have hR : s.blocks.reverse.Pairwise (fun a b => b.1 < a.1) := by
          rw [List.pairwise_reverse]; rw [List.pairwise_map] at hs; exact hs
        rw [← @List.takeWhile_append_dropWhile _ (fun p : Nat × BlockRec => !decide ((p.1 : Int) < height)) s.blocks.reverse,
          List.mem_append] at hmem
        rcases hmem with h1 | h1
        · exact absurd (List.mem_map.mpr ⟨(k, v), h1, rfl⟩) hm
        · exact dropWhile_below height _ hR (k, v) h1
  · intro k hk
    rw [hb k]
    have : k ∉ (s.blocks.reverse.takeWhile fun p => !decide ((p.1 : Int) < height)).map (·.1) := by
      intro hm
      obtain ⟨p, hp, rfl⟩ := List.mem_map.mp hm
      have := takeWhile_all _ _ p hp
      simp at this
      omega
    simp [this]

/-- `rollback`, coinbase branch: EVERY output of the detached coinbase is remembered — credited or not — so that its
unconfirmed spenders are removed afterwards (fixed in /repo 2c7f685; before, only credited outputs were). -/
theorem C02_rollback_remembers_every_coinbase_output (rec : Tx) (blk : Block) :
    ∀ (outs : List Int) (n : Nat) (r : RB),
      ((withIdx outs n).foldl (rbCoinbaseOut rec blk) r).cb =
        r.cb ++ (List.range outs.length).map (fun i => (⟨rec.hash, n + i⟩ : OutPoint)) := by
  intro outs
  induction outs with
  | nil => intro n r; simp [withIdx]
  | cons v t ih =>
    intro n r
    have hstep : (rbCoinbaseOut rec blk r (n, v)).cb = r.cb ++ [⟨rec.hash, n⟩] := by
      unfold rbCoinbaseOut
      dsimp only
      split
      · rfl
      · split <;> rfl
    simp only [withIdx, List.foldl_cons]
    rw [ih (n + 1), hstep, List.length_cons, List.range_succ_eq_map, List.map_cons, List.map_map]
    simp only [List.append_assoc, List.singleton_append, Nat.add_zero]
    congr 2
    apply List.map_congr_left
    intro i _
    simp only [Function.comp]
    congr 1
    omega

/-! ### the specification says what C02 says -/
open Ledger in
/-- *disconnected*: no block at or above the height survives -/
theorem C02_spec_disconnect_blocks (L : Ledger) (h : Int) :
    ∀ b ∈ (apply L (.disconnected h)).chain, (b.bm.block.height : Int) < h := by
  intro b hb
  simp only [apply] at hb
  rw [List.mem_filter] at hb
  simpa using hb.2

open Ledger in
/-- *disconnected*: every non-coinbase transaction of a detached block that does not depend on a detached coinbase
is unconfirmed afterwards, and the credited outputs of every transaction that does not depend on a detached coinbase
are exactly as before -/
theorem C02_spec_disconnect_moves (L : Ledger) (h : Int) :
    let cut := (L.chain.filter fun b => !decide ((b.bm.block.height : Int) < h)).reverse
    let cutTxs := cut.flatMap (·.txs)
    let cbs := (cutTxs.filter (·.isCoinBase)).map (·.hash)
    let pool1 := L.pool ++ cutTxs.filter (!·.isCoinBase)
    let gone := if cbs.isEmpty then [] else closure pool1 pool1.length cbs
    (∀ t ∈ cutTxs, t.isCoinBase = false → gone.contains t.hash = false → t ∈ (apply L (.disconnected h)).pool) ∧
    (∀ t ∈ L.pool, gone.contains t.hash = false → t ∈ (apply L (.disconnected h)).pool) ∧
    (∀ p ∈ L.credit, gone.contains p.1.hash = false → p ∈ (apply L (.disconnected h)).credit) ∧
    (∀ p ∈ (apply L (.disconnected h)).credit, p ∈ L.credit) := by
  intro cut cutTxs cbs pool1 gone
  refine ⟨?_, ?_, ?_, ?_⟩
  · intro t ht hcb hg
    simp only [apply]
    rw [List.mem_filter]
    refine ⟨List.mem_append_right _ (List.mem_filter.mpr ⟨ht, by simp [hcb]⟩), ?_⟩
    show (!gone.contains t.hash) = true
    rw [hg]; rfl
  · intro t ht hg
    simp only [apply]
    rw [List.mem_filter]
    refine ⟨List.mem_append_left _ ht, ?_⟩
    show (!gone.contains t.hash) = true
    rw [hg]; rfl
  · intro p hp hg
    simp only [apply, dropCredits]
    rw [List.mem_filter]
    refine ⟨hp, ?_⟩
    show (!gone.contains p.1.hash) = true
    rw [hg]; rfl
  · intro p hp
    simp only [apply, dropCredits] at hp
    exact (List.mem_filter.mp hp).1

open Ledger in
/-- *confirmed*: unconfirmed transactions that neither conflict with the confirmed transaction nor descend from a
conflicting one stay, with their credits; nothing appears in the pool -/
theorem C02_spec_confirm_unrelated_stay (L : Ledger) (bm : BlockMeta) (t : Tx) (cr : List (Nat × Bool))
    (hnew : inChain L t.hash = false) :
    let roots := (L.pool.filter fun u => u.hash != t.hash && u.ins.any fun i => t.ins.contains i).map (·.hash)
    let gone := if roots.isEmpty then [] else closure L.pool L.pool.length roots
    (∀ u ∈ L.pool, u.hash ≠ t.hash → gone.contains u.hash = false → u ∈ (apply L (.confirmed bm t cr)).pool) ∧
    (∀ u ∈ (apply L (.confirmed bm t cr)).pool, u ∈ L.pool ∧ u.hash ≠ t.hash) := by
  intro roots gone
  constructor
  · intro u hu hne hg
    simp only [apply, hnew, Bool.false_eq_true, if_false]
    rw [List.mem_filter]
    refine ⟨hu, ?_⟩
    have : (u.hash != t.hash) = true := by simpa using hne
    simp only [this, Bool.true_and]
    show (!gone.contains u.hash) = true
    rw [hg]; rfl
  · intro u hu
    simp only [apply, hnew, Bool.false_eq_true, if_false] at hu
    rw [List.mem_filter] at hu
    refine ⟨hu.1, ?_⟩
    have := hu.2
    simp only [Bool.and_eq_true, bne_iff_ne] at this
    exact this.1

/-! non-vacuity: a conflict chain is removed, an unrelated transaction stays -/
def exStore : Store :=
  { unmined := [(1, ⟨1, [⟨90, 0⟩], [500]⟩), (2, ⟨2, [⟨1, 0⟩], [400]⟩), (3, ⟨3, [⟨91, 0⟩], [300]⟩)],
    unminedCredits := [(⟨1, 0⟩, ⟨500, false⟩), (⟨2, 0⟩, ⟨400, true⟩), (⟨3, 0⟩, ⟨300, false⟩)],
    unminedInputs := [(⟨1, 0⟩, [2]), (⟨90, 0⟩, [1]), (⟨91, 0⟩, [3])] }

example : (removeUnminedTx exStore ⟨1, [⟨90, 0⟩], [500]⟩).map unminedTxHashes = .ok [3] := by decide
example : (removeUnminedTx exStore ⟨1, [⟨90, 0⟩], [500]⟩).map (·.unminedCredits.map (·.1)) = .ok [⟨3, 0⟩] := by decide

/-! ## Ledger level -/
open Ledger

/-- **`Rollback` realises *disconnected***: on every store that refines a well-formed ledger, `Rollback(h)` succeeds
and the result refines `Ledger.apply L (.disconnected h)` — the blocks at or above `h` are gone, their non-coinbase
transactions are unconfirmed again with their credits, the coinbases and every unconfirmed transaction depending on
them have disappeared.  No precondition on `h`. -/
theorem C02_disconnect (s : Store) (L : Ledger) (hg : Good s L) (h : Int) :
    ∃ s', rollback s h = .ok s' ∧ Good s' (Ledger.apply L (.disconnected h)) := by
  obtain ⟨s', h1, h2, _⟩ := good_disconnected hg L.now h
  exact ⟨s', h1, h2⟩

/-- **`InsertTx` + `AddCredit` realise *confirmed***: for a chain-consistent confirmation the calls of
`wallet.addRelevantTx` succeed and the result refines `Ledger.apply`: the transaction joins its block, its unconfirmed
copy and credits move, the credits it spends are marked, conflicting unconfirmed transactions and all their
descendants disappear, leases on its inputs end -/
theorem C02_confirm (s : Store) (L : Ledger) (hg : Good s L) (bm : BlockMeta) (t : Tx) (cr : List (Nat × Bool))
    (hc : Consistent L (.confirmed bm t cr)) :
    ∃ r, addRelevantTx false s t (some bm) cr = .ok r ∧ Good r.2 (Ledger.apply L (.confirmed bm t cr)) := by
  obtain ⟨s', h1, h2, _⟩ := good_confirmed hg L.now hc
  have h1' : (addRelevantTx false s t (some bm) cr >>= fun r => pure r.2) = .ok s' := h1
  replace h1 := h1'
  cases hr : addRelevantTx false s t (some bm) cr with
  | error e => rw [hr] at h1; cases h1
  | ok r =>
    rw [hr] at h1
    simp only [bind_ok, pure_eq, Except.ok.injEq] at h1
    exact ⟨r, rfl, by rw [h1]; exact h2⟩

/-- **`RemoveUnminedTx` realises *abandoned***: the transaction and all its unconfirmed descendants disappear, with
their credits; nothing else changes -/
theorem C02_abandon (s : Store) (L : Ledger) (hg : Good s L) (t : Tx) (hc : Consistent L (.abandoned t)) :
    ∃ s', removeUnminedTx s t = .ok s' ∧ Good s' (Ledger.apply L (.abandoned t)) := by
  obtain ⟨s', h1, h2, _⟩ := good_abandoned hg L.now hc
  exact ⟨s', h1, h2⟩

/-- **the store refines the ledger after every chain-consistent history** (any interleaving of deliveries,
confirmations, disconnections to any height, reconnections in any order, abandonments, lease events): every store call
succeeds, and every bucket holds exactly what the ledger expects (`Refines`), the store invariant `WF2` and the ledger's
well-formedness hold -/
theorem C02_refines (es : List Event) (hc : ConsistentHistory {} es) :
    ∃ s, storeAfter Store.empty {} es = .ok s ∧ Good s (ledgerAfter {} es) := by
  obtain ⟨s, h1, h2, _⟩ := good_reachable es hc
  exact ⟨s, h1, h2⟩

/-- **C02, path independence**: two chain-consistent histories — however different: with or without reorgs, blocks
connected in different orders, transactions first seen unconfirmed or directly in a block — whose final ledgers hold
the same facts (`SameFacts`: same blocks with the same sets of transactions, same unconfirmed set, same credited
outputs, same leases, same clock) leave stores that answer alike:
* `Balance` for every coinbase maturity, `minConf` and `syncHeight`;
* `UnspentOutputs`: the same set of outputs with amounts, blocks and coinbase flags;
* `TxDetails` of every hash: both "none", or the same transaction under the same block with the same credit and debit
  records (compared as sets; the record order inside a bucket scan is the only order dependence left in a record).
What remains order-dependent: the order of the transactions inside one block record and inside the unconfirmed batch
(`RangeTransactions` lists a block's transactions in the order the wallet learned them; the comparison oracle sorts
each batch by hash for that reason). -/
theorem C02_path_independence (es1 es2 : List Event) (hc1 : ConsistentHistory {} es1) (hc2 : ConsistentHistory {} es2)
    (hf : SameFacts (ledgerAfter {} es1) (ledgerAfter {} es2)) :
    ∃ s1 s2, storeAfter Store.empty {} es1 = .ok s1 ∧ storeAfter Store.empty {} es2 = .ok s2 ∧
      (∀ mat m sy, balance s1 (ledgerAfter {} es1).now mat m sy = balance s2 (ledgerAfter {} es2).now mat m sy) ∧
      (∃ l1 l2, unspentOutputs s1 (ledgerAfter {} es1).now = .ok l1 ∧
        unspentOutputs s2 (ledgerAfter {} es2).now = .ok l2 ∧ l1.Perm l2) ∧
      (∀ h, ∃ o1 o2, txDetails s1 h = .ok o1 ∧ txDetails s2 h = .ok o2 ∧ SameAnswer o1 o2) := by
  obtain ⟨s1, h1, hg1, hn1⟩ := good_reachable es1 hc1
  obtain ⟨s2, h2, hg2, hn2⟩ := good_reachable es2 hc2
  refine ⟨s1, s2, h1, h2, ?_, ?_, ?_⟩
  · intro mat m sy
    rw [balance_eq_storeTruth s1 (inv_of_wf _ hg1.wf2.wf), balance_eq_storeTruth s2 (inv_of_wf _ hg2.wf2.wf),
      balance_refines hg1, balance_refines hg2, hf.balance_eq]
  · obtain ⟨l1, e1, p1⟩ := utxos_refines hg1
    obtain ⟨l2, e2, p2⟩ := utxos_refines hg2
    exact ⟨l1, l2, e1, e2, p1.trans (hf.utxos_perm.trans p2.symm)⟩
  · intro h
    obtain ⟨o1, e1, a1⟩ := details_refines hg1 hn1 h
    obtain ⟨o2, e2, a2⟩ := details_refines hg2 hn2 h
    rw [hf.details_eq hg1.lwf hg2.lwf] at a1
    exact ⟨o1, o2, e1, e2, sameAnswer_of_agree a1 a2⟩

/-- non-vacuity of `C02_path_independence`: a history with a reorg (block 2 connected, disconnected, another block 2
connected; a payment first seen unconfirmed, later confirmed) and the direct construction of the same final facts -/
def exReorg : List Event :=
  [.confirmed ⟨⟨1, 11⟩, 100⟩ ⟨1, [⟨0, nullIndex⟩], [5000]⟩ [(0, false)],
   .seen ⟨2, [⟨77, 0⟩], [300, 400]⟩ [(0, false), (1, true)],
   .confirmed ⟨⟨2, 22⟩, 200⟩ ⟨2, [⟨77, 0⟩], [300, 400]⟩ [(0, false), (1, true)],
   .disconnected 2,
   .confirmed ⟨⟨2, 23⟩, 201⟩ ⟨2, [⟨77, 0⟩], [300, 400]⟩ [(0, false), (1, true)]]

def exDirect : List Event :=
  [.confirmed ⟨⟨1, 11⟩, 100⟩ ⟨1, [⟨0, nullIndex⟩], [5000]⟩ [(0, false)],
   .confirmed ⟨⟨2, 23⟩, 201⟩ ⟨2, [⟨77, 0⟩], [300, 400]⟩ [(0, false), (1, true)]]

example : ConsistentHistory {} exReorg := by
  unfold exReorg
  refine ⟨?_, ?_, ?_, ?_, ?_, trivial⟩ <;>
    exact ⟨by decide, by decide, fun t ht => by
      first
        | (cases ht; exact ⟨by decide, by decide⟩)
        | cases ht⟩

example : ConsistentHistory {} exDirect := by
  unfold exDirect
  refine ⟨?_, ?_, trivial⟩ <;>
    exact ⟨by decide, by decide, fun t ht => by cases ht; exact ⟨by decide, by decide⟩⟩

example : SameFacts (ledgerAfter {} exReorg) (ledgerAfter {} exDirect) := by
  have : ledgerAfter {} exReorg = ledgerAfter {} exDirect := by decide
  rw [this]; exact SameFacts.refl _

/-- **C02, path independence, EXACT** (tx3): under the hypotheses of `C02_path_independence` the two stores give the
SAME answers, order included — not merely the same sets:
* `Balance` for every maturity, `minConf`, `syncHeight`;
* `UnspentOutputs`: the same list (confirmed outputs in ascending outpoint order, then the unconfirmed ones);
* `TxDetails` of every hash: the same answer, credit and debit records in the same (index) order;
* the unconfirmed batch of `RangeTransactions` (`rangeUnmined`): the same records in the same (hash) order.
The buckets are in key order after every sequence of store calls (`sortedS_storeAfter`), so a cursor walk depends on the
CONTENT of a bucket only.  What is left path-dependent, by design: the order of the transactions inside one BLOCK batch
of `RangeTransactions` — the block record lists them in the order the wallet learned them (`C13_range_exact`), and
`SameFacts` deliberately allows different delivery orders inside a block. -/
theorem C02_path_independence_exact (es1 es2 : List Event) (hc1 : ConsistentHistory {} es1)
    (hc2 : ConsistentHistory {} es2) (hf : SameFacts (ledgerAfter {} es1) (ledgerAfter {} es2)) :
    ∃ s1 s2, storeAfter Store.empty {} es1 = .ok s1 ∧ storeAfter Store.empty {} es2 = .ok s2 ∧
      (∀ mat m sy, balance s1 (ledgerAfter {} es1).now mat m sy = balance s2 (ledgerAfter {} es2).now mat m sy) ∧
      unspentOutputs s1 (ledgerAfter {} es1).now = unspentOutputs s2 (ledgerAfter {} es2).now ∧
      (∃ l, unspentOutputs s1 (ledgerAfter {} es1).now = .ok l) ∧
      (∀ h, txDetails s1 h = txDetails s2 h ∧ ∃ o, txDetails s1 h = .ok o) ∧
      rangeUnmined s1 = rangeUnmined s2 := by
  obtain ⟨s1, h1, hg1, hn1, hs1⟩ := good_sorted_reachable es1 hc1
  obtain ⟨s2, h2, hg2, hn2, hs2⟩ := good_sorted_reachable es2 hc2
  refine ⟨s1, s2, h1, h2, ?_, utxos_path_independent hg1 hg2 hs1 hs2 hf, ?_, ?_,
    rangeUnmined_path_independent hg1 hg2 hn1 hn2 hs1 hs2 hf⟩
  · intro mat m sy
    rw [balance_eq_storeTruth s1 (inv_of_wf _ hg1.wf2.wf), balance_eq_storeTruth s2 (inv_of_wf _ hg2.wf2.wf),
      balance_refines hg1, balance_refines hg2, hf.balance_eq]
  · obtain ⟨l, e, _⟩ := utxos_refines hg1
    exact ⟨l, e⟩
  · intro h
    rw [details_refines_exact hg1 hn1 hs1 h, details_refines_exact hg2 hn2 hs2 h, hf.details_eq hg1.lwf hg2.lwf]
    exact ⟨rfl, _, rfl⟩

end TxStore.C02
