import BtcwVerif.Lemmas.InvPres
import BtcwVerif.Lemmas.Rollback
import BtcwVerif.Model.Ledger
/-!
# C02 — reorgs converge; state depends on the surviving facts

Proved here, for all stores / ledgers / transactions (no bounds):
* model: conflict removal (`removeConflict`, used on confirmation of a double spend, on abandonment and for spenders of
  detached coinbases) removes the transaction itself, never touches the mined part of the store (blocks, records,
  credits, unspent index, counter) and never adds anything to the unconfirmed buckets; recording an unconfirmed
  transaction never removes another one (conflicting unconfirmed transactions coexist);
* specification: what `Ledger.apply` says for *disconnected* and *confirmed* really is the sentence of C02 (blocks at
  or above the height vanish; every non-coinbase transaction of a detached block that does not depend on a detached
  coinbase is unconfirmed afterwards with its credits intact; on confirmation unrelated unconfirmed transactions and
  their credits stay).
NOT proved: `rollback`/`insertMinedTx` realise these sentences on the store (`C02_disconnect`, `C02_confirm`,
DESIGN §6) and path independence as a theorem.  They are checked at run time: model = specification = real Go code on
every generated history, and Go↔Go on pairs (history with reorg cycles vs direct construction of its final facts).
-/
namespace TxStore.C02
open TxStore KMap

/-- `removeConflict` removes the transaction it is asked to remove -/
theorem C02_removeConflict_removes (n : Nat) (s s' : Store) (rec : Tx) (h : removeConflict n s rec = .ok s') :
    s'.unmined.find? rec.hash = none := by
  cases n with
  | zero => cases h
  | succ n =>
    unfold removeConflict removeConflictBody at h
    simp only [bind, Except.bind] at h
    split at h
    · cases h
    · simp only [pure, Except.pure, Except.ok.injEq] at h
      subst h
      simp

/-- conflict removal (any depth) leaves the mined part of the store alone: confirmed transactions, their credits, the
unspent index and the balance counter are untouched when unconfirmed conflicts and their descendants disappear -/
theorem C02_removeConflict_mined_untouched (n : Nat) (s s' : Store) (rec : Tx) (h : removeConflict n s rec = .ok s') :
    s'.blocks = s.blocks ∧ s'.txrecs = s.txrecs ∧ s'.credits = s.credits ∧ s'.unspent = s.unspent ∧
      s'.minedBalance = s.minedBalance ∧ s'.debits = s.debits :=
  sameMined_removeConflict n s rec s' h

/-- the unconfirmed buckets only shrink -/
def Shrinks (s s' : Store) : Prop :=
  (∀ k, s'.unmined.find? k = none ∨ s'.unmined.find? k = s.unmined.find? k) ∧
  (∀ k, s'.unminedCredits.find? k = none ∨ s'.unminedCredits.find? k = s.unminedCredits.find? k)

theorem Shrinks.refl (s : Store) : Shrinks s s := ⟨fun _ => Or.inr rfl, fun _ => Or.inr rfl⟩

theorem Shrinks.trans {a b c : Store} (h1 : Shrinks a b) (h2 : Shrinks b c) : Shrinks a c := by
  constructor
  · intro k
    rcases h2.1 k with h | h
    · exact Or.inl h
    · rcases h1.1 k with h' | h'
      · exact Or.inl (h.trans h')
      · exact Or.inr (h.trans h')
  · intro k
    rcases h2.2 k with h | h
    · exact Or.inl h
    · rcases h1.2 k with h' | h'
      · exact Or.inl (h.trans h')
      · exact Or.inr (h.trans h')

private theorem shrinks_deleteInput (s : Store) (k : OutPoint) (h : Nat) : Shrinks s (deleteRawUnminedInput s k h) := by
  unfold deleteRawUnminedInput
  split
  · exact Shrinks.refl s
  · split
    · exact Shrinks.refl s
    · dsimp only
      split <;> exact ⟨fun _ => Or.inr rfl, fun _ => Or.inr rfl⟩

private theorem shrinks_body (rc : Store → Tx → M Store) (hrc : ∀ s t s', rc s t = .ok s' → Shrinks s s')
    {s s' : Store} {rec : Tx} (h : removeConflictBody rc s rec = .ok s') : Shrinks s s' := by
  unfold removeConflictBody at h
  simp only [bind, Except.bind] at h
  split at h
  · cases h
  · rename_i s1 h1
    simp only [pure, Except.pure, Except.ok.injEq] at h
    subst h
    have hs1 : Shrinks s s1 := by
      refine foldlM_preserves (Shrinks s) _ ?_ _ s s1 (Shrinks.refl s) h1
      intro a io a' ha hstep
      obtain ⟨i, o⟩ := io
      simp only [bind, Except.bind] at hstep
      split at hstep
      · cases hstep
      · rename_i a2 h2
        simp only [pure, Except.pure, Except.ok.injEq] at hstep
        subst hstep
        have : Shrinks a a2 := by
          refine foldlM_preserves (Shrinks a) _ ?_ _ a a2 (Shrinks.refl a) h2
          intro b hsh b' hb hst
          split at hst
          · simp only [pure, Except.pure, Except.ok.injEq] at hst; subst hst; exact hb
          · exact hb.trans (hrc _ _ _ hst)
        refine (ha.trans this).trans ⟨fun _ => Or.inr rfl, fun k => ?_⟩
        simp only [find?_erase]
        split
        · exact Or.inl rfl
        · exact Or.inr rfl
    have hs2 := foldl_preserves (Shrinks s) (fun s inp => deleteRawUnminedInput s inp rec.hash)
      (fun a p hp => hp.trans (shrinks_deleteInput a p rec.hash)) rec.ins s1 hs1
    refine hs2.trans ⟨fun k => ?_, fun _ => Or.inr rfl⟩
    simp only [find?_erase]
    split
    · exact Or.inl rfl
    · exact Or.inr rfl

/-- conflict removal never adds an unconfirmed transaction or an unconfirmed credit, and never alters one it keeps -/
theorem C02_removeConflict_only_removes : ∀ (n : Nat) (s : Store) (t : Tx) (s' : Store),
    removeConflict n s t = .ok s' → Shrinks s s' := by
  intro n
  induction n with
  | zero => intro s t s' h; cases h
  | succ n ih => intro s t s' h; exact shrinks_body (removeConflict n) ih h

/-- **conflicting unconfirmed transactions coexist**: recording an unconfirmed transaction removes nothing; the
unconfirmed bucket afterwards is the old one plus (at most) the new record -/
theorem C02_seen_removes_nothing (s s' : Store) (rec : Tx) (h : insertMemPoolTx s rec = .ok s') (k : Nat) :
    s'.unmined.find? k = s.unmined.find? k ∨ (k = rec.hash ∧ s'.unmined.find? k = some rec) := by
  unfold insertMemPoolTx at h
  split at h
  · cases h
  · split at h
    · cases h; exact Or.inl rfl
    · cases h
      have : ∀ (l : List OutPoint) (a : Store),
          (l.foldl (fun s inp => putRawUnminedInput s inp rec.hash) a).unmined = a.unmined := by
        intro l
        induction l with
        | nil => intro a; rfl
        | cons x t ih => intro a; rw [List.foldl_cons, ih]; rfl
      rw [this]
      simp only [find?_insert]
      by_cases hk : rec.hash = k
      · exact Or.inr ⟨hk.symm, by simp [hk]⟩
      · exact Or.inl (by simp [hk])

private theorem takeWhile_all {α : Type} (q : α → Bool) : ∀ (l : List α), ∀ p ∈ l.takeWhile q, q p = true := by
  intro l
  induction l with
  | nil => intro p hp; cases hp
  | cons a t ih =>
    intro p hp
    by_cases ha : q a = true
    · simp only [List.takeWhile_cons, ha, if_true] at hp
      cases hp with
      | head => exact ha
      | tail _ h' => exact ih p h'
    · simp [List.takeWhile_cons, ha] at hp

/-- **blocks are disconnected**: after a successful `Rollback(height)` no block record at or above `height` is left
and every block record below `height` is exactly as before (block records are in height order, as bbolt keeps them). -/
theorem C02_rollback_blocks (s s' : Store) (height : Int) (h : rollback s height = .ok s')
    (hs : (s.blocks.map (·.1)).Pairwise (· < ·)) :
    (∀ k : Nat, (s'.blocks.find? k).isSome → (k : Int) < height) ∧
    (∀ k : Nat, (k : Int) < height → s'.blocks.find? k = s.blocks.find? k) := by
  have hb := rollback_blocks h
  constructor
  · intro k hk
    rw [hb k] at hk
    by_cases hm : k ∈ (s.blocks.reverse.takeWhile fun p => !decide ((p.1 : Int) < height)).map (·.1)
    · simp [hm] at hk
    · simp only [hm, if_false] at hk
      cases hv : s.blocks.find? k with
      | none => rw [hv] at hk; cases hk
      | some v =>
        have hmem : (k, v) ∈ s.blocks.reverse := by simpa using mem_of_find? _ hv
        have hR : s.blocks.reverse.Pairwise (fun a b => b.1 < a.1) := by
          rw [List.pairwise_reverse]; rw [List.pairwise_map] at hs; exact hs
        rw [← @List.takeWhile_append_dropWhile _ (fun p : Nat × BlockRec => !decide ((p.1 : Int) < height)) s.blocks.reverse,
          List.mem_append] at hmem
        rcases hmem with h1 | h1
        · exact absurd (List.mem_map.mpr ⟨(k, v), h1, rfl⟩) hm
        · exact dropWhile_below height _ hR (k, v) h1
  · intro k hk
    rw [hb k]
    have : k ∉ (s.blocks.reverse.takeWhile fun p => !decide ((p.1 : Int) < height)).map (·.1) := by
      intro hm
      obtain ⟨p, hp, rfl⟩ := List.mem_map.mp hm
      have := takeWhile_all _ _ p hp
      simp at this
      omega
    simp [this]

/-- `rollback`, coinbase branch: EVERY output of the detached coinbase is remembered — credited or not — so that its
unconfirmed spenders are removed afterwards (fixed in /repo 2c7f685; before, only credited outputs were). -/
theorem C02_rollback_remembers_every_coinbase_output (rec : Tx) (blk : Block) :
    ∀ (outs : List Int) (n : Nat) (r : RB),
      ((withIdx outs n).foldl (rbCoinbaseOut rec blk) r).cb =
        r.cb ++ (List.range outs.length).map (fun i => (⟨rec.hash, n + i⟩ : OutPoint)) := by
  intro outs
  induction outs with
  | nil => intro n r; simp [withIdx]
  | cons v t ih =>
    intro n r
    have hstep : (rbCoinbaseOut rec blk r (n, v)).cb = r.cb ++ [⟨rec.hash, n⟩] := by
      unfold rbCoinbaseOut
      dsimp only
      split
      · rfl
      · split <;> rfl
    simp only [withIdx, List.foldl_cons]
    rw [ih (n + 1), hstep, List.length_cons, List.range_succ_eq_map, List.map_cons, List.map_map]
    simp only [List.append_assoc, List.singleton_append, Nat.add_zero]
    congr 2
    apply List.map_congr_left
    intro i _
    simp only [Function.comp]
    congr 1
    omega

/-! ### the specification says what C02 says -/
open Ledger in
/-- *disconnected*: no block at or above the height survives -/
theorem C02_spec_disconnect_blocks (L : Ledger) (h : Int) :
    ∀ b ∈ (apply L (.disconnected h)).chain, (b.bm.block.height : Int) < h := by
  intro b hb
  simp only [apply] at hb
  rw [List.mem_filter] at hb
  simpa using hb.2

open Ledger in
/-- *disconnected*: every non-coinbase transaction of a detached block that does not depend on a detached coinbase
is unconfirmed afterwards, and the credited outputs of every transaction that does not depend on a detached coinbase
are exactly as before -/
theorem C02_spec_disconnect_moves (L : Ledger) (h : Int) :
    let cut := (L.chain.filter fun b => !decide ((b.bm.block.height : Int) < h)).reverse
    let cutTxs := cut.flatMap (·.txs)
    let cbs := (cutTxs.filter (·.isCoinBase)).map (·.hash)
    let pool1 := L.pool ++ cutTxs.filter (!·.isCoinBase)
    let gone := if cbs.isEmpty then [] else closure pool1 pool1.length cbs
    (∀ t ∈ cutTxs, t.isCoinBase = false → gone.contains t.hash = false → t ∈ (apply L (.disconnected h)).pool) ∧
    (∀ t ∈ L.pool, gone.contains t.hash = false → t ∈ (apply L (.disconnected h)).pool) ∧
    (∀ p ∈ L.credit, gone.contains p.1.hash = false → p ∈ (apply L (.disconnected h)).credit) ∧
    (∀ p ∈ (apply L (.disconnected h)).credit, p ∈ L.credit) := by
  intro cut cutTxs cbs pool1 gone
  refine ⟨?_, ?_, ?_, ?_⟩
  · intro t ht hcb hg
    simp only [apply]
    rw [List.mem_filter]
    refine ⟨List.mem_append_right _ (List.mem_filter.mpr ⟨ht, by simp [hcb]⟩), ?_⟩
    show (!gone.contains t.hash) = true
    rw [hg]; rfl
  · intro t ht hg
    simp only [apply]
    rw [List.mem_filter]
    refine ⟨List.mem_append_left _ ht, ?_⟩
    show (!gone.contains t.hash) = true
    rw [hg]; rfl
  · intro p hp hg
    simp only [apply, dropCredits]
    rw [List.mem_filter]
    refine ⟨hp, ?_⟩
    show (!gone.contains p.1.hash) = true
    rw [hg]; rfl
  · intro p hp
    simp only [apply, dropCredits] at hp
    exact (List.mem_filter.mp hp).1

open Ledger in
/-- *confirmed*: unconfirmed transactions that neither conflict with the confirmed transaction nor descend from a
conflicting one stay, with their credits; nothing appears in the pool -/
theorem C02_spec_confirm_unrelated_stay (L : Ledger) (bm : BlockMeta) (t : Tx) (cr : List (Nat × Bool))
    (hnew : inChain L t.hash = false) :
    let roots := (L.pool.filter fun u => u.hash != t.hash && u.ins.any fun i => t.ins.contains i).map (·.hash)
    let gone := if roots.isEmpty then [] else closure L.pool L.pool.length roots
    (∀ u ∈ L.pool, u.hash ≠ t.hash → gone.contains u.hash = false → u ∈ (apply L (.confirmed bm t cr)).pool) ∧
    (∀ u ∈ (apply L (.confirmed bm t cr)).pool, u ∈ L.pool ∧ u.hash ≠ t.hash) := by
  intro roots gone
  constructor
  · intro u hu hne hg
    simp only [apply, hnew, Bool.false_eq_true, if_false]
    rw [List.mem_filter]
    refine ⟨hu, ?_⟩
    have : (u.hash != t.hash) = true := by simpa using hne
    simp only [this, Bool.true_and]
    show (!gone.contains u.hash) = true
    rw [hg]; rfl
  · intro u hu
    simp only [apply, hnew, Bool.false_eq_true, if_false] at hu
    rw [List.mem_filter] at hu
    refine ⟨hu.1, ?_⟩
    have := hu.2
    simp only [Bool.and_eq_true, bne_iff_ne] at this
    exact this.1

/-! non-vacuity: a conflict chain is removed, an unrelated transaction stays -/
def exStore : Store :=
  { unmined := [(1, ⟨1, [⟨90, 0⟩], [500]⟩), (2, ⟨2, [⟨1, 0⟩], [400]⟩), (3, ⟨3, [⟨91, 0⟩], [300]⟩)],
    unminedCredits := [(⟨1, 0⟩, ⟨500, false⟩), (⟨2, 0⟩, ⟨400, true⟩), (⟨3, 0⟩, ⟨300, false⟩)],
    unminedInputs := [(⟨1, 0⟩, [2]), (⟨90, 0⟩, [1]), (⟨91, 0⟩, [3])] }

example : (removeUnminedTx exStore ⟨1, [⟨90, 0⟩], [500]⟩).map unminedTxHashes = .ok [3] := by decide
example : (removeUnminedTx exStore ⟨1, [⟨90, 0⟩], [500]⟩).map (·.unminedCredits.map (·.1)) = .ok [⟨3, 0⟩] := by decide

end TxStore.C02
