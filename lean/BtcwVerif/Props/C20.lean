import BtcwVerif.Model.Publish
namespace C20
open Publish

theorem C20_accept_keeps (s : Store) (id : Nat) : publishTransaction s id .accepted = (s, true) := rfl

end C20
