import BtcwVerif.Model.Publish
/-!
# C20 — a rejected broadcast leaves no trace; unconfirmed sends are re-offered, parents first

Theorems are about `Publish.publish` (= `reliablyPublishTransaction` on the tree that contains fix fd54ea7),
`Publish.publishTransaction` and `Publish.resend` (= `resendUnminedTxs` after a `RescanFinished`) for every store,
transaction and backend answer.
-/
namespace C20
open Publish

/-! ## The property's own words -/

/-- `Desc U id x`: `x` is `id` or an unconfirmed transaction of `U` spending (transitively) an output of `id`
— "the transaction and every unconfirmed transaction spending its outputs". -/
inductive Desc (U : List UTx) (id : Nat) : Nat → Prop
  | self : Desc U id id
  | step {p : Nat} {u : UTx} : Desc U id p → u ∈ U → u.spends p = true → Desc U id u.id

/-- the answers after which the broadcast attempt "fails": the backend rejects, or the hand-over cannot be completed -/
def Failing (a : Answer) : Prop := a = .rejected ∨ a = .notifyFailed

/-! ## removeConflict = removal of the descendant closure -/

theorem spends_iff {u : UTx} {p : Nat} : u.spends p = true ↔ ∃ i ∈ u.ins, i.1 = p := by
  simp [UTx.spends, List.any_eq_true]

theorem mem_closeStep {U : List UTx} {R : List Nat} {x : Nat} :
    x ∈ closeStep U R ↔ x ∈ R ∨ ∃ u ∈ U, u.id = x ∧ u.id ∉ R ∧ ∃ p ∈ R, u.spends p = true := by
  simp only [closeStep, List.mem_append, List.mem_map, List.mem_filter, Bool.and_eq_true, Bool.not_eq_true',
    List.any_eq_true, List.contains_iff_mem]
  constructor
  · rintro (h | ⟨u, ⟨hu, hnot, i, hi, hiR⟩, rfl⟩)
    · exact Or.inl h
    · refine Or.inr ⟨u, hu, rfl, ?_, i.1, hiR, spends_iff.mpr ⟨i, hi, rfl⟩⟩
      intro hmem
      rw [List.contains_iff_mem.mpr hmem] at hnot
      cases hnot
  · rintro (h | ⟨u, hu, rfl, hnot, p, hp, hsp⟩)
    · exact Or.inl h
    · obtain ⟨i, hi, hip⟩ := spends_iff.mp hsp
      refine Or.inr ⟨u, ⟨hu, ?_, i, hi, hip ▸ hp⟩, rfl⟩
      cases h : R.contains u.id with
      | false => rfl
      | true => exact absurd (List.contains_iff_mem.mp h) hnot

theorem closeStep_sound {U : List UTx} {id : Nat} {R : List Nat} (h : ∀ x ∈ R, Desc U id x) :
    ∀ x ∈ closeStep U R, Desc U id x := by
  intro x hx
  rcases mem_closeStep.mp hx with h' | ⟨u, hu, rfl, _, p, hp, hsp⟩
  · exact h x h'
  · exact Desc.step (h p hp) hu hsp

theorem closure_sound {U : List UTx} {id : Nat} (n : Nat) : ∀ R, (∀ x ∈ R, Desc U id x) →
    ∀ x ∈ closure U n R, Desc U id x := by
  induction n with
  | zero => intro R h; exact h
  | succ n ih => intro R h; exact ih _ (closeStep_sound h)

theorem subset_closeStep {U : List UTx} {R : List Nat} {x : Nat} (h : x ∈ R) : x ∈ closeStep U R :=
  mem_closeStep.mpr (Or.inl h)

theorem subset_closure {U : List UTx} (n : Nat) : ∀ R x, x ∈ R → x ∈ closure U n R := by
  induction n with
  | zero => intro R x h; exact h
  | succ n ih => intro R x h; exact ih _ x (subset_closeStep h)

/-- `R` already contains every unconfirmed spender of its members -/
def Closed (U : List UTx) (R : List Nat) : Prop :=
  ∀ u ∈ U, (∃ p ∈ R, u.spends p = true) → u.id ∈ R

theorem closed_complete {U : List UTx} {id : Nat} {R : List Nat} (hc : Closed U R) (hid : id ∈ R) :
    ∀ x, Desc U id x → x ∈ R := by
  intro x hx
  induction hx with
  | self => exact hid
  | step _ hu hsp ih => exact hc _ hu ⟨_, ih, hsp⟩

/-- the sweep's filter -/
def pending (U : List UTx) (R : List Nat) : List UTx :=
  U.filter fun u => !R.contains u.id && u.ins.any (fun i => R.contains i.1)

theorem closeStep_eq (U : List UTx) (R : List Nat) : closeStep U R = R ++ (pending U R).map (·.id) := rfl

theorem closed_of_pending_nil {U : List UTx} {R : List Nat} (h : pending U R = []) : Closed U R := by
  intro u hu ⟨p, hp, hsp⟩
  cases hc : R.contains u.id with
  | true => exact List.contains_iff_mem.mp hc
  | false =>
    exfalso
    have := List.filter_eq_nil_iff.mp h u hu
    apply this
    obtain ⟨i, hi, hip⟩ := spends_iff.mp hsp
    simp only [hc, Bool.not_false, Bool.true_and, List.any_eq_true]
    exact ⟨i, hi, List.contains_iff_mem.mpr (hip ▸ hp)⟩

theorem pending_nil_of_closed {U : List UTx} {R : List Nat} (h : Closed U R) : pending U R = [] := by
  apply List.filter_eq_nil_iff.mpr
  intro u hu hp
  simp only [Bool.and_eq_true, Bool.not_eq_true', List.any_eq_true] at hp
  obtain ⟨hnot, i, hi, hiR⟩ := hp
  have : u.id ∈ R := h u hu ⟨i.1, List.contains_iff_mem.mp hiR, spends_iff.mpr ⟨i, hi, rfl⟩⟩
  rw [List.contains_iff_mem.mpr this] at hnot
  cases hnot

theorem closure_of_closed {U : List UTx} (n : Nat) : ∀ R, Closed U R → closure U n R = R := by
  induction n with
  | zero => intro R _; rfl
  | succ n ih =>
    intro R h
    have : closeStep U R = R := by rw [closeStep_eq, pending_nil_of_closed h]; simp
    simp only [closure, this]
    exact ih R h

/-- unconfirmed transactions not yet swept up -/
def outside (U : List UTx) (R : List Nat) : List UTx := U.filter fun u => !R.contains u.id

theorem outside_closeStep_lt {U : List UTx} {R : List Nat} (h : pending U R ≠ []) :
    (outside U (closeStep U R)).length < (outside U R).length := by
  have hsub : outside U (closeStep U R) = (outside U R).filter (fun u => !(closeStep U R).contains u.id) := by
    simp only [outside, List.filter_filter]
    apply List.filter_congr
    intro u _
    cases hc : (closeStep U R).contains u.id with
    | true => simp
    | false =>
      have : R.contains u.id = false := by
        cases hr : R.contains u.id with
        | false => rfl
        | true =>
          have := List.contains_iff_mem.mpr (subset_closeStep (U := U) (List.contains_iff_mem.mp hr))
          rw [this] at hc; cases hc
      rw [this]; rfl
  rw [hsub]
  apply List.length_filter_lt_length_iff_exists.mpr
  obtain ⟨u, hu⟩ := List.exists_mem_of_ne_nil _ h
  have hu' := List.mem_filter.mp hu
  simp only [Bool.and_eq_true, Bool.not_eq_true'] at hu'
  refine ⟨u, List.mem_filter.mpr ⟨hu'.1, by rw [hu'.2.1]; rfl⟩, ?_⟩
  have : u.id ∈ closeStep U R := by
    rw [closeStep_eq]
    exact List.mem_append_right _ (List.mem_map.mpr ⟨u, hu, rfl⟩)
  rw [List.contains_iff_mem.mpr this]; simp

theorem closure_closed {U : List UTx} (n : Nat) : ∀ R, (outside U R).length ≤ n → Closed U (closure U n R) := by
  induction n with
  | zero =>
    intro R h u hu _
    have hnil : outside U R = [] := List.eq_nil_of_length_eq_zero (Nat.le_zero.mp h)
    have := List.filter_eq_nil_iff.mp hnil u hu
    cases hc : R.contains u.id with
    | true => exact List.contains_iff_mem.mp hc
    | false =>
      exfalso
      apply this
      show (!R.contains u.id) = true
      rw [hc]; rfl
  | succ n ih =>
    intro R h
    by_cases hp : pending U R = []
    · have hcl := closed_of_pending_nil hp
      rw [closure_of_closed _ R hcl]
      exact hcl
    · exact ih _ (by have := outside_closeStep_lt hp; omega)

/-- **`removeConflict` removes exactly the transaction and its unconfirmed spend chain.** -/
theorem doomed_iff (s : Store) (id x : Nat) : x ∈ doomed s id ↔ Desc s.unmined id x := by
  constructor
  · intro h
    refine closure_sound _ [id] ?_ x h
    intro y hy
    simp at hy
    subst hy
    exact Desc.self
  · intro h
    have hcl : Closed s.unmined (doomed s id) :=
      closure_closed _ [id] (List.length_filter_le _ _)
    exact closed_complete hcl (subset_closure _ _ _ (by simp)) x h

theorem mem_removeWithDescendants (s : Store) (id : Nat) (u : UTx) :
    u ∈ (removeWithDescendants s id).unmined ↔ u ∈ s.unmined ∧ ¬ Desc s.unmined id u.id := by
  simp only [removeWithDescendants, List.mem_filter, Bool.not_eq_true']
  constructor
  · rintro ⟨hu, hc⟩
    refine ⟨hu, fun hd => ?_⟩
    have := List.contains_iff_mem.mpr ((doomed_iff s id u.id).mpr hd)
    rw [this] at hc; cases hc
  · rintro ⟨hu, hnd⟩
    refine ⟨hu, ?_⟩
    cases hc : (doomed s id).contains u.id with
    | false => rfl
    | true => exact absurd ((doomed_iff s id u.id).mp (List.contains_iff_mem.mp hc)) hnd

/-! ## the literal depth-first `removeConflict` agrees with the closure -/

/-- every spend edge of a recorded transaction points to an id of lower rank (ids are hashes of contents that
include the spent ids) -/
def Ranked (rank : Nat → Nat) (U : List UTx) : Prop := ∀ u ∈ U, ∀ x, u.spends x = true → rank x < rank u.id

def above (rank : Nat → Nat) (U : List UTx) (id : Nat) : Nat := (U.filter fun u => decide (rank id < rank u.id)).length

theorem desc_mono {U U' : List UTx} (h : ∀ u ∈ U', u ∈ U) {a x : Nat} (hd : Desc U' a x) : Desc U a x := by
  induction hd with
  | self => exact Desc.self
  | step _ hu hsp ih => exact Desc.step ih (h _ hu) hsp

theorem desc_trans {U : List UTx} {a b x : Nat} (hab : Desc U a b) (hbx : Desc U b x) : Desc U a x := by
  induction hbx with
  | self => exact hab
  | step _ hu hsp ih => exact Desc.step ih hu hsp

/-- the store with the ids in `R` removed -/
def sOf (s : Store) (R : List Nat) : Store := { s with unmined := s.unmined.filter fun u => !R.contains u.id }

theorem mem_sOf {s : Store} {R : List Nat} {u : UTx} : u ∈ (sOf s R).unmined ↔ u ∈ s.unmined ∧ u.id ∉ R := by
  simp only [sOf, List.mem_filter, Bool.not_eq_true']
  constructor
  · rintro ⟨hu, hc⟩
    refine ⟨hu, fun hm => ?_⟩
    rw [List.contains_iff_mem.mpr hm] at hc; cases hc
  · rintro ⟨hu, hn⟩
    refine ⟨hu, ?_⟩
    cases hc : R.contains u.id with
    | false => rfl
    | true => exact absurd (List.contains_iff_mem.mp hc) hn

theorem sOf_remove (s : Store) (R : List Nat) (c : Nat) :
    removeWithDescendants (sOf s R) c = sOf s (R ++ doomed (sOf s R) c) := by
  simp only [removeWithDescendants, sOf, List.filter_filter]
  congr 1
  apply List.filter_congr
  intro u _
  simp only [List.contains_append, Bool.not_or]
  exact Bool.and_comm _ _

theorem above_lt {rank : Nat → Nat} {s : Store} {R : List Nat} {id : Nat} {c : UTx}
    (hc : c ∈ s.unmined) (hrk : rank id < rank c.id) :
    above rank (sOf s R).unmined c.id < above rank s.unmined id := by
  have hsub : (sOf s R).unmined.filter (fun u => decide (rank c.id < rank u.id)) =
      (s.unmined.filter (fun u => decide (rank id < rank u.id))).filter
        (fun u => decide (rank c.id < rank u.id) && !R.contains u.id) := by
    simp only [sOf, List.filter_filter]
    apply List.filter_congr
    intro u _
    by_cases h1 : rank c.id < rank u.id
    · have h2 : rank id < rank u.id := by omega
      simp [h1, h2]
    · simp [h1]
  unfold above
  rw [hsub]
  apply List.length_filter_lt_length_iff_exists.mpr
  refine ⟨c, List.mem_filter.mpr ⟨hc, by simpa using hrk⟩, ?_⟩
  simp

theorem ranked_sOf {rank : Nat → Nat} {s : Store} (R : List Nat) (h : Ranked rank s.unmined) :
    Ranked rank (sOf s R).unmined :=
  fun u hu x hx => h u (mem_sOf.mp hu).1 x hx

section fold
variable (rank : Nat → Nat) (fuel : Nat) (s : Store) (id : Nat)

def Sound (R : List Nat) : Prop := ∀ x ∈ R, Desc s.unmined id x
def ClosedIn (R : List Nat) : Prop := ∀ x ∈ R, ∀ u ∈ s.unmined, u.spends x = true → u.id ∈ R

theorem fold_inv
    (IH : ∀ (s' : Store) (c : Nat), Ranked rank s'.unmined → above rank s'.unmined c + 1 ≤ fuel →
      removeConflictDFS fuel s' c = removeWithDescendants s' c)
    (hR : Ranked rank s.unmined) (hfuel : above rank s.unmined id ≤ fuel) :
    ∀ (C : List UTx) (R : List Nat), (∀ c ∈ C, c ∈ s.unmined ∧ c.spends id = true) → Sound s id R → ClosedIn s R →
      ∃ R', C.foldl (fun s sp => if s.has sp.id then removeConflictDFS fuel s sp.id else s) (sOf s R) = sOf s R' ∧
        Sound s id R' ∧ ClosedIn s R' ∧ (∀ x ∈ R, x ∈ R') ∧ (∀ c ∈ C, c.id ∈ R') := by
  intro C
  induction C with
  | nil => intro R _ hs hc; exact ⟨R, rfl, hs, hc, fun _ h => h, by intro c hc; cases hc⟩
  | cons c cs ih =>
    intro R hC hs hcl
    obtain ⟨hcU, hcsp⟩ := hC c List.mem_cons_self
    have hCs : ∀ c' ∈ cs, c' ∈ s.unmined ∧ c'.spends id = true := fun c' h => hC c' (List.mem_cons_of_mem _ h)
    simp only [List.foldl_cons]
    by_cases hhas : (sOf s R).has c.id = true
    · -- recurse into c
      have hrk : rank id < rank c.id := hR c hcU id hcsp
      have hfu : above rank (sOf s R).unmined c.id + 1 ≤ fuel := by
        have := above_lt (R := R) hcU hrk; omega
      rw [if_pos hhas, IH _ _ (ranked_sOf R hR) hfu, sOf_remove]
      have hdc : Desc s.unmined id c.id := Desc.step Desc.self hcU hcsp
      have hs' : Sound s id (R ++ doomed (sOf s R) c.id) := by
        intro x hx
        rcases List.mem_append.mp hx with h | h
        · exact hs x h
        · exact desc_trans hdc (desc_mono (fun u hu => (mem_sOf.mp hu).1) ((doomed_iff _ _ _).mp h))
      have hcl' : ClosedIn s (R ++ doomed (sOf s R) c.id) := by
        intro x hx u hu hsp
        by_cases huR : u.id ∈ R
        · exact List.mem_append_left _ huR
        · rcases List.mem_append.mp hx with h | h
          · exact absurd (hcl x h u hu hsp) huR
          · have hu' : u ∈ (sOf s R).unmined := mem_sOf.mpr ⟨hu, huR⟩
            exact List.mem_append_right _ ((doomed_iff _ _ _).mpr (Desc.step ((doomed_iff _ _ _).mp h) hu' hsp))
      obtain ⟨R', h1, h2, h3, h4, h5⟩ := ih _ hCs hs' hcl'
      refine ⟨R', h1, h2, h3, fun x hx => h4 x (List.mem_append_left _ hx), ?_⟩
      intro c' hc'
      rcases List.mem_cons.mp hc' with rfl | h
      · exact h4 _ (List.mem_append_right _ ((doomed_iff _ _ _).mpr Desc.self))
      · exact h5 c' h
    · -- already removed by an earlier branch
      rw [if_neg hhas]
      obtain ⟨R', h1, h2, h3, h4, h5⟩ := ih R hCs hs hcl
      refine ⟨R', h1, h2, h3, h4, ?_⟩
      intro c' hc'
      rcases List.mem_cons.mp hc' with rfl | h
      · apply h4
        -- c' is in s but not in sOf s R, so its id is in R
        cases hcR : R.contains c'.id with
        | true => exact List.contains_iff_mem.mp hcR
        | false =>
          exfalso
          apply hhas
          have : c' ∈ (sOf s R).unmined := mem_sOf.mpr ⟨hcU, fun hm => by rw [List.contains_iff_mem.mpr hm] at hcR; cases hcR⟩
          exact List.any_eq_true.mpr ⟨c', this, by simp⟩
      · exact h5 c' h

end fold

theorem sOf_nil (s : Store) : sOf s [] = s := by
  cases s
  simp [sOf]

/-- **The literal depth-first `removeConflict` removes exactly the descendant closure** (so every theorem about
`removeWithDescendants` is a theorem about the transcription of the Go function). -/
theorem removeConflictDFS_eq_closure (rank : Nat → Nat) : ∀ (fuel : Nat) (s : Store) (id : Nat), Ranked rank s.unmined →
    above rank s.unmined id + 1 ≤ fuel → removeConflictDFS fuel s id = removeWithDescendants s id := by
  intro fuel
  induction fuel with
  | zero => intro s id _ h; omega
  | succ fuel IH =>
    intro s id hR hfuel
    have hC : ∀ c ∈ s.unmined.filter (·.spends id), c ∈ s.unmined ∧ c.spends id = true :=
      fun c hc => List.mem_filter.mp hc
    obtain ⟨R, h1, hs, hcl, _, hch⟩ := fold_inv rank fuel s id IH hR (by omega) _ [] hC
      (by intro x hx; cases hx) (by intro x hx; cases hx)
    rw [sOf_nil] at h1
    simp only [removeConflictDFS, h1]
    -- both sides are filters of s.unmined; compare the predicates pointwise
    simp only [removeWithDescendants, sOf, List.filter_filter]
    congr 1
    apply List.filter_congr
    intro u hu
    -- every descendant is `id` or in R
    have hall : ∀ x, Desc s.unmined id x → x = id ∨ x ∈ R := by
      intro x hx
      induction hx with
      | self => exact Or.inl rfl
      | step _ hv hsp ih =>
        rename_i p v _
        rcases ih with rfl | hp
        · exact Or.inr (hch v (List.mem_filter.mpr ⟨hv, hsp⟩))
        · exact Or.inr (hcl p hp v hv hsp)
    by_cases hd : Desc s.unmined id u.id
    · have hdm : (doomed s id).contains u.id = true := List.contains_iff_mem.mpr ((doomed_iff s id u.id).mpr hd)
      rw [hdm]
      rcases hall _ hd with h | h
      · simp [h]
      · simp [h]
    · have hdm : (doomed s id).contains u.id = false := by
        cases hc : (doomed s id).contains u.id with
        | false => rfl
        | true => exact absurd ((doomed_iff s id u.id).mp (List.contains_iff_mem.mp hc)) hd
      rw [hdm]
      have h1 : u.id ≠ id := fun h => hd (h ▸ Desc.self)
      have h2 : u.id ∉ R := fun hm => hd (hs _ hm)
      simp [h1, h2]


/-- **`removeConflict` as written (depth-first, `Publish.removeConflictDFS` with the fuel the driver uses) removes
exactly the transaction and its unconfirmed descendants** — `removeWithDescendants`, about which the theorems above
speak — on every store whose spend edges respect some rank (hash-linked transactions). -/
theorem C20_removeConflict_dfs (s : Store) (id : Nat) (hrank : ∃ rank, Ranked rank s.unmined) :
    removeConflictDFS (s.unmined.length + 1) s id = removeWithDescendants s id := by
  obtain ⟨rank, hR⟩ := hrank
  exact removeConflictDFS_eq_closure rank _ s id hR (by unfold above; have := List.length_filter_le (fun u => decide (rank id < rank u.id)) s.unmined; omega)

/-! ## The property theorems: rejected broadcast -/

/-- **A failed broadcast forgets the transaction and every unconfirmed transaction spending its outputs, nothing
else, and the call returns an error** — for a rejection by the backend and for a `NotifyReceived` failure alike. -/
theorem C20_reject_forgets (s : Store) (tx : UTx) (ans : Answer) (hf : Failing ans) :
    (publish s tx ans).2 = false ∧
    (publish s tx ans).1.minedIds = s.minedIds ∧
    ∀ u, u ∈ (publish s tx ans).1.unmined ↔
      (u ∈ (Publish.insert s tx).unmined ∧ ¬ Desc (Publish.insert s tx).unmined tx.id u.id) := by
  have hmined : (Publish.insert s tx).minedIds = s.minedIds := by
    unfold Publish.insert; split <;> rfl
  rcases hf with rfl | rfl
  · refine ⟨rfl, ?_, fun u => mem_removeWithDescendants _ _ u⟩
    simp [publish, publishTransaction, removeWithDescendants, hmined]
  · refine ⟨rfl, ?_, fun u => mem_removeWithDescendants _ _ u⟩
    simp [publish, removeWithDescendants, hmined]

/-- In particular the transaction itself and all its unconfirmed descendants are gone. -/
theorem C20_reject_forgets_desc (s : Store) (tx : UTx) (ans : Answer) (hf : Failing ans) (u : UTx)
    (hd : Desc (Publish.insert s tx).unmined tx.id u.id) : u ∉ (publish s tx ans).1.unmined :=
  fun hu => (((C20_reject_forgets s tx ans hf).2.2 u).mp hu).2 hd

/-- The same for the re-broadcast path (`publishTransaction` alone): rejected ⇒ removed with descendants, error. -/
theorem C20_rebroadcast_reject_forgets (s : Store) (id : Nat) :
    (publishTransaction s id .rejected).2 = false ∧
    ∀ u, u ∈ (publishTransaction s id .rejected).1.unmined ↔ (u ∈ s.unmined ∧ ¬ Desc s.unmined id u.id) :=
  ⟨rfl, fun u => mem_removeWithDescendants s id u⟩

/-- "new": the wallet has no record of it; "no child": no unconfirmed transaction spends one of its outputs. -/
def Fresh (s : Store) (tx : UTx) : Prop :=
  tx.id ∉ s.minedIds ∧ (∀ u ∈ s.unmined, u.id ≠ tx.id) ∧ ∀ u ∈ s.unmined, u.spends tx.id = false

theorem insert_fresh {s : Store} {tx : UTx} (h : Fresh s tx) : Publish.insert s tx = { s with unmined := s.unmined ++ [tx] } := by
  unfold Publish.insert
  have h1 : s.minedIds.contains tx.id = false := by
    cases hc : s.minedIds.contains tx.id with
    | false => rfl
    | true => exact absurd (List.contains_iff_mem.mp hc) h.1
  have h2 : s.has tx.id = false := by
    cases hc : s.has tx.id with
    | false => rfl
    | true =>
      obtain ⟨u, hu, hid⟩ := List.any_eq_true.mp hc
      exact absurd (by simpa using hid) (h.2.1 u hu)
  simp only [h1, h2, Bool.or_self, Bool.false_eq_true, if_false]

theorem remove_fresh {s : Store} {tx : UTx} (h : Fresh s tx) :
    removeWithDescendants { s with unmined := s.unmined ++ [tx] } tx.id = s := by
  have hdesc : ∀ x, Desc (s.unmined ++ [tx]) tx.id x → x = tx.id := by
    intro x hx
    induction hx with
    | self => rfl
    | step _ hu hsp ih =>
      subst ih
      rcases List.mem_append.mp hu with hu | hu
      · rw [h.2.2 _ hu] at hsp; cases hsp
      · simp at hu; subst hu; rfl
  have hfil : (removeWithDescendants { s with unmined := s.unmined ++ [tx] } tx.id).unmined = s.unmined := by
    simp only [removeWithDescendants, List.filter_append]
    have h1 : s.unmined.filter (fun u => !(doomed { s with unmined := s.unmined ++ [tx] } tx.id).contains u.id) = s.unmined := by
      apply List.filter_eq_self.mpr
      intro u hu
      cases hc : (doomed { s with unmined := s.unmined ++ [tx] } tx.id).contains u.id with
      | false => rfl
      | true =>
        have := hdesc _ ((doomed_iff _ _ _).mp (List.contains_iff_mem.mp hc))
        exact absurd this (h.2.1 u hu)
    have h2 : [tx].filter (fun u => !(doomed { s with unmined := s.unmined ++ [tx] } tx.id).contains u.id) = [] := by
      have hm : (doomed { s with unmined := s.unmined ++ [tx] } tx.id).contains tx.id = true :=
        List.contains_iff_mem.mpr ((doomed_iff _ _ _).mpr Desc.self)
      rw [List.filter_cons]
      simp only [hm, Bool.not_true, Bool.false_eq_true, if_false, List.filter_nil]
    rw [h1, h2]; simp
  have hshape : removeWithDescendants { s with unmined := s.unmined ++ [tx] } tx.id =
      { minedIds := s.minedIds,
        unmined := (removeWithDescendants { s with unmined := s.unmined ++ [tx] } tx.id).unmined } := rfl
  rw [hshape, hfil]

/-- **A failed broadcast of a new transaction without children restores the store exactly** — hence every function
of the store (balance for every minconf, spendable set, unconfirmed set, …) is what it was before the attempt. -/
theorem C20_fresh_restores (s : Store) (tx : UTx) (ans : Answer) (hf : Failing ans) (hfresh : Fresh s tx) :
    (publish s tx ans).1 = s := by
  rcases hf with rfl | rfl <;>
    simp only [publish, publishTransaction, insert_fresh hfresh] <;> exact remove_fresh hfresh

/-! ### observables -/

/-- what the unconfirmed part of the store contributes to balances and to the spendable set: `mined` are the
credits of confirmed transactions (outpoint, amount, block height), fixed during a publish. -/
def spentByUnmined (s : Store) (op : OutPoint) : Bool := s.unmined.any fun u => u.ins.contains op

def balance (mined : List (OutPoint × Int × Int)) (syncHeight : Int) (s : Store) (minconf : Int) : Int :=
  ((mined.filter fun c => !spentByUnmined s c.1 && decide (minconf ≤ syncHeight - c.2.2 + 1)).map (·.2.1)).sum +
  (if minconf == 0 then
    ((s.unmined.flatMap fun u => (u.credits.filter fun c => !spentByUnmined s (u.id, c.1)).map (·.2))).sum else 0)

def spendable (mined : List (OutPoint × Int × Int)) (s : Store) : List OutPoint :=
  (mined.filter fun c => !spentByUnmined s c.1).map (·.1) ++
  s.unmined.flatMap fun u => (u.credits.filter fun c => !spentByUnmined s (u.id, c.1)).map fun c => (u.id, c.1)

/-- balance for every `minconf` and the spendable set equal what they were before the attempt -/
theorem C20_fresh_restores_obs (s : Store) (tx : UTx) (ans : Answer) (hf : Failing ans) (hfresh : Fresh s tx)
    (mined : List (OutPoint × Int × Int)) (h : Int) :
    (∀ minconf, balance mined h (publish s tx ans).1 minconf = balance mined h s minconf) ∧
    spendable mined (publish s tx ans).1 = spendable mined s := by
  rw [C20_fresh_restores s tx ans hf hfresh]
  exact ⟨fun _ => rfl, rfl⟩

/-! ## already in mempool -/

/-- ids of recorded unconfirmed transactions are pairwise different (keys of bucket `m`) -/
def IdsNodup (s : Store) : Prop := (s.unmined.map (·.id)).Nodup

theorem count_of_nodup {l : List Nat} {a : Nat} (hn : l.Nodup) (ha : a ∈ l) : l.count a = 1 := by
  induction l with
  | nil => cases ha
  | cons b bs ih =>
    obtain ⟨hnb, hnbs⟩ := List.nodup_cons.mp hn
    by_cases hab : b = a
    · subst hab
      simp [List.count_cons, List.count_eq_zero.mpr hnb]
    · have : a ∈ bs := by
        cases ha with
        | head => exact absurd rfl hab
        | tail _ h => exact h
      simp [List.count_cons, hab, ih hnbs this]

/-- **A transaction the backend reports as already in its mempool stays recorded, exactly once, and the call
succeeds**; nothing else in the store changes (so its credits and debits are counted once). -/
theorem C20_in_mempool_kept (s : Store) (tx : UTx) (hids : IdsNodup s) (hm : tx.id ∉ s.minedIds) :
    (publish s tx .inMempool).2 = true ∧
    ((publish s tx .inMempool).1.unmined.map (·.id)).count tx.id = 1 ∧
    ((publish s tx .inMempool).1 = s ∨ (publish s tx .inMempool).1 = { s with unmined := s.unmined ++ [tx] }) := by
  have h1 : s.minedIds.contains tx.id = false := by
    cases hc : s.minedIds.contains tx.id with
    | false => rfl
    | true => exact absurd (List.contains_iff_mem.mp hc) hm
  cases hhas : s.has tx.id with
  | true =>
    have hpub : publish s tx .inMempool = (s, true) := by
      simp only [publish, publishTransaction, Publish.insert, h1, hhas, Bool.false_or, if_true]
    rw [hpub]
    refine ⟨rfl, ?_, Or.inl rfl⟩
    obtain ⟨u, hu, hid⟩ := List.any_eq_true.mp hhas
    have : tx.id ∈ s.unmined.map (·.id) := List.mem_map.mpr ⟨u, hu, by simpa using hid⟩
    exact count_of_nodup hids this
  | false =>
    have hpub : publish s tx .inMempool = ({ s with unmined := s.unmined ++ [tx] }, true) := by
      simp only [publish, publishTransaction, Publish.insert, h1, hhas, Bool.false_or, Bool.false_eq_true, if_false]
    rw [hpub]
    refine ⟨rfl, ?_, Or.inr rfl⟩
    have hnot : tx.id ∉ s.unmined.map (·.id) := by
      intro hmem
      obtain ⟨u, hu, hid⟩ := List.mem_map.mp hmem
      have : s.has tx.id = true := List.any_eq_true.mpr ⟨u, hu, by simp [hid]⟩
      rw [hhas] at this; cases this
    simp [List.count_append, List.count_eq_zero.mpr hnot]

/-- The accepted answer behaves the same. -/
theorem C20_accepted_kept (s : Store) (tx : UTx) : publish s tx .accepted = (Publish.insert s tx, true) := rfl

/-! ## re-broadcast after every RescanFinished -/

/-- the dependency graph of unconfirmed transactions has no cycle (a transaction's id is the hash of its content,
which includes the ids of the transactions it spends) -/
def Acyclic (U : List UTx) : Prop :=
  ∃ rank : Nat → Nat, ∀ u ∈ U, ∀ p ∈ U, u.spends p.id = true → rank p.id < rank u.id

def ids (l : List UTx) : List Nat := l.map (·.id)

/-- the layer added by one pass -/
def layer (U out : List UTx) : List UTx :=
  U.filter fun u => !((out.map (·.id)).contains u.id) && ready U (out.map (·.id)) u

theorem sortStep_eq (U out : List UTx) : sortStep U out = out ++ layer U out := rfl

theorem ready_parent {U : List UTx} {done : List Nat} {u p : UTx} (hr : ready U done u = true) (hp : p ∈ U)
    (hsp : u.spends p.id = true) : p.id ∈ done := by
  obtain ⟨i, hi, hip⟩ := spends_iff.mp hsp
  have := List.all_eq_true.mp hr i hi
  simp only [Bool.or_eq_true, Bool.not_eq_true'] at this
  rcases this with h | h
  · exact hip ▸ List.contains_iff_mem.mp h
  · exfalso
    have hany : U.any (fun x => x.id == i.1) = true := List.any_eq_true.mpr ⟨p, hp, by simp [hip]⟩
    rw [hany] at h; cases h

/-- parents first, as an invariant of the emitted prefix -/
def ParentsFirst (U out : List UTx) : Prop :=
  ∀ pre u post, out = pre ++ u :: post → ∀ p ∈ U, u.spends p.id = true → p.id ∈ ids pre

theorem parentsFirst_step {U out : List UTx} (h : ParentsFirst U out) : ParentsFirst U (sortStep U out) := by
  intro pre u post heq p hp hsp
  rw [sortStep_eq] at heq
  rcases List.append_eq_append_iff.mp heq with ⟨as, hpre, hl⟩ | ⟨bs, hout, hpost⟩
  · -- u lies in the new layer: pre = out ++ as
    have hu : u ∈ layer U out := by rw [hl]; exact List.mem_append_right _ List.mem_cons_self
    have hr := (List.mem_filter.mp hu).2
    simp only [Bool.and_eq_true] at hr
    have := ready_parent hr.2 hp hsp
    rw [hpre]
    simp only [ids, List.map_append, List.mem_append]
    exact Or.inl this
  · -- u lies in the old part
    cases bs with
    | nil =>
      simp at hout hpost
      have hu : u ∈ layer U out := by rw [← hpost]; exact List.mem_cons_self
      have hr := (List.mem_filter.mp hu).2
      simp only [Bool.and_eq_true] at hr
      have := ready_parent hr.2 hp hsp
      rw [← hout]
      exact this
    | cons b bs =>
      simp at hpost
      obtain ⟨hb, _⟩ := hpost
      subst hb
      exact h pre u bs hout p hp hsp

theorem parentsFirst_loop {U : List UTx} (n : Nat) : ∀ out, ParentsFirst U out → ParentsFirst U (sortLoop U n out) := by
  induction n with
  | zero => intro out h; exact h
  | succ n ih => intro out h; exact ih _ (parentsFirst_step h)

theorem parentsFirst_nil (U : List UTx) : ParentsFirst U [] := by
  intro pre u post h
  cases pre <;> cases h

/-- emitted transactions come from the store, each once -/
def Good (U out : List UTx) : Prop := (∀ u ∈ out, u ∈ U) ∧ (ids out).Nodup

theorem nodup_filter_ids {U : List UTx} (p : UTx → Bool) (h : (ids U).Nodup) : (ids (U.filter p)).Nodup :=
  List.Nodup.sublist ((List.filter_sublist).map _) h

theorem good_step {U out : List UTx} (hU : (ids U).Nodup) (h : Good U out) : Good U (sortStep U out) := by
  rw [sortStep_eq]
  refine ⟨?_, ?_⟩
  · intro u hu
    rcases List.mem_append.mp hu with hu | hu
    · exact h.1 u hu
    · exact (List.mem_filter.mp hu).1
  · simp only [ids, List.map_append]
    refine List.nodup_append.mpr ⟨h.2, nodup_filter_ids _ hU, ?_⟩
    intro a ha b hb hab
    subst hab
    obtain ⟨u, hu, hua⟩ := List.mem_map.mp hb
    have hr := (List.mem_filter.mp hu).2
    simp only [Bool.and_eq_true, Bool.not_eq_true'] at hr
    have : (out.map (·.id)).contains u.id = true := List.contains_iff_mem.mpr (hua ▸ ha)
    rw [this] at hr
    cases hr.1

theorem good_loop {U : List UTx} (hU : (ids U).Nodup) (n : Nat) : ∀ out, Good U out → Good U (sortLoop U n out) := by
  induction n with
  | zero => intro out h; exact h
  | succ n ih => intro out h; exact ih _ (good_step hU h)

/-- not yet emitted -/
def waiting (U out : List UTx) : List UTx := U.filter fun u => !((out.map (·.id)).contains u.id)

theorem exists_min_rank (rank : Nat → Nat) : ∀ (l : List UTx), l ≠ [] → ∃ m ∈ l, ∀ x ∈ l, rank m.id ≤ rank x.id := by
  intro l
  induction l with
  | nil => intro h; exact absurd rfl h
  | cons a as ih =>
    intro _
    by_cases has : as = []
    · subst has
      exact ⟨a, List.mem_cons_self, by intro x hx; simp at hx; subst hx; exact Nat.le_refl _⟩
    · obtain ⟨m, hm, hmin⟩ := ih has
      by_cases hle : rank a.id ≤ rank m.id
      · refine ⟨a, List.mem_cons_self, ?_⟩
        intro x hx
        cases hx with
        | head => exact Nat.le_refl _
        | tail _ hx => exact Nat.le_trans hle (hmin x hx)
      · refine ⟨m, List.mem_cons_of_mem _ hm, ?_⟩
        intro x hx
        cases hx with
        | head => omega
        | tail _ hx => exact hmin x hx

theorem mem_waiting {U out : List UTx} {u : UTx} : u ∈ waiting U out ↔ u ∈ U ∧ u.id ∉ ids out := by
  simp only [waiting, List.mem_filter, Bool.not_eq_true', ids]
  constructor
  · rintro ⟨hu, hc⟩
    refine ⟨hu, fun hm => ?_⟩
    rw [List.contains_iff_mem.mpr hm] at hc; cases hc
  · rintro ⟨hu, hn⟩
    refine ⟨hu, ?_⟩
    cases hc : (out.map (·.id)).contains u.id with
    | false => rfl
    | true => exact absurd (List.contains_iff_mem.mp hc) hn

/-- progress: as long as something is waiting, an acyclic store has a waiting transaction all of whose unconfirmed
parents were emitted, so the next layer is not empty -/
theorem layer_ne_nil {U out : List UTx} (hac : Acyclic U) (hw : waiting U out ≠ []) : layer U out ≠ [] := by
  obtain ⟨rank, hrank⟩ := hac
  obtain ⟨m, hm, hmin⟩ := exists_min_rank rank _ hw
  obtain ⟨hmU, hmout⟩ := mem_waiting.mp hm
  have hready : ready U (out.map (·.id)) m = true := by
    apply List.all_eq_true.mpr
    intro i hi
    simp only [Bool.or_eq_true, Bool.not_eq_true']
    cases hany : U.any (fun x => x.id == i.1) with
    | false => exact Or.inr rfl
    | true =>
      left
      obtain ⟨p, hp, hpid⟩ := List.any_eq_true.mp hany
      have hpid' : p.id = i.1 := by simpa using hpid
      have hsp : m.spends p.id = true := spends_iff.mpr ⟨i, hi, hpid'.symm⟩
      have hlt := hrank m hmU p hp hsp
      cases hc : (out.map (·.id)).contains i.1 with
      | true => rfl
      | false =>
        exfalso
        have hpw : p ∈ waiting U out := by
          refine mem_waiting.mpr ⟨hp, fun hmem => ?_⟩
          rw [hpid'] at hmem
          have hcm := List.contains_iff_mem.mpr (show i.1 ∈ out.map (·.id) from hmem)
          rw [hcm] at hc; cases hc
        have := hmin p hpw
        omega
  intro hnil
  have := List.filter_eq_nil_iff.mp hnil m hmU
  apply this
  have hc : (out.map (·.id)).contains m.id = false := by
    cases hc : (out.map (·.id)).contains m.id with
    | false => rfl
    | true => exact absurd (List.contains_iff_mem.mp hc) hmout
  simp only [hc, hready, Bool.not_false, Bool.and_self]

theorem waiting_step_lt {U out : List UTx} (h : layer U out ≠ []) :
    (waiting U (sortStep U out)).length < (waiting U out).length := by
  have hsub : waiting U (sortStep U out) =
      (waiting U out).filter (fun u => !(((sortStep U out).map (·.id)).contains u.id)) := by
    simp only [waiting, List.filter_filter]
    apply List.filter_congr
    intro u _
    cases hc : ((sortStep U out).map (·.id)).contains u.id with
    | true => simp
    | false =>
      have : (out.map (·.id)).contains u.id = false := by
        cases hr : (out.map (·.id)).contains u.id with
        | false => rfl
        | true =>
          have hm : u.id ∈ (sortStep U out).map (·.id) := by
            rw [sortStep_eq, List.map_append]
            exact List.mem_append_left _ (List.contains_iff_mem.mp hr)
          rw [List.contains_iff_mem.mpr hm] at hc; cases hc
      rw [this]; rfl
  rw [hsub]
  apply List.length_filter_lt_length_iff_exists.mpr
  obtain ⟨u, hu⟩ := List.exists_mem_of_ne_nil _ h
  have hu' := List.mem_filter.mp hu
  simp only [Bool.and_eq_true, Bool.not_eq_true'] at hu'
  refine ⟨u, List.mem_filter.mpr ⟨hu'.1, by rw [hu'.2.1]; rfl⟩, ?_⟩
  have hm : u.id ∈ (sortStep U out).map (·.id) := by
    rw [sortStep_eq, List.map_append]
    exact List.mem_append_right _ (List.mem_map.mpr ⟨u, hu, rfl⟩)
  rw [List.contains_iff_mem.mpr hm]; simp

theorem waiting_nil_step {U out : List UTx} (h : waiting U out = []) : waiting U (sortStep U out) = [] := by
  apply List.filter_eq_nil_iff.mpr
  intro u hu hc
  have := List.filter_eq_nil_iff.mp h u hu
  apply this
  simp only [Bool.not_eq_true'] at hc ⊢
  cases hr : (out.map (·.id)).contains u.id with
  | false => rfl
  | true =>
    have hm : u.id ∈ (sortStep U out).map (·.id) := by
      rw [sortStep_eq, List.map_append]
      exact List.mem_append_left _ (List.contains_iff_mem.mp hr)
    rw [List.contains_iff_mem.mpr hm] at hc; cases hc

theorem waiting_loop {U : List UTx} (hac : Acyclic U) (n : Nat) :
    ∀ out, (waiting U out).length ≤ n → waiting U (sortLoop U n out) = [] := by
  induction n with
  | zero => intro out h; exact List.eq_nil_of_length_eq_zero (Nat.le_zero.mp h)
  | succ n ih =>
    intro out h
    by_cases hw : waiting U out = []
    · exact ih _ (by rw [waiting_nil_step hw]; simp)
    · exact ih _ (by have := waiting_step_lt (layer_ne_nil hac hw); omega)

/-- `UnminedTxs` (dependency sorted): every unconfirmed transaction, each once, every transaction after all its
unconfirmed parents. -/
theorem dependencySort_spec (U : List UTx) (hU : (ids U).Nodup) (hac : Acyclic U) :
    (∀ u, u ∈ dependencySort U ↔ u ∈ U) ∧ (ids (dependencySort U)).Nodup ∧ ParentsFirst U (dependencySort U) := by
  have hg := good_loop hU U.length [] ⟨(by intro u hu; cases hu), (by simp [ids])⟩
  have hw := waiting_loop hac U.length [] (List.length_filter_le _ _)
  refine ⟨fun u => ⟨hg.1 u, fun hu => ?_⟩, hg.2, parentsFirst_loop _ _ (parentsFirst_nil U)⟩
  -- u ∈ U is not waiting, so its id was emitted; ids are unique, so it is u itself
  have hnw : u ∉ waiting U (sortLoop U U.length []) := by rw [hw]; exact List.not_mem_nil
  have hid : u.id ∈ ids (sortLoop U U.length []) := by
    cases hc : ((sortLoop U U.length []).map (·.id)).contains u.id with
    | true => exact List.contains_iff_mem.mp hc
    | false =>
      refine absurd (mem_waiting.mpr ⟨hu, fun hm => ?_⟩) hnw
      have hcm := List.contains_iff_mem.mpr (show u.id ∈ (sortLoop U U.length []).map (·.id) from hm)
      rw [hcm] at hc; cases hc
  obtain ⟨v, hv, hvid⟩ := List.mem_map.mp hid
  have hvU := hg.1 v hv
  have : v = u := by
    -- two members of U with the same id coincide
    have key : ∀ (l : List UTx), (ids l).Nodup → ∀ a ∈ l, ∀ b ∈ l, a.id = b.id → a = b := by
      intro l
      induction l with
      | nil => intro _ a ha; cases ha
      | cons c cs ih =>
        intro hn a ha b hb hab
        simp only [ids, List.map_cons] at hn
        obtain ⟨hnot, hn'⟩ := List.nodup_cons.mp hn
        cases ha with
        | head =>
          cases hb with
          | head => rfl
          | tail _ hb => exact absurd (List.mem_map.mpr ⟨b, hb, hab.symm⟩) hnot
        | tail _ ha =>
          cases hb with
          | head => exact absurd (List.mem_map.mpr ⟨a, ha, hab⟩) hnot
          | tail _ hb => exact ih hn' a ha b hb hab
    exact key U hU v hvU u hu hvid
  exact this ▸ hv

theorem resendLoop_sent (answers : Nat → Answer) : ∀ (l : List UTx) (s : Store) (sent : List Nat),
    (resendLoop answers l s sent).2 = sent ++ ids l := by
  intro l
  induction l with
  | nil => intro s sent; simp [resendLoop, ids]
  | cons u us ih =>
    intro s sent
    simp only [resendLoop, ih, ids, List.map_cons, List.append_assoc, List.singleton_append]

/-- **After every (re)synchronisation each still-unconfirmed transaction is offered to the backend again, exactly
once, parents before children** — whatever the backend answers to each of them (`answers`), i.e. an earlier refusal
does not stop the loop. -/
theorem C20_resend (s : Store) (answers : Nat → Answer) (hids : IdsNodup s) (hac : Acyclic s.unmined) :
    let sent := (resend s answers).2
    (∀ u ∈ s.unmined, u.id ∈ sent) ∧ sent.Nodup ∧ (∀ x ∈ sent, ∃ u ∈ s.unmined, u.id = x) ∧
    (∀ pre x post, sent = pre ++ x :: post → ∀ u ∈ s.unmined, u.id = x →
        ∀ p ∈ s.unmined, u.spends p.id = true → p.id ∈ pre) := by
  have hsent : (resend s answers).2 = ids (dependencySort s.unmined) := by
    simp [resend, resendList, resendLoop_sent]
  obtain ⟨hmem, hnd, hpf⟩ := dependencySort_spec s.unmined hids hac
  simp only [hsent]
  refine ⟨fun u hu => List.mem_map.mpr ⟨u, (hmem u).mpr hu, rfl⟩, hnd, ?_, ?_⟩
  · intro x hx
    obtain ⟨u, hu, hux⟩ := List.mem_map.mp hx
    exact ⟨u, (hmem u).mp hu, hux⟩
  · intro pre x post heq u hu hux p hp hsp
    -- split the sorted list at the same position
    have hsplit : ∀ (l : List UTx) (pre : List Nat) (x : Nat) (post : List Nat), ids l = pre ++ x :: post →
        ∃ lpre v lpost, l = lpre ++ v :: lpost ∧ ids lpre = pre ∧ v.id = x := by
      intro l
      induction l with
      | nil => intro pre x post h; cases pre <;> cases h
      | cons a as ih =>
        intro pre x post h
        cases pre with
        | nil =>
          simp only [ids, List.map_cons, List.nil_append, List.cons.injEq] at h
          exact ⟨[], a, as, rfl, rfl, h.1⟩
        | cons q qs =>
          simp only [ids, List.map_cons, List.cons_append, List.cons.injEq] at h
          obtain ⟨lpre, v, lpost, h1, h2, h3⟩ := ih qs x post h.2
          exact ⟨a :: lpre, v, lpost, by simp [h1], by simp [ids, h.1, ← h2], h3⟩
    obtain ⟨lpre, v, lpost, h1, h2, h3⟩ := hsplit _ pre x post heq
    -- v and u have the same id and both are in the store
    have hvU : v ∈ s.unmined := (hmem v).mp (by rw [h1]; exact List.mem_append_right _ List.mem_cons_self)
    have hvsp : v.spends p.id = true := by
      have : v = u := by
        have hn : (ids s.unmined).Nodup := hids
        clear hsplit
        revert hvU hu
        generalize s.unmined = L at hn ⊢
        intro hu hvU
        induction L with
        | nil => cases hu
        | cons c cs ih =>
          simp only [ids, List.map_cons] at hn
          obtain ⟨hnot, hn'⟩ := List.nodup_cons.mp hn
          cases hu with
          | head =>
            cases hvU with
            | head => rfl
            | tail _ hv => exact absurd (List.mem_map.mpr ⟨v, hv, by rw [h3, hux]⟩) hnot
          | tail _ hu' =>
            cases hvU with
            | head => exact absurd (List.mem_map.mpr ⟨u, hu', by rw [hux, ← h3]⟩) hnot
            | tail _ hv => exact ih hn' hu' hv
      rw [this]; exact hsp
    have := hpf lpre v lpost h1 p hp hvsp
    rw [← h2]; exact this

/-! ## Non-vacuity and the finding F10 on the code before fix fd54ea7 -/
namespace Example

/-- T1 (confirmed elsewhere) ← T2 ← T3, and an unrelated T4; T5 is new and spends an output of T1 -/
def t2 : UTx := { id := 2, ins := [(1, 0)], credits := [(1, 50000)] }
def t3 : UTx := { id := 3, ins := [(2, 1)], credits := [(0, 20000)] }
def t4 : UTx := { id := 4, ins := [(9, 0)], credits := [(0, 70000)] }
def t5 : UTx := { id := 5, ins := [(1, 1)], credits := [(1, 30000)] }
def s : Store := { minedIds := [1], unmined := [t3, t2, t4] }   -- child recorded before its parent (after a reorg)

theorem fresh5 : Fresh s t5 := by unfold Fresh; decide
theorem idsNodup : IdsNodup s := by unfold IdsNodup; decide
theorem acyclic : Acyclic s.unmined :=
  ⟨fun n => n, by
    intro u hu p hp hsp
    simp [s] at hu hp
    rcases hu with rfl | rfl | rfl <;> rcases hp with rfl | rfl | rfl <;> simp_all [t2, t3, t4, UTx.spends]⟩

example : removeConflictDFS 4 s 2 = removeWithDescendants s 2 := by decide
/-- a rejection of T2 removes T2 and T3 and keeps T4 -/
example : ((publish s t2 .rejected).1.unmined.map (·.id), (publish s t2 .rejected).2) = ([4], false) := by decide
/-- a failed hand-over of the new T5 leaves the store as it was -/
example : (publish s t5 .notifyFailed).1 = s := by decide
/-- re-broadcast order: parents first although the child was recorded first -/
example : (resend s (fun _ => .accepted)).2 = [2, 4, 3] := by decide
/-- a refusal in the middle does not stop the loop, and removes the refused transaction's descendants -/
example : ((resend s (fun i => if i == 2 then .rejected else .accepted)).2,
           (resend s (fun i => if i == 2 then .rejected else .accepted)).1.unmined.map (·.id)) = ([2, 4, 3], [4]) := by decide
end Example

/-! ## Order of effects of `reliablyPublishTransaction`; two overlapping re-broadcasts (round 2, seeds C06-4, C20-5) -/

/-- `publish` is the interpretation of its effect list: record, subscribe, (broadcast), (forget), in this order. -/
theorem C20_publish_effects (s : Store) (tx : UTx) (ans : Answer) :
    (publish s tx ans).1 = runEffects tx s (publishEffects ans) := by
  cases ans <;> rfl

/-- what `reliablyPublishTransaction` has done by the time it calls `SendRawTransaction` -/
def beforeSend (es : List Effect) : List Effect := es.takeWhile (· != Effect.sendRaw)

/-- **Nothing is handed to the backend before the notification subscription succeeded**, and nothing has been forgotten
by then; a failed subscription and a broadcast never occur in the same call.  Hence the roll-back of a failed
subscription cannot forget a transaction the backend has accepted. -/
theorem C20_subscribe_before_broadcast (ans : Answer) (h : Effect.sendRaw ∈ publishEffects ans) :
    Effect.record ∈ beforeSend (publishEffects ans) ∧ Effect.subscribe true ∈ beforeSend (publishEffects ans) ∧
    Effect.forget ∉ beforeSend (publishEffects ans) ∧ Effect.subscribe false ∉ publishEffects ans := by
  revert h
  cases ans <;> decide

/-- A failed subscription: the backend never sees the transaction. -/
theorem C20_failed_subscription_never_broadcasts : sendCount (publishEffects .notifyFailed) = 0 := by decide

/-- "forgotten" applies to FAILED attempts only: a transaction the backend accepted (or already holds in its mempool)
was handed over exactly once and is never rolled back. -/
theorem C20_published_never_forgotten (ans : Answer) (h : ans = .accepted ∨ ans = .inMempool) :
    sendCount (publishEffects ans) = 1 ∧ Effect.forget ∉ publishEffects ans := by
  rcases h with rfl | rfl <;> decide

/-- **After EVERY resynchronisation**: when a second rescan finishes while the re-broadcast of the first is still
waiting for the backend, each of the two re-broadcasts offers the complete list `C20_resend` speaks about. -/
theorem C20_resend_every_resync (s : Store) (answers : Nat → Answer) :
    (resendTwice s answers).2.1 = (resend s answers).2 ∧ (resendTwice s answers).2.2 = (resend s answers).2 := by
  simp [resendTwice, resend, resendLoop_sent]

theorem C20_resend_every_resync_all (s : Store) (answers : Nat → Answer) (hids : IdsNodup s)
    (hac : Acyclic s.unmined) (u : UTx) (hu : u ∈ s.unmined) :
    u.id ∈ (resendTwice s answers).2.1 ∧ u.id ∈ (resendTwice s answers).2.2 := by
  obtain ⟨h1, h2⟩ := C20_resend_every_resync s answers
  rw [h1, h2]
  exact ⟨(C20_resend s answers hids hac).1 u hu, (C20_resend s answers hids hac).1 u hu⟩

example : (resendTwice Example.s (fun i => if i == 2 then .rejected else .accepted)).2 = ([2, 4, 3], [2, 4, 3]) := by decide


/-- **Finding F10** (code before fix fd54ea7): when `NotifyReceived` fails the call returns an error but the new
transaction stays recorded — `C20_fresh_restores` is false of `publishUnfixed`. -/
theorem C20_unfixed_notify_counterexample :
    ∃ s tx, Fresh s tx ∧ (publishUnfixed s tx .notifyFailed).2 = false ∧ (publishUnfixed s tx .notifyFailed).1 ≠ s :=
  ⟨Example.s, Example.t5, Example.fresh5, rfl, by decide⟩

end C20
