/-
C15 — The wallet's view of the chain tip follows the backend through reorgs.
Property theorems about `SyncTip` (model of wallet/chainntfns.go connectBlock/disconnectBlock/addRelevantTx,
waddrmgr PutSyncedTo, and the syncWithChain start-up rollback).  Proofs live in Lemmas/SyncTipEvolve.lean and
Lemmas/SyncTipStartup.lean; specification vocabulary (Inv, ValidStep, ValidRun, IsLastCommon) in Lemmas/SyncTipDefs.lean.

Quantification: every valid evolution (`ValidRun`: extensions, reorgs of any depth that leave the block below the
fork point remembered, stale and repeated disconnects, repeated connects and transaction notifications, unconfirmed
transactions), every placement of wallet transactions in blocks (`Content.txs` arbitrary), the three notification
orders (`TxMode`), every window `W ≥ 1`; start-up: every old chain and every new backend chain.
-/
import BtcwVerif.Lemmas.SyncTipEvolve
import BtcwVerif.Lemmas.SyncTipStartup
import BtcwVerif.Lemmas.SyncTipCompose
import BtcwVerif.Lemmas.SyncTipNotify
import BtcwVerif.Lemmas.SyncTipRescan
namespace SyncTip

/-- Chains are lists with parent links: the same hash at height `h` means the same chain below `h`. -/
theorem C15_same_hash_same_below (a b : BlockId) (h k : Nat) (hk : k ≤ h) (ha : h ≤ a.length) (hb : h ≤ b.length)
    (e : ancestorAt a h = ancestorAt b h) : ancestorAt a k = ancestorAt b k :=
  same_hash_same_below a b h k hk ha hb e

/-- After any valid evolution the synced-to stamp (height, hash, time) is the backend's tip. -/
theorem C15_tip (cfg : Cfg) (hW : 1 ≤ cfg.W) {w : Wallet} {tip : BlockId} {lo : Nat} {steps : List Step}
    {tip' : BlockId} {lo' : Nat} (hI : Inv cfg w tip lo) (hr : ValidRun cfg.W tip lo steps tip' lo') :
    (evolve cfg (w, tip) steps).2 = tip' ∧ (evolve cfg (w, tip) steps).1.syncedTo = stampOf cfg.C tip' :=
  ⟨(run_preserves_inv cfg hW hI hr).2, tip_follows_backend cfg hW hI hr⟩

/-- Every remembered hash at a height ≤ tip is the best chain's; every height in `[lo', tip]` is remembered, and
    `lo' ≤ max lo (maxTip + 1 − W)`: the heights in `(maxTip − W, tip]` (at or above the initial `lo`) are remembered,
    where `maxTip` is the highest tip the evolution reached (pruning at `height − W` is not undone by a reorg). -/
theorem C15_hashes (cfg : Cfg) (hW : 1 ≤ cfg.W) {w : Wallet} {tip : BlockId} {lo : Nat} {steps : List Step}
    {tip' : BlockId} {lo' : Nat} (hI : Inv cfg w tip lo) (hr : ValidRun cfg.W tip lo steps tip' lo') :
    let w' := (evolve cfg (w, tip) steps).1
    (∀ h x, h ≤ tip'.length → w'.hashes h = some x → x = some (ancestorAt tip' h)) ∧
    (∀ h, lo ≤ h → maxTip tip steps + 1 - cfg.W ≤ h → h ≤ tip'.length → w'.hashes h = some (some (ancestorAt tip' h))) :=
  ⟨fun h x hh hx => (window_hashes_match cfg hW hI hr h hh).1 x hx, remembered_range cfg hW hI hr⟩

/-- No transaction is recorded as confirmed in a block that is not on the best chain. -/
theorem C15_no_offchain_tx (cfg : Cfg) (hW : 1 ≤ cfg.W) {w : Wallet} {tip : BlockId} {lo : Nat} {steps : List Step}
    {tip' : BlockId} {lo' : Nat} (hI : Inv cfg w tip lo) (hr : ValidRun cfg.W tip lo steps tip' lo') :
    ∀ r ∈ (evolve cfg (w, tip) steps).1.mined, r.height ≤ tip'.length ∧ r.hash = some (ancestorAt tip' r.height) :=
  no_tx_off_chain cfg hW hI hr

/-- A disconnect for a block that is not on the best chain (stale, or a repeat of one already processed), and a
    repeated connect of the tip, leave the wallet in sync; the former does not change the state at all. -/
theorem C15_stale_and_repeated_disconnects_are_noops (cfg : Cfg) (hW : 1 ≤ cfg.W) {w : Wallet} {tip : BlockId} {lo : Nat}
    (hI : Inv cfg w tip lo) :
    (∀ b : BlockId, ancestorAt tip b.length ≠ b → handle cfg w (.disconnected (stampOf cfg.C b)) = w) ∧
    Inv cfg (handle cfg w (.connected (stampOf cfg.C tip))) tip lo :=
  ⟨fun b hb => stale_disconnect_noop hI b hb, dup_connect hW hI⟩

/-- Start-up, total outcome: the rollback transaction fails and writes nothing, or the wallet ends at the last block
    its chain has in common with the backend's, with the transaction store rolled back to it. -/
theorem C15_startup (cfg : Cfg) {w : Wallet} {old : BlockId} {lo : Nat} (hS : StoppedInv cfg w old lo) (tip : BlockId) :
    (∃ e, startupRollback cfg w tip = .error e) ∨
    (∃ w' c, startupRollback cfg w tip = .ok w' ∧ IsLastCommon old tip c ∧
        w'.syncedTo = stampOf cfg.C (ancestorAt tip c) ∧
        w'.mined = rollbackMined w.mined (c + 1) ∧
        w'.unmined = (if c < old.length then rollbackUnmined w.mined w.unmined (c + 1) else w.unmined) ∧
        (∀ h x, h ≤ c → w'.hashes h = some x → x = some (ancestorAt tip h)) ∧
        (∀ h, lo ≤ h → h ≤ c → w'.hashes h = some (some (ancestorAt tip h))) ∧
        MinedOn w' tip) :=
  startup_rolls_to_common cfg hS tip

/-- The loop itself succeeds whenever the backend is at least as high as the wallet's tip and the common block is
    within the remembered range. -/
theorem C15_startup_loop_succeeds (C : Content) (w : Wallet) (old tip : BlockId) (lo c : Nat)
    (hrem : ∀ h, lo ≤ h → h ≤ old.length → w.hashes h = some (some (ancestorAt old h)))
    (hlen : old.length ≤ tip.length) (hcm : IsLastCommon old tip c) (hlo : lo ≤ c) :
    ∃ res, rollbackLoop C w tip old.length false = .ok res :=
  rollbackLoop_succeeds C w old tip lo c hrem hlen hcm hlo old.length false hcm.1 (Nat.le_refl _)

/-! Non-vacuity: the genesis wallet satisfies the invariant; a concrete evolution with a depth-2 reorg over a block
    holding a wallet transaction is a `ValidRun` (see `steps1_valid`) and the theorems apply to it. -/
example : Inv cfg1 (genesisWallet cfg1.C) [] 0 := inv_genesis cfg1 (by decide)
example : (evolve cfg1 (genesisWallet C1, []) steps1).1.syncedTo = stampOf C1 [4, 3] :=
  (C15_tip cfg1 (by decide) (inv_genesis cfg1 (by decide)) steps1_valid).2
/-- start-up after an offline depth-2 reorg: the wallet (in sync with [2,1]) rolls back to genesis against [5,4,3] -/
example : ∃ w', startupRollback cfg0 (evolve cfg0 (genesisWallet C0, []) [.extend 1 .after, .extend 2 .after]).1 [5, 4, 3] = .ok w' ∧
    w'.syncedTo = stampOf C0 [] := by
  refine ⟨_, rfl, ?_⟩
  decide

/-! ### Start-up composed with evolution

`startup` = the whole `syncWithChain` of a reopened wallet (rollback loop → `recovery` when `recW > 0`, in batches of
`batch` blocks → rescan → `RescanFinished`/`catchUpHashes`).  Quantification: every stopped wallet (`StoppedInv`:
what `Inv` leaves when the wallet is stopped), every backend chain `tip` (offline extension, offline reorg of any
depth, wallet transactions in stale blocks = arbitrary `Content`), every `recW`, `batch`, `W ≥ 1`. -/

/-- Total outcome of start-up: the rollback transaction fails, nothing is written and `syncWithChain` reports an
    error (the wallet retries), or start-up succeeds and the wallet is in sync with the backend's chain — `Inv`, the
    hypothesis of `C15_tip` / `C15_hashes` / `C15_no_offchain_tx`. -/
theorem C15_startup_total (cfg : Cfg) (hW : 1 ≤ cfg.W) {w : Wallet} {old : BlockId} {lo : Nat}
    (hS : StoppedInv cfg w old lo) (tip : BlockId) (recW batch : Nat) :
    ((∃ e, startupRollback cfg { w with chainSynced := false } tip = .error e) ∧
      startup cfg recW batch w tip = ({ w with chainSynced := false }, false)) ∨
    (∃ w' c, startup cfg recW batch w tip = (w', true) ∧
      (∃ w1, startupRollback cfg { w with chainSynced := false } tip = .ok w1) ∧
      IsLastCommon old tip c ∧ old.length ≤ tip.length ∧ Inv cfg w' tip (startupLo cfg.W lo c tip.length)) :=
  startup_total cfg hW hS tip recW batch

/-- **A successful start-up establishes the invariant.**  `c` is the height of the last block the wallet's old chain
    has in common with the backend's; the remembered range afterwards starts at
    `lo' = startupLo W lo c |tip|`, with `min lo c ≤ lo' ≤ max (min lo c) (|tip| + 1 − W)`: what was remembered at or
    below the common block stays remembered unless the catch-up prunes it (`height − W`). -/
theorem C15_startup_establishes_inv (cfg : Cfg) (hW : 1 ≤ cfg.W) {w : Wallet} {old : BlockId} {lo : Nat}
    (hS : StoppedInv cfg w old lo) (tip : BlockId) (recW batch : Nat) {w' : Wallet}
    (hok : startup cfg recW batch w tip = (w', true)) :
    ∃ c, IsLastCommon old tip c ∧ old.length ≤ tip.length ∧ Inv cfg w' tip (startupLo cfg.W lo c tip.length) ∧
      min lo c ≤ startupLo cfg.W lo c tip.length ∧
      startupLo cfg.W lo c tip.length ≤ max (min lo c) (tip.length + 1 - cfg.W) := by
  rcases startup_total cfg hW hS tip recW batch with ⟨_, h⟩ | ⟨w2, c, h, _, h1, h2, h3⟩
  · rw [h] at hok; cases hok
  · rw [h] at hok
    have : w2 = w' := (Prod.mk.inj hok).1
    subst this
    exact ⟨c, h1, h2, h3, startupLo_ge _ _ _ _, startupLo_le _ _ _ _ h1.2.1⟩

/-- **When start-up succeeds** (so the composed theorems are not vacuous): the backend is at least as high as the
    wallet's tip, the last common block is within the remembered range, and — when blocks have to be rolled back —
    the block below it is remembered too or it is the genesis block (the same condition `ValidStep` puts on an
    online reorg).  Any recovery window, any batch size. -/
theorem C15_startup_succeeds (cfg : Cfg) (hW : 1 ≤ cfg.W) {w : Wallet} {old : BlockId} {lo : Nat}
    (hS : StoppedInv cfg w old lo) (tip : BlockId) (recW batch : Nat) (c : Nat)
    (hlen : old.length ≤ tip.length) (hcm : IsLastCommon old tip c) (hlo : lo ≤ c)
    (hpred : c = old.length ∨ c = 0 ∨ lo + 1 ≤ c) :
    ∃ w', startup cfg recW batch w tip = (w', true) ∧ Inv cfg w' tip (startupLo cfg.W lo c tip.length) := by
  obtain ⟨w1, h1⟩ := startupRollback_succeeds cfg hS.unsynced tip c hlen hcm hlo hpred
  rcases startup_total cfg hW hS tip recW batch with ⟨⟨e, he⟩, _⟩ | ⟨w', c', h, _, hc', _, hI⟩
  · rw [h1] at he; cases he
  · have : c' = c := isLastCommon_unique hc' hcm
    subst this
    exact ⟨w', h, hI⟩

/-- … and it fails (without writing anything) when the backend is lower than the wallet's tip. -/
theorem C15_startup_fails_below_tip (cfg : Cfg) (hW : 1 ≤ cfg.W) {w : Wallet} {old : BlockId} {lo : Nat}
    (hS : StoppedInv cfg w old lo) (tip : BlockId) (recW batch : Nat) (hlen : tip.length < old.length) :
    startup cfg recW batch w tip = ({ w with chainSynced := false }, false) := by
  rcases startup_total cfg hW hS tip recW batch with ⟨_, h⟩ | ⟨_, _, _, _, _, h, _⟩
  · exact h
  · omega

/-- Start-up against ANY backend chain followed by ANY valid evolution: the synced-to stamp is the backend's tip. -/
theorem C15_startup_then_evolve_tip (cfg : Cfg) (hW : 1 ≤ cfg.W) {w : Wallet} {old : BlockId} {lo : Nat}
    (hS : StoppedInv cfg w old lo) (tip : BlockId) (recW batch : Nat) {w' : Wallet}
    (hok : startup cfg recW batch w tip = (w', true)) {steps : List Step} {tip' : BlockId} {lo' : Nat}
    (hr : ∀ c, IsLastCommon old tip c → ValidRun cfg.W tip (startupLo cfg.W lo c tip.length) steps tip' lo') :
    (evolve cfg (w', tip) steps).2 = tip' ∧ (evolve cfg (w', tip) steps).1.syncedTo = stampOf cfg.C tip' := by
  obtain ⟨c, hc, _, hI, _⟩ := C15_startup_establishes_inv cfg hW hS tip recW batch hok
  exact C15_tip cfg hW hI (hr c hc)

/-- … every remembered hash at a height ≤ tip is the best chain's, and every height that is ≥ `min lo c` (remembered
    before the stop and not above the common block) and within `W` of the highest tip ever reached is remembered. -/
theorem C15_startup_then_evolve_hashes (cfg : Cfg) (hW : 1 ≤ cfg.W) {w : Wallet} {old : BlockId} {lo : Nat}
    (hS : StoppedInv cfg w old lo) (tip : BlockId) (recW batch : Nat) {w' : Wallet}
    (hok : startup cfg recW batch w tip = (w', true)) {steps : List Step} {tip' : BlockId} {lo' : Nat}
    (hr : ∀ c, IsLastCommon old tip c → ValidRun cfg.W tip (startupLo cfg.W lo c tip.length) steps tip' lo') :
    let wf := (evolve cfg (w', tip) steps).1
    (∀ h x, h ≤ tip'.length → wf.hashes h = some x → x = some (ancestorAt tip' h)) ∧
    (∀ c, IsLastCommon old tip c → ∀ h, min lo c ≤ h → maxTip tip steps + 1 - cfg.W ≤ h → h ≤ tip'.length →
      wf.hashes h = some (some (ancestorAt tip' h))) := by
  obtain ⟨c, hc, _, hI, _, hle⟩ := C15_startup_establishes_inv cfg hW hS tip recW batch hok
  obtain ⟨h1, h2⟩ := C15_hashes cfg hW hI (hr c hc)
  refine ⟨h1, ?_⟩
  intro c' hc' h g1 g2 g3
  have : c' = c := isLastCommon_unique hc' hc
  subst this
  have := maxTip_ge tip steps
  exact h2 h (by omega) g2 g3

/-- … and no transaction is recorded as confirmed in a block that is not on the best chain (in particular none of the
    wallet transactions of the blocks that went stale while the wallet was stopped). -/
theorem C15_startup_then_evolve_no_offchain_tx (cfg : Cfg) (hW : 1 ≤ cfg.W) {w : Wallet} {old : BlockId} {lo : Nat}
    (hS : StoppedInv cfg w old lo) (tip : BlockId) (recW batch : Nat) {w' : Wallet}
    (hok : startup cfg recW batch w tip = (w', true)) {steps : List Step} {tip' : BlockId} {lo' : Nat}
    (hr : ∀ c, IsLastCommon old tip c → ValidRun cfg.W tip (startupLo cfg.W lo c tip.length) steps tip' lo') :
    ∀ r ∈ (evolve cfg (w', tip) steps).1.mined, r.height ≤ tip'.length ∧ r.hash = some (ancestorAt tip' r.height) := by
  obtain ⟨c, hc, _, hI, _⟩ := C15_startup_establishes_inv cfg hW hS tip recW batch hok
  exact C15_no_offchain_tx cfg hW hI (hr c hc)

/-- The cycle closes: a wallet in sync can be stopped (`Inv.stopped`), restarted against any chain, evolve, be stopped
    again, … — every successful start-up re-establishes `Inv`. -/
theorem C15_stop_start_cycle (cfg : Cfg) (hW : 1 ≤ cfg.W) {w : Wallet} {old : BlockId} {lo : Nat}
    (hI : Inv cfg w old lo) (tip : BlockId) (recW batch : Nat) {w' : Wallet}
    (hok : startup cfg recW batch w tip = (w', true)) : ∃ lo', Inv cfg w' tip lo' := by
  obtain ⟨c, _, _, h, _⟩ := C15_startup_establishes_inv cfg hW hI.stopped tip recW batch hok
  exact ⟨_, h⟩

/-! Non-vacuity of the composition: the wallet is in sync with `[2,1]` (wallet transaction 7 confirmed in block
    `[2,1]`), is stopped, the backend reorganises to `[5,4,1]` (depth 1; transaction 7 is mined again in `[4,1]`),
    start-up with and without a recovery window, then one more online reorg. -/
def C2 : Content := ⟨fun b => b.length, fun b => if b = [2, 1] ∨ b = [4, 1] then [⟨7, false⟩] else []⟩
def cfg2 : Cfg := ⟨10000, C2⟩
def steps2 : List Step := [.extend 1 .after, .extend 2 .after]
def wOld2 : Wallet := (evolve cfg2 (genesisWallet C2, []) steps2).1

theorem steps2_valid : ValidRun 10000 [] 0 steps2 [2, 1] 0 := .cons trivial (.cons trivial (.nil _ _))

theorem wOld2_inv : Inv cfg2 wOld2 [2, 1] 0 :=
  (run_preserves_inv cfg2 (by decide) (inv_genesis cfg2 (by decide)) steps2_valid).1

example : wOld2.mined = [⟨⟨7, false⟩, 2, some [2, 1]⟩] := by decide
example : IsLastCommon [2, 1] [5, 4, 1] 1 := by
  refine ⟨by decide, by decide, by decide, ?_⟩
  intro h h1 h2 _
  have : h = 2 := by simp at h2; omega
  subst this; decide
/-- recW = 0: the stale record is rolled back and the rescan records the transaction in its new block -/
example : (startup cfg2 0 2000 wOld2 [5, 4, 1]).2 = true ∧
    (startup cfg2 0 2000 wOld2 [5, 4, 1]).1.mined = [⟨⟨7, false⟩, 2, some [4, 1]⟩] ∧
    (startup cfg2 0 2000 wOld2 [5, 4, 1]).1.syncedTo = stampOf C2 [5, 4, 1] := by decide
/-- recW > 0, batch size 1 (two recovery batches) -/
example : (startup cfg2 3 1 wOld2 [5, 4, 1]).2 = true ∧
    (startup cfg2 3 1 wOld2 [5, 4, 1]).1.mined = [⟨⟨7, false⟩, 2, some [4, 1]⟩] ∧
    (startup cfg2 3 1 wOld2 [5, 4, 1]).1.syncedTo = stampOf C2 [5, 4, 1] := by decide
/-- the theorems apply to both: -/
example : ∃ lo', Inv cfg2 (startup cfg2 0 2000 wOld2 [5, 4, 1]).1 [5, 4, 1] lo' :=
  C15_stop_start_cycle cfg2 (by decide) wOld2_inv [5, 4, 1] 0 2000 (Prod.ext rfl (by decide))
example : ∃ lo', Inv cfg2 (startup cfg2 3 1 wOld2 [5, 4, 1]).1 [5, 4, 1] lo' :=
  C15_stop_start_cycle cfg2 (by decide) wOld2_inv [5, 4, 1] 3 1 (Prod.ext rfl (by decide))
/-- the success criterion applies (c = 1, lo = 0, genesis below the common block) -/
example : ∃ w', startup cfg2 3 1 wOld2 [5, 4, 1] = (w', true) ∧ Inv cfg2 w' [5, 4, 1] (startupLo 10000 0 1 3) :=
  C15_startup_succeeds cfg2 (by decide) wOld2_inv.stopped [5, 4, 1] 3 1 1 (by decide)
    ⟨by decide, by decide, by decide, by
      intro h h1 h2 _
      have : h = 2 := by simp at h2; omega
      subst this; decide⟩ (by decide) (Or.inr (Or.inr (by decide)))
/-- start-up, then an online depth-2 reorg: the composed theorem gives the final tip -/
example : (evolve cfg2 ((startup cfg2 3 1 wOld2 [5, 4, 1]).1, [5, 4, 1]) [.reorg 2 [6, 7, 8] .before]).1.syncedTo
    = stampOf C2 [8, 7, 6, 1] :=
  (C15_startup_then_evolve_tip cfg2 (by decide) wOld2_inv.stopped [5, 4, 1] 3 1 (Prod.ext rfl (by decide))
    (lo' := 0) (fun c hc => by
      have : c = 1 := isLastCommon_unique hc ⟨by decide, by decide, by decide, by
        intro h h1 h2 _
        have : h = 2 := by simp at h2; omega
        subst this; decide⟩
      subst this
      exact .cons ⟨by decide, by decide⟩ (.nil _ _))).2

/-- **Blocks arriving while the start-up rescan is in flight** (`startupDuring`, `during` ≠ []), the case C15 speaks
    about: nothing to catch up (the backend's chain at the time of the rescan request is the wallet's own), any number
    of blocks `br` connected before `RescanFinished` is processed, any notification order: start-up succeeds and the
    wallet is in sync with the extended chain.  (`during = []` for ANY backend chain is `C15_startup_establishes_inv`.) -/
theorem C15_startup_blocks_during_rescan (cfg : Cfg) (hW : 1 ≤ cfg.W) {w : Wallet} {old : BlockId} {lo : Nat}
    (hS : StoppedInv cfg w old lo) (batch : Nat) (m : TxMode) (br : List Nat) :
    ∃ w', startupDuring cfg 0 batch w old (connectBranch cfg.C m old br) = (w', true) ∧
      Inv cfg w' (br.reverse ++ old) (loAfterN cfg.W lo old.length br.length) :=
  startup_blocks_during_rescan cfg hW hS batch m br

/-- With something to catch up, a block that arrives during the rescan is lost until the next notification: the
    wallet (at `[1]`) restarts against `[2,1]`, block `[3,2,1]` is connected before `RescanFinished(height 2)`;
    `connectBlock` fails (height 2 not yet remembered), `catchUpHashes` stops at height 2.  This is the race the TODO
    in `catchUpHashes` documents; DESIGN §6 C15 puts it outside the property (explored by the engine, not flagged). -/
example : (startupDuring cfg0 0 2000 (evolve cfg0 (genesisWallet C0, []) [.extend 1 .after]).1 [2, 1]
      (connectNtfns C0 .after [3, 2, 1])).1.syncedTo = stampOf C0 [2, 1] := by decide

/-! ### The wallet's own notification stream (`wallet.NtfnServer`, `TransactionNotifications`)

`evolveN` runs the evolution with the modelled `NotificationServer` (`NSrv`: `currentTxNtfn` + what was delivered to
the registered client) next to the wallet; `runEvents` are the `notifyAttachedBlock` / `notifyDetachedBlock` calls
`connectBlock` / `disconnectBlock` make on the way (`blockEvents`); `replayEv` is a client applying them: attached
= the tip again or a child of the tip (push), detached = the current tip (pop) or a block that is not on the chain
(ignored); anything else fails the replay. -/

/-- **The notifications follow the backend.**  Over any valid evolution from a wallet in sync:
    (1) the server does not influence the wallet (`evolveN` projects onto `evolve`);
    (2) replaying the attach/detach calls on the initial tip yields the final tip — in particular every detached block
        that is on the client's chain is its then-current tip, every attached block is a child of the then-current tip
        or the tip again;
    (3) the detached hashes the server delivered or holds pending are exactly the `notifyDetachedBlock` calls, in
        order (coalescing drops, duplicates, reorders nothing). -/
theorem C15_notifications_follow_backend (cfg : Cfg) (hW : 1 ≤ cfg.W) {w : Wallet} {tip : BlockId} {lo : Nat}
    {steps : List Step} {tip' : BlockId} {lo' : Nat} (hI : Inv cfg w tip lo)
    (hr : ValidRun cfg.W tip lo steps tip' lo') (s : NSrv) :
    ((evolveN cfg ((w, s), tip) steps).1.1, (evolveN cfg ((w, s), tip) steps).2) = evolve cfg (w, tip) steps ∧
    replayEv tip (runEvents cfg (w, tip) steps) = some tip' ∧
    (evolveN cfg ((w, s), tip) steps).1.2.allDetached = s.allDetached ++ detachedOf (runEvents cfg (w, tip) steps) := by
  refine ⟨evolveN_proj cfg steps (w, s) tip, ?_, evolveN_detached cfg steps (w, s) tip⟩
  have := replay_run cfg hW hI hr []
  simpa [replayEv] using this

/-- What exactly the code emits for the notifications that do not move the tip: a disconnect for a block that is not on
    the best chain makes no call (no hash remembered at its height ⇒ the handler errors) or one `detached` call for
    that block — which a client ignores because the block is not on its chain; a repeated connect of the tip makes no
    call (predecessor not remembered) or one `attached(tip)` call; transaction notifications make none. -/
theorem C15_notifications_stale_and_repeated (cfg : Cfg) (w : Wallet) (tip : BlockId) :
    (∀ b : BlockId, ancestorAt tip b.length ≠ b →
      (blockEvents cfg w (.disconnected (stampOf cfg.C b)) = [] ∨
       blockEvents cfg w (.disconnected (stampOf cfg.C b)) = [.detached (some b)]) ∧
      ∀ rest, replayEv tip (blockEvents cfg w (.disconnected (stampOf cfg.C b)) ++ rest) = replayEv tip rest) ∧
    ((blockEvents cfg w (.connected (stampOf cfg.C tip)) = [] ∨
      blockEvents cfg w (.connected (stampOf cfg.C tip)) = [.attached (stampOf cfg.C tip)]) ∧
      ∀ rest, replayEv tip (blockEvents cfg w (.connected (stampOf cfg.C tip)) ++ rest) = replayEv tip rest) ∧
    (∀ t blk, blockEvents cfg w (.relevantTx t blk) = []) ∧ (∀ b ts, blockEvents cfg w (.filtered b ts) = []) := by
  refine ⟨fun b hb => ⟨?_, replay_stale tip b hb⟩, ⟨?_, replay_dupConnect tip⟩, fun _ _ => rfl, fun _ _ => rfl⟩
  · simp only [blockEvents]
    split
    · exact Or.inl rfl
    · split
      · exact Or.inr rfl
      · exact Or.inl rfl
  · simp only [blockEvents]
    split
    · exact Or.inr rfl
    · exact Or.inl rfl

/-- Delivery: a `notifyAttachedBlock(b)` call leaves `b` as the last attached block of the notification it delivers —
    or of the pending one, held back exactly while the wallet is chain-synced and the notification does not hold more
    attached than detached blocks. -/
theorem C15_notifications_attached_delivery (synced : Bool) (s : NSrv) (b : Stamp) :
    (∃ n e, (notifyAttached synced s b).cur = some n ∧ (notifyAttached synced s b).sent = s.sent ∧
      n.attached.getLast? = some e ∧ e.hash = b.hash ∧ synced = true ∧ n.attached.length ≤ n.detached.length) ∨
    (∃ n e, (notifyAttached synced s b).cur = none ∧ (notifyAttached synced s b).sent = s.sent ++ [n] ∧
      n.attached.getLast? = some e ∧ e.hash = b.hash ∧ (synced = false ∨ n.detached.length < n.attached.length)) :=
  notify_attached_last synced s b

/-- The start-up with the server computes the same wallet as the plain start-up model. -/
theorem C15_notifications_startup_proj (cfg : Cfg) (recW batch : Nat) (w : Wallet) (tip : BlockId) (during : List Ntfn) :
    ((startupDuringN cfg recW batch w tip during).1.1, (startupDuringN cfg recW batch w tip during).2)
      = startupDuring cfg recW batch w tip during :=
  startupDuringN_proj cfg recW batch w tip during

/-! Non-vacuity: the depth-2 reorg of `steps1` (wallet transaction 7 in block `[1]`, BlockConnected-before-RelevantTx
    order).  Calls: attach `[1]`, attach `[2,1]`, detach `[2,1]`, detach `[1]`, attach `[3]`, attach `[4,3]`.  The
    server delivered two notifications (the second one repeats block `[1]`, now with its transaction) and holds the
    reorg pending: 2 attached blocks are not more than 2 detached ones. -/
example : runEvents cfg1 (genesisWallet C1, []) steps1 =
    [.attached (stampOf C1 [1]), .attached (stampOf C1 [2, 1]), .detached (some [2, 1]), .detached (some [1]),
     .attached (stampOf C1 [3]), .attached (stampOf C1 [4, 3])] := by decide
example : replayEv [] (runEvents cfg1 (genesisWallet C1, []) steps1) = some [4, 3] :=
  (C15_notifications_follow_backend cfg1 (by decide) (inv_genesis cfg1 (by decide)) steps1_valid {}).2.1
example : (evolveN cfg1 ((genesisWallet C1, {}), []) steps1).1.2.sent =
      [{ attached := [⟨1, some [1], []⟩] }, { attached := [⟨1, some [1], [7]⟩, ⟨2, some [2, 1], []⟩] }] ∧
    (evolveN cfg1 ((genesisWallet C1, {}), []) steps1).1.2.cur =
      some { attached := [⟨1, some [3], []⟩, ⟨2, some [4, 3], []⟩], detached := [some [2, 1], some [1]] } := by decide
/-- one more block and the reorg is delivered in one notification -/
example : (evolveN cfg1 ((genesisWallet C1, {}), []) (steps1 ++ [.extend 5 .filtered])).1.2.sent.getLast? =
      some { attached := [⟨1, some [3], []⟩, ⟨2, some [4, 3], []⟩, ⟨3, some [5, 4, 3], []⟩],
             detached := [some [2, 1], some [1]] } := by decide

/-! ### Rescans on a running wallet: backend reconnects and key imports (round-2 seeds C02-4, C15-5)

A second `chain.ClientConnected` runs `syncWithChain` again on the running wallet (`resync`); `ImportPrivateKey(…,
rescan = true)` submits a rescan without touching the chain state.  In both cases the wallet stays chain-synced, the
backend answers with `RescanFinished` some time later (`rescanInFlight`), and block notifications keep arriving in
between.  Quantification: every wallet in sync (`Inv`), every valid evolution before and after `RescanFinished`, every
height/chain the `RescanFinished` may carry (see the hypothesis), every recovery window and batch size. -/

/-- `RescanFinished` on a wallet in sync changes nothing (it only re-asserts `chainSynced`). -/
theorem C15_rescan_finished_in_sync_noop (cfg : Cfg) {w : Wallet} {tip : BlockId} {lo : Nat} (hI : Inv cfg w tip lo)
    (now : BlockId) (n : Nat) (h : n ≤ tip.length ∨ now.length ≤ tip.length) :
    handle cfg w (.rescanFinished now n) = w :=
  rescanFinished_noop hI now n h

/-- **A rescan in flight does not disturb the tip tracking.**  Whatever valid evolution `s1` the backend goes through
    between the rescan request and `RescanFinished`, and `s2` afterwards, the wallet ends exactly where the evolution
    `s1 ++ s2` alone would have left it — in sync with the backend's final chain (`Inv`: synced-to stamp = tip, remembered
    hashes = best chain, no transaction confirmed in a block off the best chain).  Hypothesis on what `RescanFinished`
    carries: the wallet is by then at least as high as the chain the rescan was requested for (any `s1` that does not end
    lower), or the backend's chain at that moment is not higher than the wallet's. -/
theorem C15_rescan_in_flight (cfg : Cfg) (hW : 1 ≤ cfg.W) {w : Wallet} {tip : BlockId} {lo : Nat} {s1 : List Step}
    {tip1 : BlockId} {lo1 : Nat} {s2 : List Step} {tip2 : BlockId} {lo2 : Nat} (hI : Inv cfg w tip lo)
    (h1 : ValidRun cfg.W tip lo s1 tip1 lo1) (h2 : ValidRun cfg.W tip1 lo1 s2 tip2 lo2) (atCall now : BlockId)
    (hnow : atCall.length ≤ tip1.length ∨ now.length ≤ tip1.length) :
    rescanInFlight cfg w atCall now (runNtfns cfg.C tip s1) (runNtfns cfg.C tip1 s2) = (evolve cfg (w, tip) (s1 ++ s2)).1 ∧
    Inv cfg (rescanInFlight cfg w atCall now (runNtfns cfg.C tip s1) (runNtfns cfg.C tip1 s2)) tip2 lo2 := by
  have e := rescanInFlight_follows cfg hW hI h1 atCall now hnow s2
  exact ⟨e, by rw [e]; exact (run_preserves_inv cfg hW hI (h1.append h2)).1⟩

/-- A reconnect of a wallet in sync with the backend's chain changes nothing: the rollback loop stops at the tip,
    recovery has nothing to scan, the rescan from the tip reports no transaction.  Together with
    `C15_rescan_in_flight` (`atCall = tip`): a reorg delivered between the reconnect and its `RescanFinished` is
    followed like any other. -/
theorem C15_reconnect_in_sync (cfg : Cfg) {w : Wallet} {tip : BlockId} {lo : Nat} (hI : Inv cfg w tip lo)
    (recW batch : Nat) : resync cfg recW batch w tip = (w, true) :=
  resync_inSync hI recW batch

/-- Reconnect, any valid evolution while its rescan is in flight, `RescanFinished`, any valid evolution afterwards. -/
theorem C15_reconnect_then_reorg_during_rescan (cfg : Cfg) (hW : 1 ≤ cfg.W) {w : Wallet} {tip : BlockId} {lo : Nat}
    {s1 : List Step} {tip1 : BlockId} {lo1 : Nat} {s2 : List Step} {tip2 : BlockId} {lo2 : Nat} (hI : Inv cfg w tip lo)
    (recW batch : Nat) (h1 : ValidRun cfg.W tip lo s1 tip1 lo1) (h2 : ValidRun cfg.W tip1 lo1 s2 tip2 lo2)
    (now : BlockId) (hnow : tip.length ≤ tip1.length ∨ now.length ≤ tip1.length) :
    (resync cfg recW batch w tip).2 = true ∧
    Inv cfg (rescanInFlight cfg (resync cfg recW batch w tip).1 tip now (runNtfns cfg.C tip s1) (runNtfns cfg.C tip1 s2))
      tip2 lo2 := by
  rw [C15_reconnect_in_sync cfg hI recW batch]
  exact ⟨rfl, (C15_rescan_in_flight cfg hW hI h1 h2 tip now hnow).2⟩

/-- **Reconnect after an outage** (the backend moved to ANY chain `tip` while the connection was down): the rollback
    transaction fails and nothing is written (the handler stays in `waitForSync`), or `syncWithChain` reaches its rescan
    and `RescanFinished` leaves the wallet in sync with `tip` — the state `C15_tip` / `C15_hashes` /
    `C15_no_offchain_tx` / `C15_rescan_in_flight` start from. -/
theorem C15_reconnect_total (cfg : Cfg) (hW : 1 ≤ cfg.W) {w : Wallet} {old : BlockId} {lo : Nat}
    (hI : Inv cfg w old lo) (tip : BlockId) (recW batch : Nat) :
    ((∃ e, startupRollback cfg w tip = .error e) ∧ resync cfg recW batch w tip = (w, false)) ∨
    (∃ w1 c, resync cfg recW batch w tip = (w1, true) ∧ IsLastCommon old tip c ∧ old.length ≤ tip.length ∧
      Inv cfg (handle cfg w1 (.rescanFinished tip tip.length)) tip (startupLo cfg.W lo c tip.length)) :=
  resync_total cfg hW hI tip recW batch

/-- Start-up is the same `syncWithChain` on the freshly opened, not yet chain-synced wallet; and the version with the
    notification server computes the same wallet. -/
theorem C15_startup_is_resync (cfg : Cfg) (recW batch : Nat) (w : Wallet) (tip : BlockId) (during : List Ntfn) (s : NSrv) :
    startupDuring cfg recW batch w tip during =
      (if (resync cfg recW batch { w with chainSynced := false } tip).2
       then process cfg (resync cfg recW batch { w with chainSynced := false } tip).1
              (during ++ [.rescanFinished tip tip.length])
       else (resync cfg recW batch { w with chainSynced := false } tip).1,
       (resync cfg recW batch { w with chainSynced := false } tip).2) ∧
    ((resyncN cfg recW batch (w, s) tip).1.1, (resyncN cfg recW batch (w, s) tip).2) = resync cfg recW batch w tip :=
  ⟨startupDuring_eq_resync cfg recW batch w tip during, resyncN_proj cfg recW batch (w, s) tip⟩

/-! Non-vacuity and the counter-example the two seeded changes realise.  The wallet is in sync with `[2,1]`, wallet
    transaction 7 confirmed in block `[1]`; a rescan is requested (import from genesis, or a reconnect), the backend
    reorganises to `[4,3]` (depth 2), then `RescanFinished(height 2)`. -/
def wSync1 : Wallet := (evolve cfg1 (genesisWallet C1, []) [.extend 1 .after, .extend 2 .after]).1

theorem wSync1_inv : Inv cfg1 wSync1 [2, 1] 0 :=
  (run_preserves_inv cfg1 (by decide) (inv_genesis cfg1 (by decide))
    (.cons trivial (.cons trivial (.nil _ _)) : ValidRun 10000 [] 0 [.extend 1 .after, .extend 2 .after] [2, 1] 0)).1

theorem window1_valid : ValidRun 10000 [2, 1] 0 [.reorg 2 [3, 4] .after] [4, 3] 0 :=
  .cons ⟨by decide, by decide⟩ (.nil _ _)

example : wSync1.mined = [⟨⟨7, false⟩, 1, some [1]⟩] := by decide
/-- the code as it is: the reorg of the window is followed, transaction 7 is unconfirmed again -/
example :
    (rescanInFlight cfg1 wSync1 [2, 1] [4, 3] (runNtfns C1 [2, 1] [.reorg 2 [3, 4] .after]) []).syncedTo = stampOf C1 [4, 3] ∧
    (rescanInFlight cfg1 wSync1 [2, 1] [4, 3] (runNtfns C1 [2, 1] [.reorg 2 [3, 4] .after]) []).mined = [] ∧
    (rescanInFlight cfg1 wSync1 [2, 1] [4, 3] (runNtfns C1 [2, 1] [.reorg 2 [3, 4] .after]) []).unmined = [⟨7, false⟩] := by
  decide
/-- … and the theorem applies to it -/
example : Inv cfg1 (rescanInFlight cfg1 wSync1 [2, 1] [4, 3] (runNtfns C1 [2, 1] [.reorg 2 [3, 4] .after]) (runNtfns C1 [4, 3] []))
    [4, 3] 0 :=
  (C15_rescan_in_flight cfg1 (by decide) wSync1_inv window1_valid (.nil _ _) [2, 1] [4, 3] (Or.inl (by decide))).2
/-- a wallet marked not chain-synced for the duration of the rescan (seeded changes C02-4 on the reconnect path, C15-5
    in `rescanRPCHandler`): both disconnects are dropped, the connects of the new branch move the tip, and after
    `RescanFinished` the wallet reports itself in sync with `[4,3]` while transaction 7 stays confirmed in the stale
    block `[1]` — for ever: the next start-up's rollback loop finds the tip hash equal to the backend's. -/
example :
    (rescanInFlight cfg1 { wSync1 with chainSynced := false } [2, 1] [4, 3] (runNtfns C1 [2, 1] [.reorg 2 [3, 4] .after]) []).syncedTo
      = stampOf C1 [4, 3] ∧
    (rescanInFlight cfg1 { wSync1 with chainSynced := false } [2, 1] [4, 3] (runNtfns C1 [2, 1] [.reorg 2 [3, 4] .after]) []).chainSynced
      = true ∧
    (rescanInFlight cfg1 { wSync1 with chainSynced := false } [2, 1] [4, 3] (runNtfns C1 [2, 1] [.reorg 2 [3, 4] .after]) []).mined
      = [⟨⟨7, false⟩, 1, some [1]⟩] ∧
    (startup cfg1 0 2000
      (rescanInFlight cfg1 { wSync1 with chainSynced := false } [2, 1] [4, 3] (runNtfns C1 [2, 1] [.reorg 2 [3, 4] .after]) [])
      [4, 3]).1.mined = [⟨⟨7, false⟩, 1, some [1]⟩] := by
  decide
/-- reconnect after an outage during which the backend reorganised `[2,1]` → `[5,4,1]`: rolled back to `[1]`, rescanned,
    caught up — with and without a recovery window -/
example : (handle cfg2 (resync cfg2 0 2000 wOld2 [5, 4, 1]).1 (.rescanFinished [5, 4, 1] 3)).syncedTo = stampOf C2 [5, 4, 1] ∧
    (handle cfg2 (resync cfg2 0 2000 wOld2 [5, 4, 1]).1 (.rescanFinished [5, 4, 1] 3)).mined = [⟨⟨7, false⟩, 2, some [4, 1]⟩] ∧
    (handle cfg2 (resync cfg2 3 1 wOld2 [5, 4, 1]).1 (.rescanFinished [5, 4, 1] 3)).mined = [⟨⟨7, false⟩, 2, some [4, 1]⟩] := by
  decide

end SyncTip
