/-
C15 — The wallet's view of the chain tip follows the backend through reorgs.
Property theorems about `SyncTip` (model of wallet/chainntfns.go connectBlock/disconnectBlock/addRelevantTx,
waddrmgr PutSyncedTo, and the syncWithChain start-up rollback).  Proofs live in Lemmas/SyncTipEvolve.lean and
Lemmas/SyncTipStartup.lean; specification vocabulary (Inv, ValidStep, ValidRun, IsLastCommon) in Lemmas/SyncTipDefs.lean.

Quantification: every valid evolution (`ValidRun`: extensions, reorgs of any depth that leave the block below the
fork point remembered, stale and repeated disconnects, repeated connects and transaction notifications, unconfirmed
transactions), every placement of wallet transactions in blocks (`Content.txs` arbitrary), the three notification
orders (`TxMode`), every window `W ≥ 1`; start-up: every old chain and every new backend chain.
-/
import BtcwVerif.Lemmas.SyncTipEvolve
import BtcwVerif.Lemmas.SyncTipStartup
namespace SyncTip

/-- Chains are lists with parent links: the same hash at height `h` means the same chain below `h`. -/
theorem C15_same_hash_same_below (a b : BlockId) (h k : Nat) (hk : k ≤ h) (ha : h ≤ a.length) (hb : h ≤ b.length)
    (e : ancestorAt a h = ancestorAt b h) : ancestorAt a k = ancestorAt b k :=
  same_hash_same_below a b h k hk ha hb e

/-- After any valid evolution the synced-to stamp (height, hash, time) is the backend's tip. -/
theorem C15_tip (cfg : Cfg) (hW : 1 ≤ cfg.W) {w : Wallet} {tip : BlockId} {lo : Nat} {steps : List Step}
    {tip' : BlockId} {lo' : Nat} (hI : Inv cfg w tip lo) (hr : ValidRun cfg.W tip lo steps tip' lo') :
    (evolve cfg (w, tip) steps).2 = tip' ∧ (evolve cfg (w, tip) steps).1.syncedTo = stampOf cfg.C tip' :=
  ⟨(run_preserves_inv cfg hW hI hr).2, tip_follows_backend cfg hW hI hr⟩

/-- Every remembered hash at a height ≤ tip is the best chain's; every height in `[lo', tip]` is remembered, and
    `lo' ≤ max lo (maxTip + 1 − W)`: the heights in `(maxTip − W, tip]` (at or above the initial `lo`) are remembered,
    where `maxTip` is the highest tip the evolution reached (pruning at `height − W` is not undone by a reorg). -/
theorem C15_hashes (cfg : Cfg) (hW : 1 ≤ cfg.W) {w : Wallet} {tip : BlockId} {lo : Nat} {steps : List Step}
    {tip' : BlockId} {lo' : Nat} (hI : Inv cfg w tip lo) (hr : ValidRun cfg.W tip lo steps tip' lo') :
    let w' := (evolve cfg (w, tip) steps).1
    (∀ h x, h ≤ tip'.length → w'.hashes h = some x → x = some (ancestorAt tip' h)) ∧
    (∀ h, lo ≤ h → maxTip tip steps + 1 - cfg.W ≤ h → h ≤ tip'.length → w'.hashes h = some (some (ancestorAt tip' h))) :=
  ⟨fun h x hh hx => (window_hashes_match cfg hW hI hr h hh).1 x hx, remembered_range cfg hW hI hr⟩

/-- No transaction is recorded as confirmed in a block that is not on the best chain. -/
theorem C15_no_offchain_tx (cfg : Cfg) (hW : 1 ≤ cfg.W) {w : Wallet} {tip : BlockId} {lo : Nat} {steps : List Step}
    {tip' : BlockId} {lo' : Nat} (hI : Inv cfg w tip lo) (hr : ValidRun cfg.W tip lo steps tip' lo') :
    ∀ r ∈ (evolve cfg (w, tip) steps).1.mined, r.height ≤ tip'.length ∧ r.hash = some (ancestorAt tip' r.height) :=
  no_tx_off_chain cfg hW hI hr

/-- A disconnect for a block that is not on the best chain (stale, or a repeat of one already processed), and a
    repeated connect of the tip, leave the wallet in sync; the former does not change the state at all. -/
theorem C15_stale_and_repeated_disconnects_are_noops (cfg : Cfg) (hW : 1 ≤ cfg.W) {w : Wallet} {tip : BlockId} {lo : Nat}
    (hI : Inv cfg w tip lo) :
    (∀ b : BlockId, ancestorAt tip b.length ≠ b → handle cfg w (.disconnected (stampOf cfg.C b)) = w) ∧
    Inv cfg (handle cfg w (.connected (stampOf cfg.C tip))) tip lo :=
  ⟨fun b hb => stale_disconnect_noop hI b hb, dup_connect hW hI⟩

/-- Start-up, total outcome: the rollback transaction fails and writes nothing, or the wallet ends at the last block
    its chain has in common with the backend's, with the transaction store rolled back to it. -/
theorem C15_startup (cfg : Cfg) {w : Wallet} {old : BlockId} {lo : Nat} (hS : StoppedInv cfg w old lo) (tip : BlockId) :
    (∃ e, startupRollback cfg w tip = .error e) ∨
    (∃ w' c, startupRollback cfg w tip = .ok w' ∧ IsLastCommon old tip c ∧
        w'.syncedTo = stampOf cfg.C (ancestorAt tip c) ∧
        w'.mined = rollbackMined w.mined (c + 1) ∧
        w'.unmined = (if c < old.length then rollbackUnmined w.mined w.unmined (c + 1) else w.unmined) ∧
        (∀ h x, h ≤ c → w'.hashes h = some x → x = some (ancestorAt tip h)) ∧
        (∀ h, lo ≤ h → h ≤ c → w'.hashes h = some (some (ancestorAt tip h))) ∧
        MinedOn w' tip) :=
  startup_rolls_to_common cfg hS tip

/-- The loop itself succeeds whenever the backend is at least as high as the wallet's tip and the common block is
    within the remembered range. -/
theorem C15_startup_loop_succeeds (C : Content) (w : Wallet) (old tip : BlockId) (lo c : Nat)
    (hrem : ∀ h, lo ≤ h → h ≤ old.length → w.hashes h = some (some (ancestorAt old h)))
    (hlen : old.length ≤ tip.length) (hcm : IsLastCommon old tip c) (hlo : lo ≤ c) :
    ∃ res, rollbackLoop C w tip old.length false = .ok res :=
  rollbackLoop_succeeds C w old tip lo c hrem hlen hcm hlo old.length false hcm.1 (Nat.le_refl _)

/-! Non-vacuity: the genesis wallet satisfies the invariant; a concrete evolution with a depth-2 reorg over a block
    holding a wallet transaction is a `ValidRun` (see `steps1_valid`) and the theorems apply to it. -/
example : Inv cfg1 (genesisWallet cfg1.C) [] 0 := inv_genesis cfg1 (by decide)
example : (evolve cfg1 (genesisWallet C1, []) steps1).1.syncedTo = stampOf C1 [4, 3] :=
  (C15_tip cfg1 (by decide) (inv_genesis cfg1 (by decide)) steps1_valid).2
/-- start-up after an offline depth-2 reorg: the wallet (in sync with [2,1]) rolls back to genesis against [5,4,3] -/
example : ∃ w', startupRollback cfg0 (evolve cfg0 (genesisWallet C0, []) [.extend 1 .after, .extend 2 .after]).1 [5, 4, 3] = .ok w' ∧
    w'.syncedTo = stampOf C0 [] := by
  refine ⟨_, rfl, ?_⟩
  decide

end SyncTip
