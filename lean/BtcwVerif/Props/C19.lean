/-
C19 — Database upgrades apply each pending migration once, in order, or not at all.
Property theorems about `Migration` (model of walletdb/migration/manager.go).  Only property statements,
their proofs and non-vacuity examples live here.
-/
import BtcwVerif.Model.Migration
namespace Migration

theorem insertV_perm (v : Version) (l : List Version) : (insertV v l).Perm (v :: l) := by
  induction l with
  | nil => exact List.Perm.refl _
  | cons w ws ih =>
    unfold insertV; split
    · exact List.Perm.refl _
    · exact (List.Perm.cons w ih).trans (List.Perm.swap v w ws)

theorem sortVs_perm (vs : List Version) : (sortVs vs).Perm vs := by
  induction vs with
  | nil => exact List.Perm.refl _
  | cons v vs ih => exact (insertV_perm v _).trans (List.Perm.cons v ih)

theorem insertV_sorted (v : Version) (l : List Version)
    (h : l.Pairwise (fun a b => a.number ≤ b.number)) :
    (insertV v l).Pairwise (fun a b => a.number ≤ b.number) := by
  induction l with
  | nil => simp [insertV]
  | cons w ws ih =>
    have ⟨hw, hws⟩ := List.pairwise_cons.mp h
    unfold insertV; split
    · rename_i hlt
      refine List.pairwise_cons.mpr ⟨?_, h⟩
      intro x hx
      rcases List.mem_cons.mp hx with rfl | hx
      · exact Nat.le_of_lt hlt
      · exact Nat.le_trans (Nat.le_of_lt hlt) (hw x hx)
    · rename_i hge
      refine List.pairwise_cons.mpr ⟨?_, ih hws⟩
      intro x hx
      rcases List.mem_cons.mp ((insertV_perm v ws).mem_iff.mp hx) with rfl | hx
      · exact Nat.le_of_not_lt hge
      · exact hw x hx

theorem sortVs_sorted (vs : List Version) : (sortVs vs).Pairwise (fun a b => a.number ≤ b.number) := by
  induction vs with
  | nil => exact List.Pairwise.nil
  | cons v vs ih => exact insertV_sorted v _ ih

/-- The event a non-nil version contributes when its migration succeeds. -/
def okEv (v : Version) : Option Ev := v.mig.map (Ev.applied v.number)

/-! ### `latest` is the maximum number of the table (0 when empty) -/

theorem latest_nil : latest [] = 0 := by simp [latest, sortVs]

theorem latest_ge (vs : List Version) (v : Version) (hv : v ∈ vs) : v.number ≤ latest vs := by
  unfold latest
  have hs := sortVs_sorted vs
  have hm : v ∈ sortVs vs := (sortVs_perm vs).mem_iff.mpr hv
  cases hl : (sortVs vs).getLast? with
  | none => rw [List.getLast?_eq_none_iff] at hl; rw [hl] at hm; cases hm
  | some w =>
    simp only
    obtain ⟨ys, hys⟩ := List.getLast?_eq_some_iff.mp hl
    rw [hys] at hs hm
    rcases List.mem_append.mp hm with h | h
    · exact (List.pairwise_append.mp hs).2.2 v h w (by simp)
    · simp at h; subst h; exact Nat.le_refl _

theorem latest_mem (vs : List Version) (h : vs ≠ []) : ∃ v ∈ vs, v.number = latest vs := by
  unfold latest
  cases hl : (sortVs vs).getLast? with
  | none =>
    rw [List.getLast?_eq_none_iff] at hl
    have := (sortVs_perm vs).length_eq; rw [hl] at this
    exact absurd (List.eq_nil_of_length_eq_zero this.symm) h
  | some w =>
    exact ⟨w, (sortVs_perm vs).mem_iff.mp (List.mem_of_getLast? hl), rfl⟩

/-! ### C19: which migrations, in which order -/

/-- The versions selected are exactly those numbered above the stored version (as a multiset), in ascending
order — whatever order the table declares them in. -/
theorem C19_to_apply (cur : Nat) (vs : List Version) :
    (versionsToApply cur vs).Perm (vs.filter (fun v => v.number > cur)) ∧
    (versionsToApply cur vs).Pairwise (fun a b => a.number ≤ b.number) :=
  ⟨sortVs_perm _, sortVs_sorted _⟩

/-- Declaration order is irrelevant up to the order of equal-numbered entries. -/
theorem C19_order_independent (cur : Nat) (vs ws : List Version) (h : vs.Perm ws) :
    (versionsToApply cur vs).Perm (versionsToApply cur ws) :=
  ((sortVs_perm _).trans (h.filter _)).trans (sortVs_perm _).symm

theorem runMigs_ok (fails : Nat → Bool) (l : List Version)
    (h : ∀ v ∈ l, ∀ id, v.mig = some id → fails id = false) :
    runMigs fails l = (l.filterMap okEv, none) := by
  induction l with
  | nil => rfl
  | cons v rest ih =>
    have ih' := ih (fun u hu => h u (List.mem_cons_of_mem _ hu))
    cases hm : v.mig with
    | none => simp [runMigs, hm, ih', okEv]
    | some id =>
      have hf := h v (List.mem_cons_self) id hm
      simp [runMigs, hm, hf, ih', okEv]

/-- Successful upgrade: every pending non-nil migration runs exactly once, in ascending order, nil ones are
skipped, and recording the latest version is the last thing that happens. -/
theorem C19_upgrade_ok (cur : Nat) (vs : List Version) (fails : Nat → Bool)
    (hlt : cur < latest vs)
    (hok : ∀ v ∈ vs, ∀ id, v.mig = some id → fails id = false) :
    upgrade (some cur) vs fails false =
      { trace := (versionsToApply cur vs).filterMap okEv ++ [.setVersion (latest vs)],
        err := none, version := latest vs } := by
  have hok' : ∀ v ∈ versionsToApply cur vs, ∀ id, v.mig = some id → fails id = false := by
    intro v hv id hid
    have : v ∈ vs.filter (fun v => v.number > cur) := (sortVs_perm _).mem_iff.mp hv
    exact hok v (List.mem_filter.mp this).1 id hid
  simp [upgrade, Nat.not_lt.mpr (Nat.le_of_lt hlt), hlt, runMigs_ok fails _ hok']

/-- "Each once": the multiset of migration ids run by a successful upgrade is exactly the multiset of non-nil
migrations numbered above the stored version. -/
theorem C19_each_once (cur : Nat) (vs : List Version) :
    ((versionsToApply cur vs).filterMap (·.mig)).Perm
      ((vs.filter (fun v => v.number > cur)).filterMap (·.mig)) :=
  (sortVs_perm _).filterMap _

/-- General shape of the loop's trace: migrations of a prefix of the sorted pending list, then either nothing
(all succeeded) or the single failing one. -/
theorem runMigs_shape (fails : Nat → Bool) (l : List Version) :
    (∃ e, (runMigs fails l).2 = some e ∧
      ∃ pre v id rest, l = pre ++ v :: rest ∧ v.mig = some id ∧ fails id = true ∧
        e = .migration v.number id ∧
        (∀ u ∈ pre, ∀ i, u.mig = some i → fails i = false) ∧
        (runMigs fails l).1 = pre.filterMap okEv ++ [.failed v.number id]) ∨
    ((runMigs fails l).2 = none ∧ (runMigs fails l).1 = l.filterMap okEv ∧
      ∀ u ∈ l, ∀ i, u.mig = some i → fails i = false) := by
  induction l with
  | nil => right; simp [runMigs]
  | cons v rest ih =>
    cases hm : v.mig with
    | none =>
      rcases ih with ⟨e, he, pre, w, id, rs, hl, hw, hf, hee, hpre, htr⟩ | ⟨h1, h2, h3⟩
      · left; refine ⟨e, by simpa [runMigs, hm] using he, v :: pre, w, id, rs, by simp [hl], hw, hf, hee, ?_, ?_⟩
        · intro u hu i hi
          rcases List.mem_cons.mp hu with rfl | hu
          · rw [hm] at hi; cases hi
          · exact hpre u hu i hi
        · simp [runMigs, hm, htr, okEv]
      · right; refine ⟨by simpa [runMigs, hm] using h1, by simp [runMigs, hm, h2, okEv], ?_⟩
        intro u hu i hi
        rcases List.mem_cons.mp hu with rfl | hu
        · rw [hm] at hi; cases hi
        · exact h3 u hu i hi
    | some id =>
      cases hf : fails id with
      | true =>
        left; exact ⟨.migration v.number id, by simp [runMigs, hm, hf], [], v, id, rest, rfl, hm, hf, rfl,
          by simp, by simp [runMigs, hm, hf]⟩
      | false =>
        rcases ih with ⟨e, he, pre, w, id', rs, hl, hw, hf', hee, hpre, htr⟩ | ⟨h1, h2, h3⟩
        · left; refine ⟨e, by simpa [runMigs, hm, hf] using he, v :: pre, w, id', rs, by simp [hl], hw, hf', hee, ?_, ?_⟩
          · intro u hu i hi
            rcases List.mem_cons.mp hu with rfl | hu
            · rw [hm] at hi; cases hi; exact hf
            · exact hpre u hu i hi
          · simp [runMigs, hm, hf, htr, okEv]
        · right; refine ⟨by simpa [runMigs, hm, hf] using h1, by simp [runMigs, hm, hf, h2, okEv], ?_⟩
          intro u hu i hi
          rcases List.mem_cons.mp hu with rfl | hu
          · rw [hm] at hi; cases hi; exact hf
          · exact h3 u hu i hi

theorem runMigs_no_setVersion (fails : Nat → Bool) (l : List Version) (x : Nat) :
    Ev.setVersion x ∉ (runMigs fails l).1 := by
  induction l with
  | nil => simp [runMigs]
  | cons v rest ih =>
    cases hm : v.mig with
    | none => simpa [runMigs, hm] using ih
    | some id =>
      cases hf : fails id <;> simp [runMigs, hm, hf]
      exact ih

/-- A failing upgrade (a migration fails, recording the version fails, or the version cannot be read) leaves the
stored version unchanged and never records a version. -/
theorem C19_fail_keeps_version (cur : Nat) (vs : List Version) (fails : Nat → Bool) (sf : Bool)
    (h : (upgrade (some cur) vs fails sf).err ≠ none) :
    (upgrade (some cur) vs fails sf).version = cur ∧
    ∀ x, Ev.setVersion x ∉ (upgrade (some cur) vs fails sf).trace := by
  unfold upgrade at h ⊢
  by_cases h1 : cur > latest vs
  · simp [h1]
  · by_cases h2 : cur < latest vs
    · simp only [h1, h2, if_true, if_false] at h ⊢
      have hns := runMigs_no_setVersion fails (versionsToApply cur vs)
      rcases hr : runMigs fails (versionsToApply cur vs) with ⟨tr, e⟩
      rw [hr] at hns
      cases e with
      | some e => exact ⟨rfl, hns⟩
      | none =>
        cases sf with
        | true =>
          refine ⟨rfl, ?_⟩
          intro x hx; simp at hx; exact hns x hx
        | false => simp [hr] at h
    · simp [h1, h2] at h

/-- When a migration fails, what ran before it is exactly the ascending prefix of pending migrations, each once;
nothing after the failing one runs. -/
theorem C19_fail_prefix (cur : Nat) (vs : List Version) (fails : Nat → Bool) (sf : Bool) (n id : Nat)
    (h : (upgrade (some cur) vs fails sf).err = some (.migration n id)) :
    ∃ pre v rest, versionsToApply cur vs = pre ++ v :: rest ∧ v.mig = some id ∧ v.number = n ∧ fails id = true ∧
      (∀ u ∈ pre, ∀ i, u.mig = some i → fails i = false) ∧
      (upgrade (some cur) vs fails sf).trace = pre.filterMap okEv ++ [.failed n id] := by
  unfold upgrade at h ⊢
  by_cases h1 : cur > latest vs
  · simp [h1] at h
  · by_cases h2 : cur < latest vs
    · simp only [h1, h2, if_true, if_false] at h ⊢
      rcases runMigs_shape fails (versionsToApply cur vs) with ⟨e, he, pre, v, i, rest, hl, hv, hf, hee, hpre, htr⟩ | ⟨hn, _, _⟩
      · rcases hr : runMigs fails (versionsToApply cur vs) with ⟨tr, e'⟩
        rw [hr] at he htr h
        simp only at he htr; subst he
        simp only at h
        rw [hee] at h; injection h with h; injection h with hn hi
        subst hn; subst hi
        exact ⟨pre, v, rest, hl, hv, rfl, hf, hpre, htr⟩
      · rcases hr : runMigs fails (versionsToApply cur vs) with ⟨tr, e'⟩
        rw [hr] at hn h; simp only at hn; subst hn
        cases sf <;> simp at h
    · simp [h1, h2] at h

/-- Inside one managed database transaction a failed upgrade changes nothing at all. -/
theorem C19_fail_in_tx (db : DB) (vs : List Version) (fails : Nat → Bool) (sf : Bool)
    (h : (upgradeInTx db vs fails sf).2 ≠ none) : (upgradeInTx db vs fails sf).1 = db := by
  unfold upgradeInTx at h ⊢
  cases he : (upgrade (some db.version) vs fails sf).err with
  | none => simp [he] at h
  | some e => simp [he]

/-- Outside a transaction the data of completed migrations may persist but the stored version still does not move. -/
theorem C19_fail_no_tx_version (db : DB) (vs : List Version) (fails : Nat → Bool) (sf : Bool)
    (h : (upgradeNoTx db vs fails sf).2 ≠ none) : (upgradeNoTx db vs fails sf).1.version = db.version := by
  unfold upgradeNoTx at h ⊢
  exact (C19_fail_keeps_version db.version vs fails sf h).1

/-- A database newer than the software is refused and nothing is run or written. -/
theorem C19_newer_refused (cur : Nat) (vs : List Version) (fails : Nat → Bool) (sf : Bool)
    (h : cur > latest vs) :
    upgrade (some cur) vs fails sf = { trace := [], err := some .reversion, version := cur } := by
  simp [upgrade, h]

theorem C19_newer_refused_in_tx (db : DB) (vs : List Version) (fails : Nat → Bool) (sf : Bool)
    (h : db.version > latest vs) : upgradeInTx db vs fails sf = (db, some .reversion) := by
  simp [upgradeInTx, C19_newer_refused _ vs fails sf h]

theorem C19_equal_noop (vs : List Version) (fails : Nat → Bool) (sf : Bool) :
    upgrade (some (latest vs)) vs fails sf = { trace := [], err := none, version := latest vs } := by
  simp [upgrade]

/-- After a successful upgrade the stored version is the largest declared number (and at least every entry's). -/
theorem C19_ok_version (cur : Nat) (vs : List Version) (fails : Nat → Bool) (sf : Bool)
    (h : (upgrade (some cur) vs fails sf).err = none) :
    (upgrade (some cur) vs fails sf).version = latest vs ∧ ∀ v ∈ vs, v.number ≤ latest vs := by
  refine ⟨?_, latest_ge vs⟩
  unfold upgrade at h ⊢
  by_cases h1 : cur > latest vs
  · simp [h1] at h
  · by_cases h2 : cur < latest vs
    · simp only [h1, h2, if_true, if_false] at h ⊢
      rcases hr : runMigs fails (versionsToApply cur vs) with ⟨tr, e⟩
      rw [hr] at h
      cases e with
      | some e => simp at h
      | none => cases sf <;> simp at h ⊢
    · have : cur = latest vs := by omega
      simp [this]

/-- Running the upgrade again after success is a no-op (each migration runs once over any number of restarts). -/
theorem C19_idempotent (db : DB) (vs : List Version) (fails : Nat → Bool) (sf : Bool)
    (h : (upgradeInTx db vs fails sf).2 = none) (fails' : Nat → Bool) (sf' : Bool) :
    upgradeInTx (upgradeInTx db vs fails sf).1 vs fails' sf' = ((upgradeInTx db vs fails sf).1, none) := by
  unfold upgradeInTx at h
  cases he : (upgrade (some db.version) vs fails sf).err with
  | some e => simp [he] at h
  | none =>
    have hv := (C19_ok_version db.version vs fails sf he).1
    simp only [upgradeInTx, he, hv, C19_equal_noop, applied, List.append_nil]

/-- Several components upgraded inside one database transaction (as `wallet.Open` does for the transaction
manager and the address manager): if any of them fails or refuses, none of them is modified. -/
theorem C19_many_fail_in_tx (comps : List (DB × List Version)) (fails : Nat → Bool)
    (h : (upgradeManyInTx comps fails).2 ≠ none) :
    (upgradeManyInTx comps fails).1 = comps.map (·.1) := by
  unfold upgradeManyInTx at h ⊢
  rcases hr : upgradeManyLoop fails comps with ⟨dbs, e⟩
  cases e with
  | none => simp [hr] at h
  | some e => simp

theorem upgradeManyLoop_ok (fails : Nat → Bool) (comps : List (DB × List Version))
    (h : (upgradeManyLoop fails comps).2 = none) :
    (upgradeManyLoop fails comps).1 = comps.map (fun c => (upgradeInTx c.1 c.2 fails false).1) ∧
    ∀ c ∈ comps, (upgradeInTx c.1 c.2 fails false).2 = none := by
  induction comps with
  | nil => simp [upgradeManyLoop]
  | cons c rest ih =>
    obtain ⟨db, vs⟩ := c
    unfold upgradeManyLoop at h ⊢
    cases he : (upgrade (some db.version) vs fails false).err with
    | some e => simp [he] at h
    | none =>
      simp only [he] at h ⊢
      have ih' := ih h
      refine ⟨?_, ?_⟩
      · simp [ih'.1, upgradeInTx, he]
      · intro c hc
        rcases List.mem_cons.mp hc with rfl | hc
        · simp [upgradeInTx, he]
        · exact ih'.2 c hc

/-- … and if all succeed, each component ends exactly as if upgraded alone (each at its own latest version). -/
theorem C19_many_ok_in_tx (comps : List (DB × List Version)) (fails : Nat → Bool)
    (h : (upgradeManyInTx comps fails).2 = none) :
    (upgradeManyInTx comps fails).1 = comps.map (fun c => (upgradeInTx c.1 c.2 fails false).1) ∧
    ∀ c ∈ comps, (upgradeInTx c.1 c.2 fails false).2 = none := by
  unfold upgradeManyInTx at h ⊢
  rcases hr : upgradeManyLoop fails comps with ⟨dbs, e⟩
  cases e with
  | some e => simp [hr] at h
  | none =>
    have := upgradeManyLoop_ok fails comps (by rw [hr])
    rw [hr] at this
    simpa using this

example : (upgradeManyInTx [(⟨1, []⟩, [⟨1, none⟩, ⟨2, some 20⟩]), (⟨10, []⟩, [⟨9, some 90⟩])] (fun _ => false)).2
    = some .reversion := by decide

/-! ### Non-vacuity: concrete tables meeting the hypotheses -/

def exTable : List Version := [⟨3, some 30⟩, ⟨1, some 10⟩, ⟨2, none⟩, ⟨4, some 40⟩]

example : latest exTable = 4 := by decide
example : 1 < latest exTable ∧ (∀ v ∈ exTable, ∀ id, v.mig = some id → (fun _ => false) id = false) := by
  exact ⟨by decide, fun _ _ _ _ => rfl⟩
example : (upgrade (some 1) exTable (fun _ => false) false).trace
    = [.applied 3 30, .applied 4 40, .setVersion 4] := by decide
example : (upgrade (some 1) exTable (fun i => i == 40) false).err = some (.migration 4 40) := by decide
example : (upgrade (some 1) exTable (fun i => i == 40) false).trace = [.applied 3 30, .failed 4 40] := by decide
example : 5 > latest exTable := by decide

end Migration
