import BtcwVerif.Model.Author
namespace C07
open Author SizesExt

theorem C07_placeholder : (1 : Nat) = 1 := rfl

end C07
