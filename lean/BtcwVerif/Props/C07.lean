/-
C07 — authored transactions conserve value and pay at least the requested fee rate; no dust / zero change;
"insufficient funds" only when the offered coins cannot cover outputs + required fee.

This file is for the tree WITH fix-C07-F4 (EstimateVirtualSize sizes the output-count var-int from `outputCount`) and
fix-C07-F5 (the first target fee of NewUnsignedTransaction assumes no input).  The variant for the tree before those
fixes (`_partial` theorems + counter-examples on the generated code) is kept in repo-patches/C07-unfixed-tree/C07.lean.

Layout
  1. translation facts: the arithmetic GENERATED from the current working tree (`SizesGen`, via `Author.genCfg`) equals
     the closed forms of `AuthorSpec`.  A change of a constant or of a formula in size.go / rules.go breaks these.
  2. the property theorems for `Author.newUnsigned` (the model of txauthor.NewUnsignedTransaction over that arithmetic).
-/
import BtcwVerif.Lemmas.Author

namespace C07
open SizesExt Author AuthorSpec
local notation "varint" => wire_VarIntSerializeSize

/-! ## 1. translation facts -/

theorem foldl_sizes (l : List TxOut) : ∀ a : Int,
    List.foldl (fun (acc : Int) (o : TxOut) => acc + TxOut.SerializeSize o) a l = a + sumOutSizes l := by
  induction l with
  | nil => intro a; simp [sumOutSizes]
  | cons x xs ih => intro a; simp only [List.foldl_cons, ih, sumOutSizes]; omega

theorem foldl_vals (l : List TxOut) : ∀ a : Int,
    List.foldl (fun (acc : Int) (o : TxOut) => acc + o.Value) a l = a + sumOuts l := by
  induction l with
  | nil => intro a; simp [sumOuts]
  | cons x xs ih => intro a; simp only [List.foldl_cons, ih, sumOuts]; omega

theorem gen_sumSizes (outs : List TxOut) : SizesGen.SumOutputSerializeSizes outs = sumOutSizes outs := by
  unfold SizesGen.SumOutputSerializeSizes
  simp only [foldl_sizes]; omega

/-- generated `SumOutputValues` = sum of the output values -/
theorem C07_gen_sum : SumOK genCfg := by
  constructor
  intro outs
  simp only [genCfg, SizesGen.SumOutputValues, foldl_vals]; omega

/-- generated `FeeForSerializeSize` = closed form (non-negative arguments) -/
theorem C07_gen_fee : FeeOK genCfg := by
  constructor
  intro rate size hr hs
  have h0 : 0 ≤ rate * size := Int.mul_nonneg hr hs
  simp only [genCfg, SizesGen.FeeForSerializeSize, AuthorSpec.feeFor, maxSatoshi]
  rw [Int.tdiv_eq_ediv_of_nonneg h0]
  rfl

/-- generated `IsDustOutput(·, DefaultRelayFeePerKb)` = closed form, and the relay floor is 1000 -/
theorem C07_gen_dust : DustOK genCfg := by
  constructor
  intro o
  simp only [genCfg, SizesGen.IsDustOutput, SizesGen.DefaultRelayFeePerKb, AuthorSpec.isDust, txscript_GetScriptClass,
    txscript_NullDataTy]
  by_cases h : o.PkScript.isNullData = true <;> simp [h]

/-- generated `EstimateVirtualSize` = closed form with the output-count var-int sized from `outputCount`
    (requested outputs + change output).  Fails on a tree without fix-C07-F4, and whenever a size constant changes. -/
theorem C07_gen_est : EstOK genCfg true := by
  constructor
  intro p t w n outs cs hp ht hw hn
  have hv := varint_bounds (w + n + t)
  simp only [genCfg, SizesGen.EstimateVirtualSize, AuthorSpec.est, gen_sumSizes,
    SizesGen.RedeemP2PKHInputSize, SizesGen.RedeemP2WPKHInputSize, SizesGen.RedeemP2TRInputSize,
    SizesGen.RedeemNestedP2WPKHInputSize, SizesGen.RedeemP2WPKHInputWitnessWeight, SizesGen.RedeemP2TRInputWitnessWeight]
  by_cases hc : cs > 0 <;> by_cases hwit : w + n + t > 0 <;> simp [hc, hwit]
  all_goals exact Int.tdiv_eq_ediv_of_nonneg (by omega)

/-- the first estimate of NewUnsignedTransaction (made before any input is known) assumes no input.
    Fails on a tree without fix-C07-F5. -/
theorem C07_gen_init : genCfg.init = (0, 0, 0, 0) := rfl

/-- wallet.makeInputSource still has the source text that `Author.prefixSource` / `Author.fill` were written from -/
theorem C07_makeInputSource_shape : SizesGen.makeInputSource_src =
    "func makeInputSource(eligible []Coin) txauthor.InputSource { currentTotal := btcutil.Amount(0) currentInputs := make([]*wire.TxIn, 0, len(eligible)) currentScripts := make([][]byte, 0, len(eligible)) currentInputValues := make([]btcutil.Amount, 0, len(eligible)) return func(target btcutil.Amount) (btcutil.Amount, []*wire.TxIn, []btcutil.Amount, [][]byte, error) { for currentTotal < target && len(eligible) != 0 { nextCredit := eligible[0] prevOut := nextCredit.TxOut outpoint := nextCredit.OutPoint eligible = eligible[1:] nextInput := wire.NewTxIn(&outpoint, nil, nil) currentTotal += btcutil.Amount(prevOut.Value) currentInputs = append(currentInputs, nextInput) currentScripts = append( currentScripts, prevOut.PkScript, ) currentInputValues = append( currentInputValues, btcutil.Amount(prevOut.Value), ) } return currentTotal, currentInputs, currentInputValues, currentScripts, nil } }" := rfl

/-! ## 2. property theorems -/

section
variable {σ : Type} {src : Source σ} {Inv : σ → Prop} {s0 : σ} {outs : List TxOut} {rate : Int}
  {cs : ChangeSource} {fuel : Nat} {r : Result}

theorem facts (hsrc : SrcSound src Inv) (h0 : Inv s0) (h : newUnsigned src s0 outs rate cs fuel = .ok r) :
    Facts genCfg outs rate cs r :=
  facts_of_final C07_gen_sum hsrc (loop_ok genCfg src Inv hsrc.step outs rate cs r fuel s0 _ [] h0 h)

/-- the requested outputs are kept, in place and unchanged; the only possible addition is one change output at the end -/
theorem C07_outputs_kept (hsrc : SrcSound src Inv) (h0 : Inv s0)
    (h : newUnsigned src s0 outs rate cs fuel = .ok r) :
    r.outs.take outs.length = outs ∧ (r.changeIdx = none → r.outs = outs) ∧
    (∀ i, r.changeIdx = some i → i = outs.length ∧ ∃ c, r.outs = outs ++ [c] ∧ cs.script = some c.PkScript) := by
  obtain ⟨script, hs, hc⟩ := (facts hsrc h0 h).shape
  rcases hc with ⟨_, _, ho, hi⟩ | ⟨_, ho, hi⟩
  · rw [ho, hi]
    refine ⟨by simp, fun h => by simp at h, fun i hi => ⟨by simpa using hi.symm, _, rfl, hs⟩⟩
  · rw [ho, hi]
    exact ⟨by simp, fun _ => rfl, fun i hi => by simp at hi⟩

/-- inputs total exactly outputs plus fee; the reported TotalInput is that total; the fee is not negative and is
    exactly the required fee whenever a change output was added -/
theorem C07_conservation (hsrc : SrcSound src Inv) (h0 : Inv s0) (hr : 0 ≤ rate)
    (h : newUnsigned src s0 outs rate cs fuel = .ok r) :
    r.total = sumCoins r.inputs ∧ sumCoins r.inputs = sumOuts r.outs + r.fee ∧ 0 ≤ r.fee ∧
    (r.changeIdx ≠ none → r.fee = maxReq genCfg rate outs cs r.inputs) := by
  have hf := facts hsrc h0 h
  have h10 := est_nonneg true outs cs.scriptSize (count_nonneg .p2pkh r.inputs) (count_nonneg .p2tr r.inputs)
    (count_nonneg .p2wpkh r.inputs) (count_nonneg .nested r.inputs)
  have hreq : 0 ≤ maxReq genCfg rate outs cs r.inputs := by
    simp only [maxReq]
    rw [C07_gen_est.est_eq _ _ _ _ _ _ (count_nonneg _ _) (count_nonneg _ _) (count_nonneg _ _) (count_nonneg _ _),
      C07_gen_fee.fee_eq _ _ hr (by omega)]
    exact feeFor_nonneg hr (by omega)
  have := hf.fee
  refine ⟨hf.total_eq, by simp only [Result.fee]; omega, by omega, this.1⟩

/-- fee ≥ rate × REAL signed virtual size, for every admissible signature length of every input (`Admissible`,
    `sigOK`): the byte-accurate BIP-141 size of the signed transaction never exceeds the estimate the fee was computed
    from.  Domain: rate from the relay floor upward; well-formed change source. -/
theorem C07_fee_lower (hsrc : SrcSound src Inv) (h0 : Inv s0) (hr : 1000 ≤ rate)
    (hcs0 : 0 < cs.scriptSize) (hcsl : ∀ sc, cs.script = some sc → (sc.len : Int) ≤ cs.scriptSize)
    (h : newUnsigned src s0 outs rate cs fuel = .ok r)
    (sigs : List Int) (hlen : sigs.length = r.inputs.length) (hadm : Admissible (signedInputs r sigs)) :
    SizesGen.FeeForSerializeSize rate (realVSize (signedInputs r sigs) r.outs) ≤ r.fee :=
  fee_lower_gen C07_gen_est C07_gen_fee (facts hsrc h0 h) hr hcs0 hcsl sigs hlen hadm (Or.inl rfl)

/-- the same without the clamp/zero quirks of FeeForSerializeSize: `rate·vsize/1000 ≤ fee` whenever the fee is below
    21e14 sat -/
theorem C07_fee_lower_plain (hsrc : SrcSound src Inv) (h0 : Inv s0) (hr : 1000 ≤ rate)
    (hcs0 : 0 < cs.scriptSize) (hcsl : ∀ sc, cs.script = some sc → (sc.len : Int) ≤ cs.scriptSize)
    (h : newUnsigned src s0 outs rate cs fuel = .ok r) (hmax : r.fee < maxSatoshi)
    (sigs : List Int) (hlen : sigs.length = r.inputs.length) (hadm : Admissible (signedInputs r sigs)) :
    rate * realVSize (signedInputs r sigs) r.outs / 1000 ≤ r.fee := by
  have hl := C07_fee_lower hsrc h0 hr hcs0 hcsl h sigs hlen hadm
  have hv := realVSize_ge (signedInputs r sigs) r.outs hadm
  have := C07_gen_fee.fee_eq rate (realVSize (signedInputs r sigs) r.outs) (by omega) (by omega)
  simp only [genCfg] at this
  rw [this] at hl
  have h0' : 0 ≤ rate * realVSize (signedInputs r sigs) r.outs := Int.mul_nonneg (by omega) (by omega)
  have h1 : 0 ≤ rate * realVSize (signedInputs r sigs) r.outs / 1000 := Int.ediv_nonneg h0' (by decide)
  unfold AuthorSpec.feeFor maxSatoshi at hl
  unfold maxSatoshi at hmax
  simp only [] at hl
  repeat' split at hl
  all_goals omega

/-- fee ≤ rate applied to the worst-case estimate + one dust threshold of the change script -/
theorem C07_fee_upper (hsrc : SrcSound src Inv) (h0 : Inv s0)
    (hsp : ∀ sc, cs.script = some sc → sc.isNullData = true ∨ sc.isUnspendable = false)
    (h : newUnsigned src s0 outs rate cs fuel = .ok r) :
    ∃ sc, cs.script = some sc ∧
      r.fee ≤ SizesGen.FeeForSerializeSize rate (SizesGen.EstimateVirtualSize (count .p2pkh r.inputs)
        (count .p2tr r.inputs) (count .p2wpkh r.inputs) (count .nested r.inputs) outs cs.scriptSize) + dustThreshold sc ∧
      mempool_GetDustThreshold ⟨0, sc⟩ = dustThreshold sc :=
  let ⟨sc, hs, hle, _⟩ := fee_upper_gen C07_gen_dust (facts hsrc h0 h) hsp
  ⟨sc, hs, hle, dustThreshold_eq _⟩

/-- a change output is never zero, negative or dust -/
theorem C07_no_dust_change (hsrc : SrcSound src Inv) (h0 : Inv s0)
    (h : newUnsigned src s0 outs rate cs fuel = .ok r) (i : Nat) (hi : r.changeIdx = some i) :
    ∃ c, r.outs[i]? = some c ∧ 0 < c.Value ∧ SizesGen.IsDustOutput c SizesGen.DefaultRelayFeePerKb = false ∧
      (c.PkScript.isNullData = false → c.PkScript.isUnspendable = false → mempool_GetDustThreshold c ≤ c.Value) := by
  obtain ⟨c, hil, ho, _, hpos, hd, hthr⟩ := no_dust_gen C07_gen_dust (facts hsrc h0 h) i hi
  refine ⟨c, by rw [ho, hil]; simp, hpos, ?_, ?_⟩
  · have := C07_gen_dust.dust_eq c
    simp only [genCfg] at this
    rw [this, hd]
  · intro hn hu
    rw [dustThreshold_eq]
    exact hthr hn hu

end

/-- both wallet input sources report their totals truthfully -/
theorem C07_sources_sound (coins : List Coin) :
    SrcSound prefixSource (PInv coins) ∧ PInv coins (prefixInit coins) ∧ SrcSound constSource (fun _ => True) :=
  ⟨prefixSource_sound coins, pinv_init coins, constSource_sound⟩

/-- with the wallet's source the loop ends within `#coins + 2` iterations (the model's fuel is never exhausted) -/
theorem C07_terminates (coins : List Coin) (outs : List TxOut) (rate : Int) (cs : ChangeSource) :
    authorPrefix coins outs rate cs ≠ .fuel := by
  unfold authorPrefix newUnsigned newUnsignedWith
  apply loop_terminates
  simp [prefixInit]

/-- "insufficient funds" ⇒ all offered coins together cannot cover the outputs plus the fee required for them — for
    EVERY input source that offers `coins` (hands out prefixes of them truthfully and stops short of the target only
    when nothing is left); `makeInputSource` and `constantInputSource` are such sources. -/
theorem C07_insufficient_any_source {σ : Type} {src : Source σ} {Inv : σ → Prop} {coins : List Coin} {s0 : σ}
    (hoff : Offers src Inv coins) (h0 : Inv s0) (outs : List TxOut) (rate : Int) (cs : ChangeSource) (fuel : Nat)
    (hr : 1000 ≤ rate) (ho : 0 ≤ sumOuts outs)
    (h : newUnsigned src s0 outs rate cs fuel = .err .insufficient) :
    sumCoins coins < sumOuts outs + SizesGen.FeeForSerializeSize rate (SizesGen.EstimateVirtualSize
      (count .p2pkh coins) (count .p2tr coins) (count .p2wpkh coins) (count .nested coins) outs cs.scriptSize) := by
  have hP := count_nonneg .p2pkh coins
  have hT := count_nonneg .p2tr coins
  have hW := count_nonneg .p2wpkh coins
  have hN := count_nonneg .nested coins
  have h10 := est_nonneg true outs cs.scriptSize hP hT hW hN
  have hrew : SizesGen.FeeForSerializeSize rate (SizesGen.EstimateVirtualSize
      (count .p2pkh coins) (count .p2tr coins) (count .p2wpkh coins) (count .nested coins) outs cs.scriptSize) =
      feeAll true rate outs cs coins := by
    have h1 := C07_gen_est.est_eq _ _ _ _ outs cs.scriptSize hP hT hW hN
    have h2 := C07_gen_fee.fee_eq rate (est true (count .p2pkh coins) (count .p2tr coins) (count .p2wpkh coins)
      (count .nested coins) outs cs.scriptSize) (by omega) (by omega)
    simp only [genCfg] at h1 h2
    rw [h1, h2]
  rw [hrew]
  by_cases hne : coins = []
  · subst hne
    have := feeAll_pos true hr outs cs []
    simp only [sumCoins]; omega
  · exact loop_insufficient_offers hoff C07_gen_est C07_gen_fee C07_gen_sum hr outs cs fuel s0 _ [] h0
      (first_le_feeAll C07_gen_est C07_gen_fee hr outs cs coins hne (Or.inl C07_gen_init)) h

theorem C07_wallet_sources_offer (coins : List Coin) :
    Offers prefixSource (PInv coins) coins ∧ PInv coins (prefixInit coins) ∧
    Offers constSource (fun s => s = coins) coins :=
  ⟨prefixSource_offers coins, pinv_init coins, constSource_offers coins⟩

/-- "insufficient funds" from the wallet's own source `makeInputSource(coins)` ⇒ the coins cannot cover outputs + fee -/
theorem C07_insufficient (coins : List Coin) (outs : List TxOut) (rate : Int) (cs : ChangeSource)
    (hr : 1000 ≤ rate) (ho : 0 ≤ sumOuts outs)
    (h : authorPrefix coins outs rate cs = .err .insufficient) :
    sumCoins coins < sumOuts outs + SizesGen.FeeForSerializeSize rate (SizesGen.EstimateVirtualSize
      (count .p2pkh coins) (count .p2tr coins) (count .p2wpkh coins) (count .nested coins) outs cs.scriptSize) :=
  C07_insufficient_any_source (prefixSource_offers coins) (pinv_init coins) outs rate cs _ hr ho h

/-! ## the two defects this property found in the tree before the fixes, as theorems about the PRE-FIX arithmetic
(`specCfg false (0,0,1,0)`: output-count var-int from `len(txOuts)`, first estimate with one P2WPKH input).  They do
not depend on the generated code, so they stay true after the fixes and document why the fixes were needed. -/

def p2pkhScript : Script := { len := 25 }
def p2wpkhScript : Script := { len := 22, isP2WPKH := true, isWitness := true }
def p2trScript : Script := { len := 34, isP2TR := true, isWitness := true }

def preFix : Cfg := specCfg false (0, 0, 1, 0)
def authorPre (coins : List Coin) (outs : List TxOut) (rate : Int) (cs : ChangeSource) : Outcome :=
  (newUnsignedWith preFix prefixSource (prefixInit coins) outs rate cs (coins.length + 2)).1

/-- F4 witness: 252 requested outputs of 1000 sat, one P2WPKH coin of 400000 sat, P2WPKH change, 1000 sat/kvB -/
def f4outs : List TxOut := List.replicate 252 ⟨1000, p2pkhScript⟩
def f4coins : List Coin := [⟨400000, p2wpkhScript⟩]
def f4cs : ChangeSource := ⟨22, some p2wpkhScript⟩
def f4result : Result := ⟨f4coins, 400000, f4outs ++ [⟨139322, p2wpkhScript⟩], some 252⟩

set_option maxRecDepth 100000 in
/-- F4 (before fix-C07-F4): the authored transaction pays 8678 sat; signed with a 71-byte DER signature it has
    8680 vB, which at 1000 sat/kvB needs 8680 sat.  The estimate sized the output-count var-int for 252 outputs, the
    transaction has 253. -/
theorem C07_history_F4_counterexample :
    authorPre f4coins f4outs 1000 f4cs = .ok f4result ∧ Admissible (signedInputs f4result [71]) ∧
    ¬ (AuthorSpec.feeFor 1000 (realVSize (signedInputs f4result [71]) f4result.outs) ≤ f4result.fee) := by
  exact ⟨by decide, by decide, by decide⟩

set_option maxRecDepth 100000 in
/-- … and the current tree authors the same request with a sufficient fee (8680 sat) -/
theorem C07_F4_witness_now_ok :
    authorPrefix f4coins f4outs 1000 f4cs = .ok ⟨f4coins, 400000, f4outs ++ [⟨139320, p2wpkhScript⟩], some 252⟩ := by
  decide

/-- F5 witness: one P2TR coin of 50140 sat, one output of 50000 sat, 1000 sat/kvB: the coin covers
    50000 + fee(1 P2TR input) = 50000 + 134, but the first target assumed a P2WPKH input (144). -/
def f5outs : List TxOut := [⟨50000, p2wpkhScript⟩]
def f5coins : List Coin := [⟨50140, p2trScript⟩]

/-- F5 (before fix-C07-F5): "insufficient funds" although the coin covers outputs + required fee -/
theorem C07_history_F5_counterexample :
    authorPre f5coins f5outs 1000 f4cs = .err .insufficient ∧
    ¬ (sumCoins f5coins < sumOuts f5outs + feeAll false 1000 f5outs f4cs f5coins) := by
  decide

/-- … and the current tree authors it (no change: the 6 sat left over are dust and go to the fee) -/
theorem C07_F5_witness_now_ok :
    authorPrefix f5coins f5outs 1000 f4cs = .ok ⟨f5coins, 50140, f5outs, none⟩ := by
  decide

/-! ## non-vacuity -/

/-- a successful run with change, mixed inputs, and an admissible signature assignment -/
example : authorPrefix [⟨30000, p2pkhScript⟩, ⟨40000, p2trScript⟩, ⟨9, p2wpkhScript⟩] [⟨60000, p2pkhScript⟩] 2500 f4cs =
    .ok ⟨[⟨30000, p2pkhScript⟩, ⟨40000, p2trScript⟩], 70000, [⟨60000, p2pkhScript⟩, ⟨9293, p2wpkhScript⟩], some 1⟩ := by
  decide

example : Admissible [(Kind.p2pkh, 71), (Kind.p2tr, 64)] := by decide

/-- a genuine "insufficient funds" -/
example : authorPrefix [⟨50100, p2wpkhScript⟩] f5outs 1000 f4cs = .err .insufficient := by decide

/-! ### wallet-level change script size (op `wchange`, round-4 seed C07-6) -/

/-- class of the single input of an imported account of kind `k` -/
def acctInputKind (k : AcctKind) : Kind := if k.nestedInput then .nested else .p2wpkh

/-- The fee the wallet asks txauthor for, priced with the account's TRUE change script size
    (`Author.walletChangeFee`: the account's schema override wins over the scope default), is at least the requested
    rate applied to the real signed virtual size, for every admissible signature length, every output list and every
    change output whose script has the account's real change script length. -/
theorem C07_wallet_change_fee_lower (k : AcctKind) (rate : Int) (hr : 1000 ≤ rate) (outs : List TxOut) (chg : TxOut)
    (hchg : (chg.PkScript.len : Int) = k.changeSize) (sig : Int) (h8 : 8 ≤ sig) (h72 : sig ≤ 72) :
    SizesGen.FeeForSerializeSize rate (realVSize [(acctInputKind k, sig)] (outs ++ [chg])) ≤
      walletChangeFee k rate outs := by
  have hadm : Admissible [(acctInputKind k, sig)] := by
    intro x hx
    simp only [List.mem_singleton] at hx
    subst hx
    cases k <;> simp [acctInputKind, AcctKind.nestedInput, sigOK] <;> omega
  have hcs : 0 < k.changeSize := by cases k <;> decide
  have hle := realVSize_le_est true [(acctInputKind k, sig)] outs [chg] k.changeSize hadm hcs
    (Or.inr ⟨chg, rfl, by omega⟩) (Or.inl rfl)
  have hge := realVSize_ge [(acctInputKind k, sig)] (outs ++ [chg]) hadm
  have e1 := C07_gen_fee.fee_eq rate (realVSize [(acctInputKind k, sig)] (outs ++ [chg])) (by omega) (by omega)
  have hest : walletChangeEstimate k outs =
      est true (kcount .p2pkh [(acctInputKind k, sig)]) (kcount .p2tr [(acctInputKind k, sig)])
        (kcount .p2wpkh [(acctInputKind k, sig)]) (kcount .nested [(acctInputKind k, sig)]) outs k.changeSize := by
    have key : ∀ w n cs : Int, 0 ≤ w → 0 ≤ n →
        SizesGen.EstimateVirtualSize 0 0 w n outs cs = est true 0 0 w n outs cs := by
      intro w n cs hw hn
      exact C07_gen_est.est_eq 0 0 w n outs cs (by decide) (by decide) hw hn
    cases k <;> simp [walletChangeEstimate, acctInputKind, AcctKind.nestedInput, kcount, key]
  have e2 := C07_gen_fee.fee_eq rate (walletChangeEstimate k outs) (by omega) (by rw [hest]; omega)
  simp only [genCfg] at e1 e2
  unfold walletChangeFee
  rw [e1, e2, hest]
  exact feeFor_mono hr (by omega) hle

-- the seeded edit's estimate (scope default, 22 bytes) for the traditional BIP-0049 account is too low:
-- the demo's transaction (rate 50000) pays 8200 < 8250
set_option maxRecDepth 100000 in
example : SizesGen.FeeForSerializeSize 50000
      (SizesGen.EstimateVirtualSize 0 0 0 1 [⟨400000, p2wpkhScript⟩] 22) <
    walletChangeFee .imp49n 50000 [⟨400000, p2wpkhScript⟩] := by decide

set_option maxRecDepth 100000 in
example : walletChangeFee .imp49n 50000 [⟨400000, p2wpkhScript⟩] = 8250 := by decide

end C07
