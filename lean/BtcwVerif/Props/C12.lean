import BtcwVerif.Lemmas.KMap
import BtcwVerif.Lemmas.Balance
import BtcwVerif.Lemmas.Calls
import BtcwVerif.Model.Ledger
/-!
# C12 — a leased output stays out of reach until released or expired

Theorems about the lease operations of the `TxStore` model (`LockOutput`, `UnlockOutput`,
`DeleteExpiredLockedOutputs`, `ListLockedOutputs`, `isLockedOutput`, the lease clearing of `insertMinedTx`, the
lease tests inside `Balance` and `UnspentOutputs`) on an ARBITRARY store, arbitrary ids, instants and durations.
Time is in nanoseconds; the stored expiry is in whole seconds exactly as `serializeLockedOutput` writes it; the
expiry handed to the caller is rounded up to a whole second so that both agree (`C12_expiry_exact`).
-/
namespace TxStore.C12
open TxStore KMap

/-- the bucket entry is in force at `now` -/
def InForce (l : Lease) (now : Nat) : Prop := (now : Int) < l.expiry * 1000000000

theorem isLockedOutput_eq (s : Store) (op : OutPoint) (now : Nat) :
    isLockedOutput s op now =
      match s.locked.find? op with
      | none => none
      | some l => if (now : Int) < l.expiry * 1000000000 then some l else none := rfl

/-- **free iff released or expired** — an output is leased exactly when the bucket holds an entry whose (stored)
expiry has not been reached; at the boundary instant `now = expiry` it is free. -/
theorem C12_free_iff (s : Store) (op : OutPoint) (now : Nat) :
    isLocked s op now = true ↔ ∃ l, s.locked.find? op = some l ∧ InForce l now := by
  unfold isLocked InForce
  rw [isLockedOutput_eq]
  cases h : s.locked.find? op with
  | none => simp
  | some l =>
    by_cases hn : (now : Int) < l.expiry * 1000000000 <;> simp [hn]

/-- boundary: at the stored expiry instant itself (and any later instant) the output is free -/
theorem C12_free_at_expiry (s : Store) (op : OutPoint) (l : Lease) (now : Nat)
    (h : s.locked.find? op = some l) (hn : l.expiry * 1000000000 ≤ (now : Int)) : isLocked s op now = false := by
  have : ¬ isLocked s op now = true := by
    rw [C12_free_iff]
    rintro ⟨l', h', hf⟩
    rw [h] at h'; cases h'
    unfold InForce at hf; omega
  simpa using this

/-- one nanosecond before the stored expiry it is still leased -/
theorem C12_leased_before_expiry (s : Store) (op : OutPoint) (l : Lease) (now : Nat)
    (h : s.locked.find? op = some l) (hn : (now : Int) < l.expiry * 1000000000) : isLockedOutput s op now = some l := by
  rw [isLockedOutput_eq, h]; simp [hn]

/-- **unknown refused** — leasing or releasing an output the store does not know fails and changes nothing
(an error returns no store). -/
theorem C12_unknown_refused (s : Store) (now id : Nat) (op : OutPoint) (d : Int) (h : isKnownOutput s op = false) :
    lockOutput s now id op d = .error Err.unknownOutput ∧ unlockOutput s now id op = .error Err.unknownOutput := by
  simp [lockOutput, unlockOutput, h]

/-- **other id refused** — while a lease is in force, another identifier can neither lease nor release the output. -/
theorem C12_other_id (s : Store) (now id id' : Nat) (op : OutPoint) (d : Int) (l : Lease)
    (hk : isKnownOutput s op = true) (hl : isLockedOutput s op now = some l) (hid : l.id = id) (hne : id' ≠ id) :
    lockOutput s now id' op d = .error Err.alreadyLocked ∧ unlockOutput s now id' op = .error Err.unlockNotAllowed := by
  have : l.id ≠ id' := by rw [hid]; exact fun h => hne h.symm
  simp [lockOutput, unlockOutput, hk, hl, this]

/-- whatever the state of knowledge, a different identifier never obtains or removes a lease in force -/
theorem C12_other_id_never_ok (s : Store) (now id' : Nat) (op : OutPoint) (d : Int) (l : Lease)
    (hl : isLockedOutput s op now = some l) (hne : l.id ≠ id') :
    (∀ r, lockOutput s now id' op d ≠ .ok r) ∧ (∀ r, unlockOutput s now id' op ≠ .ok r) := by
  cases hk : isKnownOutput s op <;> simp [lockOutput, unlockOutput, hk, hl, hne]

/-- **same id extends / free output can be leased** — the call succeeds, hands the granted expiry (`now + d` rounded
up to a whole second) to the caller, stores exactly that instant (in seconds) under the id, and touches nothing else. -/
theorem C12_extend (s : Store) (now id : Nat) (op : OutPoint) (d : Int)
    (hk : isKnownOutput s op = true)
    (hfree : ∀ l, isLockedOutput s op now = some l → l.id = id) :
    ∃ s', lockOutput s now id op d = .ok (grantedExpiry now d, s') ∧
      s'.locked.find? op = some ⟨id, unixSeconds (grantedExpiry now d)⟩ ∧
      (∀ op', op' ≠ op → s'.locked.find? op' = s.locked.find? op') ∧
      s' = { s with locked := s'.locked } := by
  refine ⟨{ s with locked := s.locked.insert op ⟨id, unixSeconds (grantedExpiry now d)⟩ }, ?_, ?_, ?_, rfl⟩
  · cases hl : isLockedOutput s op now with
    | none => simp [lockOutput, hk, hl]
    | some l => simp [lockOutput, hk, hl, hfree l hl]
  · simp
  · intro op' hne; exact find?_insert_ne _ _ (fun h => hne h.symm)

/-- **release** — the holder's release removes the entry: the output is free at every later (and earlier) instant,
other leases are untouched. -/
theorem C12_release (s : Store) (now id : Nat) (op : OutPoint) (l : Lease)
    (hk : isKnownOutput s op = true) (hl : isLockedOutput s op now = some l) (hid : l.id = id) :
    ∃ s', unlockOutput s now id op = .ok s' ∧ (∀ t, isLocked s' op t = false) ∧
      (∀ op', op' ≠ op → s'.locked.find? op' = s.locked.find? op') := by
  refine ⟨unlockOutputRaw s op, ?_, ?_, ?_⟩
  · simp [unlockOutput, hk, hl, hid]
  · intro t; simp [isLocked, isLockedOutput, unlockOutputRaw]
  · intro op' hne; exact find?_erase_ne _ (fun h => hne h.symm)

/-- releasing an output that is not leased (never leased, released, or expired) succeeds and changes nothing -/
theorem C12_release_free (s : Store) (now id : Nat) (op : OutPoint)
    (hk : isKnownOutput s op = true) (hl : isLockedOutput s op now = none) : unlockOutput s now id op = .ok s := by
  simp [unlockOutput, hk, hl]

private theorem foldl_unlock_find (l : List (OutPoint × Lease)) (s : Store) (op : OutPoint) :
    (l.foldl (fun s p => unlockOutputRaw s p.1) s).locked.find? op =
      if op ∈ l.map (·.1) then none else s.locked.find? op := by
  induction l generalizing s with
  | nil => simp
  | cons p t ih =>
    simp only [List.foldl_cons, List.map_cons, List.mem_cons]
    rw [ih]
    by_cases h1 : op ∈ t.map (·.1)
    · simp [h1]
    · by_cases h2 : op = p.1
      · subst h2; simp [unlockOutputRaw]
      · simp [h1, h2, unlockOutputRaw, find?_erase_ne _ (fun h => h2 h.symm)]

private theorem foldl_unlock_other (l : List (OutPoint × Lease)) (s : Store) :
    (l.foldl (fun s p => unlockOutputRaw s p.1) s) =
      { s with locked := (l.foldl (fun s p => unlockOutputRaw s p.1) s).locked } := by
  induction l generalizing s with
  | nil => rfl
  | cons p t ih => simp only [List.foldl_cons]; rw [ih]; rfl

/-- **sweep removes exactly the expired leases** (`DeleteExpiredLockedOutputs`): afterwards an entry is present iff
it was present and in force; entries in force keep id and expiry. Keys of the bucket are unique (bbolt; preserved
by every operation, `nodupKeys_insert/_erase`). -/
theorem C12_sweep_exact (s : Store) (now : Nat) (op : OutPoint) (hn : NodupKeys s.locked) :
    (deleteExpiredLockedOutputs s now).locked.find? op =
      match s.locked.find? op with
      | some l => if (now : Int) < l.expiry * 1000000000 then some l else none
      | none => none := by
  unfold deleteExpiredLockedOutputs
  rw [foldl_unlock_find]
  cases h : s.locked.find? op with
  | none =>
    simp only
    split <;> rfl
  | some l =>
    have hm := mem_of_find? _ h
    simp only
    by_cases hc : (now : Int) < l.expiry * 1000000000
    · have : op ∉ (List.filter (fun p : OutPoint × Lease => !decide ((now : Int) < p.2.expiry * 1000000000)) s.locked).map (·.1) := by
        intro hc'
        rw [List.mem_map] at hc'
        obtain ⟨⟨o, l'⟩, hmem, ho⟩ := hc'
        rw [List.mem_filter] at hmem
        simp only at ho; subst ho
        have := find?_of_mem _ hn hmem.1
        rw [h] at this; cases this
        simp [hc] at hmem
      simp [this, hc]
    · have : op ∈ (List.filter (fun p : OutPoint × Lease => !decide ((now : Int) < p.2.expiry * 1000000000)) s.locked).map (·.1) := by
        rw [List.mem_map]
        exact ⟨(op, l), List.mem_filter.mpr ⟨hm, by simp [hc]⟩, rfl⟩
      simp [this, hc]

/-- sweep touches nothing but the lease bucket -/
theorem C12_sweep_only_leases (s : Store) (now : Nat) :
    deleteExpiredLockedOutputs s now = { s with locked := (deleteExpiredLockedOutputs s now).locked } :=
  foldl_unlock_other _ s

/-- sweeping never changes what is leased at the instant of the sweep -/
theorem C12_sweep_invisible (s : Store) (now : Nat) (op : OutPoint) (hn : NodupKeys s.locked) :
    isLockedOutput (deleteExpiredLockedOutputs s now) op now = isLockedOutput s op now := by
  rw [isLockedOutput_eq, isLockedOutput_eq, C12_sweep_exact s now op hn]
  cases h : s.locked.find? op with
  | none => rfl
  | some l => by_cases hc : (now : Int) < l.expiry * 1000000000 <;> simp [hc]

/-- `ListLockedOutputs` lists exactly the leases in force -/
theorem C12_list_exact (s : Store) (now : Nat) (op : OutPoint) (l : Lease) (hn : NodupKeys s.locked) :
    (op, l) ∈ listLockedOutputs s now ↔ isLockedOutput s op now = some l := by
  unfold listLockedOutputs
  rw [List.mem_filter, isLockedOutput_eq]
  constructor
  · rintro ⟨hm, hc⟩
    rw [find?_of_mem _ hn hm]
    simpa using hc
  · intro h
    cases hf : s.locked.find? op with
    | none => rw [hf] at h; cases h
    | some l' =>
      rw [hf] at h
      by_cases hc : (now : Int) < l'.expiry * 1000000000
      · simp only [hc, if_true, Option.some.injEq] at h
        subst h
        exact ⟨mem_of_find? _ hf, by simp [hc]⟩
      · simp [hc] at h

private theorem foldl_unlockRaw_find (ins : List OutPoint) (s : Store) (op : OutPoint) :
    (ins.foldl unlockOutputRaw s).locked.find? op = if op ∈ ins then none else s.locked.find? op := by
  induction ins generalizing s with
  | nil => simp
  | cons i t ih =>
    simp only [List.foldl_cons, List.mem_cons]
    rw [ih]
    by_cases h1 : op ∈ t
    · simp [h1]
    · by_cases h2 : op = i
      · subst h2; simp [unlockOutputRaw]
      · simp [h1, h2, unlockOutputRaw, find?_erase_ne _ (fun h => h2 h.symm)]

/-- **a confirmed spend clears the lease**: after `insertMinedTx` succeeds, no input of the confirmed transaction
has a lease entry any more (whatever id held it, whatever the clock says). -/
theorem C12_confirmed_spend_clears (s s' : Store) (rec : Tx) (bm : BlockMeta)
    (h : insertMinedTx s rec bm = .ok s') (inp : OutPoint) (hin : inp ∈ rec.ins) :
    s'.locked.find? inp = none ∧ ∀ t, isLocked s' inp t = false := by
  unfold insertMinedTx at h
  simp only [bind, Except.bind] at h
  split at h
  · cases h
  · split at h
    · cases h
    · rename_i s2 _
      simp only [pure, Except.pure, Except.ok.injEq] at h
      subst h
      have : (rec.ins.foldl unlockOutputRaw s2).locked.find? inp = none := by
        rw [foldl_unlockRaw_find]; simp [hin]
      exact ⟨this, fun t => by simp [isLocked, isLockedOutput, this]⟩

/-! ### exclusion from the spendable set and from the balance -/

private theorem mapM_ok_mem {α β : Type} (f : α → M β) :
    ∀ (l : List α) (r : List β), l.mapM f = .ok r → ∀ y ∈ r, ∃ x ∈ l, f x = .ok y := by
  intro l
  induction l with
  | nil => intro r h y hy; simp [List.mapM_nil, pure, Except.pure] at h; subst h; cases hy
  | cons a t ih =>
    intro r h y hy
    rw [List.mapM_cons] at h
    cases hfa : f a with
    | error e => rw [hfa] at h; cases h
    | ok b =>
      rw [hfa] at h
      cases ht : t.mapM f with
      | error e => rw [ht] at h; cases h
      | ok bs =>
        rw [ht] at h
        simp only [bind, Except.bind, pure, Except.pure, Except.ok.injEq] at h
        subst h
        cases hy with
        | head => exact ⟨a, List.mem_cons_self, hfa⟩
        | tail _ hy' =>
          obtain ⟨x, hx, hfx⟩ := ih bs ht y hy'
          exact ⟨x, List.mem_cons_of_mem _ hx, hfx⟩

private theorem fetchMined_ok (s : Store) (now : Nat) (incS full : Bool) (e : OutPoint × Block) (c : Credit)
    (h : fetchMinedCredit s now false incS full e = .ok (some c)) : c.op = e.1 ∧ isLocked s e.1 now = false := by
  obtain ⟨op, blk⟩ := e
  unfold fetchMinedCredit at h
  by_cases hl : isLocked s op now = true
  · simp [hl] at h
  · have hl' : isLocked s op now = false := by simpa using hl
    simp only [hl', Bool.not_false, Bool.true_and, Bool.false_eq_true, if_false] at h
    repeat' split at h
    all_goals first
      | (cases h; done)
      | (simp only [pure_eq, Except.ok.injEq, Option.some.injEq] at h; subst h; exact ⟨rfl, hl'⟩)

private theorem fetchUnmined_ok (s : Store) (now : Nat) (incS full : Bool) (e : OutPoint × UCredit) (c : Credit)
    (h : fetchUnminedCredit s now false incS full e = .ok (some c)) : c.op = e.1 ∧ isLocked s e.1 now = false := by
  obtain ⟨op, uc⟩ := e
  unfold fetchUnminedCredit at h
  by_cases hl : isLocked s op now = true
  · simp [hl] at h
  · have hl' : isLocked s op now = false := by simpa using hl
    simp only [hl', Bool.not_false, Bool.true_and, Bool.false_eq_true, if_false] at h
    repeat' split at h
    all_goals first
      | (cases h; done)
      | (simp only [pure_eq, Except.ok.injEq, Option.some.injEq] at h; subst h; exact ⟨rfl, hl'⟩)

/-- **excluded from the spendable set**: no output returned by `UnspentOutputs` is leased at that instant. -/
theorem C12_excluded_utxos (s : Store) (now : Nat) (l : List Credit) (h : unspentOutputs s now = .ok l)
    (c : Credit) (hc : c ∈ l) : isLocked s c.op now = false := by
  unfold unspentOutputs fetchCredits at h
  cases ha : s.unspent.mapM (fetchMinedCredit s now false false true) with
  | error e => rw [ha] at h; cases h
  | ok a =>
    cases hb : s.unminedCredits.mapM (fetchUnminedCredit s now false false true) with
    | error e => rw [ha, hb] at h; cases h
    | ok b =>
      rw [ha, hb] at h
      simp only [bind, Except.bind, pure, Except.pure, Except.ok.injEq] at h
      subst h
      rw [List.mem_append, List.mem_filterMap, List.mem_filterMap] at hc
      rcases hc with ⟨o, ho, hoc⟩ | ⟨o, ho, hoc⟩
      · simp only [id] at hoc; subst hoc
        obtain ⟨e, _, hf⟩ := mapM_ok_mem _ _ _ ha _ ho
        obtain ⟨h1, h2⟩ := fetchMined_ok _ _ _ _ _ _ hf
        rw [h1]; exact h2
      · simp only [id] at hoc; subst hoc
        obtain ⟨e, _, hf⟩ := mapM_ok_mem _ _ _ hb _ ho
        obtain ⟨h1, h2⟩ := fetchUnmined_ok _ _ _ _ _ _ hf
        rw [h1]; exact h2

/-- **once, not twice** — the three passes of `Balance`, entry by entry: a leased mined output is subtracted by
pass 1 (whether or not an unconfirmed transaction also spends it) and skipped by pass 2; an output spent by an
unconfirmed transaction is subtracted by pass 1 and skipped by pass 2; a leased or spent unconfirmed output is not
added by pass 3. -/
theorem C12_once_not_twice (s : Store) (now : Nat) (bal : Int) :
    (∀ op blk cv, isLocked s op now = true → s.credits.find? ⟨op.hash, blk, op.index⟩ = some cv →
        balPass1 s now bal (op, blk) = .ok (bal - cv.amount)) ∧
    (∀ op blk cv, isLocked s op now = false → spentByUnmined s op = true →
        s.credits.find? ⟨op.hash, blk, op.index⟩ = some cv → balPass1 s now bal (op, blk) = .ok (bal - cv.amount)) ∧
    (∀ op blk, isLocked s op now = false → spentByUnmined s op = false → balPass1 s now bal (op, blk) = .ok bal) ∧
    (∀ m sy mat blk rec h i, (isLocked s ⟨h, i⟩ now = true ∨ spentByUnmined s ⟨h, i⟩ = true) →
        balPass2Out s now m sy mat blk rec h bal i = bal) ∧
    (∀ op uc, (isLocked s op now = true ∨ spentByUnmined s op = true) → balPass3 s now bal (op, uc) = bal) := by
  refine ⟨?_, ?_, ?_, ?_, ?_⟩
  · intro op blk cv hl hc; simp [balPass1, hl, hc]
  · intro op blk cv hl hs hc; simp [balPass1, hl, hs, hc]
  · intro op blk hl hs; simp [balPass1, hl, hs]
  · intro m sy mat blk rec h i hor
    unfold balPass2Out
    rcases hor with hl | hs
    · simp [hl]
    · by_cases hl : isLocked s ⟨h, i⟩ now = true <;> simp [hl, hs]
  · intro op uc hor
    unfold balPass3
    rcases hor with hl | hs
    · simp [hl]
    · by_cases hl : isLocked s op now = true <;> simp [hl, hs]

/-- `Balance` under `Inv`, read per lease: the value returned is the sum over the credits that `countsMined` /
`countsUnmined` admit, and both predicates reject every output leased at that instant — a leased output contributes
exactly nothing, whether it is confirmed, immature, or also spent by an unconfirmed transaction. (`Inv` is the
representation invariant of C01; `_partial` = it is a hypothesis here.  `C12_excluded_balance` below discharges it:
`Inv` holds after every chain-consistent history of store calls (`inv_runCalls` in Lemmas/Calls.lean, the same fact
as `C01_inv_reachable`).) -/
theorem C12_excluded_balance_partial (s : Store) (hinv : Inv s) (now : Nat) (mat m sy : Int) :
    (∃ v, balance s now mat m sy = .ok v ∧ v = storeTruth s now mat m sy) ∧
    (∀ c : CInfo, isLocked s c.key.outPoint now = true → countsMined s now m sy mat c = false) ∧
    (∀ e : OutPoint × UCredit, isLocked s e.1 now = true → countsUnmined s now e = false) := by
  refine ⟨?_, ?_, ?_⟩
  · -- the closed form is C01_balance_inv; restated here through the lemmas it is built from
    have hidx : ∀ e ∈ s.unspent, (creditInfo s ⟨e.1.hash, e.2, e.1.index⟩).isSome := by
      intro e he
      apply hinv.indexed
      unfold unspentInfos
      exact List.mem_map.mpr ⟨e, he, rfl⟩
    cases hb : balance s now mat m sy with
    | ok v => exact ⟨v, rfl, by
        have := balance_eq_storeTruth s hinv now mat m sy
        rw [hb] at this; cases this; rfl⟩
    | error e =>
      have := balance_eq_storeTruth s hinv now mat m sy
      rw [hb] at this; cases this
  · intro c hl; simp [countsMined, hl]
  · intro e hl; simp [countsUnmined, hl]

/-- **excluded from the balance, after every chain-consistent history** (reorgs included): `Balance` is the sum over
the credits admitted by `countsMined` / `countsUnmined`, and both reject every output leased at that instant. -/
theorem C12_excluded_balance (ops : List (Nat × Call)) (hp : PreAll Store.empty ops) (now : Nat) (mat m sy : Int) :
    balance (runCalls Store.empty ops) now mat m sy = .ok (storeTruth (runCalls Store.empty ops) now mat m sy) ∧
    (∀ c : CInfo, isLocked (runCalls Store.empty ops) c.key.outPoint now = true →
        countsMined (runCalls Store.empty ops) now m sy mat c = false) ∧
    (∀ e : OutPoint × UCredit, isLocked (runCalls Store.empty ops) e.1 now = true →
        countsUnmined (runCalls Store.empty ops) now e = false) :=
  ⟨balance_eq_storeTruth _ (inv_runCalls ops hp) now mat m sy,
   fun c hl => by simp [countsMined, hl], fun e hl => by simp [countsUnmined, hl]⟩

/-! ### the expiry handed to the caller is the expiry that is stored (DESIGN §7-F8, fixed in /repo 4c73b71) -/

/-- whole seconds of an instant: at most one second below it, never above -/
theorem C12_expiry_gap (e : Int) : unixSeconds e * 1000000000 ≤ e ∧ e < unixSeconds e * 1000000000 + 1000000000 := by
  unfold unixSeconds
  constructor <;> omega

/-- **the granted expiry is exactly what is stored**: no instant exists at which the caller believes the lease is in
force while the store has released it, or vice versa -/
theorem C12_expiry_exact (now : Nat) (d : Int) :
    unixSeconds (grantedExpiry now d) * 1000000000 = grantedExpiry now d := by
  unfold grantedExpiry unixSeconds
  simp only
  split <;> omega

/-- the granted expiry is never before `now + d` and less than one second after it -/
theorem C12_expiry_bounds (now : Nat) (d : Int) :
    (now : Int) + d ≤ grantedExpiry now d ∧ grantedExpiry now d < (now : Int) + d + 1000000000 := by
  unfold grantedExpiry
  simp only
  split <;> constructor <;> omega

/-- **leased until the expiry handed to the caller, free from then on**: after a successful `LockOutput` returning
`e`, the output is leased at every instant before `e` and free at `e` and later (until somebody leases it again). -/
theorem C12_leased_until_returned_expiry (s s' : Store) (now id : Nat) (op : OutPoint) (d e : Int)
    (h : lockOutput s now id op d = .ok (e, s')) (t : Nat) :
    isLocked s' op t = decide ((t : Int) < e) := by
  have hs : e = grantedExpiry now d ∧ s'.locked.find? op = some ⟨id, unixSeconds (grantedExpiry now d)⟩ := by
    by_cases hk : isKnownOutput s op = true
    · cases hl : isLockedOutput s op now with
      | none =>
        simp [lockOutput, hk, hl] at h
        obtain ⟨h1, rfl⟩ := h
        exact ⟨h1.symm, by simp⟩
      | some l =>
        by_cases hid : l.id = id
        · simp [lockOutput, hk, hl, hid] at h
          obtain ⟨h1, rfl⟩ := h
          exact ⟨h1.symm, by simp⟩
        · simp [lockOutput, hk, hl, hid] at h
    · simp [lockOutput, hk] at h
  obtain ⟨he, hf⟩ := hs
  unfold isLocked
  rw [isLockedOutput_eq, hf]
  simp only
  rw [C12_expiry_exact, he]
  by_cases hc : (t : Int) < grantedExpiry now d <;> simp [hc]

/-- a concrete store: one unconfirmed credited output `(7,0)` -/
def exStore : Store := { unmined := [(7, ⟨7, [⟨99, 0⟩], [5000]⟩)], unminedCredits := [(⟨7, 0⟩, ⟨5000, false⟩)] }

/-- the scenario of the former finding `lease.expiry-truncated-to-seconds`: at 0.5 s the output is leased for 1.2 s;
`LockOutput` now returns 2.0 s (1.7 s rounded up); at 1.999999999 s it is still leased and a different id is refused;
at 2.0 s it is free. -/
theorem C12_subsecond_lease_example :
    ∃ s', lockOutput exStore 500000000 1 ⟨7, 0⟩ 1200000000 = .ok (2000000000, s') ∧
      isLocked s' ⟨7, 0⟩ 1999999999 = true ∧
      lockOutput s' 1999999999 2 ⟨7, 0⟩ 1000000000 = .error Err.alreadyLocked ∧
      isLocked s' ⟨7, 0⟩ 2000000000 = false := by
  refine ⟨_, rfl, ?_, ?_, ?_⟩ <;> decide

/-! ### refinement of the lease events: the store's lease bucket implements the `Ledger`'s leases

`LeaseRefines s L`: the lease bucket and `L.leases` agree pointwise (the ledger keeps the instant handed to the caller
in ns, the store whole seconds), and the store knows exactly the outputs the ledger allows to lease.  The four lease
events (*lease*, *release*, *sweep*, *clock*) preserve the relation, and the lease queries agree.
About the suffix `_partial` of the five theorems `C12_lease/_release/_sweep/_clock/_leased_refines_partial`: it was
given because these theorems assume `LeaseRefines s L` and, taken alone, do not show that the chain events (*seen*,
*confirmed*, *disconnected*, *abandoned*) preserve its `known` clause.  That gap is CLOSED:
`leaseRefines_of_good` (with `known_of_good`, Lemmas/RefLease.lean) derives `LeaseRefines s L` from the simulation
relation `Good s L`, and `good_history` / `good_reachable` (Lemmas/RefAll.lean, with `good_lease`, `good_release`,
`good_sweep`, `good_clock` for the lease events) show that `Good` — hence `LeaseRefines` — holds after EVERY
chain-consistent history of events, reorgs included.  The names are kept only because Lemmas/RefLease.lean imports
this file and uses the five theorems as its per-event steps: stating the closed form here would be an import cycle. -/

theorem find?_filter_ne {α : Type} (l : List (OutPoint × α)) (op op' : OutPoint) :
    (l.filter fun p => p.1 != op).find? (fun p => p.1 == op') =
      if op' = op then none else l.find? (fun p => p.1 == op') := by
  induction l with
  | nil => simp
  | cons p t ih =>
    by_cases h1 : p.1 = op
    · have hf : (p.1 != op) = false := by simp [h1]
      rw [List.filter_cons, hf]
      simp only [Bool.false_eq_true, if_false]
      rw [ih]
      by_cases h2 : op' = op
      · simp [h2]
      · have h3 : (p.1 == op') = false := by rw [h1]; simpa using fun e => h2 e.symm
        simp [h2, List.find?_cons, h3]
    · have hf : (p.1 != op) = true := by simpa using h1
      rw [List.filter_cons, hf]
      simp only [if_true, List.find?_cons]
      by_cases h3 : (p.1 == op') = true
      · have : p.1 = op' := by simpa using h3
        have h2 : ¬ op' = op := by rw [← this]; exact h1
        simp [h3, h2]
      · have h3' : (p.1 == op') = false := by simpa using h3
        simp only [h3']
        exact ih

theorem lookup_filter_ne {α : Type} (l : List (OutPoint × α)) (op op' : OutPoint) :
    Ledger.lookup (l.filter fun p => p.1 != op) op' = if op' = op then none else Ledger.lookup l op' := by
  unfold Ledger.lookup
  rw [find?_filter_ne]
  by_cases h : op' = op <;> simp [h]

open Ledger in
theorem lookup_append_single {α : Type} (l : List (OutPoint × α)) (op op' : OutPoint) (x : α) :
    Ledger.lookup (l ++ [(op, x)]) op' =
      match Ledger.lookup l op' with
      | some y => some y
      | none => if op' = op then some x else none := by
  unfold Ledger.lookup
  induction l with
  | nil =>
    by_cases h : op' = op
    · subst h; simp
    · have : (op == op') = false := by simpa using fun e => h e.symm
      simp [List.find?_cons, this, h]
  | cons p t ih =>
    simp only [List.cons_append, List.find?_cons]
    by_cases h3 : (p.1 == op') = true
    · simp [h3]
    · simp only [h3, Bool.false_eq_true]
      exact ih

structure LeaseRefines (s : Store) (L : Ledger.Ledger) : Prop where
  known : ∀ op, isKnownOutput s op = Ledger.leasable L op
  leases : ∀ op, (s.locked.find? op).map (fun l => (l.id, l.expiry * 1000000000)) =
    (Ledger.lookup L.leases op).map (fun l => (l.id, l.expiry))

theorem leaseOf_refines {s : Store} {L : Ledger.Ledger} (h : LeaseRefines s L) (op : OutPoint) :
    (isLockedOutput s op L.now).map (fun l => (l.id, l.expiry * 1000000000)) =
      (Ledger.leaseOf L op).map (fun l => (l.id, l.expiry)) := by
  have := h.leases op
  unfold Ledger.leaseOf
  rw [isLockedOutput_eq]
  cases h1 : s.locked.find? op with
  | none =>
    rw [h1] at this
    cases h2 : Ledger.lookup L.leases op with
    | none => rfl
    | some l' => rw [h2] at this; cases this
  | some l =>
    rw [h1] at this
    cases h2 : Ledger.lookup L.leases op with
    | none => rw [h2] at this; cases this
    | some l' =>
      rw [h2] at this
      simp only [Option.map_some, Option.some.injEq, Prod.mk.injEq] at this
      simp only
      rw [← this.2]
      by_cases hc : (L.now : Int) < l.expiry * 1000000000
      · simp [hc, this.1, this.2]
      · simp [hc]

private theorem leasable_leases (L : Ledger.Ledger) (ls : List (OutPoint × Ledger.Lease)) (op : OutPoint) :
    Ledger.leasable { L with leases := ls } op = Ledger.leasable L op := rfl

/-- **lease** refines: `LockOutput` at the ledger's clock does to the bucket what `Ledger.apply (.lease …)` does to
the ledger's leases (refused for unknown outputs and for outputs held by another id, granted/extended otherwise, the
stored seconds being exactly the granted instant).
`_partial` in the name is historical: the gap it named (the chain events preserving the `known` clause) is closed by
`leaseRefines_of_good` (Lemmas/RefLease.lean) + `good_history` (Lemmas/RefAll.lean): `LeaseRefines` holds after every
chain-consistent history.  Not renamed: those files import this one (import cycle). -/
theorem C12_lease_refines_partial (s : Store) (L : Ledger.Ledger) (id : Nat) (op : OutPoint) (d : Int)
    (h : LeaseRefines s L) :
    LeaseRefines (match lockOutput s L.now id op d with | .ok (_, s') => s' | .error _ => s)
      (Ledger.apply L (.lease id op d)) := by
  have hk := h.known op
  have hl := leaseOf_refines h op
  unfold Ledger.apply
  by_cases hkn : isKnownOutput s op = true
  · have hkl : Ledger.leasable L op = true := by rw [← hk]; exact hkn
    simp only [hkl, Bool.not_true, Bool.false_eq_true, if_false]
    -- the new relation once the lease is written
    have hnew : LeaseRefines { s with locked := s.locked.insert op ⟨id, unixSeconds (grantedExpiry L.now d)⟩ }
        { L with leases := (L.leases.filter fun p => p.1 != op) ++ [(op, ⟨id, grantedExpiry L.now d⟩)] } := by
      refine ⟨fun op' => h.known op', ?_⟩
      intro op'
      show ((s.locked.insert op _).find? op').map _ = _
      rw [find?_insert, lookup_append_single, lookup_filter_ne]
      by_cases e : op = op'
      · subst e
        simp only [if_true, Option.map_some]
        rw [C12_expiry_exact]
      · have e' : ¬ op' = op := fun x => e x.symm
        simp only [e, e', if_false]
        have := h.leases op'
        cases h2 : Ledger.lookup L.leases op' with
        | none => rw [h2] at this; simpa using this
        | some y => rw [h2] at this; simpa using this
    cases h1 : isLockedOutput s op L.now with
    | none =>
      rw [h1] at hl
      have h2 : Ledger.leaseOf L op = none := by
        cases hx : Ledger.leaseOf L op with
        | none => rfl
        | some y => rw [hx] at hl; cases hl
      simp only [h2]
      have : lockOutput s L.now id op d = .ok (grantedExpiry L.now d,
          { s with locked := s.locked.insert op ⟨id, unixSeconds (grantedExpiry L.now d)⟩ }) := by
        simp [lockOutput, hkn, h1]
      rw [this]; exact hnew
    | some l =>
      rw [h1] at hl
      cases hx : Ledger.leaseOf L op with
      | none => rw [hx] at hl; cases hl
      | some l' =>
        rw [hx] at hl
        simp only [Option.map_some, Option.some.injEq, Prod.mk.injEq] at hl
        simp only
        by_cases hid : l.id = id
        · have hid' : l'.id = id := by rw [← hl.1]; exact hid
          have : lockOutput s L.now id op d = .ok (grantedExpiry L.now d,
              { s with locked := s.locked.insert op ⟨id, unixSeconds (grantedExpiry L.now d)⟩ }) := by
            simp [lockOutput, hkn, h1, hid]
          rw [this]
          simp only [hid', ne_eq, not_true_eq_false, if_false]
          exact hnew
        · have hid' : l'.id ≠ id := by rw [← hl.1]; exact hid
          have : lockOutput s L.now id op d = .error Err.alreadyLocked := by
            simp [lockOutput, hkn, h1, hid]
          rw [this]
          simp only [hid', ne_eq, not_false_eq_true, if_true]
          exact h
  · have hkn' : isKnownOutput s op = false := by simpa using hkn
    have hkl : Ledger.leasable L op = false := by rw [← hk]; exact hkn'
    have : lockOutput s L.now id op d = .error Err.unknownOutput := by simp [lockOutput, hkn']
    rw [this]
    simp only [hkl, Bool.not_false, if_true]
    exact h

/-- **release** refines.
`_partial` in the name is historical: the gap it named (the chain events preserving the `known` clause) is closed by
`leaseRefines_of_good` (Lemmas/RefLease.lean) + `good_history` (Lemmas/RefAll.lean): `LeaseRefines` holds after every
chain-consistent history.  Not renamed: those files import this one (import cycle). -/
theorem C12_release_refines_partial (s : Store) (L : Ledger.Ledger) (id : Nat) (op : OutPoint)
    (h : LeaseRefines s L) :
    LeaseRefines (match unlockOutput s L.now id op with | .ok s' => s' | .error _ => s)
      (Ledger.apply L (.release id op)) := by
  have hk := h.known op
  have hl := leaseOf_refines h op
  unfold Ledger.apply
  by_cases hkn : isKnownOutput s op = true
  · have hkl : Ledger.leasable L op = true := by rw [← hk]; exact hkn
    simp only [hkl, Bool.not_true, Bool.false_eq_true, if_false]
    cases h1 : isLockedOutput s op L.now with
    | none =>
      rw [h1] at hl
      have h2 : Ledger.leaseOf L op = none := by
        cases hx : Ledger.leaseOf L op with
        | none => rfl
        | some y => rw [hx] at hl; cases hl
      simp only [h2]
      have : unlockOutput s L.now id op = .ok s := by simp [unlockOutput, hkn, h1]
      rw [this]; exact h
    | some l =>
      rw [h1] at hl
      cases hx : Ledger.leaseOf L op with
      | none => rw [hx] at hl; cases hl
      | some l' =>
        rw [hx] at hl
        simp only [Option.map_some, Option.some.injEq, Prod.mk.injEq] at hl
        simp only
        by_cases hid : l.id = id
        · have hid' : l'.id = id := by rw [← hl.1]; exact hid
          have : unlockOutput s L.now id op = .ok (unlockOutputRaw s op) := by
            simp [unlockOutput, hkn, h1, hid]
          rw [this]
          simp only [hid', ne_eq, not_true_eq_false, if_false]
          refine ⟨fun op' => h.known op', ?_⟩
          intro op'
          show ((s.locked.erase op).find? op').map _ = _
          rw [find?_erase, lookup_filter_ne]
          by_cases e : op = op'
          · subst e; simp
          · have e' : ¬ op' = op := fun x => e x.symm
            simp only [e, e', if_false]
            exact h.leases op'
        · have hid' : l'.id ≠ id := by rw [← hl.1]; exact hid
          have : unlockOutput s L.now id op = .error Err.unlockNotAllowed := by
            simp [unlockOutput, hkn, h1, hid]
          rw [this]
          simp only [hid', ne_eq, not_false_eq_true, if_true]
          exact h
  · have hkn' : isKnownOutput s op = false := by simpa using hkn
    have hkl : Ledger.leasable L op = false := by rw [← hk]; exact hkn'
    have : unlockOutput s L.now id op = .error Err.unknownOutput := by simp [unlockOutput, hkn']
    rw [this]
    simp only [hkl, Bool.not_false, if_true]
    exact h

theorem lookup_none_of_not_mem {α : Type} (l : List (OutPoint × α)) (op : OutPoint) (h : op ∉ l.map (·.1)) :
    Ledger.lookup l op = none := by
  unfold Ledger.lookup
  have : l.find? (fun p => p.1 == op) = none := by
    rw [List.find?_eq_none]
    intro p hp e
    apply h
    have : p.1 = op := by simpa using e
    rw [← this]; exact List.mem_map.mpr ⟨p, hp, rfl⟩
  rw [this]

theorem lookup_filter_val {α : Type} (P : α → Bool) : ∀ (l : List (OutPoint × α)) (op : OutPoint),
    (l.map (·.1)).Nodup →
    Ledger.lookup (l.filter fun p => P p.2) op =
      match Ledger.lookup l op with
      | some x => if P x then some x else none
      | none => none := by
  intro l
  induction l with
  | nil => intro op _; rfl
  | cons p t ih =>
    intro op hn
    rw [List.map_cons, List.nodup_cons] at hn
    by_cases h3 : (p.1 == op) = true
    · have hp : p.1 = op := by simpa using h3
      have hl : Ledger.lookup (p :: t) op = some p.2 := by simp [Ledger.lookup, List.find?_cons, h3]
      rw [hl]
      by_cases hP : P p.2 = true
      · simp [List.filter_cons, hP, Ledger.lookup, List.find?_cons, h3]
      · simp only [List.filter_cons, hP, Bool.false_eq_true, if_false]
        apply lookup_none_of_not_mem
        intro hm
        apply hn.1
        rw [hp]
        obtain ⟨q, hq, hqe⟩ := List.mem_map.mp hm
        exact List.mem_map.mpr ⟨q, (List.mem_filter.mp hq).1, hqe⟩
    · have h3' : (p.1 == op) = false := by simpa using h3
      have hl : Ledger.lookup (p :: t) op = Ledger.lookup t op := by simp [Ledger.lookup, List.find?_cons, h3']
      rw [hl, ← ih op hn.2]
      by_cases hP : P p.2 = true
      · simp [List.filter_cons, hP, Ledger.lookup, List.find?_cons, h3']
      · simp [List.filter_cons, hP]

/-- **sweep** refines: `DeleteExpiredLockedOutputs` removes from the bucket exactly the leases the ledger drops
(keys of the bucket and of the ledger's lease list are unique).
`_partial` in the name is historical: the gap it named (the chain events preserving the `known` clause) is closed by
`leaseRefines_of_good` (Lemmas/RefLease.lean) + `good_history` (Lemmas/RefAll.lean): `LeaseRefines` holds after every
chain-consistent history.  Not renamed: those files import this one (import cycle). -/
theorem C12_sweep_refines_partial (s : Store) (L : Ledger.Ledger) (h : LeaseRefines s L)
    (hn : NodupKeys s.locked) (hnL : (L.leases.map (·.1)).Nodup) :
    LeaseRefines (deleteExpiredLockedOutputs s L.now) (Ledger.apply L .sweep) := by
  refine ⟨?_, ?_⟩
  · intro op
    have : isKnownOutput (deleteExpiredLockedOutputs s L.now) op = isKnownOutput s op := by
      rw [C12_sweep_only_leases]; rfl
    rw [this]; exact h.known op
  · intro op
    rw [C12_sweep_exact s L.now op hn]
    show _ = (Ledger.lookup (L.leases.filter fun p => decide ((L.now : Int) < p.2.expiry)) op).map _
    rw [lookup_filter_val (fun l : Ledger.Lease => decide ((L.now : Int) < l.expiry)) L.leases op hnL]
    have := h.leases op
    cases h1 : s.locked.find? op with
    | none =>
      rw [h1] at this
      cases h2 : Ledger.lookup L.leases op with
      | none => rfl
      | some y => rw [h2] at this; cases this
    | some l =>
      rw [h1] at this
      cases h2 : Ledger.lookup L.leases op with
      | none => rw [h2] at this; cases this
      | some y =>
        rw [h2] at this
        simp only [Option.map_some, Option.some.injEq, Prod.mk.injEq] at this
        simp only
        rw [← this.2]
        by_cases hc : (L.now : Int) < l.expiry * 1000000000
        · simp [hc, this.1, this.2]
        · simp [hc]

/-- **clock** refines (the store has no clock of its own: the relation does not mention it).
`_partial` in the name is historical: the gap it named (the chain events preserving the `known` clause) is closed by
`leaseRefines_of_good` (Lemmas/RefLease.lean) + `good_history` (Lemmas/RefAll.lean): `LeaseRefines` holds after every
chain-consistent history.  Not renamed: those files import this one (import cycle). -/
theorem C12_clock_refines_partial (s : Store) (L : Ledger.Ledger) (t : Nat) (h : LeaseRefines s L) :
    LeaseRefines s (Ledger.apply L (.clock t)) := ⟨fun op => h.known op, fun op => h.leases op⟩

/-- **the lease queries agree**: an output is leased at the ledger's clock in the store iff it is in the ledger, under
the same id and until the same instant — in particular at the boundary instant `now = expiry` both say free.
`_partial` in the name is historical: the hypothesis `LeaseRefines s L` holds after every chain-consistent history
(`leaseRefines_of_good` in Lemmas/RefLease.lean + `good_history` in Lemmas/RefAll.lean; used that way in
Lemmas/RefObs.lean).  Not renamed: those files import this one (import cycle). -/
theorem C12_leased_refines_partial (s : Store) (L : Ledger.Ledger) (h : LeaseRefines s L) (op : OutPoint) :
    isLocked s op L.now = Ledger.leased L op := by
  have := leaseOf_refines h op
  unfold isLocked Ledger.leased
  cases h1 : isLockedOutput s op L.now <;> cases h2 : Ledger.leaseOf L op <;> simp_all

/-! ### non-vacuity: the hypotheses of the theorems above are satisfiable on a concrete store -/

example : isKnownOutput exStore ⟨7, 0⟩ = true := by decide
example : ∃ s', lockOutput exStore 0 1 ⟨7, 0⟩ 2000000000 = .ok (2000000000, s') ∧
    isLockedOutput s' ⟨7, 0⟩ 1999999999 = some ⟨1, 2⟩ ∧ isLockedOutput s' ⟨7, 0⟩ 2000000000 = none ∧
    lockOutput s' 5 2 ⟨7, 0⟩ 1 = .error Err.alreadyLocked ∧
    unlockOutput s' 5 2 ⟨7, 0⟩ = .error Err.unlockNotAllowed ∧
    NodupKeys s'.locked := by
  refine ⟨_, rfl, ?_, ?_, ?_, ?_, ?_⟩
  · decide
  · decide
  · decide
  · decide
  · unfold NodupKeys; decide
example : isKnownOutput exStore ⟨8, 0⟩ = false := by decide

end TxStore.C12
