import BtcwVerif.Model.CoinSelect
import BtcwVerif.Gen.CreateTxSitesGen
/-!
# C06 — created transactions spend only eligible own coins, once; ineligible explicit selections are refused

Theorems are about `CoinSelect.createTx` (the model of `txToOutputs` on the tree that contains fix 80523df) for
every wallet view, request, fee rate, strategy (every sequence of random draws of the shuffle) and explicit selection.
Signature validity is not a statement of this file: it is executed by the Go engine on every signed result.
-/
namespace C06
open CoinSelect

/-! ## The property's own words -/

/-- "currently credited to the requested account (and key scope), unspent by any known confirmed or unconfirmed
transaction, neither locked nor leased, confirmed at least the requested number of times and, if coinbase, mature"
(plus the caller's own filter).  Confirmations are counted against the backend's tip `r.tip`. -/
def Eligible (V : View) (r : Request) (c : Coin) : Prop :=
  c ∈ V.coins ∧
  c.account = r.account ∧
  (∀ k, r.scope = some k → c.kind = k) ∧
  c.spentByKnown = false ∧
  c.userLocked = false ∧
  (∀ e, c.leasedUntil = some e → e ≤ V.now) ∧
  r.minconf ≤ confirms c.height r.tip ∧
  (c.coinbase = true → V.maturity ≤ confirms c.height r.tip) ∧
  r.allow c = true

/-- The view lists every credited outpoint once (true of `UnspentOutputs`, whose keys are outpoints). -/
def WF (V : View) : Prop := (V.coins.map (·.op)).Nodup

/-! ## findEligibleOutputs -/

theorem leasedAt_false {c : Coin} {now : Int} (h : leasedAt c now = false) : ∀ e, c.leasedUntil = some e → e ≤ now := by
  intro e he
  simp [leasedAt, he] at h
  exact h

theorem mem_findEligible {V : View} {r : Request} {c : Coin} (h : c ∈ findEligibleOutputs V r) : Eligible V r c := by
  simp only [findEligibleOutputs, unspentOutputs, List.mem_filter, eligibleB, confirmed, Bool.and_eq_true,
    Bool.or_eq_true, Bool.not_eq_true', decide_eq_true_eq, beq_iff_eq] at h
  obtain ⟨⟨hmem, hsp, hl⟩, ⟨⟨⟨⟨⟨⟨hal, hconf⟩, hcb⟩, hul⟩, _⟩, hsc⟩, hacc⟩⟩ := h
  refine ⟨hmem, hacc, ?_, hsp, hul, leasedAt_false hl, hconf, ?_, hal⟩
  · intro k hk
    simp [scopeOk, hk] at hsc
    exact hsc
  · intro hcbt
    cases hcb with
    | inl h => simp [hcbt] at h
    | inr h => exact h

theorem findEligible_sublist (V : View) (r : Request) : (findEligibleOutputs V r).Sublist V.coins :=
  List.filter_sublist.trans List.filter_sublist

theorem findEligible_nodup {V : View} (hV : WF V) (r : Request) : ((findEligibleOutputs V r).map (·.op)).Nodup :=
  List.Nodup.sublist ((findEligible_sublist V r).map _) hV

/-! ## arrangement -/

theorem insertDesc_perm (c : Coin) (l : List Coin) : (insertDesc c l).Perm (c :: l) := by
  induction l with
  | nil => exact List.Perm.refl _
  | cons d ds ih =>
    simp only [insertDesc]
    split
    · exact List.Perm.refl _
    · exact (List.Perm.cons d ih).trans (List.Perm.swap c d ds)

theorem sortDesc_perm (l : List Coin) : (sortDesc l).Perm l := by
  induction l with
  | nil => exact List.Perm.refl _
  | cons c cs ih => exact (insertDesc_perm c _).trans (List.Perm.cons c ih)

theorem shuffle_perm (js : List Nat) (l : List Coin) : (shuffle js l).Perm l := by
  induction js generalizing l with
  | nil => exact List.Perm.refl _
  | cons j js ih =>
    simp only [shuffle]
    split
    · exact List.Perm.refl _
    · rename_i x hx
      have hmem : x ∈ l := List.mem_of_getElem? hx
      exact (List.Perm.cons x (ih _)).trans (List.perm_cons_erase hmem).symm

/-- Whatever the strategy and the random draws, the arranged coins are a duplicate-free selection of eligible ones. -/
theorem arrange_sub (s : Strategy) (rate : Int) (E : List Coin) :
    ∃ F, (arrange s rate E).Perm F ∧ F.Sublist E := by
  cases s with
  | largest => exact ⟨E, sortDesc_perm E, List.Sublist.refl E⟩
  | random draws => exact ⟨_, shuffle_perm draws _, List.filter_sublist⟩

theorem arrange_mem {s : Strategy} {rate : Int} {E : List Coin} {c : Coin} (h : c ∈ arrange s rate E) : c ∈ E := by
  obtain ⟨F, hp, hs⟩ := arrange_sub s rate E
  exact hs.subset (hp.mem_iff.mp h)

theorem arrange_nodup {s : Strategy} {rate : Int} {E : List Coin} (h : (E.map (·.op)).Nodup) :
    ((arrange s rate E).map (·.op)).Nodup := by
  obtain ⟨F, hp, hs⟩ := arrange_sub s rate E
  exact (hp.map _).nodup_iff.mpr (List.Nodup.sublist (hs.map _) h)

/-! ## input sources and the author loop: the inputs are what was already taken plus a prefix of the rest -/

theorem fetch_spec (target : Int) (taken rest : List Coin) :
    ∃ k, fetch target taken rest = (taken ++ rest.take k, rest.drop k) := by
  induction rest generalizing taken with
  | nil => exact ⟨0, by simp [fetch]⟩
  | cons c cs ih =>
    simp only [fetch]
    split
    · obtain ⟨k, hk⟩ := ih (taken ++ [c])
      exact ⟨k + 1, by simp [hk]⟩
    · exact ⟨0, by simp⟩

theorem author_spec (r : Request) (fuel : Nat) (fee : Int) (taken rest : List Coin) {res : List Coin × Int}
    (h : author r fuel fee taken rest = .ok res) : ∃ k, res.1 = taken ++ rest.take k := by
  induction fuel generalizing fee taken rest with
  | zero => simp [author] at h
  | succ n ih =>
    obtain ⟨k, hk⟩ := fetch_spec (sumOutputs r.outputs + fee) taken rest
    simp only [author, hk] at h
    split at h
    · cases h
    · split at h
      · obtain ⟨k', hk'⟩ := ih _ _ _ h
        refine ⟨k + k', ?_⟩
        rw [hk', List.append_assoc, List.take_add]
      · cases h
        exact ⟨k, rfl⟩

/-! ## explicit selection -/

theorem lookupEligible_some {E : List Coin} {op : OutPoint} {c : Coin} (h : lookupEligible E op = some c) :
    c ∈ E ∧ c.op = op := by
  unfold lookupEligible at h
  refine ⟨List.mem_reverse.mp (List.mem_of_find?_eq_some h), ?_⟩
  have := List.find?_some h
  simpa using this

theorem selectLoop_spec (E : List Coin) (sel seen : List OutPoint) (acc : List Coin) {cs : List Coin}
    (h : selectLoop E sel seen acc = .ok cs) :
    ∃ new, cs = acc ++ new ∧ new.map (·.op) = sel ∧ (∀ c ∈ new, c ∈ E) ∧ sel.Nodup ∧ ∀ o ∈ sel, o ∉ seen := by
  induction sel generalizing seen acc with
  | nil =>
    simp [selectLoop] at h
    exact ⟨[], by simp [h]⟩
  | cons op ops ih =>
    simp only [selectLoop] at h
    split at h
    · cases h
    · rename_i hseen
      split at h
      · cases h
      · rename_i c hc
        obtain ⟨hcE, hcop⟩ := lookupEligible_some hc
        obtain ⟨new, h1, h2, h3, h4, h5⟩ := ih _ _ h
        have hseen' : op ∉ seen := by simpa using hseen
        refine ⟨c :: new, by simp [h1], by simp [hcop, h2], ?_, ?_, ?_⟩
        · intro x hx
          cases hx with
          | head => exact hcE
          | tail _ hx => exact h3 x hx
        · refine List.nodup_cons.mpr ⟨?_, h4⟩
          intro hmem
          exact h5 op hmem (List.mem_cons_self)
        · intro o ho
          cases ho with
          | head => exact hseen'
          | tail _ ho => exact fun hs => h5 o ho (List.mem_cons_of_mem _ hs)

/-! ## createTx: shape of every successful result -/

theorem source_spec {E : List Coin} {r : Request} {taken rest : List Coin} (hE : (E.map (·.op)).Nodup)
    (h : sourceWith (fun E s => selectLoop E s [] []) E r = .ok (taken, rest)) :
    (∀ c ∈ taken ++ rest, c ∈ E) ∧ ((taken ++ rest).map (·.op)).Nodup ∧
    (r.selected ≠ [] → rest = [] ∧ taken.map (·.op) = r.selected) := by
  unfold sourceWith at h
  split at h
  · rename_i hemp
    cases h
    refine ⟨fun c hc => arrange_mem (by simpa using hc), by simpa using arrange_nodup hE, ?_⟩
    intro hne
    exact absurd (List.isEmpty_iff.mp hemp) hne
  · split at h
    · cases h
    · rename_i cs hcs
      cases h
      obtain ⟨new, h1, h2, h3, h4, _⟩ := selectLoop_spec _ _ _ _ hcs
      simp only [List.nil_append] at h1
      subst h1
      refine ⟨by simpa using h3, by simp only [List.append_nil, h2]; exact h4, fun _ => ⟨rfl, h2⟩⟩

/-- Every successful `createTx` spends a duplicate-free list of coins taken from `findEligibleOutputs`. -/
theorem createTx_shape {V : View} {r : Request} {tx : Authored} (hV : WF V) (h : createTx V r = .ok tx) :
    (∀ c ∈ tx.ins, c ∈ findEligibleOutputs V r) ∧ (tx.ins.map (·.op)).Nodup ∧
    (r.selected ≠ [] → tx.ins.map (·.op) = r.selected) := by
  unfold createTx createTxWith at h
  cases hsrc : sourceWith (fun E s => selectLoop E s [] []) (findEligibleOutputs V r) r with
  | error e => simp [hsrc] at h
  | ok p =>
    obtain ⟨taken, rest⟩ := p
    simp only [hsrc] at h
    obtain ⟨hmem, hnd, hselx⟩ := source_spec (findEligible_nodup hV r) hsrc
    cases hres : author r (rest.length + 2) (initialFee r) taken rest with
    | error e => simp [hres] at h
    | ok res =>
      simp only [hres] at h
      cases h
      obtain ⟨k, hk⟩ := author_spec _ _ _ _ _ hres
      have hsub : (taken ++ rest.take k).Sublist (taken ++ rest) :=
        List.Sublist.append (List.Sublist.refl _) (List.take_sublist k rest)
      simp only [finish, hk]
      refine ⟨fun c hc => hmem c (hsub.subset hc), List.Nodup.sublist (hsub.map _) hnd, ?_⟩
      intro hne
      obtain ⟨hr, ht⟩ := hselx hne
      subst hr
      simpa using ht

/-! ## The property theorems -/

/-- **Inputs are eligible**: every input of a created transaction is credited to the requested account and scope,
unspent by any known transaction, not locked, not leased, confirmed ≥ minconf against the backend tip, mature if
coinbase, and passes the caller's filter. -/
theorem C06_inputs_eligible (V : View) (r : Request) (tx : Authored) (hV : WF V) (h : createTx V r = .ok tx) :
    ∀ c ∈ tx.ins, Eligible V r c :=
  fun c hc => mem_findEligible ((createTx_shape hV h).1 c hc)

/-- **No output is used twice in one transaction** — for every strategy, shuffle and explicit selection
(a repeated outpoint in the selection is refused, see `C06_selected_duplicate_refused`). -/
theorem C06_inputs_distinct (V : View) (r : Request) (tx : Authored) (hV : WF V) (h : createTx V r = .ok tx) :
    (tx.ins.map (·.op)).Nodup :=
  (createTx_shape hV h).2.1

/-- With an explicit selection the inputs are exactly the selected outpoints, in order. -/
theorem C06_selected_exact (V : View) (r : Request) (tx : Authored) (hV : WF V) (h : createTx V r = .ok tx)
    (hsel : r.selected ≠ []) : tx.ins.map (·.op) = r.selected :=
  (createTx_shape hV h).2.2 hsel

/-- **Explicitly selected inputs that are not eligible are refused**: if some selected outpoint is not the outpoint
of an eligible coin, the request fails. -/
theorem C06_selected_refused (V : View) (r : Request) (hV : WF V) (o : OutPoint) (ho : o ∈ r.selected)
    (hbad : ¬ ∃ c, Eligible V r c ∧ c.op = o) : ∃ e, createTx V r = .error e := by
  cases h : createTx V r with
  | error e => exact ⟨e, rfl⟩
  | ok tx =>
    exfalso
    have hne : r.selected ≠ [] := List.ne_nil_of_mem ho
    have hops := C06_selected_exact V r tx hV h hne
    rw [← hops] at ho
    obtain ⟨c, hc, hco⟩ := List.mem_map.mp ho
    exact hbad ⟨c, C06_inputs_eligible V r tx hV h c hc, hco⟩

/-- A selection naming the same outpoint twice is refused (fix 80523df; before it, finding F7). -/
theorem C06_selected_duplicate_refused (V : View) (r : Request) (hV : WF V) (hdup : ¬ r.selected.Nodup) :
    ∃ e, createTx V r = .error e := by
  cases h : createTx V r with
  | error e => exact ⟨e, rfl⟩
  | ok tx =>
    exfalso
    have hne : r.selected ≠ [] := by
      intro hnil
      exact hdup (by simp [hnil])
    have hops := C06_selected_exact V r tx hV h hne
    exact hdup (hops ▸ C06_inputs_distinct V r tx hV h)

/-! ### no reuse after publication -/

theorem publishAccepted_spent {V : View} {t : Authored} {new : List Coin} {c : Coin}
    (hc : c ∈ (publishAccepted V t new).coins) (hunspent : c.spentByKnown = false) :
    c ∈ new ∨ ∀ i ∈ t.ins, i.op ≠ c.op := by
  simp only [publishAccepted, List.mem_append, List.mem_map] at hc
  cases hc with
  | inr h => exact Or.inl h
  | inl h =>
    obtain ⟨d, _, hd⟩ := h
    right
    split at hd
    · subst hd
      simp at hunspent
    · rename_i hany
      subst hd
      intro i hi heq
      apply hany
      exact List.any_eq_true.mpr ⟨i, hi, by simpa using heq⟩

/-- **Once a created transaction has been published, no later one reuses its inputs.**  `new` are the outputs the
published transaction credits to the wallet (change, payments to own addresses); they carry the new transaction's id,
so their outpoints differ from the outpoints it spends. -/
theorem C06_no_reuse (V : View) (r₂ : Request) (t₁ t₂ : Authored) (new : List Coin)
    (hnew : ∀ n ∈ new, ∀ i ∈ t₁.ins, i.op ≠ n.op)
    (hV' : WF (publishAccepted V t₁ new))
    (h₂ : createTx (publishAccepted V t₁ new) r₂ = .ok t₂) :
    ∀ c₁ ∈ t₁.ins, ∀ c₂ ∈ t₂.ins, c₁.op ≠ c₂.op := by
  intro c₁ hc₁ c₂ hc₂
  have hel := C06_inputs_eligible _ r₂ t₂ hV' h₂ c₂ hc₂
  cases publishAccepted_spent hel.1 hel.2.2.2.1 with
  | inl hn => exact hnew c₂ hn c₁ hc₁
  | inr h => exact h c₁ hc₁

/-- Successive sends: each request is answered on the view left by the previous accepted ones. -/
def sendSeq (V : View) : List (Request × List Coin) → List Authored
  | [] => []
  | (r, new) :: rest =>
    match createTx V r with
    | .error _ => sendSeq V rest
    | .ok t => t :: sendSeq (publishAccepted V t new) rest

/-- Side conditions on a sequence: every view along the way lists each outpoint once and the outputs credited by a
new transaction have outpoints the view has not seen (they carry a new transaction id). -/
def SeqOk (V : View) : List (Request × List Coin) → Prop
  | [] => True
  | (r, new) :: rest =>
    match createTx V r with
    | .error _ => SeqOk V rest
    | .ok t => (∀ n ∈ new, ∀ c ∈ V.coins, c.op ≠ n.op) ∧ WF (publishAccepted V t new) ∧ SeqOk (publishAccepted V t new) rest

/-- outpoints in `used` are all known to the view and marked spent -/
def Marked (V : View) (used : List OutPoint) : Prop :=
  ∀ o ∈ used, (∃ c ∈ V.coins, c.op = o) ∧ ∀ c ∈ V.coins, c.op = o → c.spentByKnown = true

theorem marked_step {V : View} {used : List OutPoint} {t : Authored} {new : List Coin}
    (hm : Marked V used) (hins : ∀ i ∈ t.ins, i ∈ V.coins)
    (hnew : ∀ n ∈ new, ∀ c ∈ V.coins, c.op ≠ n.op) :
    Marked (publishAccepted V t new) (t.ins.map (·.op) ++ used) := by
  intro o ho
  have hknown : ∃ c ∈ V.coins, c.op = o := by
    cases List.mem_append.mp ho with
    | inl h =>
      obtain ⟨i, hi, hio⟩ := List.mem_map.mp h
      exact ⟨i, hins i hi, hio⟩
    | inr h => exact (hm o h).1
  constructor
  · obtain ⟨c, hc, hco⟩ := hknown
    refine ⟨(if t.ins.any (·.op == c.op) then { c with spentByKnown := true } else c), ?_, ?_⟩
    · simp only [publishAccepted]
      exact List.mem_append_left _ (List.mem_map.mpr ⟨c, hc, rfl⟩)
    · split <;> simp [hco]
  · intro c hc hco
    simp only [publishAccepted, List.mem_append, List.mem_map] at hc
    cases hc with
    | inr hn =>
      obtain ⟨d, hd, hdo⟩ := hknown
      exact absurd (hdo.trans hco.symm) (hnew c hn d hd)
    | inl h =>
      obtain ⟨d, hd, hdc⟩ := h
      split at hdc
      · subst hdc; rfl
      · rename_i hany
        subst hdc
        cases List.mem_append.mp ho with
        | inl h =>
          obtain ⟨i, hi, hio⟩ := List.mem_map.mp h
          exfalso
          apply hany
          exact List.any_eq_true.mpr ⟨i, hi, by simp [hio, hco]⟩
        | inr h => exact (hm o h).2 d hd hco

theorem sendSeq_avoids (steps : List (Request × List Coin)) :
    ∀ (V : View) (used : List OutPoint), WF V → SeqOk V steps → Marked V used →
      (∀ t ∈ sendSeq V steps, ∀ c ∈ t.ins, c.op ∉ used) ∧
      (sendSeq V steps).Pairwise (fun a b => ∀ c₁ ∈ a.ins, ∀ c₂ ∈ b.ins, c₁.op ≠ c₂.op) := by
  induction steps with
  | nil => intro V used _ _ _; simp [sendSeq]
  | cons s rest ih =>
    intro V used hV hok hm
    obtain ⟨r, new⟩ := s
    simp only [sendSeq, SeqOk] at hok ⊢
    cases hc : createTx V r with
    | error e =>
      simp only [hc] at hok ⊢
      exact ih V used hV hok hm
    | ok t =>
      simp only [hc] at hok ⊢
      obtain ⟨hnew, hV', hok'⟩ := hok
      have hel := C06_inputs_eligible V r t hV hc
      have hm' := marked_step (t := t) (new := new) hm (fun i hi => (hel i hi).1) hnew
      obtain ⟨h1, h2⟩ := ih _ _ hV' hok' hm'
      constructor
      · intro t' ht' c hcin
        cases List.mem_cons.mp ht' with
        | inl h =>
          subst h
          intro hu
          have := (hm c.op hu).2 c (hel c hcin).1 rfl
          rw [(hel c hcin).2.2.2.1] at this
          cases this
        | inr h =>
          intro hu
          exact h1 t' h c hcin (List.mem_append_right _ hu)
      · refine List.pairwise_cons.mpr ⟨?_, h2⟩
        intro t' ht' c₁ hc₁ c₂ hc₂ heq
        exact h1 t' ht' c₂ hc₂ (List.mem_append_left _ (List.mem_map.mpr ⟨c₁, hc₁, heq⟩))

/-- **No reuse, for every sequence of successive sends**: the transactions created by any sequence of requests, each
accepted one being published before the next request, spend pairwise disjoint sets of outpoints. -/
theorem C06_no_reuse_seq (V : View) (steps : List (Request × List Coin)) (hV : WF V) (hok : SeqOk V steps) :
    (sendSeq V steps).Pairwise (fun a b => ∀ c₁ ∈ a.ins, ∀ c₂ ∈ b.ins, c₁.op ≠ c₂.op) :=
  (sendSeq_avoids steps V [] hV hok (by intro o ho; cases ho)).2

/-! ## Serialisation of coin selection (facts regenerated from wallet/*.go on every run)

`sendSeq` answers one request after the other.  In the Go code this is what the `createTxRequests` channel provides;
the structure it relies on is extracted from the current source and checked here: `CreateSimpleTx` is the only
sender, `txCreator` the only receiver and the only caller of `txToOutputs` (not from a nested goroutine or closure),
it is started exactly once (by `Start`), and `findEligibleOutputs` is only reached through `txToOutputs`. -/

theorem C06_generated_serialised :
    CreateTxSitesGen.txToOutputsCallers = ["txCreator"] ∧
    CreateTxSitesGen.requestReceivers = ["txCreator"] ∧
    CreateTxSitesGen.requestSenders = ["CreateSimpleTx"] ∧
    CreateTxSitesGen.txCreatorSpawns = 1 ∧
    CreateTxSitesGen.txCreatorSpawners = ["Start"] ∧
    CreateTxSitesGen.txCreatorCallsInGo = false ∧
    CreateTxSitesGen.findEligibleCallers = ["txToOutputs"] := by decide

/-! ## The fuel bound of the author loop is not a truncation -/

theorem fetch_snd_length (target : Int) (taken rest : List Coin) : (fetch target taken rest).2.length ≤ rest.length := by
  obtain ⟨k, hk⟩ := fetch_spec target taken rest
  rw [hk]; simp

theorem fetch_hungry {target : Int} {taken : List Coin} (c : Coin) (cs : List Coin) (h : total taken < target) :
    (fetch target taken (c :: cs)).2.length ≤ cs.length := by
  simp only [fetch, h, if_true]
  exact fetch_snd_length _ _ _

/-- In a state where the inputs handed out so far do not reach the target, `rest.length + 1` iterations suffice. -/
theorem author_fuel_hungry (r : Request) : ∀ (fuel : Nat) (fee : Int) (taken rest : List Coin) (k : Nat),
    total taken < sumOutputs r.outputs + fee → rest.length + 1 ≤ fuel →
    author r (fuel + k) fee taken rest = author r fuel fee taken rest := by
  intro fuel
  induction fuel with
  | zero => intro fee taken rest k _ h; omega
  | succ f ih =>
    intro fee taken rest k hh hf
    have e : f + 1 + k = (f + k) + 1 := by omega
    rw [e]
    cases rest with
    | nil =>
      simp only [author, fetch]
      simp [hh]
    | cons c cs =>
      have hlen := fetch_hungry (target := sumOutputs r.outputs + fee) c cs hh
      simp only [author]
      generalize fetch (sumOutputs r.outputs + fee) taken (c :: cs) = p at hlen
      obtain ⟨taken', rest'⟩ := p
      simp only at hlen ⊢
      split
      · rfl
      · split
        · rename_i hcont
          apply ih
          · omega
          · simp only [List.length_cons] at hf; omega
        · rfl

/-- **The fuel bound of `author` is not a truncation**: with `rest.length + 2` iterations the loop of
`NewUnsignedTransaction` has always finished; more fuel never changes the result. -/
theorem C06_author_fuel_enough (r : Request) (fee : Int) (taken rest : List Coin) (k : Nat) :
    author r (rest.length + 2 + k) fee taken rest = author r (rest.length + 2) fee taken rest := by
  have e : rest.length + 2 + k = (rest.length + 1 + k) + 1 := by omega
  rw [e]
  have hlen := fetch_snd_length (sumOutputs r.outputs + fee) taken rest
  simp only [author]
  generalize fetch (sumOutputs r.outputs + fee) taken rest = p at hlen
  obtain ⟨taken', rest'⟩ := p
  simp only at hlen ⊢
  split
  · rfl
  · split
    · apply author_fuel_hungry
      · omega
      · omega
    · rfl

/-! ## Non-vacuity and the finding F7 on the code before fix 80523df -/
namespace Example

def coin (tx idx : Nat) (amt : Int) (k : Kind) (h : Int) : Coin :=
  { op := (tx, idx), amount := amt, account := 0, kind := k, script := k, addrKnown := true, height := h,
    coinbase := false, spentByKnown := false, userLocked := false, leasedUntil := none }

/-- three confirmed coins, one of them user-locked, and an unconfirmed one -/
def V : View :=
  { coins := [coin 1 0 300000 .p2wkh 6, { coin 1 1 200000 .p2tr 6 with userLocked := true }, coin 2 0 150000 .p2pkh 6,
              coin 3 0 900000 .p2wkh (-1)],
    now := 1000, maturity := 100 }

def req (sel : List OutPoint) (amt : Int) : Request :=
  { account := 0, scope := none, minconf := 1, tip := 6, outputs := [⟨amt, 22⟩], feeRate := 1000,
    strategy := .largest, selected := sel, allow := fun _ => true, changeScriptLen := 34, changeWitness := true }

def errOf : Except Err Authored → Option Err
  | .error e => some e
  | .ok _ => none

theorem wfV : WF V := by unfold WF; decide

/-- largest-first over the eligible coins: the locked and the unconfirmed coin are skipped -/
example : (createTx V (req [] 400000)).toOption.map (fun t => (t.ins.map (·.op), t.change)) =
    some ([(1, 0), (2, 0)], some 49698) := by decide

/-- a `SeqOk` sequence of two sends exists and both succeed (non-vacuity of `C06_no_reuse_seq`) -/
example : (sendSeq V [(req [] 100000, [coin 10 1 199847 .p2tr (-1)]), (req [] 100000, [])]).map (fun t => t.ins.map (·.op)) =
    [[(1, 0)], [(2, 0)]] := by decide

/-- an explicitly selected locked coin is refused … -/
example : errOf (createTx V (req [(1, 1)] 50000)) = some (.notEligible (1, 1)) := by decide
/-- … and so is a repeated outpoint (current tree) -/
example : errOf (createTx V (req [(1, 0), (1, 0)] 50000)) = some (.duplicateSelected (1, 0)) := by decide

end Example

/-! ## `txCreator`: a locked wallet refuses; what it creates for a regular account is signed (round 2, seed C06-5)

`txCreator` asks `holdUnlock()` before `txToOutputs` unless the whole manager is watch-only.  `txToOutputs` decides
whether to sign through `Manager.IsWatchOnlyAccount`, i.e. `acctKeyPriv == nil`, which `Manager.Lock` makes true for
every account (`isWatchOnlyAccount`).  The two sites together give the property's sentence "every input of a
non-watch-only result carries a signature ... " its "or the call is refused" reading: -/

/-- The guard of `txCreator` as it stands in the current source (re-extracted on every run by
`harness/cmd/vxextract/createtxsites.go`): every `holdUnlock()` error — `ErrLocked` included — ends the request before
`txToOutputs` is reached. -/
theorem C06_generated_lock_guard : CreateTxSitesGen.holdUnlockErrorIsFatal = true := by decide

/-- A locked wallet that is not watch-only refuses every request, dry runs included, with `ErrLocked`. -/
theorem C06_locked_refused (ls : LockState) (V : View) (r : Request) (hl : ls.locked = true)
    (hw : ls.managerWatchOnly = false) : txCreator ls V r = .error .locked := by
  simp [txCreator, hl, hw]

/-- A successful `txCreator` result is a `txToOutputs` result (so every theorem about `createTx` applies to it) and the
wallet was unlocked (or is watch-only as a whole). -/
theorem C06_txCreator_ok (ls : LockState) (V : View) (r : Request) (tx : Authored) (h : txCreator ls V r = .ok tx) :
    createTx V r = .ok tx ∧ (ls.locked = false ∨ ls.managerWatchOnly = true) := by
  unfold txCreator at h
  split at h
  · cases h
  · rename_i hc
    refine ⟨h, ?_⟩
    cases hl : ls.locked <;> cases hw : ls.managerWatchOnly <;> simp_all

/-- **Signed or refused**: in a wallet that is not watch-only, a successful non-dry request for an account that owns its
private keys takes the signing branch (`AddAllInputScripts` + `validateMsgTx`).  The `IsWatchOnlyAccount` quirk below is
unreachable because a locked wallet never gets past `holdUnlock`. -/
theorem C06_signed_or_refused (ls : LockState) (V : View) (r : Request) (tx : Authored)
    (hw : ls.managerWatchOnly = false) (hp : ls.acctHasPriv = true) (h : txCreator ls V r = .ok tx) :
    signs ls false = true := by
  have h2 := (C06_txCreator_ok ls V r tx h).2
  rcases h2 with hl | hm
  · simp [signs, isWatchOnlyAccount, hl, hp]
  · rw [hw] at hm; cases hm

/-- The quirk itself (why the guard in `txCreator` is load-bearing): while locked, `txToOutputs` would skip signing
for EVERY account. -/
theorem C06_locked_account_looks_watch_only (ls : LockState) (hl : ls.locked = true) (dry : Bool) :
    signs ls dry = false := by
  simp [signs, isWatchOnlyAccount, hl]

/-- The selection clauses of C06 for what `txCreator` returns. -/
theorem C06_txCreator_inputs (ls : LockState) (V : View) (r : Request) (tx : Authored) (hV : WF V)
    (h : txCreator ls V r = .ok tx) :
    (∀ c ∈ tx.ins, Eligible V r c) ∧ (tx.ins.map (·.op)).Nodup :=
  have h1 := (C06_txCreator_ok ls V r tx h).1
  ⟨C06_inputs_eligible V r tx hV h1, C06_inputs_distinct V r tx hV h1⟩

example : Example.errOf (txCreator ⟨true, false, true⟩ Example.V (Example.req [] 400000)) = some .locked := by decide
example : Example.errOf (txCreator ⟨false, false, true⟩ Example.V (Example.req [] 400000)) = none := by decide


/-- **Finding F7** (code before fix 80523df): with `WithCustomSelectUtxos([op, op])` the transaction spends the same
outpoint as input 0 and input 1 — the distinctness clause is false of `createTxUnfixed`. -/
theorem C06_unfixed_duplicate_counterexample :
    ∃ V r tx, WF V ∧ createTxUnfixed V r = .ok tx ∧ ¬ (tx.ins.map (·.op)).Nodup :=
  ⟨Example.V, Example.req [(1, 0), (1, 0)] 50000, _, Example.wfV, rfl, by decide⟩

end C06
