import BtcwVerif.Model.CoinSelect
namespace C06
open CoinSelect

theorem C06_fetch_total_placeholder : fetch 0 [] [] = ([], []) := rfl

end C06
