import BtcwVerif.Lemmas.Balance
import BtcwVerif.Lemmas.InvPres
import BtcwVerif.Lemmas.WFMined
/-!
# C01 — balance and spendable outputs equal ledger truth

What is proved here (all stores / instants / minConf / syncHeight of the model, no bounds):

* `C01_balance_partial` — on every store satisfying the representation invariant `Inv` (the two state descriptions
  of the property anchors: *counter = total of mined credits without mined spender*, *unspent index = exactly those
  credits*), `Balance` — a counter corrected by three passes over three different buckets — returns exactly the C01
  sentence evaluated on the store's own records (`storeTruth`): mined credits without a mined spender that are not
  leased, not spent by an unconfirmed transaction, with at least `minConf` confirmations and, if coinbase, mature;
  plus, at `minConf = 0`, the unconfirmed credits that are neither leased nor spent.  It never double-subtracts
  (leased ∧ unconfirmed-spent, leased ∧ immature) and its block window (`syncHeight − max minConf maturity`) misses
  no credit.
* `C01_utxos_sound/_complete` — `UnspentOutputs` lists exactly the entries of the unspent index and of the unconfirmed
  credits that are neither leased nor spent by an unconfirmed transaction.

`_partial`: what is NOT proved is that `Inv` is preserved by `insertMinedTx`, `rollback`, `removeConflict`
(hence holds after every consistent history) and that the store's records are those of the `Ledger` (`step_repr`).
Both are checked at run time instead: the driver evaluates `invB` and `balance = storeTruth` after every operation of
every generated consistent history (op `inv`), and `Ledger.balance` is compared with the model and with the real
`wtxmgr.Store.Balance` (ops `spec probe`/`probe`).
-/
namespace TxStore.C01
open TxStore KMap

/-- **Balance = the C01 sentence on the store's own records**, for every store satisfying `Inv`, every instant,
every coinbase maturity, every `minConf` and every `syncHeight` (negative and below-tip values included).
(Proof: `balance_eq_storeTruth` in Lemmas/Balance.lean.) -/
theorem C01_balance_partial (s : Store) (hinv : Inv s) (now : Nat) (mat m sy : Int) :
    balance s now mat m sy = .ok (storeTruth s now mat m sy) := balance_eq_storeTruth s hinv now mat m sy

/-! ### `UnspentOutputs` -/

private theorem mapM_ok_mem {α β : Type} (f : α → M β) :
    ∀ (l : List α) (r : List β), l.mapM f = .ok r → ∀ y ∈ r, ∃ x ∈ l, f x = .ok y := by
  intro l
  induction l with
  | nil => intro r h y hy; simp [List.mapM_nil, pure, Except.pure] at h; subst h; cases hy
  | cons a t ih =>
    intro r h y hy
    rw [List.mapM_cons] at h
    cases hfa : f a with
    | error e => rw [hfa] at h; cases h
    | ok b =>
      rw [hfa] at h
      cases ht : t.mapM f with
      | error e => rw [ht] at h; cases h
      | ok bs =>
        rw [ht] at h
        simp only [bind, Except.bind, pure, Except.pure, Except.ok.injEq] at h
        subst h
        cases hy with
        | head => exact ⟨a, List.mem_cons_self, hfa⟩
        | tail _ hy' =>
          obtain ⟨x, hx, hfx⟩ := ih bs ht y hy'
          exact ⟨x, List.mem_cons_of_mem _ hx, hfx⟩

private theorem mapM_ok_all {α β : Type} (f : α → M β) :
    ∀ (l : List α) (r : List β), l.mapM f = .ok r → ∀ x ∈ l, ∃ y ∈ r, f x = .ok y := by
  intro l
  induction l with
  | nil => intro r _ x hx; cases hx
  | cons a t ih =>
    intro r h x hx
    rw [List.mapM_cons] at h
    cases hfa : f a with
    | error e => rw [hfa] at h; cases h
    | ok b =>
      rw [hfa] at h
      cases ht : t.mapM f with
      | error e => rw [ht] at h; cases h
      | ok bs =>
        rw [ht] at h
        simp only [bind, Except.bind, pure, Except.pure, Except.ok.injEq] at h
        subst h
        cases hx with
        | head => exact ⟨b, List.mem_cons_self, hfa⟩
        | tail _ hx' =>
          obtain ⟨y, hy, hfy⟩ := ih bs ht x hx'
          exact ⟨y, List.mem_cons_of_mem _ hy, hfy⟩

/-- what `UnspentOutputs` reports for one entry of the unspent index -/
theorem fetchMined_spec (s : Store) (now : Nat) (op : OutPoint) (blk : Block) (o : Option Credit)
    (h : fetchMinedCredit s now false false true (op, blk) = .ok o) :
    (o = none ↔ (isLocked s op now = true ∨ spentByUnmined s op = true)) ∧
    (∀ c, o = some c → ∃ rec br v, s.txrecs.find? ⟨op.hash, blk⟩ = some rec ∧ s.blocks.find? blk.height = some br ∧
        rec.outs[op.index]? = some v ∧ c = ⟨op, some ⟨blk, br.time⟩, v, rec.isCoinBase⟩) := by
  unfold fetchMinedCredit at h
  by_cases hl : isLocked s op now = true
  · simp only [hl, Bool.not_false, Bool.true_and, if_true, pure_eq, Except.ok.injEq] at h
    subst h; simp [hl]
  · have hl' : isLocked s op now = false := by simpa using hl
    by_cases hs : spentByUnmined s op = true
    · simp only [hl', hs, Bool.not_false, Bool.true_and, Bool.false_eq_true, if_false, if_true, pure_eq,
        Except.ok.injEq] at h
      subst h; simp [hs]
    · have hs' : spentByUnmined s op = false := by simpa using hs
      simp only [hl', hs', Bool.not_false, Bool.true_and, Bool.false_eq_true, if_false] at h
      repeat' split at h
      all_goals first | (cases h; done) | skip
      all_goals simp only [pure_eq, Except.ok.injEq] at h
      all_goals subst h
      · rename_i _ rec hrec _ v hv _ _ br hbr
        refine ⟨by simp [hl', hs'], ?_⟩
        intro c hc; cases hc
        exact ⟨rec, br, v, hrec, hbr, hv, rfl⟩
      · rename_i hf; exact absurd trivial hf

/-- **UnspentOutputs, soundness**: every reported mined output is an entry of the unspent index that is neither
leased nor spent by an unconfirmed transaction, reported with the value of that output in its transaction record, its
confirming block (with the block's time) and its coinbase flag; every reported unconfirmed output is an unconfirmed
credit that is neither leased nor spent. -/
theorem C01_utxos_sound (s : Store) (now : Nat) (l : List Credit) (h : unspentOutputs s now = .ok l)
    (c : Credit) (hc : c ∈ l) :
    isLocked s c.op now = false ∧ spentByUnmined s c.op = false ∧
    ((∃ blk rec br v, (c.op, blk) ∈ s.unspent ∧ s.txrecs.find? ⟨c.op.hash, blk⟩ = some rec ∧
        s.blocks.find? blk.height = some br ∧ rec.outs[c.op.index]? = some v ∧
        c = ⟨c.op, some ⟨blk, br.time⟩, v, rec.isCoinBase⟩) ∨
     (∃ uc, (c.op, uc) ∈ s.unminedCredits ∧ c.block = none)) := by
  unfold unspentOutputs fetchCredits at h
  cases ha : s.unspent.mapM (fetchMinedCredit s now false false true) with
  | error e => rw [ha] at h; cases h
  | ok a =>
    cases hb : s.unminedCredits.mapM (fetchUnminedCredit s now false false true) with
    | error e => rw [ha, hb] at h; cases h
    | ok b =>
      rw [ha, hb] at h
      simp only [bind, Except.bind, pure, Except.pure, Except.ok.injEq] at h
      subst h
      rw [List.mem_append, List.mem_filterMap, List.mem_filterMap] at hc
      rcases hc with ⟨o, ho, hoc⟩ | ⟨o, ho, hoc⟩
      · simp only [id] at hoc; subst hoc
        obtain ⟨⟨op, blk⟩, hmem, hf⟩ := mapM_ok_mem _ _ _ ha _ ho
        obtain ⟨h1, h2⟩ := fetchMined_spec s now op blk _ hf
        obtain ⟨rec, br, v, hrec, hbr, hv, hceq⟩ := h2 c rfl
        have hop : c.op = op := by rw [hceq]
        have hn : ¬ (isLocked s op now = true ∨ spentByUnmined s op = true) := by
          intro hor; have := h1.mpr hor; cases this
        rw [hop]
        refine ⟨by simpa using fun h => hn (Or.inl h), by simpa using fun h => hn (Or.inr h), Or.inl ?_⟩
        exact ⟨blk, rec, br, v, hmem, hrec, hbr, hv, by rw [hceq]⟩
      · simp only [id] at hoc; subst hoc
        obtain ⟨⟨op, uc⟩, hmem, hf⟩ := mapM_ok_mem _ _ _ hb _ ho
        unfold fetchUnminedCredit at hf
        by_cases hl : isLocked s op now = true
        · simp [hl] at hf
        · have hl' : isLocked s op now = false := by simpa using hl
          by_cases hs : spentByUnmined s op = true
          · simp [hl', hs] at hf
          · have hs' : spentByUnmined s op = false := by simpa using hs
            simp only [hl', hs', Bool.not_false, Bool.true_and, Bool.false_eq_true, if_false] at hf
            repeat' split at hf
            all_goals first | (cases hf; done) | skip
            all_goals simp only [pure_eq, Except.ok.injEq, Option.some.injEq] at hf
            all_goals subst hf
            · exact ⟨hl', hs', Or.inr ⟨uc, hmem, rfl⟩⟩
            · rename_i hf'; exact absurd trivial hf'

/-- **UnspentOutputs, completeness** (mined part): every entry of the unspent index that is neither leased nor spent
by an unconfirmed transaction is reported. -/
theorem C01_utxos_complete (s : Store) (now : Nat) (l : List Credit) (h : unspentOutputs s now = .ok l)
    (op : OutPoint) (blk : Block) (hm : (op, blk) ∈ s.unspent)
    (hl : isLocked s op now = false) (hs : spentByUnmined s op = false) : ∃ c ∈ l, c.op = op ∧ c.block.map (·.block) = some blk := by
  unfold unspentOutputs fetchCredits at h
  cases ha : s.unspent.mapM (fetchMinedCredit s now false false true) with
  | error e => rw [ha] at h; cases h
  | ok a =>
    cases hb : s.unminedCredits.mapM (fetchUnminedCredit s now false false true) with
    | error e => rw [ha, hb] at h; cases h
    | ok b =>
      rw [ha, hb] at h
      simp only [bind, Except.bind, pure, Except.pure, Except.ok.injEq] at h
      subst h
      obtain ⟨o, ho, hf⟩ := mapM_ok_all _ _ _ ha _ hm
      obtain ⟨h1, h2⟩ := fetchMined_spec s now op blk o hf
      cases o with
      | none => have := h1.mp rfl; rcases this with h' | h' <;> simp_all
      | some c =>
        obtain ⟨rec, br, v, _, _, _, hceq⟩ := h2 c rfl
        refine ⟨c, List.mem_append_left _ (List.mem_filterMap.mpr ⟨some c, ho, rfl⟩), ?_, ?_⟩ <;> rw [hceq] <;> rfl

/-! ### the invariant is not vacuous and survives the lease operations -/

/-- a store reached by model operations: a coinbase `(1)` and a payment `(2)` confirmed in blocks 1 and 2, a spender
`(3)` of `(2,0)` unconfirmed with a credited output, a lease on `(2,1)` -/
def exStore : Store :=
  let cb : Tx := ⟨1, [⟨0, nullIndex⟩], [5000]⟩
  let t2 : Tx := ⟨2, [⟨77, 0⟩], [300, 400]⟩
  let t3 : Tx := ⟨3, [⟨2, 0⟩], [250]⟩
  let run : M Store := do
    let (_, s) ← insertTx {} cb (some ⟨⟨1, 11⟩, 100⟩)
    let s ← addCredit s cb (some ⟨⟨1, 11⟩, 100⟩) 0 false
    let (_, s) ← insertTx s t2 (some ⟨⟨2, 22⟩, 200⟩)
    let s ← addCredit s t2 (some ⟨⟨2, 22⟩, 200⟩) 0 false
    let s ← addCredit s t2 (some ⟨⟨2, 22⟩, 200⟩) 1 true
    let (_, s) ← insertTx s t3 none
    let s ← addCredit s t3 none 0 true
    let (_, s) ← lockOutput s 0 1 ⟨2, 1⟩ 5000000000
    pure s
  match run with
  | .ok s => s
  | .error _ => {}

example : invB exStore = true := by decide
example : balance exStore 0 3 0 2 = .ok 250 := by decide          -- coinbase immature, (2,0) spent, (2,1) leased
example : balance exStore 5000000000 3 1 3 = .ok 5400 := by decide -- lease expired, coinbase mature, (3,0) unconfirmed

theorem invB_sound (s : Store) (h : invB s = true) : Inv s := by
  unfold invB at h
  simp only [Bool.and_eq_true, decide_eq_true_eq, List.all_eq_true] at h
  obtain ⟨⟨⟨⟨h1, h2⟩, h3⟩, h4⟩, h5⟩ := h
  refine ⟨h1, h2, List.isPerm_iff.mp h3, ?_, ?_⟩
  · generalize s.blocks.map (·.1) = l at h4
    induction l with
    | nil => exact List.Pairwise.nil
    | cons a t ih =>
      cases t with
      | nil => exact List.pairwise_singleton _ _
      | cons b r =>
        simp only [pairwiseLt, Bool.and_eq_true, decide_eq_true_eq] at h4
        have ht := ih h4.2
        rw [List.pairwise_cons]
        refine ⟨?_, ht⟩
        intro x hx
        cases hx with
        | head => exact h4.1
        | tail _ hx' => have := (List.pairwise_cons.mp ht).1 x hx'; omega
  · intro p hp tx htx
    exact h5 p hp tx htx

/-- the freshly created store satisfies the invariant -/
theorem C01_inv_init : Inv Store.empty := invB_sound _ (by decide)

/-- one API call of the events *seen*, *abandoned*, *lease*, *release*, *sweep* -/
inductive UnminedOp
  | insertUnmined (rec : Tx)                       -- InsertTx(rec, nil)
  | addCreditUnmined (rec : Tx) (i : Nat) (chg : Bool)   -- AddCredit(rec, nil, i, chg)
  | removeUnmined (rec : Tx)                       -- RemoveUnminedTx(rec)
  | lock (id : Nat) (op : OutPoint) (d : Int)
  | unlock (id : Nat) (op : OutPoint)
  | sweep

/-- effect of such a call at clock `now` (a failing call leaves the store unchanged: the DB transaction rolls back) -/
def UnminedOp.run (s : Store) (now : Nat) : UnminedOp → Store
  | .insertUnmined rec => match insertTx s rec none with | .ok (_, s') => s' | .error _ => s
  | .addCreditUnmined rec i chg => match addCredit s rec none i chg with | .ok s' => s' | .error _ => s
  | .removeUnmined rec => match removeUnminedTx s rec with | .ok s' => s' | .error _ => s
  | .lock id op d => match lockOutput s now id op d with | .ok (_, s') => s' | .error _ => s
  | .unlock id op => match unlockOutput s now id op with | .ok s' => s' | .error _ => s
  | .sweep => deleteExpiredLockedOutputs s now

theorem sameMined_run (s : Store) (now : Nat) (o : UnminedOp) : SameMined s (o.run s now) := by
  cases o with
  | insertUnmined rec =>
    simp only [UnminedOp.run]
    split
    · rename_i ex s' h
      unfold insertTx at h
      simp only at h
      split at h
      · cases h; exact SameMined.refl s
      · cases h
      · rename_i s2 h2; cases h; exact sameMined_insertMemPoolTx h2
    · exact SameMined.refl s
  | addCreditUnmined rec i chg =>
    simp only [UnminedOp.run]
    split
    · rename_i s' h; exact sameMined_addCredit_unmined h
    · exact SameMined.refl s
  | removeUnmined rec =>
    simp only [UnminedOp.run]
    split
    · rename_i s' h; exact sameMined_removeUnminedTx h
    · exact SameMined.refl s
  | lock id op d =>
    simp only [UnminedOp.run]
    split
    · rename_i e s' h; exact sameMined_lockOutput h
    · exact SameMined.refl s
  | unlock id op =>
    simp only [UnminedOp.run]
    split
    · rename_i s' h; exact sameMined_unlockOutput h
    · exact SameMined.refl s
  | sweep => exact sameMined_sweep s now

/-- **the invariant is preserved** by every sequence (any length, any clock values) of the API calls that make up
the events *seen*, *abandoned*, *lease*, *release*, *sweep*, *clock* — including malformed calls (unknown
transactions, duplicate deliveries, removal of a transaction that is not unconfirmed).
`_partial`: the two remaining events, *confirmed* (`insertMinedTx` + mined `addCredit`) and *disconnected*
(`rollback`), are not covered by a proof; the driver checks `invB` after each of them on every generated history. -/
theorem C01_inv_preserved_partial (s : Store) (h : Inv s) (ops : List (Nat × UnminedOp)) :
    Inv (ops.foldl (fun s p => p.2.run s p.1) s) := by
  induction ops generalizing s with
  | nil => exact h
  | cons p t ih => exact ih _ (inv_of_sameMined (sameMined_run s p.1 p.2) h)

/-- consequently `Balance` stays equal to the C01 formula along every such sequence, at every instant -/
theorem C01_balance_along_unmined_events_partial (s : Store) (h : Inv s) (ops : List (Nat × UnminedOp))
    (now : Nat) (mat m sy : Int) :
    let s' := ops.foldl (fun s p => p.2.run s p.1) s
    balance s' now mat m sy = .ok (storeTruth s' now mat m sy) :=
  C01_balance_partial _ (C01_inv_preserved_partial s h ops) now mat m sy

/-- `rollback`, input loop (the step that used to lose zero-value credits; fixed in /repo 7fa9939): when the rolled-back
transaction has a debit for this input and the credit it spent still exists — WHATEVER its amount, zero included — the
credit is marked unspent again, its outpoint is put back into the unspent index under the credit's block, the debit is
deleted and the running mined balance grows by the credit's amount. -/
theorem C01_rollback_restores_spent_credit (rec : Tx) (blk : Block) (r : RB) (i : Nat) (inp : OutPoint)
    (d : DebitVal) (cv : CreditVal)
    (hd : r.s.debits.find? ⟨rec.hash, blk, i⟩ = some d) (hc : r.s.credits.find? d.credKey = some cv) :
    let r' := rbInput rec blk r (i, inp)
    r'.s.unspent.find? inp = some d.credKey.block ∧
    r'.s.credits.find? d.credKey = some { cv with spent := false, spender := none } ∧
    r'.s.debits.find? ⟨rec.hash, blk, i⟩ = none ∧
    r'.bal = r.bal + cv.amount := by
  have hd' : (putRawUnminedInput r.s inp rec.hash).debits.find? ⟨rec.hash, blk, i⟩ = some d := hd
  have hc' : (putRawUnminedInput r.s inp rec.hash).credits.find? d.credKey = some cv := hc
  simp only [rbInput, hd', unspendRawCredit, hc', contains_eq, find?_insert_self, Option.isSome_some,
    Bool.not_true, Bool.false_eq_true, if_false, find?_erase_self]
  exact ⟨trivial, trivial, trivial, trivial⟩

/-! ### all store operations except `Rollback`: the lookup-level invariant `WF` (which implies `Inv`) is preserved -/

/-- one call of the store API (the calls the wallet makes for the events *seen*, *confirmed*, *abandoned*, *lease*,
*release*, *sweep*) -/
inductive Call
  | insertUnmined (rec : Tx)
  | addCreditUnmined (rec : Tx) (i : Nat) (chg : Bool)
  | insertMined (rec : Tx) (bm : BlockMeta)
  | addCreditMined (rec : Tx) (bm : BlockMeta) (i : Nat) (chg : Bool)
  | removeUnmined (rec : Tx)
  | lock (id : Nat) (op : OutPoint) (d : Int)
  | unlock (id : Nat) (op : OutPoint)
  | sweep

/-- effect at clock `now`; a failing call leaves the store unchanged (the DB transaction rolls back) -/
def Call.run (s : Store) (now : Nat) : Call → Store
  | .insertUnmined rec => match insertTx s rec none with | .ok (_, s') => s' | .error _ => s
  | .addCreditUnmined rec i chg => match addCredit s rec none i chg with | .ok s' => s' | .error _ => s
  | .insertMined rec bm => match insertTx s rec (some bm) with | .ok (_, s') => s' | .error _ => s
  | .addCreditMined rec bm i chg => match addCredit s rec (some bm) i chg with | .ok s' => s' | .error _ => s
  | .removeUnmined rec => match removeUnminedTx s rec with | .ok s' => s' | .error _ => s
  | .lock id op d => match lockOutput s now id op d with | .ok (_, s') => s' | .error _ => s
  | .unlock id op => match unlockOutput s now id op with | .ok s' => s' | .error _ => s
  | .sweep => deleteExpiredLockedOutputs s now

/-- chain consistency, read on the store: a transaction is confirmed in a block only if it is already recorded there
(redelivery) or recorded nowhere, the block at that height (if any) has that hash, and the unconfirmed credits kept for
its hash are outputs of it; a mined credit is added only for a transaction recorded in that block. -/
def Call.Pre (s : Store) : Call → Prop
  | .insertMined rec bm => s.txrecs.contains ⟨rec.hash, bm.block⟩ = true ∨ ConfirmPre s rec bm
  | .addCreditMined rec bm _ _ => s.txrecs.find? ⟨rec.hash, bm.block⟩ = some rec
  | _ => True

theorem wf_run (s : Store) (now : Nat) (c : Call) (hw : WF s) (hp : c.Pre s) : WF (c.run s now) := by
  cases c with
  | insertUnmined rec =>
    simp only [Call.run]
    split
    · rename_i ex s' h
      unfold insertTx at h
      simp only at h
      split at h
      · cases h; exact hw
      · cases h
      · rename_i s2 h2
        have hsm := sameMined_insertMemPoolTx h2
        have huc : s2.unminedCredits = s.unminedCredits := by
          unfold insertMemPoolTx at h2
          split at h2
          · cases h2
          · split at h2
            · cases h2; rfl
            · cases h2
              have : ∀ (l : List OutPoint) (a : Store),
                  (l.foldl (fun s inp => putRawUnminedInput s inp rec.hash) a).unminedCredits = a.unminedCredits := by
                intro l; induction l with
                | nil => intro a; rfl
                | cons x t ih => intro a; rw [List.foldl_cons, ih]; rfl
              exact this rec.ins _
        have hw2 := wf_of_sameMined hsm (by rw [huc]; exact hw.nodupUC) hw
        cases h; exact hw2
    · exact hw
  | addCreditUnmined rec i chg =>
    simp only [Call.run]
    split
    · rename_i s' h
      have hsm := sameMined_addCredit_unmined h
      have hn : NodupKeys s'.unminedCredits := by
        unfold addCredit at h
        split at h
        · cases h
        · simp only at h
          split at h
          · cases h; exact hw.nodupUC
          · split at h
            · cases h; exact hw.nodupUC
            · cases h; exact nodupKeys_insert _ _ _ hw.nodupUC
      exact wf_of_sameMined hsm hn hw
    · exact hw
  | insertMined rec bm =>
    simp only [Call.run]
    split
    · rename_i ex s' h
      unfold insertTx at h
      simp only at h
      split at h
      · cases h; exact hw
      · cases h
      · rename_i s2 h2
        have hw2 : WF s2 := by
          rcases hp with hdup | hpre
          · unfold insertMinedTx at h2
            simp [hdup] at h2
          · exact wf_insertMinedTx hw hpre h2
        cases h; exact hw2
    · exact hw
  | addCreditMined rec bm i chg =>
    simp only [Call.run]
    split
    · rename_i s' h; exact wf_addCredit_mined hw h hp
    · exact hw
  | removeUnmined rec =>
    simp only [Call.run]
    split
    · rename_i s' h
      exact wf_of_sameMined (sameMined_removeUnminedTx h) (nuc_removeConflict _ _ _ _ h hw.nodupUC) hw
    · exact hw
  | lock id op d =>
    simp only [Call.run]
    split
    · rename_i e s' h
      have hsm := sameMined_lockOutput h
      have huc : s'.unminedCredits = s.unminedCredits := by
        by_cases hk : isKnownOutput s op = true
        · cases hl : isLockedOutput s op now with
          | none => simp [lockOutput, hk, hl] at h; obtain ⟨_, rfl⟩ := h; rfl
          | some l =>
            by_cases hid : l.id = id
            · simp [lockOutput, hk, hl, hid] at h; obtain ⟨_, rfl⟩ := h; rfl
            · simp [lockOutput, hk, hl, hid] at h
        · simp [lockOutput, hk] at h
      exact wf_of_sameMined hsm (by rw [huc]; exact hw.nodupUC) hw
    · exact hw
  | unlock id op =>
    simp only [Call.run]
    split
    · rename_i s' h
      have hsm := sameMined_unlockOutput h
      have huc : s'.unminedCredits = s.unminedCredits := by
        unfold unlockOutput at h
        split at h
        · cases h
        · split at h
          · cases h; rfl
          · split at h
            · cases h
            · cases h; rfl
      exact wf_of_sameMined hsm (by rw [huc]; exact hw.nodupUC) hw
    · exact hw
  | sweep =>
    have huc : (deleteExpiredLockedOutputs s now).unminedCredits = s.unminedCredits := sweep_uc s now
    show WF (deleteExpiredLockedOutputs s now)
    exact wf_of_sameMined (sameMined_sweep s now) (by rw [huc]; exact hw.nodupUC) hw

/-- run a history of calls; every call comes with the clock value at which it is made -/
def runCalls : Store → List (Nat × Call) → Store
  | s, [] => s
  | s, p :: t => runCalls (p.2.run s p.1) t

/-- the consistency precondition holds at every step of the history -/
def PreAll : Store → List (Nat × Call) → Prop
  | _, [] => True
  | s, p :: t => p.2.Pre s ∧ PreAll (p.2.run s p.1) t

theorem wf_empty : WF Store.empty := by
  refine ⟨List.nodup_nil, List.nodup_nil, List.nodup_nil, List.Pairwise.nil, ?_, ?_, ?_, ?_, ?_, ?_, rfl⟩
  · intro p hp; cases hp
  · intro p hp; cases hp
  · intro k rec h; cases h
  · intro k1 k2 h; cases h
  · intro k cv h; cases h
  · intro op blk
    constructor
    · intro h; cases h
    · rintro ⟨cv, h, _⟩; cases h

theorem wf_runCalls (s : Store) (hw : WF s) (ops : List (Nat × Call)) (hp : PreAll s ops) : WF (runCalls s ops) := by
  induction ops generalizing s with
  | nil => exact hw
  | cons p t ih => exact ih _ (wf_run s p.1 p.2 hw hp.1) hp.2

/-- **Balance = the C01 sentence on the store's records after every chain-consistent history of store calls without
`Rollback`**, starting from the empty store: any number of unconfirmed/confirmed insertions (with redelivery), credits,
abandonments, leases, releases, sweeps, at any clock values; for every probe instant, maturity, minConf, syncHeight.
`_partial`: the event *disconnected* (`Rollback`) is not covered by this theorem. -/
theorem C01_balance_no_reorg_partial (ops : List (Nat × Call)) (hp : PreAll Store.empty ops)
    (now : Nat) (mat m sy : Int) :
    balance (runCalls Store.empty ops) now mat m sy = .ok (storeTruth (runCalls Store.empty ops) now mat m sy) :=
  C01_balance_partial _ (inv_of_wf _ (wf_runCalls _ wf_empty ops hp)) now mat m sy

/-- non-vacuity of `C01_balance_partial`: the example store satisfies `Inv` -/
example : Inv exStore := invB_sound _ (by decide)

end TxStore.C01
