import BtcwVerif.Lemmas.Balance
import BtcwVerif.Lemmas.InvPres
import BtcwVerif.Lemmas.WFMined
import BtcwVerif.Lemmas.WFRollback
import BtcwVerif.Lemmas.Calls
import BtcwVerif.Lemmas.RefAll
import BtcwVerif.Lemmas.RefUtxos
import BtcwVerif.Lemmas.RefExact
/-!
# C01 — balance and spendable outputs equal ledger truth

Proved here (all stores / histories / instants / minConf / syncHeight of the model, no bounds):

* `C01_balance` — after EVERY chain-consistent history of store calls starting from the empty store (unconfirmed and
  confirmed inserts with redelivery, credits, abandonments, `Rollback` to any height and reconnection, leases, sweeps),
  `Balance` — a counter corrected by three passes over three buckets — equals the C01 sentence evaluated on the
  store's own records (`storeTruth`).  Chain consistency is `Call.Pre`, read on the store at each call.
  It rests on `C01_inv_reachable` (the representation invariant holds after every such history: `wf2_run`, which uses
  `wf2_insertMinedTx`, `wf2_addCredit_mined`, `wf2_rollback` and the preservation lemmas for the unconfirmed/lease
  operations) and `C01_balance_inv` (Balance = formula under the invariant).
* `C01_utxos_sound/_complete` — `UnspentOutputs` lists exactly the entries of the unspent index and of the unconfirmed
  credits that are neither leased nor spent by an unconfirmed transaction.
* `C01_balance_ledger`, `C01_balance_refines`, `C01_utxos_ledger`, `C01_watch_ledger` (second half of this file) —
  the store's records ARE those of the `Ledger` specification after every chain-consistent history of events:
  `Balance = Ledger.balance`, `UnspentOutputs` = `Ledger.utxos` and `OutputsToWatch` = `Ledger.watchSet` (as sets, each
  element once).  They rest on the refinement store → `Ledger` proved event by event in `Lemmas/Ref*.lean`
  (`good_step`, `good_history`, `good_reachable` in `Lemmas/RefAll.lean`; `balance_refines`, `utxos_refines`,
  `watch_refines`).  The same refinement gives `C02_refines`, `C02_path_independence` (Props/C02.lean) and
  `C13_once`, `C13_credit`, `C13_debit`, `C13_range`, `C13_removed` (Props/C13.lean).

The former zero-value-credit defect (F6, fixed in /repo 7fa9939) has no theorem of its own: `Inv`, `WF2` and the
refinement no longer exclude zero-value credits, so a zero-value credit whose confirmed spender is rolled back is one
of the outputs `C01_utxos_ledger` / `C01_watch_ledger` speak about (scripted engine case `zero-value-credit`).

Nothing of C01 is left `_partial`.  What is compared up to order: the `UnspentOutputs` / `OutputsToWatch` lists
(`List.Perm`; the store answers in bucket order) in `C01_utxos_ledger` / `C01_watch_ledger`; the exact order is given by
`C01_utxos_ledger_exact`, `C01_utxos_order_unique`, `C01_watch_ledger_exact` at the end of this file.  The same relation is also evaluated at run time (ops `refcheck`,
`reffuzz`, `spec probe` / `probe`: Lean spec = Lean model = real Go).
-/
namespace TxStore.C01
open TxStore KMap

/-- **Balance = the C01 sentence on the store's own records**, for every store satisfying `Inv`, every instant,
every coinbase maturity, every `minConf` and every `syncHeight` (negative and below-tip values included).
(Proof: `balance_eq_storeTruth` in Lemmas/Balance.lean.) -/
theorem C01_balance_inv (s : Store) (hinv : Inv s) (now : Nat) (mat m sy : Int) :
    balance s now mat m sy = .ok (storeTruth s now mat m sy) := balance_eq_storeTruth s hinv now mat m sy

/-! ### `UnspentOutputs` -/

private theorem mapM_ok_mem {α β : Type} (f : α → M β) :
    ∀ (l : List α) (r : List β), l.mapM f = .ok r → ∀ y ∈ r, ∃ x ∈ l, f x = .ok y := by
  intro l
  induction l with
  | nil => intro r h y hy; simp [List.mapM_nil, pure, Except.pure] at h; subst h; cases hy
  | cons a t ih =>
    intro r h y hy
    rw [List.mapM_cons] at h
    cases hfa : f a with
    | error e => rw [hfa] at h; cases h
    | ok b =>
      rw [hfa] at h
      cases ht : t.mapM f with
      | error e => rw [ht] at h; cases h
      | ok bs =>
        rw [ht] at h
        simp only [bind, Except.bind, pure, Except.pure, Except.ok.injEq] at h
        subst h
        cases hy with
        | head => exact ⟨a, List.mem_cons_self, hfa⟩
        | tail _ hy' =>
          obtain ⟨x, hx, hfx⟩ := ih bs ht y hy'
          exact ⟨x, List.mem_cons_of_mem _ hx, hfx⟩

private theorem mapM_ok_all {α β : Type} (f : α → M β) :
    ∀ (l : List α) (r : List β), l.mapM f = .ok r → ∀ x ∈ l, ∃ y ∈ r, f x = .ok y := by
  intro l
  induction l with
  | nil => intro r _ x hx; cases hx
  | cons a t ih =>
    intro r h x hx
    rw [List.mapM_cons] at h
    cases hfa : f a with
    | error e => rw [hfa] at h; cases h
    | ok b =>
      rw [hfa] at h
      cases ht : t.mapM f with
      | error e => rw [ht] at h; cases h
      | ok bs =>
        rw [ht] at h
        simp only [bind, Except.bind, pure, Except.pure, Except.ok.injEq] at h
        subst h
        cases hx with
        | head => exact ⟨b, List.mem_cons_self, hfa⟩
        | tail _ hx' =>
          obtain ⟨y, hy, hfy⟩ := ih bs ht x hx'
          exact ⟨y, List.mem_cons_of_mem _ hy, hfy⟩

/-- what `UnspentOutputs` reports for one entry of the unspent index -/
theorem fetchMined_spec (s : Store) (now : Nat) (op : OutPoint) (blk : Block) (o : Option Credit)
    (h : fetchMinedCredit s now false false true (op, blk) = .ok o) :
    (o = none ↔ (isLocked s op now = true ∨ spentByUnmined s op = true)) ∧
    (∀ c, o = some c → ∃ rec br v, s.txrecs.find? ⟨op.hash, blk⟩ = some rec ∧ s.blocks.find? blk.height = some br ∧
        rec.outs[op.index]? = some v ∧ c = ⟨op, some ⟨blk, br.time⟩, v, rec.isCoinBase⟩) := by
  unfold fetchMinedCredit at h
  by_cases hl : isLocked s op now = true
  · simp only [hl, Bool.not_false, Bool.true_and, if_true, pure_eq, Except.ok.injEq] at h
    subst h; simp [hl]
  · have hl' : isLocked s op now = false := by simpa using hl
    by_cases hs : spentByUnmined s op = true
    · simp only [hl', hs, Bool.not_false, Bool.true_and, Bool.false_eq_true, if_false, if_true, pure_eq,
        Except.ok.injEq] at h
      subst h; simp [hs]
    · have hs' : spentByUnmined s op = false := by simpa using hs
      simp only [hl', hs', Bool.not_false, Bool.true_and, Bool.false_eq_true, if_false] at h
      repeat' split at h
      all_goals first | (cases h; done) | skip
      all_goals simp only [pure_eq, Except.ok.injEq] at h
      all_goals subst h
      · rename_i _ rec hrec _ v hv _ _ br hbr
        refine ⟨by simp [hl', hs'], ?_⟩
        intro c hc; cases hc
        exact ⟨rec, br, v, hrec, hbr, hv, rfl⟩
      · rename_i hf; exact absurd trivial hf

/-- **UnspentOutputs, soundness**: every reported mined output is an entry of the unspent index that is neither
leased nor spent by an unconfirmed transaction, reported with the value of that output in its transaction record, its
confirming block (with the block's time) and its coinbase flag; every reported unconfirmed output is an unconfirmed
credit that is neither leased nor spent. -/
theorem C01_utxos_sound (s : Store) (now : Nat) (l : List Credit) (h : unspentOutputs s now = .ok l)
    (c : Credit) (hc : c ∈ l) :
    isLocked s c.op now = false ∧ spentByUnmined s c.op = false ∧
    ((∃ blk rec br v, (c.op, blk) ∈ s.unspent ∧ s.txrecs.find? ⟨c.op.hash, blk⟩ = some rec ∧
        s.blocks.find? blk.height = some br ∧ rec.outs[c.op.index]? = some v ∧
        c = ⟨c.op, some ⟨blk, br.time⟩, v, rec.isCoinBase⟩) ∨
     (∃ uc, (c.op, uc) ∈ s.unminedCredits ∧ c.block = none)) := by
  unfold unspentOutputs fetchCredits at h
  cases ha : s.unspent.mapM (fetchMinedCredit s now false false true) with
  | error e => rw [ha] at h; cases h
  | ok a =>
    cases hb : s.unminedCredits.mapM (fetchUnminedCredit s now false false true) with
    | error e => rw [ha, hb] at h; cases h
    | ok b =>
      rw [ha, hb] at h
      simp only [bind, Except.bind, pure, Except.pure, Except.ok.injEq] at h
      subst h
      rw [List.mem_append, List.mem_filterMap, List.mem_filterMap] at hc
      rcases hc with ⟨o, ho, hoc⟩ | ⟨o, ho, hoc⟩
      · simp only [id] at hoc; subst hoc
        obtain ⟨⟨op, blk⟩, hmem, hf⟩ := mapM_ok_mem _ _ _ ha _ ho
        obtain ⟨h1, h2⟩ := fetchMined_spec s now op blk _ hf
        obtain ⟨rec, br, v, hrec, hbr, hv, hceq⟩ := h2 c rfl
        have hop : c.op = op := by rw [hceq]
        have hn : ¬ (isLocked s op now = true ∨ spentByUnmined s op = true) := by
          intro hor; have := h1.mpr hor; cases this
        rw [hop]
        refine ⟨by simpa using fun h => hn (Or.inl h), by simpa using fun h => hn (Or.inr h), Or.inl ?_⟩
        exact ⟨blk, rec, br, v, hmem, hrec, hbr, hv, by rw [hceq]⟩
      · simp only [id] at hoc; subst hoc
        obtain ⟨⟨op, uc⟩, hmem, hf⟩ := mapM_ok_mem _ _ _ hb _ ho
        unfold fetchUnminedCredit at hf
        by_cases hl : isLocked s op now = true
        · simp [hl] at hf
        · have hl' : isLocked s op now = false := by simpa using hl
          by_cases hs : spentByUnmined s op = true
          · simp [hl', hs] at hf
          · have hs' : spentByUnmined s op = false := by simpa using hs
            simp only [hl', hs', Bool.not_false, Bool.true_and, Bool.false_eq_true, if_false] at hf
            repeat' split at hf
            all_goals first | (cases hf; done) | skip
            all_goals simp only [pure_eq, Except.ok.injEq, Option.some.injEq] at hf
            all_goals subst hf
            · exact ⟨hl', hs', Or.inr ⟨uc, hmem, rfl⟩⟩
            · rename_i hf'; exact absurd trivial hf'

/-- **UnspentOutputs, completeness** (mined part): every entry of the unspent index that is neither leased nor spent
by an unconfirmed transaction is reported. -/
theorem C01_utxos_complete (s : Store) (now : Nat) (l : List Credit) (h : unspentOutputs s now = .ok l)
    (op : OutPoint) (blk : Block) (hm : (op, blk) ∈ s.unspent)
    (hl : isLocked s op now = false) (hs : spentByUnmined s op = false) : ∃ c ∈ l, c.op = op ∧ c.block.map (·.block) = some blk := by
  unfold unspentOutputs fetchCredits at h
  cases ha : s.unspent.mapM (fetchMinedCredit s now false false true) with
  | error e => rw [ha] at h; cases h
  | ok a =>
    cases hb : s.unminedCredits.mapM (fetchUnminedCredit s now false false true) with
    | error e => rw [ha, hb] at h; cases h
    | ok b =>
      rw [ha, hb] at h
      simp only [bind, Except.bind, pure, Except.pure, Except.ok.injEq] at h
      subst h
      obtain ⟨o, ho, hf⟩ := mapM_ok_all _ _ _ ha _ hm
      obtain ⟨h1, h2⟩ := fetchMined_spec s now op blk o hf
      cases o with
      | none => have := h1.mp rfl; rcases this with h' | h' <;> simp_all
      | some c =>
        obtain ⟨rec, br, v, _, _, _, hceq⟩ := h2 c rfl
        refine ⟨c, List.mem_append_left _ (List.mem_filterMap.mpr ⟨some c, ho, rfl⟩), ?_, ?_⟩ <;> rw [hceq] <;> rfl

/-! ### the invariant is not vacuous and survives the lease operations -/

/-- a store reached by model operations: a coinbase `(1)` and a payment `(2)` confirmed in blocks 1 and 2, a spender
`(3)` of `(2,0)` unconfirmed with a credited output, a lease on `(2,1)` -/
def exStore : Store :=
  let cb : Tx := ⟨1, [⟨0, nullIndex⟩], [5000]⟩
  let t2 : Tx := ⟨2, [⟨77, 0⟩], [300, 400]⟩
  let t3 : Tx := ⟨3, [⟨2, 0⟩], [250]⟩
  let run : M Store := do
    let (_, s) ← insertTx {} cb (some ⟨⟨1, 11⟩, 100⟩)
    let s ← addCredit s cb (some ⟨⟨1, 11⟩, 100⟩) 0 false
    let (_, s) ← insertTx s t2 (some ⟨⟨2, 22⟩, 200⟩)
    let s ← addCredit s t2 (some ⟨⟨2, 22⟩, 200⟩) 0 false
    let s ← addCredit s t2 (some ⟨⟨2, 22⟩, 200⟩) 1 true
    let (_, s) ← insertTx s t3 none
    let s ← addCredit s t3 none 0 true
    let (_, s) ← lockOutput s 0 1 ⟨2, 1⟩ 5000000000
    pure s
  match run with
  | .ok s => s
  | .error _ => {}

example : invB exStore = true := by decide
example : balance exStore 0 3 0 2 = .ok 250 := by decide          -- coinbase immature, (2,0) spent, (2,1) leased
example : balance exStore 5000000000 3 1 3 = .ok 5400 := by decide -- lease expired, coinbase mature, (3,0) unconfirmed

theorem invB_sound (s : Store) (h : invB s = true) : Inv s := by
  unfold invB at h
  simp only [Bool.and_eq_true, decide_eq_true_eq, List.all_eq_true] at h
  obtain ⟨⟨⟨⟨h1, h2⟩, h3⟩, h4⟩, h5⟩ := h
  refine ⟨h1, h2, List.isPerm_iff.mp h3, ?_, ?_⟩
  · generalize s.blocks.map (·.1) = l at h4
    induction l with
    | nil => exact List.Pairwise.nil
    | cons a t ih =>
      cases t with
      | nil => exact List.pairwise_singleton _ _
      | cons b r =>
        simp only [pairwiseLt, Bool.and_eq_true, decide_eq_true_eq] at h4
        have ht := ih h4.2
        rw [List.pairwise_cons]
        refine ⟨?_, ht⟩
        intro x hx
        cases hx with
        | head => exact h4.1
        | tail _ hx' => have := (List.pairwise_cons.mp ht).1 x hx'; omega
  · intro p hp tx htx
    exact h5 p hp tx htx

/-- the freshly created store satisfies the invariant -/
theorem C01_inv_init : Inv Store.empty := invB_sound _ (by decide)

/-- **the representation invariant holds after every chain-consistent history of store calls** (any length; inserts,
redeliveries, credits, abandonments, `Rollback` to any height, reconnects, leases, sweeps; any clock values) -/
theorem C01_inv_reachable (ops : List (Nat × Call)) (hp : PreAll Store.empty ops) : Inv (runCalls Store.empty ops) :=
  inv_of_wf _ (wf2_runCalls _ wf2_empty ops hp).wf

/-- **C01, balance**: after every chain-consistent history of store calls — reorgs included —, at every prefix (a prefix
of a consistent history is one), `Balance` for every probe instant, coinbase maturity, `minConf` and `syncHeight`
equals the C01 sentence evaluated on the store's own records (`storeTruth`): the credited outputs without a mined
spender that are not leased, not spent by an unconfirmed transaction, deep enough and (if coinbase) mature, plus at
`minConf = 0` the unconfirmed credits that are neither leased nor spent. -/
theorem C01_balance (ops : List (Nat × Call)) (hp : PreAll Store.empty ops) (now : Nat) (mat m sy : Int) :
    balance (runCalls Store.empty ops) now mat m sy = .ok (storeTruth (runCalls Store.empty ops) now mat m sy) :=
  C01_balance_inv _ (C01_inv_reachable ops hp) now mat m sy

/-- non-vacuity of `C01_balance`: a consistent history (coinbase confirmed and credited, then rolled back) -/
example : PreAll Store.empty
    [(0, .insertMined ⟨1, [⟨0, nullIndex⟩], [5000]⟩ ⟨⟨1, 11⟩, 100⟩),
     (0, .addCreditMined ⟨1, [⟨0, nullIndex⟩], [5000]⟩ ⟨⟨1, 11⟩, 100⟩ 0 false),
     (7, .rollback 1)] := by
  refine ⟨Or.inr ⟨⟨?_, ?_, ?_⟩, ?_, by decide⟩, ?_, trivial, trivial⟩
  · intro k h; cases h
  · intro br h; cases h
  · intro op uc h; cases h
  · intro inp b h; cases h
  · show KMap.find? _ _ = some _
    decide

/-- non-vacuity of `C01_balance_inv`: the example store satisfies `Inv` -/
example : Inv exStore := invB_sound _ (by decide)

/-! ### ledger level: the store refines the five-minute specification `Ledger` (Lemmas/Ref*.lean)

`ConsistentHistory {} es`: every event of `es` is chain-consistent when it is delivered (`Ledger.consistent` — one block
per height, no confirmed double spend, parents first, … — plus what a validating node guarantees besides: inputs name
existing outputs, no unconfirmed transaction conflicting with the chain is delivered, < 2^32−1 outputs, no
self-spend; `TxStore.Consistent`).  `storeAfter` runs the store calls of `wallet.addRelevantTx` / `Rollback` /
`RemoveUnminedTx` / the lease calls for each event; `ledgerAfter` folds `Ledger.apply`. -/
open Ledger in
/-- **C01, balance, against the ledger**: after EVERY chain-consistent history of events — unconfirmed and confirmed
deliveries with redelivery, block disconnections to any height and reconnections, abandonments, leases, sweeps, clock
moves — every store call has succeeded and `Balance`, for every coinbase maturity, `minConf` and `syncHeight`, is the
C01 sentence read on the LEDGER: the sum of the credited outputs of known transactions that no known transaction
spends, that are not leased, have at least `minConf` confirmations and, if coinbase, `maturity` confirmations. -/
theorem C01_balance_ledger (es : List Event) (hc : ConsistentHistory {} es) (mat m sy : Int) :
    ∃ s, storeAfter Store.empty {} es = .ok s ∧
      balance s (ledgerAfter {} es).now mat m sy = .ok (Ledger.balance (ledgerAfter {} es) mat m sy) := by
  obtain ⟨s, h1, hg, _⟩ := good_reachable es hc
  refine ⟨s, h1, ?_⟩
  rw [C01_balance_inv s (inv_of_wf _ hg.wf2.wf), balance_refines hg]

open Ledger in
/-- the same from any good pair (in particular after every prefix of a consistent history) -/
theorem C01_balance_refines (s : Store) (L : Ledger) (hg : Good s L) (mat m sy : Int) :
    balance s L.now mat m sy = .ok (Ledger.balance L mat m sy) := by
  rw [C01_balance_inv s (inv_of_wf _ hg.wf2.wf), balance_refines hg]

open Ledger in
/-- **C01, spendable outputs, against the ledger**: after every chain-consistent history `UnspentOutputs` succeeds and
lists — each once, in the store's bucket order — exactly the outputs the C01 sentence names on the ledger: the credited
outputs of known transactions that no known transaction spends and that are not leased, each with its amount, its
confirming block (height, hash, time; none while unconfirmed) and its coinbase flag. -/
theorem C01_utxos_ledger (es : List Event) (hc : ConsistentHistory {} es) :
    ∃ s l, storeAfter Store.empty {} es = .ok s ∧ unspentOutputs s (ledgerAfter {} es).now = .ok l ∧
      l.Perm (Ledger.utxos (ledgerAfter {} es)) := by
  obtain ⟨s, h1, hg, _⟩ := good_reachable es hc
  obtain ⟨l, h2, h3⟩ := utxos_refines hg
  exact ⟨s, l, h1, h2, h3⟩

open Ledger in
/-- **C01, outputs to watch on restart**: `OutputsToWatch` lists — each once — exactly the credited outputs of known
transactions that no CONFIRMED transaction spends (leased ones and those spent by unconfirmed transactions included) -/
theorem C01_watch_ledger (es : List Event) (hc : ConsistentHistory {} es) (now : Nat) :
    ∃ s l, storeAfter Store.empty {} es = .ok s ∧ outputsToWatch s now = .ok l ∧
      (l.map (·.op)).Perm (Ledger.watchSet (ledgerAfter {} es)) := by
  obtain ⟨s, h1, hg, _⟩ := good_reachable es hc
  obtain ⟨l, h2, h3⟩ := watch_refines hg now
  exact ⟨s, l, h1, h2, h3⟩

/-- non-vacuity of `C01_balance_ledger`: a chain-consistent history with a reorg — a coinbase `(1)` confirmed at height
1, a payment `(2)` confirmed at height 2, a spender `(3)` of `(2,0)` seen unconfirmed, block 2 disconnected, `(2)`
reconfirmed in another block 2, a lease, a clock move -/
def exHistory : List Ledger.Event :=
  [.confirmed ⟨⟨1, 11⟩, 100⟩ ⟨1, [⟨0, nullIndex⟩], [5000]⟩ [(0, false)],
   .confirmed ⟨⟨2, 22⟩, 200⟩ ⟨2, [⟨77, 0⟩], [300, 400]⟩ [(0, false), (1, true)],
   .seen ⟨3, [⟨2, 0⟩], [250]⟩ [(0, true)],
   .disconnected 2,
   .confirmed ⟨⟨2, 23⟩, 201⟩ ⟨2, [⟨77, 0⟩], [300, 400]⟩ [(0, false), (1, true)],
   .lease 1 ⟨2, 1⟩ 5000000000,
   .clock 1000000000]

example : ConsistentHistory {} exHistory := by
  unfold exHistory
  refine ⟨?_, ?_, ?_, ?_, ?_, ?_, ?_, trivial⟩ <;>
    exact ⟨by decide, by decide, fun t ht => by
      first
        | (cases ht; exact ⟨by decide, by decide⟩)
        | cases ht⟩

/-! ## EXACT order of `UnspentOutputs` / `OutputsToWatch` (tx3)

`C01_utxos_ledger` / `C01_watch_ledger` above compare the answers with the ledger as permutations.  The buckets are in
bbolt key order after every sequence of store calls (`SortedS`, Lemmas/SortedStore.lean), `fetchCredits` walks the
unspent index and then the unconfirmed-credits bucket with a cursor, so the order is determined: -/

open Ledger in
/-- **C01, spendable outputs, exact order**: `UnspentOutputs` answers `a ++ b` where `a` lists the spendable outputs of
CONFIRMED transactions in ascending outpoint order (hash, then index: the byte order of `canonicalOutPoint`), `b` those
of UNCONFIRMED transactions in ascending outpoint order, and `a ++ b` is a permutation of the ledger's `utxos` — which
determines the list (`C01_utxos_order_unique`) -/
theorem C01_utxos_ledger_exact (es : List Event) (hc : ConsistentHistory {} es) :
    ∃ s a b, storeAfter Store.empty {} es = .ok s ∧ unspentOutputs s (ledgerAfter {} es).now = .ok (a ++ b) ∧
      (a ++ b).Perm (Ledger.utxos (ledgerAfter {} es)) ∧
      (∀ c ∈ a, c.block.isSome = true) ∧ (∀ c ∈ b, c.block = none) ∧
      (a.map (·.op)).Pairwise OutPoint.before ∧ (b.map (·.op)).Pairwise OutPoint.before := by
  obtain ⟨s, h1, hg, _, hs⟩ := good_sorted_reachable es hc
  obtain ⟨a, b, h2⟩ := utxos_refines_exact hg hs
  exact ⟨s, a, b, h1, h2⟩

/-- the description in `C01_utxos_ledger_exact` determines the answer: two lists of that shape with the same elements
are equal -/
theorem C01_utxos_order_unique {a1 b1 a2 b2 : List Credit} (hp : (a1 ++ b1).Perm (a2 ++ b2))
    (x1 : ∀ c ∈ a1, c.block.isSome = true) (y1 : ∀ c ∈ b1, c.block = none)
    (x2 : ∀ c ∈ a2, c.block.isSome = true) (y2 : ∀ c ∈ b2, c.block = none)
    (u1 : (a1.map (·.op)).Pairwise OutPoint.before) (v1 : (b1.map (·.op)).Pairwise OutPoint.before)
    (u2 : (a2.map (·.op)).Pairwise OutPoint.before) (v2 : (b2.map (·.op)).Pairwise OutPoint.before) :
    a1 ++ b1 = a2 ++ b2 := by
  rw [List.pairwise_map] at u1 v1 u2 v2
  exact append_eq_of_perm_sorted (fun c : Credit => c.block.isSome) (fun c c' : Credit => OutPoint.before c.op c'.op)
    (fun a b => OutPoint.before_asymm _ _) hp
    x1 (fun c hc => by simp [y1 c hc]) x2 (fun c hc => by simp [y2 c hc]) u1 v1 u2 v2

open Ledger in
/-- **C01, outputs to watch, exact order**: `OutputsToWatch` answers `a ++ b`: the watched outputs of confirmed
transactions in ascending outpoint order, then those of unconfirmed transactions in ascending outpoint order -/
theorem C01_watch_ledger_exact (es : List Event) (hc : ConsistentHistory {} es) (now : Nat) :
    ∃ s a b, storeAfter Store.empty {} es = .ok s ∧ outputsToWatch s now = .ok (a ++ b) ∧
      ((a ++ b).map (·.op)).Perm (Ledger.watchSet (ledgerAfter {} es)) ∧
      (∀ c ∈ a, inChain (ledgerAfter {} es) c.op.hash = true) ∧ (∀ c ∈ b, inPool (ledgerAfter {} es) c.op.hash = true) ∧
      (a.map (·.op)).Pairwise OutPoint.before ∧ (b.map (·.op)).Pairwise OutPoint.before := by
  obtain ⟨s, h1, hg, _, hs⟩ := good_sorted_reachable es hc
  obtain ⟨a, b, h2⟩ := watch_refines_exact hg hs now
  exact ⟨s, a, b, h1, h2⟩

/-- non-vacuity: after `exHistory` the spendable outputs come confirmed-first in outpoint order — the coinbase output
`(1,0)` (maturity is the caller's business); `(2,0)` is spent by the unconfirmed `(3)` and `(2,1)` is leased, so neither
is listed — then the unconfirmed `(3,0)` -/
example : (storeAfter Store.empty {} exHistory >>= fun s => unspentOutputs s 1000000000).map (·.map (·.op)) =
    .ok [⟨1, 0⟩, ⟨3, 0⟩] := by decide

end TxStore.C01
