/-
C18 for the two backends that do NOT use `ConcurrentQueue`: chain/btcd.go `(*RPCClient).handler` and
chain/neutrino.go `(*NeutrinoClient).notificationHandler` carry their own slice queue inside a `for { select }` loop.
Theorems are about the tables REGENERATED from those two functions, for every schedule (no bound; the queue is
a rendez-vous on both sides, so there is no buffer-size parameter).  Tie to the code: extractor only (no run).
-/
import BtcwVerif.Lemmas.NotifLoop
import BtcwVerif.Gen.NotifLoopGen
namespace NotifLoop
variable {α : Type}

/-- Both regenerated loop tables are the ones the theorems are proved for. -/
theorem C18_loops_generated :
    NotifLoopGen.btcd = expectedBtcd ∧ NotifLoopGen.neutrino = expectedNeutrino := by decide

private theorem gen_cases (t : Table) (ht : t = NotifLoopGen.btcd ∨ t = NotifLoopGen.neutrino) :
    ∃ b, t = tableOf b := by
  rcases ht with rfl | rfl
  · exact ⟨false, C18_loops_generated.1⟩
  · exact ⟨true, C18_loops_generated.2⟩

/-- In order, none lost, none duplicated, all schedules: `delivered ++ notifications = accepted`; the `dequeue`
channel variable is non-nil exactly when something is queued, and `next` is then the oldest queued item; and
`|notifications|` further dequeue steps deliver everything accepted. -/
theorem C18_loops_order_no_loss_no_dup (t : Table) (ht : t = NotifLoopGen.btcd ∨ t = NotifLoopGen.neutrino)
    (tr : List (Label α)) (s : State α) (h : run t (init α) tr = some s) :
    s.delivered ++ s.notifications = s.accepted ∧ s.delivered <+: s.accepted ∧
    (s.armed = true ↔ s.notifications ≠ []) ∧ (s.armed = true → s.next = s.notifications.head?) ∧
    (s.exited = false → ∃ s', run t s (List.replicate s.notifications.length .sendDequeue) = some s' ∧
        s'.delivered = s.accepted ∧ s'.accepted = s.accepted) := by
  obtain ⟨b, rfl⟩ := gen_cases t ht
  have hI := inv_run tr inv_init h
  refine ⟨hI.acc, ⟨s.notifications, hI.acc⟩, ?_, hI.next, ?_⟩
  · rw [hI.armed]; cases s.notifications <;> simp
  · intro he
    obtain ⟨s', h1, h2, h3, _⟩ := drain (b := b) _ s hI he rfl
    exact ⟨s', h1, h2, h3⟩

/-- The producer is never blocked by a slow consumer: while the loop runs, the clause `n, ok := <-enqueue` is
enabled in every reachable state, whatever is queued and whatever the consumer does. -/
theorem C18_loops_send_enabled (t : Table) (ht : t = NotifLoopGen.btcd ∨ t = NotifLoopGen.neutrino)
    (tr : List (Label α)) (s : State α) (h : run t (init α) tr = some s) (he : s.exited = false) (x : α) :
    ∃ s1, step t s (.recvEnqueue x) = some s1 ∧ s1.accepted = s.accepted ++ [x] ∧ s1.delivered = s.delivered := by
  obtain ⟨b, rfl⟩ := gen_cases t ht
  rw [step_expected]
  cases hv : s.notifications <;> simp [stepSpec, he, hv]

/-- Stop: the loop never ends before `quit` is closed; afterwards the quit clause is enabled in every state, firing
it ends the loop, and then no clause fires any more. -/
theorem C18_loops_quit_enabled (t : Table) (ht : t = NotifLoopGen.btcd ∨ t = NotifLoopGen.neutrino)
    (tr : List (Label α)) (s : State α) (h : run t (init α) tr = some s) :
    (s.quitClosed = false → s.exited = false) ∧
    (s.quitClosed = true → s.exited = false → ∃ s', step t s .quit = some s' ∧ s'.exited = true) ∧
    (s.exited = true → ∀ l : Label α, l.kind ≠ none → step t s l = none) := by
  obtain ⟨b, rfl⟩ := gen_cases t ht
  have hI := inv_run tr inv_init h
  refine ⟨?_, ?_, ?_⟩
  · intro hq
    cases he : s.exited with
    | false => rfl
    | true => have := hI.exited he; simp [hq] at this
  · intro hq he
    rw [step_expected]; simp [stepSpec, he, hq]
  · intro he l hl
    rw [step_expected]
    cases l <;> simp [stepSpec, he, Label.kind] at hl ⊢

/-- Non-vacuity on the generated tables. -/
example : (run NotifLoopGen.btcd (init Nat)
    [.recvEnqueue 1, .recvEnqueue 2, .sendCurrentBlock, .sendDequeue, .recvEnqueue 3, .sendDequeue, .sendDequeue]).map
    (fun s => (s.delivered, s.notifications, s.armed)) = some ([1, 2, 3], [], false) := by decide
example : (run NotifLoopGen.neutrino (init Nat)
    [.recvEnqueue 1, .recvRescanErr, .recvEnqueue 2, .sendDequeue, .stop, .quit]).map
    (fun s => (s.delivered, s.notifications, s.exited)) = some ([1], [2], true) := by decide
/-- `dequeue` is nil while nothing is queued: the send clause is not enabled. -/
example : (run NotifLoopGen.btcd (init Nat) [.sendDequeue]).isNone = true := by decide
example : (run NotifLoopGen.btcd (init Nat) [.recvRescanErr]).isNone = true := by decide

end NotifLoop
