def hello := "world"
