/-
Generic *write-program* model for C10 ("a failed database write never leaves a half-applied or silently lost
change").  Core Lean only.

A wallet operation (wtxmgr.Store.InsertTx, waddrmgr.ScopedKeyManager.NextExternalAddresses, ...) is abstracted to
the tree of the steps that matter for C10:

* `write site eff`   a call of a mutating walletdb primitive (`Put`, `Delete`, `CreateBucket[IfNotExists]`,
                     `DeleteNestedBucket`, cursor `Delete`, `SetSequence`, ...), `eff` is its effect on the abstract
                     disk state; `site` names the call chain, whose *error handling* is looked up in a table
                     (`tbl : σ → Handling`; for the real code the table is extracted into `Gen/ErrSitesGen.lean`);
* `memEager m`       an in-memory mutation of the manager performed immediately (e.g. `s.addrs[k] = a` in
                     `loadAndCacheAddress`, `m.syncState.syncedTo = *bs` in `SetSyncedTo`);
* `memOnCommit m`    an in-memory mutation deferred with `ns.Tx().OnCommit(...)` (e.g. `nextAddresses`);
* `fail`             a logical error return (validation, duplicate, not found ...) - not caused by the fault;
* `seq`, `branch`, `loop` control flow over the current state.

Fault monad: `faultAt : Option Nat` counts down over *executed* writes, `some k` (k ≥ 1) makes the k-th executed
write fail (the failing write has no effect, as the decorated bucket returns the error without touching bbolt).
If the handling of that site is `propagated` the operation stops with an error, otherwise it continues.

`bracket` = `walletdb.Update` (walletdb/bdb/db.go `Update`): on error the disk is rolled back and the pending
OnCommit callbacks are dropped; on success the disk is committed and the callbacks run in registration order.
-/
namespace FaultOps

/-- How the error returned by a write site is handled by the caller (as classified by the extractor). -/
inductive Handling where
  | propagated | ignored | loggedOnly | converted | unknown
deriving DecidableEq, Repr, Inhabited

inductive Outcome where
  | ok | err
deriving DecidableEq, Repr, Inhabited

/-- Write programs over site names `σ`, disk states `δ`, manager memory `μ`. -/
inductive Prog (σ δ μ : Type) where
  | skip
  | fail
  | write (site : σ) (eff : δ → δ)
  | memEager (m : μ → μ)
  | memOnCommit (m : μ → μ)
  | seq (a b : Prog σ δ μ)
  | branch (c : δ → μ → Bool) (t e : Prog σ δ μ)
  | loop (n : δ → μ → Nat) (body : Prog σ δ μ)

/-- Running configuration inside a database transaction. -/
structure Cfg (δ μ : Type) where
  disk    : δ
  mem     : μ
  pending : List (μ → μ)

abbrev Res (δ μ : Type) := Cfg δ μ × Option Nat × Outcome

/-- One executed write consumes one tick of the fault counter: `(does this write fail, remaining counter)`. -/
def tick : Option Nat → Bool × Option Nat
  | none => (false, none)
  | some 0 => (false, none)
  | some 1 => (true, none)
  | some (n + 2) => (false, some (n + 1))

/-- Repeat `step` `n` times, stopping at the first error. -/
def iter {δ μ : Type} (step : Cfg δ μ → Option Nat → Res δ μ) : Nat → Cfg δ μ → Option Nat → Res δ μ
  | 0, c, f => (c, f, .ok)
  | n + 1, c, f =>
    match step c f with
    | (c', f', .ok) => iter step n c' f'
    | r => r

variable {σ δ μ : Type}

/-- Semantics of a write program under a handling table and a fault counter. -/
def run (tbl : σ → Handling) : Prog σ δ μ → Cfg δ μ → Option Nat → Res δ μ
  | .skip, c, f => (c, f, .ok)
  | .fail, c, f => (c, f, .err)
  | .write s eff, c, f =>
    match tick f with
    | (true, f') => if tbl s = .propagated then (c, f', .err) else (c, f', .ok)
    | (false, f') => ({ c with disk := eff c.disk }, f', .ok)
  | .memEager m, c, f => ({ c with mem := m c.mem }, f, .ok)
  | .memOnCommit m, c, f => ({ c with pending := c.pending ++ [m] }, f, .ok)
  | .seq a b, c, f =>
    match run tbl a c f with
    | (c', f', .ok) => run tbl b c' f'
    | r => r
  | .branch cond t e, c, f => if cond c.disk c.mem then run tbl t c f else run tbl e c f
  | .loop n body, c, f => iter (run tbl body) (n c.disk c.mem) c f

/-- All write sites occurring in a program (every branch). -/
def sitesOf : Prog σ δ μ → List σ
  | .write s _ => [s]
  | .seq a b => sitesOf a ++ sitesOf b
  | .branch _ t e => sitesOf t ++ sitesOf e
  | .loop _ b => sitesOf b
  | _ => []

/-- The program contains no eager in-memory mutation. -/
def noEager : Prog σ δ μ → Bool
  | .memEager _ => false
  | .seq a b => noEager a && noEager b
  | .branch _ t e => noEager t && noEager e
  | .loop _ b => noEager b
  | _ => true

/-- The program cannot return an error (no write, no logical failure). -/
def cantErr : Prog σ δ μ → Bool
  | .fail => false
  | .write _ _ => false
  | .seq a b => cantErr a && cantErr b
  | .branch _ t e => cantErr t && cantErr e
  | .loop _ b => cantErr b
  | _ => true

/-- The memory-after-disk discipline: on no path is an eager in-memory mutation followed by a step that can
return an error (a write or a logical failure).  Decidable on the program text. -/
def noEagerBeforeWrite : Prog σ δ μ → Bool
  | .seq a b => noEagerBeforeWrite a && noEagerBeforeWrite b && (noEager a || cantErr b)
  | .branch _ t e => noEagerBeforeWrite t && noEagerBeforeWrite e
  | .loop _ b => noEagerBeforeWrite b && (noEager b || cantErr b)
  | _ => true

/-- Persistent state between database transactions: committed disk + manager memory. -/
structure St (δ μ : Type) where
  disk : δ
  mem  : μ

def applyPending (l : List (μ → μ)) (m : μ) : μ := l.foldl (fun m g => g m) m

/-- `walletdb.Update(db, func(tx) error { return op(tx) })`. -/
def bracket (tbl : σ → Handling) (op : Prog σ δ μ) (s : St δ μ) (f : Option Nat) : St δ μ × Outcome :=
  match run tbl op ⟨s.disk, s.mem, []⟩ f with
  | (c, _, .ok) => (⟨c.disk, applyPending c.pending c.mem⟩, .ok)
  | (c, _, .err) => (⟨s.disk, c.mem⟩, .err)

/-! ### Handling tables as association lists (shape of `Gen/ErrSitesGen.lean`) -/

/-- Lookup of a site in an extracted table; a site that is not in the table is `unknown` (never `propagated`). -/
def lookupHandling {κ : Type} [BEq κ] (tab : List (κ × Handling)) (k : κ) : Handling :=
  match tab.lookup k with
  | some h => h
  | none => .unknown

def allPropagatedTab {κ : Type} (tab : List (κ × Handling)) : Bool :=
  tab.all (fun e => e.2 == .propagated)

/-- A dynamic write is reached through a chain of call sites (innermost first); the error reaches the operation's
caller only if every site of the chain propagates it.  The chain's handling is that of the first (innermost)
site that does not propagate. -/
def chainHandling {κ : Type} [BEq κ] (tab : List (κ × Handling)) : List κ → Handling
  | [] => .propagated
  | k :: ks =>
    match lookupHandling tab k with
    | .propagated => chainHandling tab ks
    | h => h

/-! ### Straight-line programs replayed by the driver engine (`Driver/EngFaultOps.lean`)

The Go engine records, for a fault-free run of a real operation, the sequence of steps it observed: every
mutating walletdb call (with the chain of wallet call sites on the stack), every registration of an OnCommit
callback, every point at which the raw in-memory state of the managers changed.  The replay model gives each
step a distinguishable effect: the disk / memory are logs of the step indices applied. -/

inductive Shape (κ : Type) where
  | w (chain : List κ)     -- a write reached through this chain of call sites
  | e                      -- eager in-memory mutation observed
  | c                      -- OnCommit callback registered (deferred in-memory mutation)
  | x                      -- the operation returns a logical (non-fault) error here
deriving Repr

def progOfShapes {κ : Type} : List (Shape κ) → Nat → Prog (List κ) (List Nat) (List Nat)
  | [], _ => .skip
  | .w ch :: rest, i => .seq (.write ch (fun d => d ++ [i])) (progOfShapes rest (i + 1))
  | .e :: rest, i => .seq (.memEager (fun m => m ++ [i])) (progOfShapes rest (i + 1))
  | .c :: rest, i => .seq (.memOnCommit (fun m => m ++ [i])) (progOfShapes rest (i + 1))
  | .x :: _, _ => .fail

end FaultOps
