/-
Model of /repo/walletdb/migration/manager.go  (C19).

`Version.mig = none` is a nil migration.  A migration function is identified by an id; whether it fails is an
input (`fails`).  `sort.Slice` in Go is not stable; the model uses a structural insertion sort and the
theorems only rely on "sorted permutation", never on the relative order of equal numbers.
-/
namespace Migration

structure Version where
  number : Nat
  mig    : Option Nat
deriving Repr, DecidableEq, Inhabited

inductive Ev where
  | applied    (number id : Nat)
  | failed     (number id : Nat)
  | setVersion (v : Nat)
  | setVersionFailed (v : Nat)
deriving Repr, DecidableEq

inductive Err where
  | reversion | migration (number id : Nat) | setVersion | currentVersion
deriving Repr, DecidableEq

/-- Insert into an ascending list, after every entry with a number `≤` (structural, so `decide` evaluates it). -/
def insertV (v : Version) : List Version → List Version
  | [] => [v]
  | w :: ws => if v.number < w.number then v :: w :: ws else w :: insertV v ws

/-- Stable insertion sort by `number` (stands for Go's `sort.Slice`, which is a sorting permutation). -/
def sortVs : List Version → List Version
  | [] => []
  | v :: vs => insertV v (sortVs vs)

/-- `GetLatestVersion`: 0 for the empty table, else the number of the last element after sorting. -/
def latest (vs : List Version) : Nat :=
  match (sortVs vs).getLast? with
  | none => 0
  | some v => v.number

/-- `VersionsToApply`: filter `> cur`, then sort. -/
def versionsToApply (cur : Nat) (vs : List Version) : List Version :=
  sortVs (vs.filter (fun v => v.number > cur))

/-- The `for` loop of `upgrade`: run migrations in order, stop at first failure. Returns trace and failure. -/
def runMigs (fails : Nat → Bool) : List Version → List Ev × Option Err
  | [] => ([], none)
  | v :: rest =>
    match v.mig with
    | none => runMigs fails rest
    | some id =>
      if fails id then ([.failed v.number id], some (.migration v.number id))
      else
        let (tr, e) := runMigs fails rest
        (.applied v.number id :: tr, e)

structure Result where
  trace   : List Ev
  err     : Option Err
  version : Nat          -- stored version afterwards
deriving Repr, DecidableEq

/-- `upgrade(mgr)`. `cur = none` models `CurrentVersion` returning an error. -/
def upgrade (cur : Option Nat) (vs : List Version) (fails : Nat → Bool) (setFails : Bool) : Result :=
  match cur with
  | none => { trace := [], err := some .currentVersion, version := 0 }
  | some cur =>
    let lat := latest vs
    if cur > lat then { trace := [], err := some .reversion, version := cur }
    else if cur < lat then
      let (tr, e) := runMigs fails (versionsToApply cur vs)
      match e with
      | some e => { trace := tr, err := some e, version := cur }
      | none =>
        if setFails then { trace := tr ++ [.setVersionFailed lat], err := some .setVersion, version := cur }
        else { trace := tr ++ [.setVersion lat], err := none, version := lat }
    else { trace := [], err := none, version := cur }

/-- Data effect of a trace: the list of migration ids applied (what a migration "does" to the namespace). -/
def applied : List Ev → List Nat
  | [] => []
  | .applied _ id :: t => id :: applied t
  | _ :: t => applied t

/-- Database state seen by the component: stored version + ids of migrations whose writes are present. -/
structure DB where
  version : Nat
  data    : List Nat
deriving Repr, DecidableEq

/-- `upgrade` run inside one `walletdb.Update`: an error discards every write (C11 atomicity). -/
def upgradeInTx (db : DB) (vs : List Version) (fails : Nat → Bool) (setFails : Bool) : DB × Option Err :=
  let r := upgrade (some db.version) vs fails setFails
  match r.err with
  | some e => (db, some e)
  | none => ({ version := r.version, data := db.data ++ applied r.trace }, none)

/-- `upgrade` run outside a managed transaction (writes of completed migrations persist). -/
def upgradeNoTx (db : DB) (vs : List Version) (fails : Nat → Bool) (setFails : Bool) : DB × Option Err :=
  let r := upgrade (some db.version) vs fails setFails
  ({ version := r.version, data := db.data ++ applied r.trace }, r.err)

end Migration

namespace Migration

/-- `migration.Upgrade(mgrs...)` inside ONE `walletdb.Update` (wallet.OpenWithRetry upgrades the transaction
manager and the address manager this way): components are upgraded in order; the first error aborts and the
enclosing transaction discards every write of every component. -/
def upgradeManyLoop (fails : Nat → Bool) : List (DB × List Version) → List DB × Option Err
  | [] => ([], none)
  | (db, vs) :: rest =>
    let r := upgrade (some db.version) vs fails false
    match r.err with
    | some e => ([], some e)
    | none =>
      let (dbs, e) := upgradeManyLoop fails rest
      ({ version := r.version, data := db.data ++ applied r.trace } :: dbs, e)

def upgradeManyInTx (comps : List (DB × List Version)) (fails : Nat → Bool) : List DB × Option Err :=
  match upgradeManyLoop fails comps with
  | (_, some e) => (comps.map (·.1), some e)
  | (dbs, none) => (dbs, none)

end Migration
