import BtcwVerif.Model.AddrDerive
/-! Operations of the `AddrDerive` model (see `AddrDerive.lean` for the state and the Go functions mirrored). -/
namespace AddrDerive
open AddrSym

variable {K P : Type} [DecidableEq K] [DecidableEq P]

-- ---------------------------------------------------------------------------------------------------------
-- symbolic rows (formats of waddrmgr/db.go)

def scStr (sc : Scope) : String := toString sc.1 ++ ":" ++ toString sc.2
def scPath (sc : Scope) (sub : String) : String := "scope/" ++ scStr sc ++ (if sub = "" then "" else "/" ++ sub)

def aidChain (sc : Scope) (a b i : Nat) : Sym :=
  .sha (.pubdata ("aid:" ++ scStr sc ++ ":" ++ toString a ++ ":" ++ toString b ++ ":" ++ toString i))
def aidImp (id : Nat) : Sym := .sha (.pubdata ("aid:k" ++ toString id))
def aidScr (id : Nat) : Sym := .sha (.pubdata ("aid:s" ++ toString id))

def xpubSym (sc : Scope) (a : Nat) : Sym := .pubdata ("xpub:" ++ scStr sc ++ ":" ++ toString a)
def xprvSym (sc : Scope) (a : Nat) : Sym := .secret .priv ("xprv:" ++ scStr sc ++ ":" ++ toString a)

def schemaStr : Option Schema → String
  | none => "-"
  | some s => toString s.ext.code ++ "/" ++ toString s.int.code

/-- account row value (`serializeDefaultAccountRow` / `serializeWatchOnlyAccountRow`) -/
def acctRowSym (sc : Scope) (a : Nat) : AcctRow K P → Sym
  | .dflt _ priv ne ni name =>
    let tail := Sym.plain (toString ne ++ ":" ++ toString ni ++ ":" ++ toString name)
    let pub := Sym.enc .pub (xpubSym sc a)
    match priv with
    | some _ => .cat (.plain "dflt") (.cat pub (.cat (.enc .priv (xprvSym sc a)) tail))
    | none => .cat (.plain "dflt") (.cat pub tail)
  | .wo _ fp ne ni name schema _ =>
    .cat (.plain "wo") (.cat (.enc .pub (xpubSym sc a))
      (.plain (toString fp ++ ":" ++ toString ne ++ ":" ++ toString ni ++ ":" ++ toString name ++ ":" ++ schemaStr schema)))

def acctRowPut (sc : Scope) (a : Nat) (r : AcctRow K P) : Row :=
  { path := scPath sc "acct", key := .plain (toString a), val := acctRowSym sc a r }

def scriptSym (id : Nat) (secret : Bool) : Sym :=
  if secret then .secret .script ("script:s" ++ toString id) else .pubdata ("script:s" ++ toString id)

/-- address row value (`serializeChainedAddress`, `serializeImportedAddress`, `serializeScriptAddress`,
    `serializeWitnessScriptAddress`) -/
def addrRowSym : AddrRow → Sym
  | .chain a b i => .plain ("chain:" ++ toString a ++ ":" ++ toString b ++ ":" ++ toString i)
  | .imp id _ hasPriv =>
    let pub := Sym.enc .pub (.pubdata ("pk:k" ++ toString id))
    if hasPriv then .cat (.plain "imp") (.cat pub (.enc .priv (.secret .priv ("sk:k" ++ toString id))))
    else .cat (.plain "imp") pub
  | .scr id kind secret encKey =>
    let hd := Sym.plain ("scr:" ++ toString kind ++ ":" ++ (if secret then "1" else "0"))
    let hash := Sym.enc .pub (.pubdata ("sh:s" ++ toString id))
    match encKey with
    | some kc => .cat hd (.cat hash (.enc kc (scriptSym id secret)))
    | none => .cat hd hash

def addrKeySym (sc : Scope) (_id : AddrId P) : AddrRow → Sym
  | .chain a b i => aidChain sc a b i
  | .imp k _ _ => aidImp k
  | .scr k _ _ _ => aidScr k

def rowAcctOf : AddrRow → Nat
  | .chain a _ _ => a
  | _ => importedAcct

/-- `putAddress`: the address row plus the two account-index rows -/
def addrRowPuts (sc : Scope) (id : AddrId P) (r : AddrRow) : List Row :=
  let k := addrKeySym sc id r
  let a := rowAcctOf r
  [ { path := scPath sc "addr", key := k, val := addrRowSym r },
    { path := scPath sc "addracctidx", key := k, val := .plain (toString a) },
    { path := scPath sc ("addracctidx/" ++ toString a), key := k, val := .plain "" } ]

def mainPut (k : String) (v : Sym) : Row := { path := "main", key := .plain k, val := v }
def mainDel (k : String) : Row := { del := true, path := "main", key := .plain k }

def cryptoKeyRows (pub priv script : Bool) : List Row :=
  (if pub then [mainPut "cpub" (.enc .masterPub (.secret .pubring "ckey:pub"))] else []) ++
  (if priv then [mainPut "cpriv" (.enc .masterPriv (.secret .priv "ckey:priv"))] else []) ++
  (if script then [mainPut "cscript" (.enc .masterPriv (.secret .script "ckey:script"))] else [])

def paramRows (pub : Option Nat) (priv : Option Nat) : List Row :=
  (match priv with | some p => [mainPut "mpriv" (.plain ("kdf:" ++ toString p))] | none => []) ++
  (match pub with | some p => [mainPut "mpub" (.plain ("kdf:" ++ toString p))] | none => [])

/-- `createManagerKeyScope` writes -/
def keyScopeRows (sc : Scope) (acct0 : AcctRow K P) : List Row :=
  [ { path := scPath sc "", key := .plain "ctpub", val := .enc .pub (.pubdata ("xpub:" ++ scStr sc)) },
    { path := scPath sc "", key := .plain "ctpriv", val := .enc .priv (.secret .priv ("xprv:" ++ scStr sc)) },
    acctRowPut sc 0 acct0 ]

-- ---------------------------------------------------------------------------------------------------------
-- derivation helpers

def derive2 (hd : HD K P) (k : K) (b i : Nat) : Option K := (hd.child k b).bind fun bk => hd.child bk i
def derive2pub (hd : HD K P) (p : P) (b i : Nat) : Option P := (hd.pubChild p b).bind fun bp => hd.pubChild bp i

/-- m/purpose'/coin' -/
def coinKeyAt (hd : HD K P) (root : K) (sc : Scope) : Option K :=
  (hd.child root (sc.1 + H)).bind fun pk => hd.child pk (sc.2 + H)
/-- m/purpose'/coin'/account' -/
def acctKeyAt (hd : HD K P) (root : K) (sc : Scope) (a : Nat) : Option K :=
  (coinKeyAt hd root sc).bind fun ck => hd.child ck (a + H)

/-- the "derive the next valid child" loop of `nextAddresses`/`extendAddresses`: first index ≥ `start` whose child exists -/
def firstValid (valid : Nat → Bool) : Nat → Nat → Option Nat
  | 0, _ => none
  | fuel + 1, start => if valid start then some start else firstValid valid fuel (start + 1)

def skipFuel : Nat := 4294967296

/-- indices handed out by `nextAddresses`: `n` valid children starting at `start` -/
def nextIdxs (valid : Nat → Bool) : Nat → Nat → Option (List Nat)
  | 0, _ => some []
  | n + 1, start =>
    match firstValid valid skipFuel start with
    | none => none
    | some i => (nextIdxs valid n (i + 1)).map (i :: ·)

/-- indices handed out by `extendAddresses`: valid children from `start` until the cursor passes `last` -/
def extendIdxs (valid : Nat → Bool) (last : Nat) : Nat → Nat → Option (List Nat)
  | 0, _ => none
  | fuel + 1, start =>
    if start ≤ last then
      match firstValid valid skipFuel start with
      | none => none
      | some i => (extendIdxs valid last fuel (i + 1)).map (i :: ·)
    else some []

def accountAddrType (scSchema : Schema) (ai : AcctInfo K P) (internal : Bool) : AddrType :=
  let s := ai.schema.getD scSchema
  if internal then s.int else s.ext

def lastIdx (n : Nat) : Nat := n - 1

-- ---------------------------------------------------------------------------------------------------------
-- state access

def getSD (s : State K P) (sc : Scope) : Option (ScopeDisk K P) := alookup s.disk.scopes sc
def getSM (s : State K P) (sc : Scope) : Option (ScopeMem K P) := alookup s.mem.scopes sc
def putSD (s : State K P) (sc : Scope) (sd : ScopeDisk K P) : State K P :=
  { s with disk := { s.disk with scopes := aset s.disk.scopes sc sd } }
def putSM (s : State K P) (sc : Scope) (sm : ScopeMem K P) : State K P :=
  { s with mem := { s.mem with scopes := aset s.mem.scopes sc sm } }
def alloc (s : State K P) (o : Obj K P) : State K P × Nat :=
  ({ s with mem := { s.mem with heap := s.mem.heap ++ [o] } }, s.mem.heap.length)
def bindH (s : State K P) (h idx : Nat) : State K P :=
  { s with mem := { s.mem with handles := aset s.mem.handles h idx } }

def infoOfKey (o : KeyObj K P) : Info :=
  if o.imported then
    -- DerivationInfo returns zero values for imported keys
    { scope := (0, 0), acct := o.acct, acctChild := 0, branch := 0, index := 0, fp := 0, typ := o.typ.code,
      imported := true, internal := o.internal, compressed := o.compressed, isScript := false }
  else
    { scope := o.scope, acct := o.acct, acctChild := o.acctChild, branch := o.branch, index := o.index, fp := o.fp,
      typ := o.typ.code, imported := false, internal := o.internal, compressed := o.compressed, isScript := false }

def infoOfScr (o : ScrObj) : Info :=
  { scope := o.scope, acct := importedAcct, acctChild := 0, branch := 0, index := 0, fp := 0,
    typ := (match o.kind with | 0 => 1 | 1 => 5 | _ => 7), imported := true, internal := false,
    compressed := o.kind != 0, isScript := true }

def infoOf : Obj K P → Info
  | .key o => infoOfKey o
  | .scr o => infoOfScr o

/-- the script crypto key currently in memory -/
def memScriptKey (cfg : Cfg) : KeyClass := if cfg.o1 then .zero else .script

-- ---------------------------------------------------------------------------------------------------------
-- loadAccountInfo

def loadAcct (hd : HD K P) (s : State K P) (sc : Scope) (acct : Nat) :
    Except Err (State K P × AcctInfo K P) :=
  match getSM s sc, getSD s sc with
  | some sm, some sd =>
    match alookup sm.acctInfo acct with
    | some ai => .ok (s, ai)
    | none =>
      if acct = importedAcct then .error .crypto else
      match alookup sd.accts acct with
      | none => .error .acctNotFound
      | some row =>
        let hasPriv := !s.mem.locked && !s.mem.watchOnly
        let mk : Except Err (AcctInfo K P) :=
          match row with
          | .dflt pub priv ne ni name =>
            if hasPriv && priv.isNone then .error .crypto else
            .ok { keyEnc := priv, keyPub := pub, keyPriv := if hasPriv then priv else none, nextExt := ne,
                  nextInt := ni, schema := none, fp := 0, childIdx := acct + H, name := name }
          | .wo pub fp ne ni name schema ci =>
            .ok { keyEnc := none, keyPub := pub, keyPriv := none, nextExt := ne, nextInt := ni,
                  schema := schema, fp := fp, childIdx := ci, name := name }
        match mk with
        | .error e => .error e
        | .ok ai =>
          -- the last external / internal addresses are derived eagerly; an invalid child fails the load
          if (derive2pub hd ai.keyPub 0 (lastIdx ai.nextExt)).isNone
              || (derive2pub hd ai.keyPub 1 (lastIdx ai.nextInt)).isNone then .error .keyChain
          else .ok (putSM s sc { sm with acctInfo := (acct, ai) :: sm.acctInfo }, ai)
  | _, _ => .error .scopeNotFound

-- ---------------------------------------------------------------------------------------------------------
-- building chained address objects

/-- `newManagedAddressFromExtKey` on child `b/i` of the account: from the private account key when `usePriv`,
    else from the public one -/
def mkChained (hd : HD K P) (sc : Scope) (acct : Nat) (ai : AcctInfo K P) (usePriv : Bool) (b i : Nat)
    (typ : AddrType) (acctChild fp : Nat) : Option (KeyObj K P) :=
  let base : Pub P → Option (Priv K) → KeyObj K P := fun pub priv =>
    { scope := sc, acct := acct, acctChild := acctChild, branch := b, index := i, fp := fp, pub := pub,
      privEnc := priv, typ := typ, imported := false, internal := b == 1, compressed := true,
      acctPub := some ai.keyPub, hasPrivAcct := ai.keyEnc.isSome }
  if usePriv then
    match ai.keyPriv with
    | none => none
    | some ak => (derive2 hd ak b i).map fun k => base (.hd (hd.neuter k)) (some (.hd k))
  else
    (derive2pub hd ai.keyPub b i).map fun p => base (.hd p) none

def chainId (o : KeyObj K P) : AddrId P := .key o.pub (idClass o.typ) true

/-- allocate the objects of one `nextAddresses`/`extendAddresses` call, write their rows, cache them and (when
    `toDou`) queue them for derive-on-unlock.  Returns the new state, the rows and the heap indices. -/
def setNext (row : AcctRow K P) (internal : Bool) (n : Nat) : AcctRow K P :=
  match row with
  | .dflt pub priv ne ni name => if internal then .dflt pub priv ne n name else .dflt pub priv n ni name
  | .wo pub fp ne ni name schema ci =>
    if internal then .wo pub fp ne n name schema ci else .wo pub fp n ni name schema ci

/-- `putChainedAddress` also rewrites the account row with `index + 1` as next index of the branch -/
def bumpAcctRow (sc : Scope) (sd : ScopeDisk K P) (acct branch index : Nat) : ScopeDisk K P × List Row :=
  match alookup sd.accts acct with
  | some row =>
    let row' := setNext row (branch == 1) (index + 1)
    ({ sd with accts := aset sd.accts acct row' }, [acctRowPut sc acct row'])
  | none => (sd, [])

def issueAll (sc : Scope) (toDou : Bool) :
    List (KeyObj K P) → State K P → List Row → List Nat → State K P × List Row × List Nat
  | [], s, rows, idxs => (s, rows, idxs)
  | o :: rest, s, rows, idxs =>
    match getSM s sc, getSD s sc with
    | some sm, some sd =>
      let (s1, idx) := alloc s (.key o)
      let id := chainId o
      let row := AddrRow.chain o.acct o.branch o.index
      let (sd0, arows) := bumpAcctRow sc { sd with addrs := aset sd.addrs id row } o.acct o.branch o.index
      let sd' := sd0
      let sm' := { sm with addrs := aset sm.addrs id idx,
                           dou := if toDou then sm.dou ++ [(idx, o.branch, o.index)] else sm.dou }
      let s2 := putSM (putSD s1 sc sd') sc sm'
      issueAll sc toDou rest s2 (rows ++ addrRowPuts sc id row ++ arows) (idxs ++ [idx])
    | _, _ => (s, rows, idxs)

def bindAll : List Nat → Nat → State K P → State K P
  | [], _, s => s
  | idx :: t, h, s => bindAll t (h + 1) (bindH s h idx)

/-- common tail of next/extend: objects → state; the cached next index follows -/
def commitIssue (s : State K P) (sc : Scope) (acct : Nat) (internal : Bool) (toDou : Bool)
    (objs : List (KeyObj K P)) (newNext : Nat) : State K P × List Row × List Nat :=
  let (s1, rows, idxs) := issueAll sc toDou objs s [] []
  match getSM s1 sc with
  | some sm =>
    match alookup sm.acctInfo acct with
    | some ai =>
      let ai' := if internal then { ai with nextInt := newNext } else { ai with nextExt := newNext }
      (putSM s1 sc { sm with acctInfo := aset sm.acctInfo acct ai' }, rows, idxs)
    | none => (s1, rows, idxs)
  | none => (s1, rows, idxs)

def mkAll (hd : HD K P) (sc : Scope) (acct : Nat) (ai : AcctInfo K P) (usePriv : Bool) (b : Nat)
    (typ : AddrType) (acctChild fp : Nat) : List Nat → Option (List (KeyObj K P))
  | [] => some []
  | i :: t =>
    match mkChained hd sc acct ai usePriv b i typ acctChild fp, mkAll hd sc acct ai usePriv b typ acctChild fp t with
    | some o, some os => some (o :: os)
    | _, _ => none

def branchValid (hd : HD K P) (ai : AcctInfo K P) (b : Nat) : Nat → Bool :=
  fun i => (derive2pub hd ai.keyPub b i).isSome

def getLast : List Nat → Nat → Nat
  | [], d => d
  | [x], _ => x + 1
  | _ :: t, d => getLast t d

/-- `nextAddresses` -/
def opNext (hd : HD K P) (s : State K P) (sc : Scope) (acct n : Nat) (internal : Bool) (hbase : Nat) :
    State K P × Res K × List Row :=
  if acct > importedAcct - 1 then (s, .err .invalidAcct, []) else
  match loadAcct hd s sc acct with
  | .error e => (s, .err e, [])
  | .ok (s, ai) =>
    match getSM s sc with
    | none => (s, .err .scopeNotFound, [])
    | some sm =>
      let watchOnly := s.mem.watchOnly || ai.keyEnc.isNone
      let usePriv := !s.mem.locked && !watchOnly
      let b := if internal then 1 else 0
      let next0 := if internal then ai.nextInt else ai.nextExt
      let typ := accountAddrType sm.schema ai internal
      if n > maxAddrs || next0 + n > maxAddrs then (s, .err .tooMany, []) else
      if n = 0 then (s, .err .other, []) else     -- (the Go code panics in onCommit; never generated)
      if (hd.pubChild ai.keyPub b).isNone then (s, .err .keyChain, []) else
      match nextIdxs (branchValid hd ai b) n next0 with
      | none => (s, .err .keyChain, [])
      | some idxs =>
        match mkAll hd sc acct ai usePriv b typ ai.childIdx ai.fp idxs with
        | none => (s, .err .keyChain, [])
        | some objs =>
          let (s1, rows, hidx) := commitIssue s sc acct internal (s.mem.locked && !watchOnly) objs (getLast idxs next0)
          (bindAll hidx hbase s1, .addrs (objs.map infoOfKey), rows)

/-- `extendAddresses` -/
def opExtend (cfg : Cfg) (hd : HD K P) (s : State K P) (sc : Scope) (acct last : Nat) (internal : Bool) :
    State K P × Res K × List Row :=
  if acct > importedAcct - 1 then (s, .err .invalidAcct, []) else
  match loadAcct hd s sc acct with
  | .error e => (s, .err e, [])
  | .ok (s, ai) =>
    match getSM s sc with
    | none => (s, .err .scopeNotFound, [])
    | some sm =>
      let watchOnly := s.mem.watchOnly || (if cfg.f3 then ai.keyPriv.isSome else ai.keyEnc.isNone)
      let usePriv := !s.mem.locked && !watchOnly
      let b := if internal then 1 else 0
      let next0 := if internal then ai.nextInt else ai.nextExt
      let typ := accountAddrType sm.schema ai internal
      if last < next0 then (s, .ok, []) else
      if last > maxAddrs then (s, .err .tooMany, []) else
      if usePriv && ai.keyPriv.isNone then ({ s with poisoned := true }, .panic, []) else
      if (hd.pubChild ai.keyPub b).isNone then (s, .err .keyChain, []) else
      match extendIdxs (branchValid hd ai b) last (last + 2 - next0) next0 with
      | none => (s, .err .keyChain, [])
      | some idxs =>
        -- the derivation path carries the account's MasterKeyFingerprint, as in `nextAddresses` and in a re-read from the
        -- row (fixed by repo-patches/fix-C08-extendAddresses-fingerprint.diff; before, `cfg.e1`, it was left zero)
        match mkAll hd sc acct ai usePriv b typ ai.childIdx (if cfg.e1 then 0 else ai.fp) idxs with
        | none => (s, .err .keyChain, [])
        | some objs =>
          let (s1, rows, _) := commitIssue s sc acct internal (s.mem.locked && !watchOnly) objs (getLast idxs next0)
          (s1, .ok, rows)

-- ---------------------------------------------------------------------------------------------------------
-- lookup / derive / markUsed

def heapGet (s : State K P) (idx : Nat) : Option (Obj K P) := s.mem.heap[idx]?

/-- `ScopedKeyManager.Address` (cache, else `loadAndCacheAddress`) -/
def opLookup (hd : HD K P) (s : State K P) (sc : Scope) (id : AddrId P) (h : Nat) :
    State K P × Res K × List Row :=
  match getSM s sc, getSD s sc with
  | some sm, some sd =>
    match alookup sm.addrs id with
    | some idx =>
      match heapGet s idx with
      | some o => (bindH s h idx, .addr (infoOf o), [])
      | none => (s, .err .other, [])
    | none =>
      match alookup sd.addrs id with
      | none => (s, .err .notFound, [])
      | some (.chain acct b i) =>
        match loadAcct hd s sc acct with
        | .error e => (s, .err e, [])
        | .ok (s, ai) =>
          let priv := !s.mem.locked && !s.mem.watchOnly && ai.keyPriv.isSome
          let typ := accountAddrType sm.schema ai (b == 1)
          match mkChained hd sc acct ai priv b i typ ai.childIdx ai.fp with
          | none => (s, .err .keyChain, [])
          | some o =>
            let (s1, idx) := alloc s (.key o)
            match getSM s1 sc with
            | none => (s, .err .scopeNotFound, [])
            | some sm1 =>
              let sm2 := { sm1 with addrs := aset sm1.addrs id idx,
                                    dou := if priv then sm1.dou else sm1.dou ++ [(idx, b, i)] }
              (bindH (putSM s1 sc sm2) h idx, .addr (infoOfKey o), [])
      | some (.imp k comp hasPriv) =>
        let o : KeyObj K P :=
          { scope := sc, acct := importedAcct, acctChild := 0, branch := 0, index := 0, fp := 0, pub := .imp k,
            privEnc := if hasPriv then some (.imp k) else none, typ := sm.schema.ext, imported := true,
            internal := false, compressed := comp, acctPub := none, hasPrivAcct := false }
        let (s1, idx) := alloc s (.key o)
        match getSM s1 sc with
        | none => (s, .err .scopeNotFound, [])
        | some sm1 => (bindH (putSM s1 sc { sm1 with addrs := aset sm1.addrs id idx }) h idx, .addr (infoOfKey o), [])
      | some (.scr k kind secret encKey) =>
        let o : ScrObj := { scope := sc, id := k, kind := kind, secret := secret, encKey := encKey }
        let (s1, idx) := alloc s (.scr o)
        match getSM s1 sc with
        | none => (s, .err .scopeNotFound, [])
        | some sm1 => (bindH (putSM s1 sc { sm1 with addrs := aset sm1.addrs id idx }) h idx, .addr (infoOfScr o), [])
  | _, _ => (s, .err .scopeNotFound, [])

/-- `DeriveFromKeyPath` -/
def opDerive (hd : HD K P) (s : State K P) (sc : Scope) (acct acctChild b i : Nat) (h : Nat) :
    State K P × Res K × List Row :=
  match loadAcct hd s sc acct with
  | .error e => (s, .err e, [])
  | .ok (s, ai) =>
    match getSM s sc with
    | none => (s, .err .scopeNotFound, [])
    | some sm =>
      let priv := !s.mem.locked && !s.mem.watchOnly && ai.keyPriv.isSome
      let typ := accountAddrType sm.schema ai (b == 1)
      match mkChained hd sc acct ai priv b i typ acctChild 0 with
      | none => (s, .err .keyChain, [])
      | some o =>
        let (s1, idx) := alloc s (.key o)
        match getSM s1 sc with
        | none => (s, .err .scopeNotFound, [])
        | some sm1 =>
          let sm2 := { sm1 with dou := if priv then sm1.dou else sm1.dou ++ [(idx, b, i)] }
          (bindH (putSM s1 sc sm2) h idx, .addr (infoOfKey o), [])

def markKeySym (sc : Scope) (sd : ScopeDisk K P) (id : AddrId P) (desc : String) : Sym :=
  match alookup sd.addrs id with
  | some r => addrKeySym sc id r
  | none => Sym.sha (.pubdata ("aid:" ++ desc))

def markRows (sc : Scope) (keySym : Sym) (already : Bool) : List Row :=
  if already then [] else [{ path := scPath sc "usedaddrs", key := keySym, val := .plain "0" }]

/-- `MarkUsed` -/
def opMarkUsed (s : State K P) (sc : Scope) (id : AddrId P) (desc : String) : State K P × Res K × List Row :=
  match getSM s sc, getSD s sc with
  | some sm, some sd =>
    let already := sd.used.contains id
    let sd' := if already then sd else { sd with used := id :: sd.used }
    (putSM (putSD s sc sd') sc { sm with addrs := aerase sm.addrs id }, .ok, markRows sc (markKeySym sc sd id desc) already)
  | _, _ => (s, .err .scopeNotFound, [])

end AddrDerive
