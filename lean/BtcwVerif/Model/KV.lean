/-
Model of /repo/walletdb/bdb/db.go (+ walletdb/interface.go `Update`/`View`/`Batch`) over bbolt v1.3.11   (C11).

The store is FLAT: an entry (a key/value pair *or* a nested bucket) is addressed by its full path from the root,
`bucket path ++ [key]`, exactly like bbolt where a nested bucket is a flagged key of its parent.  Deleting a nested
bucket deletes by path prefix.  The lexicographic order on `List (List UInt8)` restricted to the children of one
bucket is bbolt's byte order (`bytes.Compare`) on keys, so the cursor view of a bucket is a filter of `toList`.

bbolt itself (B+tree, pages, mmap, commit) is trusted; what is modelled is the adapter's contract:
preconditions and their ORDER (closed → writable → argument checks), `convertErr` (and the two places that skip
it: `NextSequence`/`SetSequence`), managed `Update`/`View` with deferred rollback, explicit `Commit`/`Rollback`
on the handed-out transaction, cursor positions.
-/
import Std.Data.ExtTreeMap
namespace KV

abbrev Bytes := List UInt8
/-- bucket names from the root; the root bucket is `[]`. -/
abbrev Path := List Bytes

/-- What a key of a bucket holds: a value, or a nested bucket with its sequence number (bbolt stores the bucket
header, which contains the sequence, as the flagged value of the key in the parent). -/
inductive Entry where
  | val (v : Bytes)
  | bucket (seq : Nat)
deriving DecidableEq, Repr, Inhabited

/-- committed or working state: full entry path ↦ entry (ordered by `compare`, i.e. lexicographic). -/
abbrev DB := Std.ExtTreeMap Path Entry

/-- bbolt `MaxKeySize`, `MaxValueSize` (bucket.go). -/
def maxKeySize : Nat := 32768
def maxValueSize : Nat := 2147483646
/-- sequence numbers are `uint64`. -/
def seqMod : Nat := 18446744073709551616

/-- walletdb sentinels produced by `convertErr`, the two bbolt sentinels that escape unconverted, and the
caller's own error. -/
inductive Err where
  | txClosed | txNotWritable | bucketNotFound | bucketExists | bucketNameRequired
  | keyRequired | keyTooLarge | valueTooLarge | incompatibleValue
  | rawTxClosed | rawTxNotWritable   -- bdb `NextSequence`/`SetSequence` return bbolt's error WITHOUT convertErr
  | user
deriving DecidableEq, Repr, Inhabited

/-- `tx.ReadWriteBucket` / `NestedReadWriteBucket` chain resolves (non-nil) — in a well-formed store every ancestor
of a bucket entry is a bucket (theorem `WF`), so one lookup suffices. -/
def isBucket (d : DB) (p : Path) : Bool :=
  match p with
  | [] => true
  | _ :: _ => match d[p]? with
    | some (.bucket _) => true
    | _ => false

/-- `bucket.Get`: nil for a missing key and for a key that is a nested bucket. -/
def getVal (d : DB) (p : Path) (k : Bytes) : Option Bytes :=
  match d[p ++ [k]]? with
  | some (.val v) => some v
  | _ => none

/-- `bucket.Sequence` (0 for the root, which walletdb does not expose). -/
def seqOf (d : DB) (p : Path) : Nat :=
  match d[p]? with
  | some (.bucket s) => s
  | _ => 0

/-- bbolt `Bucket.Put`. -/
def put (d : DB) (p : Path) (k v : Bytes) : Except Err DB :=
  if k.length = 0 then .error .keyRequired
  else if k.length > maxKeySize then .error .keyTooLarge
  else if v.length > maxValueSize then .error .valueTooLarge
  else match d[p ++ [k]]? with
    | some (.bucket _) => .error .incompatibleValue
    | _ => .ok (d.insert (p ++ [k]) (.val v))

/-- bbolt `Bucket.Delete`: missing key is fine, a bucket key is refused. No size checks. -/
def delete (d : DB) (p : Path) (k : Bytes) : Except Err DB :=
  match d[p ++ [k]]? with
  | none => .ok d
  | some (.bucket _) => .error .incompatibleValue
  | some (.val _) => .ok (d.erase (p ++ [k]))

/-- bbolt `Bucket.CreateBucket` (v1.3.11 does not limit the name length). -/
def createBucket (d : DB) (p : Path) (n : Bytes) : Except Err DB :=
  if n.length = 0 then .error .bucketNameRequired
  else match d[p ++ [n]]? with
    | some (.bucket _) => .error .bucketExists
    | some (.val _) => .error .incompatibleValue
    | none => .ok (d.insert (p ++ [n]) (.bucket 0))

/-- bbolt `Bucket.CreateBucketIfNotExists`. -/
def createBucketIfNotExists (d : DB) (p : Path) (n : Bytes) : Except Err DB :=
  match createBucket d p n with
  | .error .bucketExists => .ok d
  | r => r

/-- `some k` iff `q = p ++ [k]`. -/
def childKey : Path → Path → Option Bytes
  | [], [k] => some k
  | [], _ => none
  | _ :: _, [] => none
  | a :: p, b :: q => if a = b then childKey p q else none

def Entry.shown : Entry → Option Bytes
  | .val v => some v
  | .bucket _ => none

/-- What a cursor / `ForEach` over bucket `p` sees: keys and nested bucket names of `p` merged in byte order;
a nested bucket shows a nil value. -/
def view (d : DB) (p : Path) : List (Bytes × Option Bytes) :=
  d.toList.filterMap (fun qe => (childKey p qe.1).map (fun k => (k, qe.2.shown)))

/-- bbolt `Bucket.DeleteBucket`: removes the bucket and everything below it.
Quirk (bbolt v1.3.11, found by the differential run): on an EMPTY bucket `seek` returns a nil key and
`bytes.Equal(emptyName, nil)` holds, so deleting the empty name answers `ErrIncompatibleValue`, not
`ErrBucketNotFound`. -/
def deleteBucket (d : DB) (p : Path) (n : Bytes) : Except Err DB :=
  match d[p ++ [n]]? with
  | none => if n.isEmpty && (view d p).isEmpty then .error .incompatibleValue else .error .bucketNotFound
  | some (.val _) => .error .incompatibleValue
  | some (.bucket _) => .ok (d.filter (fun q _ => !(p ++ [n]).isPrefixOf q))

/-- index of the first entry with key ≥ `k` (bbolt `Cursor.seek` + the "move to next page" fix-up in `Seek`). -/
def seekPos (l : List (Bytes × Option Bytes)) (k : Bytes) : Nat :=
  match l with
  | [] => 0
  | e :: rest => if compare e.1 k = .lt then seekPos rest k + 1 else 0

/-- A cursor: the bucket it iterates, its position (`none` = must be repositioned with First/Last/Seek: fresh, or
invalidated by a mutation of its bucket — bbolt leaves such cursors unspecified), `dead` = its bucket was deleted. -/
structure Cursor where
  path : Path
  pos : Option Nat
  dead : Bool
deriving DecidableEq, Repr, Inhabited

/-- One database transaction as handed to the caller (bdb `transaction`). `db` is the committed state (changes only by
an explicit `Commit` through the handle), `work` the transaction's private working state. -/
structure Tx where
  writable : Bool
  managed : Bool            -- bbolt-managed (only `Batch`): `Commit`/`Rollback` through the handle panic
  db : DB
  work : DB
  closed : Bool
  cursors : List (Nat × Cursor)
  touched : Bool            -- harness convention: some nested bucket handle was obtained while the tx was open
  pending : Nat             -- `OnCommit` handlers registered and not yet run
  fired : Nat               -- `OnCommit` handlers that have run

def Tx.begin (db : DB) (writable managed : Bool) : Tx :=
  { writable, managed, db, work := db, closed := false, cursors := [], touched := false, pending := 0, fired := 0 }

inductive Op where
  | put (p : Path) (k v : Bytes)
  | get (p : Path) (k : Bytes)
  | delete (p : Path) (k : Bytes)
  | createBucket (p : Path) (n : Bytes)
  | createBucketIfNotExists (p : Path) (n : Bytes)    -- `p = []`: `CreateTopLevelBucket`
  | deleteBucket (p : Path) (n : Bytes)               -- `p = []`: `DeleteTopLevelBucket`
  | lookup (p : Path) (n : Bytes)                     -- `NestedReadWriteBucket` / `tx.ReadWriteBucket`: non-nil?
  | forEach (p : Path) (limit : Option Nat)           -- callback returns an error after `limit` entries
  | sequence (p : Path)
  | setSequence (p : Path) (n : Nat)
  | nextSequence (p : Path)
  | curOpen (c : Nat) (p : Path)
  | curFirst (c : Nat) | curLast (c : Nat) | curNext (c : Nat) | curPrev (c : Nat)
  | curSeek (c : Nat) (k : Bytes)
  | curDelete (c : Nat)
  | commit | rollback                                  -- `tx.Commit()` / `tx.Rollback()` called by the closure itself
  | onCommit                                           -- `tx.OnCommit(f)`: register a handler
deriving DecidableEq, Repr, Inhabited

/-- Calls the walletdb API offers: on the root only top-level create-if-not-exists, delete, lookup and
`ForEachBucket`; there is no handle on the root bucket itself. -/
def Op.apiOk : Op → Bool
  | .createBucketIfNotExists [] _ | .deleteBucket [] _ | .lookup [] _ | .forEach [] _ => true
  | .put [] _ _ | .get [] _ | .delete [] _ | .createBucket [] _ | .sequence [] | .setSequence [] _
  | .nextSequence [] | .curOpen _ [] => false
  | _ => true

inductive Reply where
  | ok
  | err (e : Err)
  | val (v : Option Bytes)
  | entry (e : Option (Bytes × Option Bytes))
  | num (n : Nat)
  | found (b : Bool)
  | entries (l : List (Bytes × Option Bytes)) (stopped : Bool)
  | noBucket      -- the bucket path does not resolve (the Go handle would be nil)
  | noCursor
  | noHandle      -- closed tx and no bucket handle was obtained while it was open
  | stale         -- cursor needs repositioning / its bucket is gone: unspecified in bbolt, never executed
  | unsafeRead    -- read through a closed transaction: touches unmapped memory in bbolt, never executed
  | panic         -- bbolt `_assert` fires ("tx closed", "managed tx commit not allowed")
deriving DecidableEq, Repr, Inhabited

/-- A mutator was called on bucket `p` of a writable open tx: cursors over `p` must be repositioned. -/
def Tx.touchCursors (t : Tx) (p : Path) : Tx :=
  { t with cursors := t.cursors.map (fun (i, c) => if c.path = p then (i, { c with pos := none }) else (i, c)) }

/-- Bucket `q` and everything below was deleted: cursors there are dead. -/
def Tx.killCursors (t : Tx) (q : Path) : Tx :=
  { t with cursors := t.cursors.map (fun (i, c) => if q.isPrefixOf c.path then (i, { c with pos := none, dead := true }) else (i, c)) }

def Tx.setCursor (t : Tx) (i : Nat) (c : Cursor) : Tx :=
  { t with cursors := (i, c) :: t.cursors.filter (fun ic => ic.1 != i) }

/-- Remember that a nested-bucket handle exists (harness convention, see `Reply.noHandle`). -/
def Tx.noteHandle (t : Tx) (p : Path) : Tx :=
  if !t.closed && p != [] && isBucket t.work p then { t with touched := true } else t

/-- Common prelude of every mutator on bucket `p` (bbolt checks, in bbolt's order; `raw` = error not converted).
`none` = go on. -/
def Tx.guardW (t : Tx) (p : Path) (raw : Bool) : Option Reply :=
  if t.closed then
    if p != [] && !t.touched then some .noHandle
    else some (.err (if raw then .rawTxClosed else .txClosed))
  else if !isBucket t.work p then some .noBucket
  else if !t.writable then some (.err (if raw then .rawTxNotWritable else .txNotWritable))
  else none

/-- Prelude of reads that are memory-unsafe after close. -/
def Tx.guardR (t : Tx) (p : Path) : Option Reply :=
  if t.closed then some .unsafeRead
  else if !isBucket t.work p then some .noBucket
  else none

/-- Apply the result of a store-level mutator on bucket `p`. -/
def Tx.applyW (t : Tx) (p : Path) (r : Except Err DB) : Tx × Reply :=
  match r with
  | .ok d => ({ t.touchCursors p with work := d }, .ok)
  | .error e => (t.touchCursors p, .err e)

/-- cursor move: `f view pos = (newPos, hit)`; the reply is the entry at `newPos` if `hit`, else nil (Next at the
end stays on the last entry, Prev at the beginning stays on the first — cursor.go `next`/`prev`).
`needPos` = Next/Prev need a positioned cursor. -/
def Tx.curMove (t : Tx) (i : Nat) (needPos : Bool)
    (f : List (Bytes × Option Bytes) → Nat → Nat × Bool) : Tx × Reply :=
  match t.cursors.lookup i with
  | none => (t, .noCursor)
  | some c =>
    if t.closed then (t, .panic)
    else if c.dead || (needPos && c.pos.isNone) then (t, .stale)
    else
      let l := view t.work c.path
      let (np, hit) := f l (c.pos.getD 0)
      (t.setCursor i { c with pos := some np }, .entry (if hit then l[np]? else none))

/-- One call through the walletdb interfaces. -/
def step (t : Tx) (op : Op) : Tx × Reply :=
  match op with
  | .put p k v =>
    let t := t.noteHandle p
    match t.guardW p false with
    | some r => (t, r)
    | none => t.applyW p (put t.work p k v)
  | .delete p k =>
    let t := t.noteHandle p
    match t.guardW p false with
    | some r => (t, r)
    | none => t.applyW p (delete t.work p k)
  | .createBucket p n =>
    let t := t.noteHandle p
    match t.guardW p false with
    | some r => (t, r)
    | none => t.applyW p (createBucket t.work p n)
  | .createBucketIfNotExists p n =>
    let t := t.noteHandle p
    match t.guardW p false with
    | some r => (t, r)
    | none => t.applyW p (createBucketIfNotExists t.work p n)
  | .deleteBucket p n =>
    let t := t.noteHandle p
    match t.guardW p false with
    | some r => (t, r)
    | none =>
      match deleteBucket t.work p n with
      | .ok d => ({ (t.touchCursors p).killCursors (p ++ [n]) with work := d }, .ok)
      | .error e => (t.touchCursors p, .err e)
  | .setSequence p n =>
    let t := t.noteHandle p
    match t.guardW p true with
    | some r => (t, r)
    | none => ({ t.touchCursors p with work := t.work.insert p (.bucket (n % seqMod)) }, .ok)
  | .nextSequence p =>
    let t := t.noteHandle p
    match t.guardW p true with
    | some r => (t, r)
    | none =>
      let s := (seqOf t.work p + 1) % seqMod
      ({ t.touchCursors p with work := t.work.insert p (.bucket s) }, .num s)
  | .get p k =>
    let t := t.noteHandle p
    match t.guardR p with
    | some r => (t, r)
    | none => (t, .val (getVal t.work p k))
  | .sequence p =>
    let t := t.noteHandle p
    match t.guardR p with
    | some r => (t, r)
    | none => (t, .num (seqOf t.work p))
  | .lookup p n =>
    let t := t.noteHandle p
    match t.guardR p with
    | some r => (t, r)
    | none => (t.noteHandle (p ++ [n]), .found (isBucket t.work (p ++ [n])))
  | .forEach p limit =>
    let t := t.noteHandle p
    if t.closed then
      if p != [] && !t.touched then (t, .noHandle) else (t, .err .txClosed)
    else if !isBucket t.work p then (t, .noBucket)
    else
      let l := view t.work p
      match limit with
      | none => (t, .entries l false)
      | some n => if n < l.length then (t, .entries (l.take (n + 1)) true) else (t, .entries l false)
  | .curOpen i p =>
    let t := t.noteHandle p
    match t.guardR p with
    | some r => (t, r)
    | none => (t.setCursor i { path := p, pos := none, dead := false }, .ok)
  | .curFirst i => t.curMove i false (fun _ _ => (0, true))
  | .curLast i => t.curMove i false (fun l _ => (l.length - 1, true))
  | .curNext i => t.curMove i true (fun l pos => if pos + 1 < l.length then (pos + 1, true) else (pos, false))
  | .curPrev i => t.curMove i true (fun _ pos => if 0 < pos then (pos - 1, true) else (0, false))
  | .curSeek i k => t.curMove i false (fun l _ => (seekPos l k, true))
  | .curDelete i =>
    match t.cursors.lookup i with
    | none => (t, .noCursor)
    | some c =>
      if t.closed then (t, .err .txClosed)
      else if !t.writable then (t, .err .txNotWritable)
      else match c.dead, c.pos with
        | true, _ => (t, .stale)
        | false, none => (t, .stale)
        | false, some pos =>
          match (view t.work c.path)[pos]? with
          | none => (t.touchCursors c.path, .ok)                         -- past the end: `node.del(nil)` is a no-op
          | some (_, none) => (t.touchCursors c.path, .err .incompatibleValue)   -- a nested bucket
          | some (k, some _) => ({ t.touchCursors c.path with work := t.work.erase (c.path ++ [k]) }, .ok)
  | .commit =>
    if t.managed then (t, .panic)
    else if t.closed then (t, .err .txClosed)
    else if !t.writable then (t, .err .txNotWritable)
    else ({ t with db := t.work, closed := true, fired := t.fired + t.pending, pending := 0 }, .ok)
  | .rollback =>
    if t.managed then (t, .panic)
    else if t.closed then (t, .err .txClosed)
    else ({ t with closed := true }, .ok)
  | .onCommit => ({ t with pending := t.pending + 1 }, .ok)       -- bbolt only appends to a slice, whatever the state

/-- A program = the calls a closure makes, in order. -/
def runOps (t : Tx) : List Op → Tx × List Reply
  | [] => (t, [])
  | op :: rest =>
    let (t1, r) := step t op
    let (t2, rs) := runOps t1 rest
    (t2, r :: rs)

/-- How the caller's closure ends. -/
inductive Outcome where
  | ok | err | panic
deriving DecidableEq, Repr, Inhabited

/-- What `Update`/`View`/`Batch` return to the caller. -/
inductive Result where
  | ok | err (e : Err) | panic
deriving DecidableEq, Repr, Inhabited

inductive Kind where
  | update      -- walletdb.Update → bdb `(*db).Update`
  | view        -- walletdb.View   → bdb `(*db).View`
  | batch       -- walletdb.Batch  → bbolt `DB.Batch` (managed tx; a failing closure is re-run solo, also rolled back)
  | manualRW    -- `BeginReadWriteTx` … `Commit`/`Rollback` by hand
  | manualRO    -- `BeginReadTx` … `Rollback`
deriving DecidableEq, Repr, Inhabited

def Kind.writable : Kind → Bool
  | .update | .batch | .manualRW => true
  | _ => false

def Kind.begin (k : Kind) (db : DB) : Tx := Tx.begin db k.writable (k == .batch)

/-- bdb `(*db).Update` after `f` has run: commit iff `f` returned nil; error and panic roll back.  If the closure
closed the transaction itself, `Commit` answers `ErrTxClosed` and the rollbacks are ignored no-ops. -/
def finishUpdate (t : Tx) (o : Outcome) : DB × Result × Nat :=
  match o with
  | .ok => if t.closed then (t.db, .err .txClosed, t.fired) else (t.work, .ok, t.fired + t.pending)
  | .err => (t.db, .err .user, t.fired)
  | .panic => (t.db, .panic, t.fired)

/-- bdb `(*db).View`: always rolls back; `f`'s error wins over the rollback error. -/
def finishView (t : Tx) (o : Outcome) : DB × Result × Nat :=
  match o with
  | .ok => if t.closed then (t.db, .err .txClosed, t.fired) else (t.db, .ok, t.fired)
  | .err => (t.db, .err .user, t.fired)
  | .panic => (t.db, .panic, t.fired)

/-- Dropping a manual transaction handle: the harness rolls back what is still open. -/
def finishManual (t : Tx) : DB × Result × Nat := (t.db, .ok, t.fired)

/-- database afterwards, what the caller gets back, how many `OnCommit` handlers ran. -/
def finish (k : Kind) (t : Tx) (o : Outcome) : DB × Result × Nat :=
  match k with
  | .update | .batch => finishUpdate t o
  | .view => finishView t o
  | .manualRW | .manualRO => finishManual t

/-- One whole transaction against the database. -/
structure Txn where
  kind : Kind
  prog : List Op
  outcome : Outcome
deriving Repr, Inhabited

def runTxn (db : DB) (x : Txn) : DB × (List Reply × Result × Nat) :=
  let (t, rs) := runOps (x.kind.begin db) x.prog
  let (db', res) := finish x.kind t x.outcome
  (db', (rs, res))

/-- A history = transactions one after the other (bbolt serialises writers). -/
def runHistory (db : DB) : List Txn → DB × List (List Reply × Result × Nat)
  | [] => (db, [])
  | x :: rest =>
    let (db1, r) := runTxn db x
    let (db2, rs) := runHistory db1 rest
    (db2, r :: rs)

/-- `walletdb.Update` as a function of the program and its outcome. -/
def update (db : DB) (prog : List Op) (o : Outcome) : DB × (List Reply × Result × Nat) := runTxn db ⟨.update, prog, o⟩
def viewTx (db : DB) (prog : List Op) (o : Outcome) : DB × (List Reply × Result × Nat) := runTxn db ⟨.view, prog, o⟩

/-- One caller of a group of concurrent `walletdb.Batch` calls: its closure puts `k ↦ v` into bucket `p`, hands back the
error of `Put` if there is one (its own error if the bucket does not resolve), else ends with `o`.  bbolt may
coalesce the callers into one transaction and re-run closures after a sibling failed; the contract is that each
caller nevertheless gets exactly what a solo run would have given. -/
structure BatchCall where
  p : Path
  k : Bytes
  v : Bytes
  o : Outcome
deriving Repr, Inhabited

def batchCall (db : DB) (c : BatchCall) : DB × Result :=
  match step (Kind.batch.begin db) (.put c.p c.k c.v) with
  | (t, .ok) => ((finishUpdate t c.o).1, (finishUpdate t c.o).2.1)
  | (_, .err e) => (db, .err e)
  | _ => (db, .err .user)

/-- The callers one after the other (for pairwise different entries the order does not matter:
`C11_batch_calls_commute`). -/
def batchCalls (db : DB) : List BatchCall → DB × List Result
  | [] => (db, [])
  | c :: rest =>
    let (db1, r) := batchCall db c
    let (db2, rs) := batchCalls db1 rest
    (db2, r :: rs)

/-- Closing and reopening the file: the committed state is what is on disk. -/
def reopen (db : DB) : DB := db

/-- Whole-database dump (recursive ForEach): every entry with its full path, in order. -/
def dump (d : DB) : List (Path × Entry) := d.toList

end KV
