/-!
# AddrIssue — interleaving model of concurrent address issuing (property C09)

Mirrors, as a small-step transition system over N callers, what one call of an address-issuing wallet method does:

```
wallet/wallet.go  NewAddress / NewChangeAddress / CurrentAddress, wallet/createtx.go txToOutputs,
wallet/psbt.go FundPsbt, wallet/import.go ImportAccountDryRun:
    [w.newAddrMtx.Lock(); defer Unlock()]?                  -- per site (table extracted from the source)
    walletdb.Update(w.db, func(tx) { ... newAddress / newChangeAddress ... })
walletdb/bdb/db.go  (*db).Update:  BeginReadWriteTx (bbolt writer lock `db.rwlock`) ; f(tx) ; Commit / Rollback
waddrmgr/scoped_manager.go  Next{External,Internal}Addresses:
    s.mtx.Lock ; nextIndex := acctInfo.next{Ext,Int}Index (IN MEMORY) ; derive child nextIndex ;
    putChainedAddress(... index ...)  -- waddrmgr/db.go: account row next index := index+1 (in the open tx)
    ns.Tx().OnCommit(func(){ s.mtx.Lock ; acctInfo.nextXIndex = nextIndex(+1 captured) ; s.mtx.Unlock }) ; s.mtx.Unlock
go.etcd.io/bbolt tx.go  (*Tx).Commit:  ... write meta ... ; tx.close()  -- releases db.rwlock --
                                        ; for fn in tx.commitHandlers { fn() }     -- AFTER the writer lock is released
```
Hence there is a window "A committed, writer lock free, A's callback not yet run" in which another writer B can begin
and read the stale in-memory index.  `w.newAddrMtx` closes it.  The model has exactly the atomic steps below; a
schedule is a list of caller ids (who moves next); a move that needs a lock held by somebody else is not enabled
(the state is unchanged).  Core Lean only.
-/
namespace AddrIssue

inductive Branch | ext | int
  deriving DecidableEq, Repr

/-- next-index pair of one account (external branch 0, internal branch 1). -/
structure Idx where
  ext : Nat
  int : Nat
  deriving DecidableEq, Repr

def Idx.get (m : Idx) : Branch → Nat
  | .ext => m.ext
  | .int => m.int

def Idx.set (m : Idx) : Branch → Nat → Idx
  | .ext, v => { m with ext := v }
  | .int, v => { m with int := v }

@[simp] theorem Idx.get_set_same (m : Idx) (b : Branch) (v : Nat) : (m.set b v).get b = v := by
  cases b <;> rfl

theorem Idx.get_set (m : Idx) (b b' : Branch) (v : Nat) :
    (m.set b v).get b' = if b = b' then v else m.get b' := by
  cases b <;> cases b' <;> simp [Idx.get, Idx.set]

theorem Idx.ext_get {m n : Idx} (h : ∀ b, m.get b = n.get b) : m = n := by
  cases m; cases n
  have h1 := h .ext; have h2 := h .int
  simp [Idx.get] at h1 h2; simp [h1, h2]

/-- One row of the call-site table regenerated from `/repo/wallet/*.go` by the `addrsites` extractor. -/
structure SiteInfo where
  name : String
  /-- the path to Next*Addresses is dominated by `w.newAddrMtx.Lock()` and followed by the matching Unlock -/
  holdsMutex : Bool
  /-- which mutex: "recv.newAddrMtx" = field `newAddrMtx` of the method's own receiver (the one `Wallet`); all sites
  must share it -/
  mutex : String
  /-- reaches NextExternalAddresses / NextInternalAddresses -/
  ext : Bool
  int : Bool
  /-- how the extractor recognised the locking: "defer", "explicit", "none", or "unrecognised:<why>" -/
  shape : String
  deriving DecidableEq, Repr

/-- the site serialises on THE wallet-wide mutex -/
def SiteInfo.ok (s : SiteInfo) : Bool := s.holdsMutex && s.mutex == "recv.newAddrMtx"

/-- The program one caller runs (site + arguments/environment of this call). -/
structure Caller where
  /-- site takes `w.newAddrMtx` around the whole `walletdb.Update` -/
  holdsMutex : Bool
  branch : Branch
  /-- `CurrentAddress`: issue only when no external address exists or the last one is used -/
  cond : Bool := false
  /-- environment: external indices whose address is marked used in the DB (`maddr.Used(ns)`), for `cond` -/
  used : List Nat := []
  /-- the closure never asks for an address (e.g. no change output needed) -/
  skip : Bool := false
  /-- the closure returns `walletdb.ErrDryRunRollBack`: the transaction is rolled back -/
  dry : Bool := false
  deriving DecidableEq, Repr

/-- program counter of one caller; each constructor is the point *before* the named atomic step. -/
inductive PC
  | idle                         -- before `w.newAddrMtx.Lock()` (or straight to Update if the site has none)
  | wantTx                       -- before `db.BeginReadWriteTx()` (bbolt `db.rwlock.Lock()`)
  | inTx                         -- closure started; CurrentAddress: before `LastExternalAddress` + `Used`
  | inTx2                        -- before `s.mtx.Lock()` in Next{External,Internal}Addresses
  | locked                       -- holds s.mtx, before reading acctInfo.next*Index
  | read (r : Nat)               -- read r, derived child r; before putChainedAddress
  | wrote (r : Nat)              -- row written (next := r+1 in the open tx), OnCommit registered; before s.mtx.Unlock
  | toCommit (r : Option Nat)    -- closure returned; before tx.Commit() / tx.Rollback()
  | cbWait (r : Nat)             -- committed, writer lock RELEASED; callback not yet run (before its s.mtx.Lock)
  | cbLocked (r : Nat)           -- callback holds s.mtx; before `acctInfo.nextXIndex = r+1`
  | cbSet (r : Nat)              -- assignment done; before the callback's s.mtx.Unlock
  | toRelease                    -- Update returned; before the deferred `w.newAddrMtx.Unlock()`
  | done
  deriving DecidableEq, Repr

structure State where
  mtx : Option Nat            -- holder of w.newAddrMtx
  writer : Option Nat         -- holder of bbolt's writer lock
  smtx : Option Nat           -- holder of ScopedKeyManager.mtx
  mem : Idx                   -- acctInfo.nextExternalIndex / nextInternalIndex (in memory)
  disk : Idx                  -- committed account row
  work : Idx                  -- account row as seen/written by the open read-write transaction
  pc : Nat → PC
  issued : List (Branch × Nat)   -- (branch, index) handed out by committed calls, in commit order
  ret : Nat → Option Nat         -- index of the address each caller returns (also for dry / current)

def upd {α : Type} (f : Nat → α) (i : Nat) (v : α) : Nat → α := fun j => if j = i then v else f j

@[simp] theorem upd_same {α : Type} (f : Nat → α) (i : Nat) (v : α) : upd f i v i = v := by simp [upd]
theorem upd_other {α : Type} (f : Nat → α) (i j : Nat) (v : α) (h : j ≠ i) : upd f i v j = f j := by
  simp [upd, h]

def init (base : Idx) : State :=
  { mtx := none, writer := none, smtx := none, mem := base, disk := base, work := base,
    pc := fun _ => .idle, issued := [], ret := fun _ => none }

/-- One atomic step of caller `i` running program `c`.  A step that needs a lock somebody else holds leaves the
state unchanged (not enabled). -/
def stepC (c : Caller) (σ : State) (i : Nat) : State :=
  match σ.pc i with
  | .idle =>
    if c.holdsMutex then
      if σ.mtx.isNone then { σ with mtx := some i, pc := upd σ.pc i .wantTx } else σ
    else { σ with pc := upd σ.pc i .wantTx }
  | .wantTx =>
    if σ.writer.isNone then { σ with writer := some i, work := σ.disk, pc := upd σ.pc i .inTx } else σ
  | .inTx =>
    if c.skip then { σ with pc := upd σ.pc i (.toCommit none) }
    else if c.cond then
      -- LastExternalAddress takes and releases s.mtx; reads the IN-MEMORY next index / last address
      if σ.smtx.isNone then
        if σ.mem.get c.branch = 0 ∨ (σ.mem.get c.branch - 1) ∈ c.used then
          { σ with pc := upd σ.pc i .inTx2 }
        else
          { σ with pc := upd σ.pc i (.toCommit none), ret := upd σ.ret i (some (σ.mem.get c.branch - 1)) }
      else σ
    else { σ with pc := upd σ.pc i .inTx2 }
  | .inTx2 =>
    if σ.smtx.isNone then { σ with smtx := some i, pc := upd σ.pc i .locked } else σ
  | .locked => { σ with pc := upd σ.pc i (.read (σ.mem.get c.branch)) }
  | .read r => { σ with work := σ.work.set c.branch (r + 1), pc := upd σ.pc i (.wrote r) }
  | .wrote r => { σ with smtx := none, pc := upd σ.pc i (.toCommit (some r)), ret := upd σ.ret i (some r) }
  | .toCommit r? =>
    if c.dry then { σ with writer := none, pc := upd σ.pc i .toRelease }
    else match r? with
      | none => { σ with disk := σ.work, writer := none, pc := upd σ.pc i .toRelease }
      | some r => { σ with disk := σ.work, writer := none, issued := σ.issued ++ [(c.branch, r)],
                           pc := upd σ.pc i (.cbWait r) }
  | .cbWait r =>
    if σ.smtx.isNone then { σ with smtx := some i, pc := upd σ.pc i (.cbLocked r) } else σ
  | .cbLocked r => { σ with mem := σ.mem.set c.branch (r + 1), pc := upd σ.pc i (.cbSet r) }
  | .cbSet _ => { σ with smtx := none, pc := upd σ.pc i .toRelease }
  | .toRelease => { σ with mtx := if c.holdsMutex then none else σ.mtx, pc := upd σ.pc i .done }
  | .done => σ

def step (cs : List Caller) (σ : State) (i : Nat) : State :=
  match cs[i]? with
  | none => σ
  | some c => stepC c σ i

def run (cs : List Caller) (σ : State) (sched : List Nat) : State := sched.foldl (step cs) σ

def exec (cs : List Caller) (base : Idx) (sched : List Nat) : State := run cs (init base) sched

/-- every caller has returned -/
def allDone (cs : List Caller) (σ : State) : Prop := ∀ i, i < cs.length → σ.pc i = .done

instance (cs : List Caller) (σ : State) : Decidable (allDone cs σ) := by
  unfold allDone; infer_instance

def allDoneB (cs : List Caller) (σ : State) : Bool := (List.range cs.length).all fun i => σ.pc i == .done

/-- indices issued on branch `b`, in commit order -/
def issuedOn (b : Branch) (l : List (Branch × Nat)) : List Nat := (l.filter (·.1 = b)).map (·.2)

/-! ## Coarse steps = what the Go schedule controller can force (driver only)

The harness parks a real caller only at: entry (not started), the decorated DB's `Update` entry (`wantTx`), just
before `Commit`/`Rollback` (`toCommit`), the wrapped OnCommit callback (`cbWait`), and return (`done`).  One coarse
step lets caller `i` run to its next parking point (or until it blocks); afterwards callers blocked on entry that
became runnable run to their parking point too (in Go they do so by themselves). -/

def isPark : PC → Bool
  | .wantTx | .toCommit _ | .cbWait _ | .done => true
  | _ => false

/-- run caller `i` until it parks or no longer moves -/
def advance (cs : List Caller) : Nat → State → Nat → State
  | 0, σ, _ => σ
  | fuel + 1, σ, i =>
    let σ' := step cs σ i
    if isPark (σ'.pc i) then σ' else
    if σ'.pc i == σ.pc i then σ' else advance cs fuel σ' i

structure Coarse where
  σ : State
  started : Nat → Bool
  events : List String

def Coarse.init (base : Idx) : Coarse := { σ := AddrIssue.init base, started := fun _ => false, events := [] }

def settle (cs : List Caller) (k : Coarse) : Coarse :=
  (List.range cs.length).foldl (fun k j =>
    if k.started j && k.σ.pc j == .idle then { k with σ := advance cs 16 k.σ j } else k) k

def coarseStep (cs : List Caller) (k : Coarse) (i : Nat) : Coarse :=
  if i ≥ cs.length then { k with events := k.events ++ ["bad"] } else
  let ev (e : String) (σ : State) (st : Nat → Bool) : Coarse :=
    settle cs { σ := σ, started := st, events := k.events ++ [e] }
  match k.σ.pc i with
  | .done => ev "done" k.σ k.started
  | .idle =>
    if k.started i then ev "blocked" k.σ k.started
    else if (List.range cs.length).any (fun j => k.started j && k.σ.pc j == .idle) then ev "defer" k.σ k.started
    else
      let σ' := advance cs 16 k.σ i
      ev (if σ'.pc i == .idle then "blocked" else "begin") σ' (upd k.started i true)
  | .wantTx =>
    if k.σ.writer.isSome then ev "wait" k.σ k.started
    else ev "tx" (advance cs 16 k.σ i) k.started
  | .toCommit _ =>
    let σ' := advance cs 16 k.σ i
    ev (match σ'.pc i with | .cbWait _ => "commit" | _ => "end") σ' k.started
  | .cbWait _ => ev "cb" (advance cs 16 k.σ i) k.started
  | _ => ev "stuck" k.σ k.started

def coarseRun (cs : List Caller) (base : Idx) (sched : List Nat) : Coarse :=
  sched.foldl (coarseStep cs) (Coarse.init base)

end AddrIssue
