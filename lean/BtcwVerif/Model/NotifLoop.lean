/-
Model of the notification queues of /repo/chain/btcd.go `(*RPCClient).handler` and /repo/chain/neutrino.go
`(*NeutrinoClient).notificationHandler`  (C18).  These backends do not use `ConcurrentQueue`: each keeps a slice
`notifications`, the variable `next`, and the channel variable `dequeue` which is nil ("disarmed") while the slice is
empty, inside one `for { select { … } }` loop.  `enqueueNotification` and `dequeueNotification` are unbuffered, so a
producer's send completes exactly when the `recvEnqueue` clause fires and a value is delivered exactly when the
`sendDequeue` clause fires (rendez-vous with the consumer).

As for `Queue`, the step function interprets a table of select clauses which is REGENERATED from the source
(`BtcwVerif/Gen/NotifLoopGen.lean`); the clause bodies are recognised idioms:

* `appendAndArm`  — `if !ok {…}` (dead: the channel is never closed — fact `enqueueNeverClosed`);
                    `if len(notifications) == 0 { next = n; dequeue = c.dequeueNotification }`;
                    `notifications = append(notifications, n)`
* `popAndDisarm`  — (`bs` update); `notifications[0] = nil; notifications = notifications[1:]`;
                    `if len(notifications) != 0 { next = notifications[0] } else { …; dequeue = nil }`
* `nothing`, `logOnly`, `breakOut`.

This part has NO run against the real code (the loops need a live btcd / neutrino chain service to start); the tie
is the extractor alone.
-/
namespace NotifLoop

inductive Kind where
  | recvEnqueue | sendDequeue | sendCurrentBlock | quit | recvRescanErr | dflt | unknown
deriving DecidableEq, Repr, Inhabited

inductive Body where
  | appendAndArm | popAndDisarm | nothing | breakOut | logOnly | unknown
deriving DecidableEq, Repr, Inhabited

structure Case where
  kind : Kind
  body : Body
deriving DecidableEq, Repr, Inhabited

structure Table where
  cases : List Case
  varsOk : Bool             -- `var notifications []interface{}`, `enqueue := c.enqueueNotification`, `var dequeue chan …`, `var next …`
  loopPreludeOk : Bool      -- nothing (btcd) / only the rescanErr snapshot (neutrino) before the select
  epilogueOk : Bool         -- after the loop: `c.Stop(); close(c.dequeueNotification); c.wg.Done()`
  chansUnbuffered : Bool    -- both notification channels are `make(chan interface{})`
  enqueueNeverClosed : Bool -- no `close(….enqueueNotification)` in the file
deriving DecidableEq, Repr, Inhabited

def expectedBtcd : Table :=
  { cases := [⟨.recvEnqueue, .appendAndArm⟩, ⟨.sendDequeue, .popAndDisarm⟩, ⟨.sendCurrentBlock, .nothing⟩,
              ⟨.quit, .breakOut⟩],
    varsOk := true, loopPreludeOk := true, epilogueOk := true, chansUnbuffered := true, enqueueNeverClosed := true }

def expectedNeutrino : Table :=
  { cases := [⟨.recvEnqueue, .appendAndArm⟩, ⟨.sendDequeue, .popAndDisarm⟩, ⟨.recvRescanErr, .logOnly⟩,
              ⟨.sendCurrentBlock, .nothing⟩, ⟨.quit, .breakOut⟩],
    varsOk := true, loopPreludeOk := true, epilogueOk := true, chansUnbuffered := true, enqueueNeverClosed := true }

structure State (α : Type) where
  notifications : List α := []
  next : Option α := none
  armed : Bool := false          -- `dequeue != nil`
  delivered : List α := []
  accepted : List α := []
  exited : Bool := false
  quitClosed : Bool := false
deriving Repr

def init (α : Type) : State α := {}

inductive Label (α : Type) where
  | recvEnqueue (x : α)   -- a producer's `enqueueNotification <- x` is taken
  | sendDequeue           -- `dequeue <- next` with the consumer receiving
  | sendCurrentBlock
  | recvRescanErr
  | quit
  | stop                  -- environment: `close(quit)`
deriving Repr

def Label.kind {α} : Label α → Option Kind
  | .recvEnqueue _ => some .recvEnqueue
  | .sendDequeue => some .sendDequeue
  | .sendCurrentBlock => some .sendCurrentBlock
  | .recvRescanErr => some .recvRescanErr
  | .quit => some .quit
  | .stop => none

variable {α : Type}

/-- Channel readiness as far as it depends on the loop's own state. -/
def guard (s : State α) : Label α → Bool
  | .recvEnqueue _ => true
  | .sendDequeue => s.armed          -- a send on a nil channel blocks forever
  | .sendCurrentBlock => true
  | .recvRescanErr => true
  | .quit => s.quitClosed
  | .stop => !s.quitClosed

def chanEffect (s : State α) : Label α → State α
  | .recvEnqueue x => { s with accepted := s.accepted ++ [x] }
  | .sendDequeue => { s with delivered := s.delivered ++ s.next.toList }
  | _ => s

def execBody (s : State α) (l : Label α) : Body → State α
  | .appendAndArm =>
    match l with
    | .recvEnqueue x =>
      let s := if s.notifications.isEmpty then { s with next := some x, armed := true } else s
      { s with notifications := s.notifications ++ [x] }
    | _ => s
  | .popAndDisarm =>
    let rest := s.notifications.tail
    match rest with
    | [] => { s with notifications := rest, armed := false }
    | y :: _ => { s with notifications := rest, next := some y }
  | .nothing => s
  | .logOnly => s
  | .breakOut => { s with exited := true }
  | .unknown => s

def step (t : Table) (s : State α) (l : Label α) : Option (State α) :=
  match l.kind with
  | none => if guard s l then some { s with quitClosed := true } else none
  | some k =>
    if s.exited then none else
    match t.cases.find? (fun c => c.kind == k) with
    | none => none
    | some c => if guard s l then some (execBody (chanEffect s l) l c.body) else none

def run (t : Table) (s : State α) : List (Label α) → Option (State α)
  | [] => some s
  | l :: ls => match step t s l with
    | none => none
    | some s' => run t s' ls

end NotifLoop
