/-!
# TxStore — executable model of btcwallet's transaction store `wtxmgr`

The state is exactly the persistent state of `wtxmgr/db.go` (ten buckets + the `bal` root key); every
operation is a line-by-line transcription of the Go function named next to it (`wtxmgr/tx.go`,
`wtxmgr/unconfirmed.go`, `wtxmgr/query.go`, `wtxmgr/db.go`), quirks included (tree at /repo 4c73b71: rollback tells removed credits by existence, remembers every coinbase
output, LockOutput rounds the expiry up to whole seconds).

* Buckets are *sorted association lists* (`KMap`), ordered exactly like bbolt orders the big-endian byte
  keys of `db.go` (hash as a 256-bit big-endian number, then height, block hash, index).  `find?`, `insert`,
  `erase` satisfy the usual lookup laws unconditionally (see `Lemmas/KMap.lean`).
* A transaction is `{hash, ins, outs}`; coinbase-ness is derived as `blockchain.IsCoinBaseTx`.
* Amounts are `Int` (Go `int64`; overflow is out of scope), heights `Nat` (Go `int32 ≥ 0`), the clock is
  `Nat` nanoseconds since the Unix epoch, stored lease expiries are whole seconds (`serializeLockedOutput`).
* Every operation runs in `Except Err`; an error leaves the store unchanged (the enclosing
  `walletdb.Update` rolls back), which is how the driver and the Go runner use it.
Core Lean only (this file is linked into the driver executable).
-/

namespace TxStore

/-! ## Keys and their bbolt byte order -/

/-- Strict order of the serialized keys (`KOrd.lt a b` ⇔ bytes(a) < bytes(b)). -/
class KOrd (κ : Type) where
  lt : κ → κ → Bool

instance : KOrd Nat := ⟨fun a b => decide (a < b)⟩

/-- `wire.OutPoint`; key `canonicalOutPoint` = hash(32) ‖ index(4, big endian). -/
structure OutPoint where
  hash : Nat
  index : Nat
deriving DecidableEq, Repr, Inhabited

instance : KOrd OutPoint := ⟨fun a b => decide (a.hash < b.hash ∨ (a.hash = b.hash ∧ a.index < b.index))⟩

/-- `wtxmgr.Block` (height, hash); serialized height(4) ‖ hash(32). -/
structure Block where
  height : Nat
  hash : Nat
deriving DecidableEq, Repr, Inhabited

def Block.lt (a b : Block) : Bool := decide (a.height < b.height ∨ (a.height = b.height ∧ a.hash < b.hash))
instance : KOrd Block := ⟨Block.lt⟩

/-- `wtxmgr.BlockMeta`. -/
structure BlockMeta where
  block : Block
  time : Nat
deriving DecidableEq, Repr, Inhabited

/-- `keyTxRecord`: txhash(32) ‖ height(4) ‖ blockhash(32). -/
structure TxKey where
  hash : Nat
  block : Block
deriving DecidableEq, Repr, Inhabited

instance : KOrd TxKey := ⟨fun a b => decide (a.hash < b.hash) || (decide (a.hash = b.hash) && a.block.lt b.block)⟩

/-- `keyCredit` / `keyDebit`: txhash ‖ height ‖ blockhash ‖ index(4). -/
structure CredKey where
  hash : Nat
  block : Block
  index : Nat
deriving DecidableEq, Repr, Inhabited

instance : KOrd CredKey := ⟨fun a b =>
  decide (a.hash < b.hash) || (decide (a.hash = b.hash) &&
    (a.block.lt b.block || (decide (a.block = b.block) && decide (a.index < b.index))))⟩

def CredKey.txKey (k : CredKey) : TxKey := ⟨k.hash, k.block⟩
def CredKey.outPoint (k : CredKey) : OutPoint := ⟨k.hash, k.index⟩

/-! ## Sorted association lists -/

abbrev KMap (κ ν : Type) := List (κ × ν)

namespace KMap
variable {κ ν : Type}

def find? [DecidableEq κ] : KMap κ ν → κ → Option ν
  | [], _ => none
  | (k', v) :: t, k => if k' = k then some v else find? t k

def contains [DecidableEq κ] (m : KMap κ ν) (k : κ) : Bool := (find? m k).isSome

/-- bbolt `Delete` (no-op when absent). -/
def erase [DecidableEq κ] (m : KMap κ ν) (k : κ) : KMap κ ν := m.filter (fun p => !decide (p.1 = k))

/-- put an entry at its sorted position (before the first greater key) -/
def place [KOrd κ] : KMap κ ν → κ → ν → KMap κ ν
  | [], k, v => [(k, v)]
  | (k', v') :: t, k, v => if KOrd.lt k k' then (k, v) :: (k', v') :: t else (k', v') :: place t k v

/-- bbolt `Put`: replace or insert at the sorted position. -/
def insert [DecidableEq κ] [KOrd κ] (m : KMap κ ν) (k : κ) (v : ν) : KMap κ ν := place (erase m k) k v

def keys (m : KMap κ ν) : List κ := m.map (·.1)

end KMap

/-! ## Records -/

/-- What the store keeps of a `wire.MsgTx`: its hash, previous outpoints and output values. -/
structure Tx where
  hash : Nat
  ins : List OutPoint
  outs : List Int
deriving DecidableEq, Repr, Inhabited

def nullIndex : Nat := 4294967295

/-- `blockchain.IsCoinBaseTx`: exactly one input, whose previous outpoint is (zero hash, 0xffffffff). -/
def Tx.isCoinBase (t : Tx) : Bool :=
  match t.ins with
  | [i] => i.index == nullIndex && i.hash == 0
  | _ => false

/-- value of bucket `b`: block hash, unix time, tx hashes in insertion order. -/
structure BlockRec where
  hash : Nat
  time : Nat
  txs : List Nat
deriving DecidableEq, Repr, Inhabited

/-- value of bucket `c`: amount, flags (spent, change), optional spender (debit key). -/
structure CreditVal where
  amount : Int
  change : Bool
  spent : Bool
  spender : Option CredKey
deriving DecidableEq, Repr, Inhabited

/-- value of bucket `d`: amount and the key of the credit it spends. -/
structure DebitVal where
  amount : Int
  credKey : CredKey
deriving DecidableEq, Repr, Inhabited

/-- value of bucket `mc`. -/
structure UCredit where
  amount : Int
  change : Bool
deriving DecidableEq, Repr, Inhabited

/-- value of bucket `lo`: lock id and expiry in WHOLE unix seconds (`serializeLockedOutput`). -/
structure Lease where
  id : Nat
  expiry : Int
deriving DecidableEq, Repr, Inhabited

structure Store where
  blocks : KMap Nat BlockRec := []
  txrecs : KMap TxKey Tx := []
  credits : KMap CredKey CreditVal := []
  unspent : KMap OutPoint Block := []
  debits : KMap CredKey DebitVal := []
  unmined : KMap Nat Tx := []
  unminedCredits : KMap OutPoint UCredit := []
  unminedInputs : KMap OutPoint (List Nat) := []
  locked : KMap OutPoint Lease := []
  minedBalance : Int := 0
deriving DecidableEq, Repr, Inhabited

def Store.empty : Store := {}

/-- Error codes (`wtxmgr.ErrorCode` + lock sentinels). `fuel`/`panic` cannot occur for hash-linked transactions. -/
inductive Err
  | data | input | database | duplicate | unknownOutput | alreadyLocked | unlockNotAllowed | fuel | panic
deriving DecidableEq, Repr, Inhabited

abbrev M := Except Err

instance {ε α : Type} [DecidableEq ε] [DecidableEq α] : DecidableEq (Except ε α) := fun a b =>
  match a, b with
  | .ok x, .ok y => if h : x = y then isTrue (by rw [h]) else isFalse (fun e => h (by cases e; rfl))
  | .error x, .error y => if h : x = y then isTrue (by rw [h]) else isFalse (fun e => h (by cases e; rfl))
  | .ok _, .error _ => isFalse (fun e => by cases e)
  | .error _, .ok _ => isFalse (fun e => by cases e)

/-- `for i, x := range l` -/
def withIdx {α : Type} : List α → (start : Nat := 0) → List (Nat × α)
  | [], _ => []
  | a :: t, n => (n, a) :: withIdx t (n + 1)

/-! ## db.go primitives -/

/-- `putRawUnminedInput`: append the spender hash to the list stored under the outpoint. -/
def putRawUnminedInput (s : Store) (k : OutPoint) (h : Nat) : Store :=
  { s with unminedInputs := s.unminedInputs.insert k ((s.unminedInputs.find? k).getD [] ++ [h]) }

/-- `fetchUnminedInputSpendTxHashes` -/
def spendHashes (s : Store) (k : OutPoint) : List Nat := (s.unminedInputs.find? k).getD []

/-- `existsRawUnminedInput(ns,k) != nil` -/
def spentByUnmined (s : Store) (k : OutPoint) : Bool := s.unminedInputs.contains k

/-- `deleteRawUnminedInput`: filter the spender out; drop the key when the list becomes empty. -/
def deleteRawUnminedInput (s : Store) (k : OutPoint) (h : Nat) : Store :=
  match s.unminedInputs.find? k with
  | none => s
  | some l =>
    if l.isEmpty then s else
    let l' := l.filter (fun x => !decide (x = h))
    if l'.isEmpty then { s with unminedInputs := s.unminedInputs.erase k }
    else { s with unminedInputs := s.unminedInputs.insert k l' }

/-- `spendCredit`: mark spent, record the spender, return the amount (a missing credit reads as zeros). -/
def spendCredit (s : Store) (k : CredKey) (spender : CredKey) : Int × Store :=
  let base := (s.credits.find? k).getD ⟨0, false, false, none⟩
  (base.amount, { s with credits := s.credits.insert k { base with spent := true, spender := some spender } })

/-- `unspendRawCredit`: rewrite as unspent; amount 0 and no write when the credit does not exist. -/
def unspendRawCredit (s : Store) (k : CredKey) : Int × Store :=
  match s.credits.find? k with
  | none => (0, s)
  | some v => (v.amount, { s with credits := s.credits.insert k { v with spent := false, spender := none } })

/-- `isLockedOutput`: locked iff an entry exists and `timeNow.Before(expiry)`; `now` in ns, expiry in s. -/
def isLockedOutput (s : Store) (op : OutPoint) (now : Nat) : Option Lease :=
  match s.locked.find? op with
  | none => none
  | some l => if (now : Int) < l.expiry * 1000000000 then some l else none

def isLocked (s : Store) (op : OutPoint) (now : Nat) : Bool := (isLockedOutput s op now).isSome

/-- `unlockOutput` -/
def unlockOutputRaw (s : Store) (op : OutPoint) : Store := { s with locked := s.locked.erase op }

/-- all credits of a mined tx record, in index order (`creditIterator` with the record key as prefix). -/
def creditsOf (s : Store) (k : TxKey) : List (CredKey × CreditVal) :=
  s.credits.filter (fun p => decide (p.1.hash = k.hash ∧ p.1.block = k.block))

def debitsOf (s : Store) (k : TxKey) : List (CredKey × DebitVal) :=
  s.debits.filter (fun p => decide (p.1.hash = k.hash ∧ p.1.block = k.block))

/-- `unminedCreditIterator` with the tx hash as prefix. -/
def unminedCreditsOf (s : Store) (h : Nat) : List (OutPoint × UCredit) :=
  s.unminedCredits.filter (fun p => decide (p.1.hash = h))

/-- `latestTxRecord`: last record (highest height ‖ block hash) whose key starts with the tx hash. -/
def latestTxRecord (s : Store) (h : Nat) : Option (TxKey × Tx) :=
  (s.txrecs.filter (fun p => decide (p.1.hash = h))).getLast?

/-! ## query.go (needed by insertMemPoolTx) -/

structure CreditRecord where
  index : Nat
  amount : Int
  spent : Bool
  change : Bool
deriving DecidableEq, Repr, Inhabited

structure DebitRecord where
  index : Nat
  amount : Int
deriving DecidableEq, Repr, Inhabited

/-- `TxDetails` without scripts/labels/received time. `block = none` ⇔ height −1. -/
structure Details where
  tx : Tx
  block : Option BlockMeta
  credits : List CreditRecord
  debits : List DebitRecord
deriving DecidableEq, Repr, Inhabited

/-- `minedTxDetails` -/
def minedTxDetails (s : Store) (k : TxKey) (rec : Tx) : M Details := do
  let time ← match s.blocks.find? k.block.height with      -- fetchBlockTime
    | none => throw Err.data
    | some br => pure br.time
  let credits ← (creditsOf s k).mapM fun (ck, cv) =>
    if ck.index ≥ rec.outs.length then throw Err.data
    else pure (⟨ck.index, cv.amount, cv.spent || spentByUnmined s ⟨k.hash, ck.index⟩, cv.change⟩ : CreditRecord)
  let debits ← (debitsOf s k).mapM fun (dk, dv) =>
    if dk.index ≥ rec.ins.length then throw Err.data
    else pure (⟨dk.index, dv.amount⟩ : DebitRecord)
  pure ⟨rec, some ⟨k.block, time⟩, credits, debits⟩

/-- debit part of `unminedTxDetails`: one input. -/
def unminedDebit (s : Store) (i : Nat) (inp : OutPoint) : M (Option DebitRecord) :=
  match s.unspent.find? inp with
  | some blk =>
    match s.credits.find? ⟨inp.hash, blk, inp.index⟩ with
    | none => throw Err.data                          -- fetchRawCreditAmount(nil)
    | some cv => pure (some ⟨i, cv.amount⟩)
  | none =>
    match s.unminedCredits.find? inp with
    | none => pure none
    | some uc => pure (some ⟨i, uc.amount⟩)

/-- `unminedTxDetails` -/
def unminedTxDetails (s : Store) (h : Nat) (rec : Tx) : M Details := do
  let credits ← (unminedCreditsOf s h).mapM fun (op, uc) =>
    if op.index ≥ rec.outs.length then throw Err.data
    else pure (⟨op.index, uc.amount, spentByUnmined s op, uc.change⟩ : CreditRecord)
  let debits ← (withIdx rec.ins).mapM fun (i, inp) => unminedDebit s i inp
  pure ⟨rec, none, credits, debits.filterMap id⟩

/-- `TxDetails`: the unmined record if any, otherwise the latest mined record. -/
def txDetails (s : Store) (h : Nat) : M (Option Details) :=
  match s.unmined.find? h with
  | some rec => do let d ← unminedTxDetails s h rec; pure (some d)
  | none =>
    match latestTxRecord s h with
    | none => pure none
    | some (k, rec) => do let d ← minedTxDetails s k rec; pure (some d)

/-- `UniqueTxDetails` -/
def uniqueTxDetails (s : Store) (h : Nat) (block : Option Block) : M (Option Details) :=
  match block with
  | none =>
    match s.unmined.find? h with
    | none => pure none
    | some rec => do let d ← unminedTxDetails s h rec; pure (some d)
  | some b =>
    match s.txrecs.find? ⟨h, b⟩ with
    | none => pure none
    | some rec => do let d ← minedTxDetails s ⟨h, b⟩ rec; pure (some d)

/-! ## unconfirmed.go -/

/-- `insertMemPoolTx`. Returns `duplicate` as an error exactly like the Go function (InsertTx maps it to "exists"). -/
def insertMemPoolTx (s : Store) (rec : Tx) : M Store :=
  match txDetails s rec.hash with
  | .ok (some _) => throw Err.duplicate           -- an error of TxDetails is ignored by the Go code
  | _ =>
    if (withIdx rec.outs).any (fun (i, _) => s.unspent.contains ⟨rec.hash, i⟩) then pure s
    else
      let s := { s with unmined := s.unmined.insert rec.hash rec }
      pure (rec.ins.foldl (fun s inp => putRawUnminedInput s inp rec.hash) s)

/-- body of `removeConflict`, with the recursive call abstracted (`rc`). -/
def removeConflictBody (rc : Store → Tx → M Store) (s : Store) (rec : Tx) : M Store := do
  let s ← (withIdx rec.outs).foldlM (fun s (i, _) => do
      let k : OutPoint := ⟨rec.hash, i⟩
      let s ← (spendHashes s k).foldlM (fun s h =>
          match s.unmined.find? h with
          | none => pure s
          | some sp => rc s sp) s
      pure { s with unminedCredits := s.unminedCredits.erase k }) s
  let s := rec.ins.foldl (fun s inp => deleteRawUnminedInput s inp rec.hash) s
  pure { s with unmined := s.unmined.erase rec.hash }

/-- `removeConflict`; `fuel` bounds the recursion depth (a spend chain among unmined transactions is at most
as long as the unmined bucket; hash-linked transactions cannot form cycles). -/
def removeConflict : Nat → Store → Tx → M Store
  | 0 => fun _ _ => throw Err.fuel
  | n + 1 => removeConflictBody (removeConflict n)

def fuelOf (s : Store) : Nat := s.unmined.length + 1

/-- `removeDoubleSpends` -/
def removeDoubleSpends (s : Store) (rec : Tx) : M Store :=
  rec.ins.foldlM (fun s inp =>
    (spendHashes s inp).foldlM (fun s h =>
      if h = rec.hash then pure s else
      match s.unmined.find? h with
      | none => pure s
      | some ds => removeConflict (fuelOf s) s ds) s) s

/-- `RemoveUnminedTx` -/
def removeUnminedTx (s : Store) (rec : Tx) : M Store := removeConflict (fuelOf s) s rec

/-- `unminedTxHashes` (bucket order) -/
def unminedTxHashes (s : Store) : List Nat := s.unmined.keys

/-! ## tx.go: inserting -/

/-- first loop of `updateMinedBalance`: one input. -/
def spendInput (rec : Tx) (block : Block) (acc : Store × Int) (ii : Nat × OutPoint) : Store × Int :=
  let (s, bal) := acc
  let (i, inp) := ii
  match s.unspent.find? inp with
  | none => (s, bal)
  | some blk =>
    let credKey : CredKey := ⟨inp.hash, blk, inp.index⟩
    let (amt, s) := spendCredit s credKey ⟨rec.hash, block, i⟩
    let s := { s with debits := s.debits.insert ⟨rec.hash, block, i⟩ ⟨amt, credKey⟩ }
    let s := { s with unspent := s.unspent.erase inp }
    (s, bal - amt)

/-- second loop of `updateMinedBalance`: one unmined credit of the record becomes a mined unspent credit. -/
def moveCredit (rec : Tx) (block : Block) (acc : Store × Int) (kv : OutPoint × UCredit) : Store × Int :=
  let (s, bal) := acc
  let (k, uc) := kv
  let s := { s with credits := s.credits.insert ⟨rec.hash, block, k.index⟩ ⟨uc.amount, uc.change, false, none⟩ }
  let s := { s with unspent := s.unspent.insert ⟨rec.hash, k.index⟩ block }
  (s, bal + uc.amount)

/-- `updateMinedBalance` -/
def updateMinedBalance (s : Store) (rec : Tx) (block : Block) : Store :=
  let bal0 := s.minedBalance
  let (s, bal) := (withIdx rec.ins).foldl (spendInput rec block) (s, bal0)
  let (s, bal) := (unminedCreditsOf s rec.hash).foldl (moveCredit rec block) (s, bal)
  if bal ≠ bal0 then { s with minedBalance := bal } else s

/-- `deleteUnminedTx` -/
def deleteUnminedTx (s : Store) (rec : Tx) : Store :=
  let s := rec.ins.foldl (fun s inp => deleteRawUnminedInput s inp rec.hash) s
  let s := (withIdx rec.outs).foldl (fun s (i, _) =>
    { s with unminedCredits := s.unminedCredits.erase ⟨rec.hash, i⟩ }) s
  { s with unmined := s.unmined.erase rec.hash }

/-- `insertMinedTx` -/
def insertMinedTx (s : Store) (rec : Tx) (bm : BlockMeta) : M Store := do
  if s.txrecs.contains ⟨rec.hash, bm.block⟩ then throw Err.duplicate
  let s := match s.blocks.find? bm.block.height with
    | none => { s with blocks := s.blocks.insert bm.block.height ⟨bm.block.hash, bm.time, [rec.hash]⟩ }
    | some br => { s with blocks := s.blocks.insert bm.block.height { br with txs := br.txs ++ [rec.hash] } }
  let s := { s with txrecs := s.txrecs.insert ⟨rec.hash, bm.block⟩ rec }
  let s := updateMinedBalance s rec bm.block
  let s := if s.unmined.contains rec.hash then deleteUnminedTx s rec else s
  let s ← removeDoubleSpends s rec
  pure (rec.ins.foldl unlockOutputRaw s)

/-- `InsertTxCheckIfExists` : (exists, store) -/
def insertTx (s : Store) (rec : Tx) (block : Option BlockMeta) : M (Bool × Store) :=
  let r := match block with
    | none => insertMemPoolTx s rec
    | some bm => insertMinedTx s rec bm
  match r with
  | .error Err.duplicate => pure (true, s)
  | .error e => throw e
  | .ok s' => pure (false, s')

/-- `AddCredit` / `addCredit` -/
def addCredit (s : Store) (rec : Tx) (block : Option BlockMeta) (index : Nat) (change : Bool) : M Store :=
  match rec.outs[index]? with
  | none => throw Err.input
  | some amt =>
    match block with
    | none =>
      let k : OutPoint := ⟨rec.hash, index⟩
      if s.unminedCredits.contains k then pure s
      else if (latestTxRecord s rec.hash).isSome then pure s
      else pure { s with unminedCredits := s.unminedCredits.insert k ⟨amt, change⟩ }
    | some bm =>
      let k : CredKey := ⟨rec.hash, bm.block, index⟩
      if s.credits.contains k then pure s
      else
        let s := { s with credits := s.credits.insert k ⟨amt, change, false, none⟩ }
        let s := { s with minedBalance := s.minedBalance + amt }
        pure { s with unspent := s.unspent.insert ⟨rec.hash, index⟩ bm.block }

/-! ## tx.go: rollback -/

/-- rollback state: store, running mined balance, removed coinbase credits. -/
structure RB where
  s : Store
  bal : Int
  cb : List OutPoint

/-- coinbase branch of `rollback`: one output. -/
def rbCoinbaseOut (rec : Tx) (blk : Block) (r : RB) (io : Nat × Int) : RB :=
  let (i, value) := io
  let k : CredKey := ⟨rec.hash, blk, i⟩
  let op : OutPoint := ⟨rec.hash, i⟩
  -- every output of the removed coinbase is remembered, credited or not (its unconfirmed spenders become invalid)
  let r := { r with cb := r.cb ++ [op] }
  if !r.s.credits.contains k then r else
  let r := if r.s.unspent.contains op then
      { r with bal := r.bal - value, s := { r.s with unspent := r.s.unspent.erase op } } else r
  { r with s := { r.s with credits := r.s.credits.erase k } }

/-- non-coinbase branch, input loop: one input. -/
def rbInput (rec : Tx) (blk : Block) (r : RB) (ii : Nat × OutPoint) : RB :=
  let (i, inp) := ii
  let s := putRawUnminedInput r.s inp rec.hash
  match s.debits.find? ⟨rec.hash, blk, i⟩ with
  | none => { r with s := s }
  | some d =>
    let (amt, s) := unspendRawCredit s d.credKey
    let s := { s with debits := s.debits.erase ⟨rec.hash, blk, i⟩ }
    if !s.credits.contains d.credKey then { r with s := s }   -- the credit was removed earlier in this rollback
    else { r with bal := r.bal + amt, s := { s with unspent := s.unspent.insert inp d.credKey.block } }

/-- non-coinbase branch, output loop: one output. -/
def rbOutput (rec : Tx) (blk : Block) (r : RB) (io : Nat × Int) : RB :=
  let (i, value) := io
  let k : CredKey := ⟨rec.hash, blk, i⟩
  match r.s.credits.find? k with
  | none => r
  | some v =>
    let op : OutPoint := ⟨rec.hash, i⟩
    let s := { r.s with unminedCredits := r.s.unminedCredits.insert op ⟨v.amount, v.change⟩ }
    let s := { s with credits := s.credits.erase k }
    if s.unspent.contains op then { r with bal := r.bal - value, s := { s with unspent := s.unspent.erase op } }
    else { r with s := s }

/-- one transaction of a detached block. -/
def rbTx (blk : Block) (r : RB) (txHash : Nat) : M RB :=
  match r.s.txrecs.find? ⟨txHash, blk⟩ with
  | none => throw Err.data                      -- readRawTxRecord(nil)
  | some rec =>                                  -- (records are always stored under their own hash)
    let r := { r with s := { r.s with txrecs := r.s.txrecs.erase ⟨txHash, blk⟩ } }
    if rec.isCoinBase then
      pure ((withIdx rec.outs).foldl (rbCoinbaseOut rec blk) r)
    else
      let r := { r with s := { r.s with unmined := r.s.unmined.insert txHash rec } }
      let r := (withIdx rec.ins).foldl (rbInput rec blk) r
      pure ((withIdx rec.outs).foldl (rbOutput rec blk) r)

/-- `rollback` -/
def rollback (s : Store) (height : Int) : M Store := do
  let blks := s.blocks.reverse.takeWhile (fun p => !decide ((p.1 : Int) < height))
  let r ← blks.foldlM (fun r (h, br) => br.txs.foldlM (rbTx ⟨h, br.hash⟩) r) (⟨s, s.minedBalance, []⟩ : RB)
  let s := blks.foldl (fun s p => { s with blocks := s.blocks.erase p.1 }) r.s
  let s ← r.cb.foldlM (fun s op =>
      (spendHashes s op).foldlM (fun s h =>
        match s.unmined.find? h with
        | none => pure s
        | some t => removeConflict (fuelOf s) s t) s) s
  pure { s with minedBalance := r.bal }

/-! ## tx.go: queries -/

/-- `wtxmgr.Credit` as returned by `UnspentOutputs` (`block = none` ⇔ height −1). -/
structure Credit where
  op : OutPoint
  block : Option BlockMeta
  amount : Int
  fromCoinBase : Bool
deriving DecidableEq, Repr, Inhabited

/-- `fetchCredits`, mined part: one entry of bucket `u`. -/
def fetchMinedCredit (s : Store) (now : Nat) (inclLocked inclSpent full : Bool) (e : OutPoint × Block) :
    M (Option Credit) :=
  let (op, blk) := e
  if !inclLocked && isLocked s op now then pure none
  else if !inclSpent && spentByUnmined s op then pure none
  else match s.txrecs.find? ⟨op.hash, blk⟩ with
    | none => throw Err.database
    | some rec =>
      match rec.outs[op.index]? with
      | none => throw Err.panic
      | some value =>
        if full then
          match s.blocks.find? blk.height with
          | none => throw Err.database
          | some br => pure (some ⟨op, some ⟨blk, br.time⟩, value, rec.isCoinBase⟩)
        else pure (some ⟨op, none, 0, false⟩)

/-- `fetchCredits`, unmined part: one entry of bucket `mc`. -/
def fetchUnminedCredit (s : Store) (now : Nat) (inclLocked inclSpent full : Bool) (e : OutPoint × UCredit) :
    M (Option Credit) :=
  let (op, _) := e
  if !inclLocked && isLocked s op now then pure none
  else if !inclSpent && spentByUnmined s op then pure none
  else match s.unmined.find? op.hash with
    | none => pure none
    | some rec =>
      match rec.outs[op.index]? with
      | none => throw Err.panic
      | some value =>
        if full then pure (some ⟨op, none, value, rec.isCoinBase⟩) else pure (some ⟨op, none, 0, false⟩)

def fetchCredits (s : Store) (now : Nat) (inclLocked inclSpent full : Bool) : M (List Credit) := do
  let a ← s.unspent.mapM (fetchMinedCredit s now inclLocked inclSpent full)
  let b ← s.unminedCredits.mapM (fetchUnminedCredit s now inclLocked inclSpent full)
  pure (a.filterMap id ++ b.filterMap id)

/-- `UnspentOutputs` -/
def unspentOutputs (s : Store) (now : Nat) : M (List Credit) := fetchCredits s now false false true
/-- `OutputsToWatch` (only the outpoint is meaningful) -/
def outputsToWatch (s : Store) (now : Nat) : M (List Credit) := fetchCredits s now true true false

/-- `Balance`, first pass: one entry of bucket `u` (locked ⇒ subtract and stop; else spent by unmined ⇒ subtract). -/
def balPass1 (s : Store) (now : Nat) (bal : Int) (e : OutPoint × Block) : M Int :=
  let (op, blk) := e
  if isLocked s op now then
    match s.credits.find? ⟨op.hash, blk, op.index⟩ with
    | none => throw Err.data
    | some cv => pure (bal - cv.amount)     -- "to prevent decrementing the balance twice ... return now"
  else if spentByUnmined s op then
    match s.credits.find? ⟨op.hash, blk, op.index⟩ with
    | none => throw Err.data
    | some cv => pure (bal - cv.amount)
  else pure bal

/-- `Balance`, second pass: one output of one transaction of one block. -/
def balPass2Out (s : Store) (now : Nat) (minConf sync maturity : Int) (blk : Block) (rec : Tx) (txHash : Nat)
    (bal : Int) (i : Nat) : Int :=
  let op : OutPoint := ⟨txHash, i⟩
  if isLocked s op now then bal
  else if spentByUnmined s op then bal
  else match s.credits.find? ⟨txHash, blk, i⟩ with
    | none => bal
    | some cv =>
      if cv.spent then bal else
      let confs : Int := sync - blk.height + 1
      if confs < minConf || (rec.isCoinBase && confs < maturity) then bal - cv.amount else bal

def balPass2Tx (s : Store) (now : Nat) (minConf sync maturity : Int) (blk : Block) (bal : Int) (txHash : Nat) : M Int :=
  match s.txrecs.find? ⟨txHash, blk⟩ with
  | none => throw Err.data
  | some rec => pure ((List.range rec.outs.length).foldl (balPass2Out s now minConf sync maturity blk rec txHash) bal)

/-- `Balance`, third pass: one entry of bucket `mc`. -/
def balPass3 (s : Store) (now : Nat) (bal : Int) (e : OutPoint × UCredit) : Int :=
  let (op, uc) := e
  if isLocked s op now then bal
  else if spentByUnmined s op then bal
  else bal + uc.amount

/-- `Balance` -/
def balance (s : Store) (now : Nat) (maturity : Int) (minConf syncHeight : Int) : M Int := do
  let bal ← s.unspent.foldlM (balPass1 s now) s.minedBalance
  let stopConf := if maturity > minConf then maturity else minConf
  let lastHeight := syncHeight - stopConf
  let blks := s.blocks.reverse.takeWhile (fun p => !decide ((p.1 : Int) < lastHeight))
  let bal ← blks.foldlM (fun bal (h, br) =>
      br.txs.foldlM (balPass2Tx s now minConf syncHeight maturity ⟨h, br.hash⟩) bal) bal
  if minConf == 0 then pure (s.unminedCredits.foldl (balPass3 s now) bal) else pure bal

/-! ## query.go: ranges, scripts -/

def maxInt32 : Int := 2147483647

def blockDetails (s : Store) (h : Nat) (br : BlockRec) : M (List Details) :=
  br.txs.mapM fun txHash =>
    match s.txrecs.find? ⟨txHash, ⟨h, br.hash⟩⟩ with
    | none => throw Err.data
    | some rec => minedTxDetails s ⟨txHash, ⟨h, br.hash⟩⟩ rec

/-- `rangeBlockTransactions` (the callback never breaks) -/
def rangeBlockTransactions (s : Store) (begin_ end_ : Int) : M (List (List Details)) :=
  let b := if begin_ < 0 then maxInt32 else begin_
  let e := if end_ < 0 then maxInt32 else end_
  let blks :=
    if b < e then
      (s.blocks.filter (fun p => decide (b ≤ (p.1 : Int)))).takeWhile (fun p => decide ((p.1 : Int) ≤ e))
    else
      ((s.blocks.filter (fun p => decide ((p.1 : Int) ≤ b))).reverse).takeWhile (fun p => decide (e ≤ (p.1 : Int)))
  blks.mapM fun (h, br) => blockDetails s h br

/-- `rangeUnminedTransactions`: one batch with every unmined tx (bucket order), or none when empty. -/
def rangeUnmined (s : Store) : M (List (List Details)) := do
  let ds ← s.unmined.mapM fun (h, rec) => unminedTxDetails s h rec
  pure (if ds.isEmpty then [] else [ds])

/-- `RangeTransactions` (callback never breaks): batches in the order `f` is called. -/
def rangeTransactions (s : Store) (begin_ end_ : Int) : M (List (List Details)) := do
  let pre ← if begin_ < 0 then rangeUnmined s else pure []
  let mid ← rangeBlockTransactions s begin_ end_
  let post ← if !(begin_ < 0) && end_ < 0 then rangeUnmined s else pure []
  pure (pre ++ mid ++ post)

/-- one outpoint whose pkScript `PreviousPkScripts` returns -/
def checkedOut (rec : Tx) (op : OutPoint) : M OutPoint :=
  if op.index ≥ rec.outs.length then throw Err.data else pure op

/-- `PreviousPkScripts`: the previous outputs (whose scripts are returned), in order. -/
def previousPkScripts (s : Store) (rec : Tx) (block : Option Block) : M (List OutPoint) :=
  match block with
  | none => do
    let l ← rec.ins.mapM fun prev =>
      match s.unmined.find? prev.hash with
      | some prt =>
        if !s.unminedCredits.contains prev then pure none
        else do let o ← checkedOut prt prev; pure (some o)
      | none =>
        match s.unspent.find? prev with
        | none => pure none
        | some blk =>
          match s.txrecs.find? ⟨prev.hash, blk⟩ with
          | none => throw Err.data
          | some prt => do let o ← checkedOut prt prev; pure (some o)
    pure (l.filterMap id)
  | some b =>
    (debitsOf s ⟨rec.hash, b⟩).mapM fun (_, dv) =>
      match s.txrecs.find? dv.credKey.txKey with
      | none => throw Err.data
      | some prt => checkedOut prt dv.credKey.outPoint

/-! ## leases -/

/-- `isKnownOutput` -/
def isKnownOutput (s : Store) (op : OutPoint) : Bool := s.unminedCredits.contains op || s.unspent.contains op

/-- `time.Time.Unix()` of a nanosecond instant: floor to whole seconds. -/
def unixSeconds (ns : Int) : Int := ns / 1000000000

/-- the expiry `LockOutput` grants: `now + duration`, rounded UP to the next whole second when it has a sub-second
part (`expiry.Nanosecond() != 0`), in ns -/
def grantedExpiry (now : Nat) (duration : Int) : Int :=
  let e : Int := (now : Int) + duration
  if e % 1000000000 = 0 then e else (e / 1000000000 + 1) * 1000000000

/-- `LockOutput`: returns the expiry handed to the caller (ns) and the new store (which holds the same instant in
whole seconds). -/
def lockOutput (s : Store) (now : Nat) (id : Nat) (op : OutPoint) (duration : Int) : M (Int × Store) :=
  if !isKnownOutput s op then throw Err.unknownOutput
  else
    let otherId := match isLockedOutput s op now with
      | some l => decide (l.id ≠ id)
      | none => false
    if otherId then throw Err.alreadyLocked
    else pure (grantedExpiry now duration,
      { s with locked := s.locked.insert op ⟨id, unixSeconds (grantedExpiry now duration)⟩ })

/-- `UnlockOutput` -/
def unlockOutput (s : Store) (now : Nat) (id : Nat) (op : OutPoint) : M Store :=
  if !isKnownOutput s op then throw Err.unknownOutput
  else match isLockedOutput s op now with
    | none => pure s
    | some l => if l.id ≠ id then throw Err.unlockNotAllowed else pure (unlockOutputRaw s op)

/-- `DeleteExpiredLockedOutputs` -/
def deleteExpiredLockedOutputs (s : Store) (now : Nat) : Store :=
  let expired := s.locked.filter (fun p => !decide ((now : Int) < p.2.expiry * 1000000000))
  expired.foldl (fun s p => unlockOutputRaw s p.1) s

/-- `ListLockedOutputs` -/
def listLockedOutputs (s : Store) (now : Nat) : List (OutPoint × Lease) :=
  s.locked.filter (fun p => decide ((now : Int) < p.2.expiry * 1000000000))

end TxStore
