/-
Model of the wallet's chain-tip tracking (C15):
  /repo/wallet/chainntfns.go   connectBlock, disconnectBlock, addRelevantTx (at the level "tx t recorded in block b"),
                               handleChainNotifications (dispatch + catchUpHashes)
  /repo/waddrmgr/db.go         PutSyncedTo (predecessor check, addBlockHash, staleHeight pruning), fetchBlockHash
  /repo/waddrmgr/sync.go       SetSyncedTo, SyncedTo, BlockHash
  /repo/wallet/wallet.go       syncWithChain: (recovery when recoveryWindow > 0), the rollback loop, the rescan
  /repo/wtxmgr                 InsertTxCheckIfExists / Rollback, abstracted to "records (tx, block)".

Backend chains (DESIGN §5.4).  A block hash commits to the block's whole ancestry, so a hash is *modelled as*
that ancestry: `BlockId = List Nat` = the block's own nonce followed by the id of its parent; genesis is `[]`.
The height of a block is the length of its id and the best chain is determined by its tip.  "Two chains that have
the same hash at height h agree below h" is then a lemma about `List.drop`, not an assumption.  Everything else a
hash commits to (timestamp, the wallet-relevant transactions of the block) is a function of the id (`Content`).
A stored hash is `Hash = Option BlockId`: `none` is the all-zero hash, which is not the hash of any block.

HISTORY: `disconnectBlock` used to assign the parent's hash to `b.Hash` instead of `bs.Hash`, which stored an
all-zero hash as synced-to hash and as remembered hash of height `b.Height-1`; found by this engine, fixed in /repo
(fc5593c).  The model follows the fixed code; reverting the fix is a Go↔model disagreement and an oracle violation
(notes/C15.md).  The all-zero hash is still representable because malformed input could store it.
-/
namespace SyncTip

abbrev BlockId := List Nat

/-- A 32-byte hash as stored by the wallet: `some b` = hash of block `b`, `none` = the all-zero hash. -/
abbrev Hash := Option BlockId

/-- The ancestor of `b` at height `h` (`b` itself for `h ≥ height b`). -/
def ancestorAt (b : BlockId) (h : Nat) : BlockId := b.drop (b.length - h)

/-- Backend `GetBlockHash(h)` on the best chain with tip `tip`; error above the tip. -/
def getBlockHash (tip : BlockId) (h : Nat) : Option BlockId :=
  if h ≤ tip.length then some (ancestorAt tip h) else none

structure Tx where
  id       : Nat
  coinbase : Bool
deriving DecidableEq, Repr, Inhabited

/-- What a block hash commits to besides its ancestry. -/
structure Content where
  time : BlockId → Nat
  txs  : BlockId → List Tx

/-- `waddrmgr.BlockStamp` / `wtxmgr.BlockMeta`. -/
structure Stamp where
  height : Nat
  hash   : Hash
  time   : Nat
deriving DecidableEq, Repr, Inhabited

def stampOf (C : Content) (b : BlockId) : Stamp := ⟨b.length, some b, C.time b⟩

structure Cfg where
  W : Nat       -- waddrmgr.MaxReorgDepth
  C : Content

inductive Err where
  | blockNotFound   -- waddrmgr.ErrBlockNotFound
  | backend         -- the chain client returned an error (height above its tip)
deriving DecidableEq, Repr

/-- A mined transaction record: wtxmgr keys records by (tx hash, block height, block hash). -/
structure Mined where
  tx     : Tx
  height : Nat
  hash   : Hash
deriving DecidableEq, Repr

structure Wallet where
  syncedTo    : Stamp                      -- Manager.syncState.syncedTo (= syncedToName on disk)
  hashes      : Nat → Option Hash          -- sync bucket: height ↦ hash
  birthdaySet : Bool                       -- FetchBirthdayBlock succeeds
  birthday    : Nat × Hash                 -- birthday block (height, hash)
  mined       : List Mined                 -- wtxmgr mined records
  unmined     : List Tx                    -- wtxmgr unmined records
  chainSynced : Bool                       -- Wallet.chainClientSynced

def upd (f : Nat → Option Hash) (k : Nat) (v : Option Hash) : Nat → Option Hash :=
  fun h => if h = k then v else f h

/-- `waddrmgr.PutSyncedTo` (+ the in-memory update of `SetSyncedTo`). `W` = `MaxReorgDepth`. -/
def putSyncedTo (W : Nat) (w : Wallet) (bs : Stamp) : Except Err Wallet :=
  -- if bs.Height > 0 { if FetchBirthdayBlock ok { fetchBlockHash(bs.Height-1) must exist } }
  if bs.height > 0 ∧ w.birthdaySet = true ∧ w.hashes (bs.height - 1) = none then .error .blockNotFound
  else
    let hs := upd w.hashes bs.height (some bs.hash)                     -- addBlockHash
    let hs := if bs.height > W then upd hs (bs.height - W) none else hs -- staleHeight > 0 ⇒ deleteBlockHash
    .ok { w with hashes := hs, syncedTo := bs }                         -- updateSyncedTo

/-- `Wallet.connectBlock` (the notification-server call has no effect on the state considered). -/
def connectBlock (W : Nat) (w : Wallet) (b : Stamp) : Except Err Wallet := putSyncedTo W w b

/-- `wtxmgr.Store.Rollback(height)` on records: every mined record at height ≥ h leaves its block; coinbases are
    deleted, other transactions go back to unmined (once). -/
def rollbackMined (mined : List Mined) (h : Nat) : List Mined := mined.filter (fun r => r.height < h)

def addUnmined (u : List Tx) (t : Tx) : List Tx := if u.any (fun x => x.id == t.id) then u else u ++ [t]

def rollbackUnmined (mined : List Mined) (unmined : List Tx) (h : Nat) : List Tx :=
  (mined.filter (fun r => decide (h ≤ r.height) && !r.tx.coinbase)).foldl (fun u r => addUnmined u r.tx) unmined

def rollbackTxs (w : Wallet) (h : Nat) : Wallet :=
  { w with mined := rollbackMined w.mined h, unmined := rollbackUnmined w.mined w.unmined h }

/-- `Wallet.disconnectBlock`.  `C.time` stands for `client.GetBlockHeader(hash).Timestamp`; the header of the
    all-zero hash does not exist. -/
def disconnectBlock (cfg : Cfg) (w : Wallet) (b : Stamp) : Except Err Wallet :=
  if w.chainSynced = false then .ok w                      -- if !w.ChainSynced() { return nil }
  else if b.height ≤ w.syncedTo.height then
    match w.hashes b.height with
    | none => .error .blockNotFound
    | some hash =>
      if hash = b.hash then
        match b.height with
        | 0 => .error .blockNotFound                        -- BlockHash(ns, -1)
        | h' + 1 =>
          match w.hashes h' with
          | none => .error .blockNotFound
          | some none => .error .backend                    -- GetBlockHeader(000…0)
          | some (some prev) =>
            -- bs := BlockStamp{Height: b.Height-1}; bs.Hash = *hash; bs.Timestamp = header.Timestamp
            let bs : Stamp := ⟨h', some prev, cfg.C.time prev⟩
            match putSyncedTo cfg.W w bs with
            | .error e => .error e
            | .ok w' => .ok (rollbackTxs w' (h' + 1))      -- TxStore.Rollback(b.Height)
      else .ok w
  else .ok w

/-- `Wallet.addRelevantTx` at the level of `InsertTxCheckIfExists` (credits are C01's subject). -/
def addRelevantTx (w : Wallet) (t : Tx) (blk : Option Stamp) : Wallet :=
  match blk with
  | some b =>
    -- insertMinedTx: existsTxRecord(hash, block) ⇒ duplicate
    if w.mined.any (fun r => r.tx.id == t.id && r.height == b.height && r.hash == b.hash) then w
    else { w with mined := w.mined ++ [⟨t, b.height, b.hash⟩], unmined := w.unmined.filter (fun x => x.id != t.id) }
  | none =>
    -- insertMemPoolTx: TxDetails(hash) != nil ⇒ duplicate
    if w.mined.any (fun r => r.tx.id == t.id) || w.unmined.any (fun x => x.id == t.id) then w
    else { w with unmined := w.unmined ++ [t] }

/-- `catchUpHashes`: SetSyncedTo for every height in (syncedTo, height], hashes from the backend (`tip`). -/
def catchUpFrom (cfg : Cfg) (tip : BlockId) (w : Wallet) (from_ : Nat) : Nat → Except Err Wallet
  | 0 => .ok w
  | n + 1 =>
    match getBlockHash tip from_ with
    | none => .error .backend
    | some h =>
      match putSyncedTo cfg.W w ⟨from_, some h, cfg.C.time h⟩ with
      | .error e => .error e
      | .ok w' => catchUpFrom cfg tip w' (from_ + 1) n

def catchUpHashes (cfg : Cfg) (tip : BlockId) (w : Wallet) (height : Nat) : Except Err Wallet :=
  catchUpFrom cfg tip w (w.syncedTo.height + 1) (height - w.syncedTo.height)

inductive Ntfn where
  | connected (b : Stamp)
  | disconnected (b : Stamp)
  | relevantTx (t : Tx) (blk : Option Stamp)
  | filtered (b : Stamp) (ts : List Tx)          -- FilteredBlockConnected
  | rescanFinished (tip : BlockId) (height : Nat) -- backend best chain at that moment, n.Height
deriving Repr

def orKeep (w : Wallet) : Except Err Wallet → Wallet
  | .ok w' => w'
  | .error _ => w

/-- One iteration of `handleChainNotifications`: each case is one `walletdb.Update`; on error the database
    transaction is rolled back and the error only logged. -/
def handle (cfg : Cfg) (w : Wallet) : Ntfn → Wallet
  | .connected b => orKeep w (connectBlock cfg.W w b)
  | .disconnected b => orKeep w (disconnectBlock cfg w b)
  | .relevantTx t blk => addRelevantTx w t blk
  | .filtered b ts => ts.foldl (fun w t => addRelevantTx w t (some b)) w
  | .rescanFinished tip height =>
    { orKeep w (catchUpHashes cfg tip w height) with chainSynced := true }

def process (cfg : Cfg) (w : Wallet) (ns : List Ntfn) : Wallet := ns.foldl (handle cfg) w

/-! ### Backend evolutions and the notification stream they induce -/

inductive TxMode where
  | after      -- BlockConnected, then one RelevantTx per wallet transaction of the block (btcd)
  | before     -- RelevantTx first, then BlockConnected
  | filtered   -- FilteredBlockConnected, then BlockConnected (bitcoind)
deriving DecidableEq, Repr

inductive Step where
  | extend (nonce : Nat) (m : TxMode)
  | reorg (depth : Nat) (branch : List Nat) (m : TxMode)   -- drop `depth` blocks, then connect `branch` bottom-up
  | staleDisconnect (b : BlockId)                           -- disconnect for a block not on the best chain (incl. repeats)
  | dupConnect                                              -- BlockConnected for the current tip again
  | dupTxs (h : Nat)                                        -- RelevantTx of the best-chain block at height h again
  | mempoolTx (t : Tx)                                      -- an unconfirmed relevant transaction
deriving Repr

def stepTip (tip : BlockId) : Step → BlockId
  | .extend n _ => n :: tip
  | .reorg d br _ => br.reverse ++ tip.drop d
  | _ => tip

def connectNtfns (C : Content) (m : TxMode) (b : BlockId) : List Ntfn :=
  let s := stampOf C b
  match m with
  | .after => .connected s :: (C.txs b).map (fun t => .relevantTx t (some s))
  | .before => (C.txs b).map (fun t => .relevantTx t (some s)) ++ [.connected s]
  | .filtered => [.filtered s (C.txs b), .connected s]

/-- `BlockDisconnected` for the top `d` blocks, tip first. -/
def disconnectNtfns (C : Content) : BlockId → Nat → List Ntfn
  | _, 0 => []
  | [], _ + 1 => []
  | n :: rest, d + 1 => .disconnected (stampOf C (n :: rest)) :: disconnectNtfns C rest d

/-- Connect `branch` on top of `base`, bottom-up. -/
def connectBranch (C : Content) (m : TxMode) : BlockId → List Nat → List Ntfn
  | _, [] => []
  | base, n :: br => connectNtfns C m (n :: base) ++ connectBranch C m (n :: base) br

def ntfnsOf (C : Content) (tip : BlockId) : Step → List Ntfn
  | .extend n m => connectNtfns C m (n :: tip)
  | .reorg d br m => disconnectNtfns C tip d ++ connectBranch C m (tip.drop d) br
  | .staleDisconnect b => [.disconnected (stampOf C b)]
  | .dupConnect => [.connected (stampOf C tip)]
  | .dupTxs h =>
    let b := ancestorAt tip h
    (C.txs b).map (fun t => .relevantTx t (some (stampOf C b)))
  | .mempoolTx t => [.relevantTx t none]

/-- Run an evolution: the backend moves, the wallet processes the induced notifications. -/
def evolve (cfg : Cfg) : Wallet × BlockId → List Step → Wallet × BlockId
  | s, [] => s
  | (w, tip), st :: rest => evolve cfg (process cfg w (ntfnsOf cfg.C tip st), stepTip tip st) rest

/-! ### Start-up: `syncWithChain` for a wallet whose birthday block is already set -/

/-- The rollback loop: `for height := syncedTo.Height; true; height--`.  Returns the stamp of the first height at
    which the remembered hash equals the backend's, and whether any height was skipped. -/
def rollbackLoop (C : Content) (w : Wallet) (tip : BlockId) : Nat → Bool → Except Err (Stamp × Bool)
  | 0, rb =>
    match w.hashes 0 with
    | none => .error .blockNotFound
    | some hash =>
      match getBlockHash tip 0 with
      | none => .error .backend
      | some ch => if hash = some ch then .ok (⟨0, some ch, C.time ch⟩, rb) else .error .blockNotFound  -- next: BlockHash(-1)
  | h + 1, rb =>
    match w.hashes (h + 1) with
    | none => .error .blockNotFound
    | some hash =>
      match getBlockHash tip (h + 1) with
      | none => .error .backend
      | some ch => if hash = some ch then .ok (⟨h + 1, some ch, C.time ch⟩, rb) else rollbackLoop C w tip h true

/-- The whole `walletdb.Update` around the loop. -/
def startupRollback (cfg : Cfg) (w : Wallet) (tip : BlockId) : Except Err Wallet :=
  match rollbackLoop cfg.C w tip w.syncedTo.height false with
  | .error e => .error e
  | .ok (stamp, rb) =>
    if rb = false then .ok w
    else
      match putSyncedTo cfg.W w stamp with
      | .error e => .error e
      | .ok w1 =>
        let w2 := if stamp.height ≤ w1.birthday.1 ∧ stamp.hash ≠ w1.birthday.2
                  then { w1 with birthday := (stamp.height, stamp.hash) } else w1
        .ok (rollbackTxs w2 (stamp.height + 1))

/-- The blocks `recovery` walks over: heights from..from+n-1 of the backend's best chain. -/
def blocksFrom (tip : BlockId) (from_ : Nat) : Nat → List BlockId
  | 0 => []
  | n + 1 => ancestorAt tip from_ :: blocksFrom tip (from_ + 1) n

/-- One batch of `Wallet.recovery` as far as C15 is concerned (every wallet transaction of the engine pays an
    address the wallet already issued, so `FilterBlocks` reports it): record the transactions of the batch's
    blocks at or above the birthday height, then `SetSyncedTo` every block; all in one database transaction. -/
def recoveryBatch (cfg : Cfg) (w : Wallet) (blocks : List BlockId) : Except Err Wallet :=
  let w1 := blocks.foldl (fun w b =>
      if w.birthday.1 ≤ b.length then
        (cfg.C.txs b).foldl (fun w t => addRelevantTx w t (some (stampOf cfg.C b))) w
      else w) w
  blocks.foldlM (fun w b => putSyncedTo cfg.W w (stampOf cfg.C b)) w1

/-- `Wallet.recovery`: heights syncedTo+1 .. best in batches of `batch` (= recoveryBatchSize) blocks.  Completed
    batches stay committed when a later one fails (`false`). -/
def recoveryRun (cfg : Cfg) (batch : Nat) (tip : BlockId) : Nat → Wallet → Wallet × Bool
  | 0, w => (w, true)
  | fuel + 1, w =>
    let from_ := w.syncedTo.height + 1
    if from_ > tip.length then (w, true)
    else
      let n := min (max batch 1) (tip.length + 1 - from_)
      match recoveryBatch cfg w (blocksFrom tip from_ n) with
      | .error _ => (w, false)
      | .ok w' => recoveryRun cfg batch tip fuel w'

/-- What the (fake) backend sends for `Rescan(from syncedTo)`: the wallet transactions of every best-chain block
    above the start … -/
def rescanTxNtfns (C : Content) (tip : BlockId) (from_ : Nat) : List Ntfn :=
  ((blocksFrom tip (from_ + 1) (tip.length - from_)).map (fun b =>
      (C.txs b).map (fun t => Ntfn.relevantTx t (some (stampOf C b))))).flatten

/-- … then `RescanFinished(tip)`. -/
def rescanNtfns (C : Content) (tip : BlockId) (from_ : Nat) : List Ntfn :=
  rescanTxNtfns C tip from_ ++ [.rescanFinished tip tip.length]

/-- `syncWithChain` of a freshly opened wallet (birthday block set) against a backend with best chain `tip`:
    the rollback loop, then recovery when `recW > 0`, then the rescan.  (Recovery used to run BEFORE the rollback
    loop and hid an offline reorg from it — found by this engine, repo-patches/fix-C15-startup-rollback-before-recovery.diff.)
    `during` = notifications the backend queues after the rescan request was evaluated and before its
    `RescanFinished` (blocks arriving meanwhile).
    `false` ⇒ `syncWithChain` returned an error and the wallet retries later (a failed rollback transaction leaves
    the database unchanged; completed recovery batches stay). -/
def startupDuring (cfg : Cfg) (recW batch : Nat) (w : Wallet) (tip : BlockId) (during : List Ntfn) : Wallet × Bool :=
  let w0 := { w with chainSynced := false }
  match startupRollback cfg w0 tip with
  | .error _ => (w0, false)
  | .ok w1 =>
    let (w2, ok) := if recW > 0 then recoveryRun cfg batch tip (tip.length + 1) w1 else (w1, true)
    if ok = false then (w2, false)
    else (process cfg w2 (rescanTxNtfns cfg.C tip w2.syncedTo.height ++ during ++ [.rescanFinished tip tip.length]), true)

def startup (cfg : Cfg) (recW batch : Nat) (w : Wallet) (tip : BlockId) : Wallet × Bool :=
  startupDuring cfg recW batch w tip []

/-- A wallet that has completed its first sync against a backend that only has the genesis block. -/
def genesisWallet (C : Content) : Wallet :=
  { syncedTo := stampOf C [], hashes := upd (fun _ => none) 0 (some (some [])), birthdaySet := true,
    birthday := (0, some []), mined := [], unmined := [], chainSynced := true }

end SyncTip
