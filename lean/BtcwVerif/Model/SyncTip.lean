/-
Model of the wallet's chain-tip tracking (C15):
  /repo/wallet/chainntfns.go   connectBlock, disconnectBlock, addRelevantTx (at the level "tx t recorded in block b"),
                               handleChainNotifications (dispatch + catchUpHashes)
  /repo/waddrmgr/db.go         PutSyncedTo (predecessor check, addBlockHash, staleHeight pruning), fetchBlockHash
  /repo/waddrmgr/sync.go       SetSyncedTo, SyncedTo, BlockHash
  /repo/wallet/wallet.go       syncWithChain: (recovery when recoveryWindow > 0), the rollback loop, the rescan
  /repo/wtxmgr                 InsertTxCheckIfExists / Rollback, abstracted to "records (tx, block)".

Backend chains (DESIGN §5.4).  A block hash commits to the block's whole ancestry, so a hash is *modelled as*
that ancestry: `BlockId = List Nat` = the block's own nonce followed by the id of its parent; genesis is `[]`.
The height of a block is the length of its id and the best chain is determined by its tip.  "Two chains that have
the same hash at height h agree below h" is then a lemma about `List.drop`, not an assumption.  Everything else a
hash commits to (timestamp, the wallet-relevant transactions of the block) is a function of the id (`Content`).
A stored hash is `Hash = Option BlockId`: `none` is the all-zero hash, which is not the hash of any block.

HISTORY: `disconnectBlock` used to assign the parent's hash to `b.Hash` instead of `bs.Hash`, which stored an
all-zero hash as synced-to hash and as remembered hash of height `b.Height-1`; found by this engine, fixed in /repo
(fc5593c).  The model follows the fixed code; reverting the fix is a Go↔model disagreement and an oracle violation
(notes/C15.md).  The all-zero hash is still representable because malformed input could store it.
-/
namespace SyncTip

abbrev BlockId := List Nat

/-- A 32-byte hash as stored by the wallet: `some b` = hash of block `b`, `none` = the all-zero hash. -/
abbrev Hash := Option BlockId

/-- The ancestor of `b` at height `h` (`b` itself for `h ≥ height b`). -/
def ancestorAt (b : BlockId) (h : Nat) : BlockId := b.drop (b.length - h)

/-- Backend `GetBlockHash(h)` on the best chain with tip `tip`; error above the tip. -/
def getBlockHash (tip : BlockId) (h : Nat) : Option BlockId :=
  if h ≤ tip.length then some (ancestorAt tip h) else none

structure Tx where
  id       : Nat
  coinbase : Bool
deriving DecidableEq, Repr, Inhabited

/-- What a block hash commits to besides its ancestry. -/
structure Content where
  time : BlockId → Nat
  txs  : BlockId → List Tx

/-- `waddrmgr.BlockStamp` / `wtxmgr.BlockMeta`. -/
structure Stamp where
  height : Nat
  hash   : Hash
  time   : Nat
deriving DecidableEq, Repr, Inhabited

def stampOf (C : Content) (b : BlockId) : Stamp := ⟨b.length, some b, C.time b⟩

structure Cfg where
  W : Nat       -- waddrmgr.MaxReorgDepth
  C : Content

inductive Err where
  | blockNotFound   -- waddrmgr.ErrBlockNotFound
  | backend         -- the chain client returned an error (height above its tip)
deriving DecidableEq, Repr

/-- A mined transaction record: wtxmgr keys records by (tx hash, block height, block hash). -/
structure Mined where
  tx     : Tx
  height : Nat
  hash   : Hash
deriving DecidableEq, Repr

structure Wallet where
  syncedTo    : Stamp                      -- Manager.syncState.syncedTo (= syncedToName on disk)
  hashes      : Nat → Option Hash          -- sync bucket: height ↦ hash
  birthdaySet : Bool                       -- FetchBirthdayBlock succeeds
  birthday    : Nat × Hash                 -- birthday block (height, hash)
  mined       : List Mined                 -- wtxmgr mined records
  unmined     : List Tx                    -- wtxmgr unmined records
  chainSynced : Bool                       -- Wallet.chainClientSynced

def upd (f : Nat → Option Hash) (k : Nat) (v : Option Hash) : Nat → Option Hash :=
  fun h => if h = k then v else f h

/-- `waddrmgr.PutSyncedTo` (+ the in-memory update of `SetSyncedTo`). `W` = `MaxReorgDepth`. -/
def putSyncedTo (W : Nat) (w : Wallet) (bs : Stamp) : Except Err Wallet :=
  -- if bs.Height > 0 { if FetchBirthdayBlock ok { fetchBlockHash(bs.Height-1) must exist } }
  if bs.height > 0 ∧ w.birthdaySet = true ∧ w.hashes (bs.height - 1) = none then .error .blockNotFound
  else
    let hs := upd w.hashes bs.height (some bs.hash)                     -- addBlockHash
    let hs := if bs.height > W then upd hs (bs.height - W) none else hs -- staleHeight > 0 ⇒ deleteBlockHash
    .ok { w with hashes := hs, syncedTo := bs }                         -- updateSyncedTo

/-- `Wallet.connectBlock` (the notification-server call has no effect on the state considered). -/
def connectBlock (W : Nat) (w : Wallet) (b : Stamp) : Except Err Wallet := putSyncedTo W w b

/-- `wtxmgr.Store.Rollback(height)` on records: every mined record at height ≥ h leaves its block; coinbases are
    deleted, other transactions go back to unmined (once). -/
def rollbackMined (mined : List Mined) (h : Nat) : List Mined := mined.filter (fun r => r.height < h)

def addUnmined (u : List Tx) (t : Tx) : List Tx := if u.any (fun x => x.id == t.id) then u else u ++ [t]

def rollbackUnmined (mined : List Mined) (unmined : List Tx) (h : Nat) : List Tx :=
  (mined.filter (fun r => decide (h ≤ r.height) && !r.tx.coinbase)).foldl (fun u r => addUnmined u r.tx) unmined

def rollbackTxs (w : Wallet) (h : Nat) : Wallet :=
  { w with mined := rollbackMined w.mined h, unmined := rollbackUnmined w.mined w.unmined h }

/-- `Wallet.disconnectBlock`.  `C.time` stands for `client.GetBlockHeader(hash).Timestamp`; the header of the
    all-zero hash does not exist. -/
def disconnectBlock (cfg : Cfg) (w : Wallet) (b : Stamp) : Except Err Wallet :=
  if w.chainSynced = false then .ok w                      -- if !w.ChainSynced() { return nil }
  else if b.height ≤ w.syncedTo.height then
    match w.hashes b.height with
    | none => .error .blockNotFound
    | some hash =>
      if hash = b.hash then
        match b.height with
        | 0 => .error .blockNotFound                        -- BlockHash(ns, -1)
        | h' + 1 =>
          match w.hashes h' with
          | none => .error .blockNotFound
          | some none => .error .backend                    -- GetBlockHeader(000…0)
          | some (some prev) =>
            -- bs := BlockStamp{Height: b.Height-1}; bs.Hash = *hash; bs.Timestamp = header.Timestamp
            let bs : Stamp := ⟨h', some prev, cfg.C.time prev⟩
            match putSyncedTo cfg.W w bs with
            | .error e => .error e
            | .ok w' => .ok (rollbackTxs w' (h' + 1))      -- TxStore.Rollback(b.Height)
      else .ok w
  else .ok w

/-- `Wallet.addRelevantTx` at the level of `InsertTxCheckIfExists` (credits are C01's subject). -/
def addRelevantTx (w : Wallet) (t : Tx) (blk : Option Stamp) : Wallet :=
  match blk with
  | some b =>
    -- insertMinedTx: existsTxRecord(hash, block) ⇒ duplicate
    if w.mined.any (fun r => r.tx.id == t.id && r.height == b.height && r.hash == b.hash) then w
    else { w with mined := w.mined ++ [⟨t, b.height, b.hash⟩], unmined := w.unmined.filter (fun x => x.id != t.id) }
  | none =>
    -- insertMemPoolTx: TxDetails(hash) != nil ⇒ duplicate
    if w.mined.any (fun r => r.tx.id == t.id) || w.unmined.any (fun x => x.id == t.id) then w
    else { w with unmined := w.unmined ++ [t] }

/-- `catchUpHashes`: SetSyncedTo for every height in (syncedTo, height], hashes from the backend (`tip`). -/
def catchUpFrom (cfg : Cfg) (tip : BlockId) (w : Wallet) (from_ : Nat) : Nat → Except Err Wallet
  | 0 => .ok w
  | n + 1 =>
    match getBlockHash tip from_ with
    | none => .error .backend
    | some h =>
      match putSyncedTo cfg.W w ⟨from_, some h, cfg.C.time h⟩ with
      | .error e => .error e
      | .ok w' => catchUpFrom cfg tip w' (from_ + 1) n

def catchUpHashes (cfg : Cfg) (tip : BlockId) (w : Wallet) (height : Nat) : Except Err Wallet :=
  catchUpFrom cfg tip w (w.syncedTo.height + 1) (height - w.syncedTo.height)

inductive Ntfn where
  | connected (b : Stamp)
  | disconnected (b : Stamp)
  | relevantTx (t : Tx) (blk : Option Stamp)
  | filtered (b : Stamp) (ts : List Tx)          -- FilteredBlockConnected
  | rescanFinished (tip : BlockId) (height : Nat) -- backend best chain at that moment, n.Height
deriving Repr

def orKeep (w : Wallet) : Except Err Wallet → Wallet
  | .ok w' => w'
  | .error _ => w

/-- One iteration of `handleChainNotifications`: each case is one `walletdb.Update`; on error the database
    transaction is rolled back and the error only logged. -/
def handle (cfg : Cfg) (w : Wallet) : Ntfn → Wallet
  | .connected b => orKeep w (connectBlock cfg.W w b)
  | .disconnected b => orKeep w (disconnectBlock cfg w b)
  | .relevantTx t blk => addRelevantTx w t blk
  | .filtered b ts => ts.foldl (fun w t => addRelevantTx w t (some b)) w
  | .rescanFinished tip height =>
    { orKeep w (catchUpHashes cfg tip w height) with chainSynced := true }

def process (cfg : Cfg) (w : Wallet) (ns : List Ntfn) : Wallet := ns.foldl (handle cfg) w

/-! ### Backend evolutions and the notification stream they induce -/

inductive TxMode where
  | after      -- BlockConnected, then one RelevantTx per wallet transaction of the block (btcd)
  | before     -- RelevantTx first, then BlockConnected
  | filtered   -- FilteredBlockConnected, then BlockConnected (bitcoind)
deriving DecidableEq, Repr

inductive Step where
  | extend (nonce : Nat) (m : TxMode)
  | reorg (depth : Nat) (branch : List Nat) (m : TxMode)   -- drop `depth` blocks, then connect `branch` bottom-up
  | staleDisconnect (b : BlockId)                           -- disconnect for a block not on the best chain (incl. repeats)
  | dupConnect                                              -- BlockConnected for the current tip again
  | dupTxs (h : Nat)                                        -- RelevantTx of the best-chain block at height h again
  | mempoolTx (t : Tx)                                      -- an unconfirmed relevant transaction
deriving Repr

def stepTip (tip : BlockId) : Step → BlockId
  | .extend n _ => n :: tip
  | .reorg d br _ => br.reverse ++ tip.drop d
  | _ => tip

def connectNtfns (C : Content) (m : TxMode) (b : BlockId) : List Ntfn :=
  let s := stampOf C b
  match m with
  | .after => .connected s :: (C.txs b).map (fun t => .relevantTx t (some s))
  | .before => (C.txs b).map (fun t => .relevantTx t (some s)) ++ [.connected s]
  | .filtered => [.filtered s (C.txs b), .connected s]

/-- `BlockDisconnected` for the top `d` blocks, tip first. -/
def disconnectNtfns (C : Content) : BlockId → Nat → List Ntfn
  | _, 0 => []
  | [], _ + 1 => []
  | n :: rest, d + 1 => .disconnected (stampOf C (n :: rest)) :: disconnectNtfns C rest d

/-- Connect `branch` on top of `base`, bottom-up. -/
def connectBranch (C : Content) (m : TxMode) : BlockId → List Nat → List Ntfn
  | _, [] => []
  | base, n :: br => connectNtfns C m (n :: base) ++ connectBranch C m (n :: base) br

def ntfnsOf (C : Content) (tip : BlockId) : Step → List Ntfn
  | .extend n m => connectNtfns C m (n :: tip)
  | .reorg d br m => disconnectNtfns C tip d ++ connectBranch C m (tip.drop d) br
  | .staleDisconnect b => [.disconnected (stampOf C b)]
  | .dupConnect => [.connected (stampOf C tip)]
  | .dupTxs h =>
    let b := ancestorAt tip h
    (C.txs b).map (fun t => .relevantTx t (some (stampOf C b)))
  | .mempoolTx t => [.relevantTx t none]

/-- Run an evolution: the backend moves, the wallet processes the induced notifications. -/
def evolve (cfg : Cfg) : Wallet × BlockId → List Step → Wallet × BlockId
  | s, [] => s
  | (w, tip), st :: rest => evolve cfg (process cfg w (ntfnsOf cfg.C tip st), stepTip tip st) rest

/-! ### Start-up: `syncWithChain` for a wallet whose birthday block is already set -/

/-- The rollback loop: `for height := syncedTo.Height; true; height--`.  Returns the stamp of the first height at
    which the remembered hash equals the backend's, and whether any height was skipped. -/
def rollbackLoop (C : Content) (w : Wallet) (tip : BlockId) : Nat → Bool → Except Err (Stamp × Bool)
  | 0, rb =>
    match w.hashes 0 with
    | none => .error .blockNotFound
    | some hash =>
      match getBlockHash tip 0 with
      | none => .error .backend
      | some ch => if hash = some ch then .ok (⟨0, some ch, C.time ch⟩, rb) else .error .blockNotFound  -- next: BlockHash(-1)
  | h + 1, rb =>
    match w.hashes (h + 1) with
    | none => .error .blockNotFound
    | some hash =>
      match getBlockHash tip (h + 1) with
      | none => .error .backend
      | some ch => if hash = some ch then .ok (⟨h + 1, some ch, C.time ch⟩, rb) else rollbackLoop C w tip h true

/-- The whole `walletdb.Update` around the loop. -/
def startupRollback (cfg : Cfg) (w : Wallet) (tip : BlockId) : Except Err Wallet :=
  match rollbackLoop cfg.C w tip w.syncedTo.height false with
  | .error e => .error e
  | .ok (stamp, rb) =>
    if rb = false then .ok w
    else
      match putSyncedTo cfg.W w stamp with
      | .error e => .error e
      | .ok w1 =>
        let w2 := if stamp.height ≤ w1.birthday.1 ∧ stamp.hash ≠ w1.birthday.2
                  then { w1 with birthday := (stamp.height, stamp.hash) } else w1
        .ok (rollbackTxs w2 (stamp.height + 1))

/-- The blocks `recovery` walks over: heights from..from+n-1 of the backend's best chain. -/
def blocksFrom (tip : BlockId) (from_ : Nat) : Nat → List BlockId
  | 0 => []
  | n + 1 => ancestorAt tip from_ :: blocksFrom tip (from_ + 1) n

/-- One batch of `Wallet.recovery` as far as C15 is concerned (every wallet transaction of the engine pays an
    address the wallet already issued, so `FilterBlocks` reports it): record the transactions of the batch's
    blocks at or above the birthday height, then `SetSyncedTo` every block; all in one database transaction. -/
def recoveryBatch (cfg : Cfg) (w : Wallet) (blocks : List BlockId) : Except Err Wallet :=
  let w1 := blocks.foldl (fun w b =>
      if w.birthday.1 ≤ b.length then
        (cfg.C.txs b).foldl (fun w t => addRelevantTx w t (some (stampOf cfg.C b))) w
      else w) w
  blocks.foldlM (fun w b => putSyncedTo cfg.W w (stampOf cfg.C b)) w1

/-- `Wallet.recovery`: heights syncedTo+1 .. best in batches of `batch` (= recoveryBatchSize) blocks.  Completed
    batches stay committed when a later one fails (`false`). -/
def recoveryRun (cfg : Cfg) (batch : Nat) (tip : BlockId) : Nat → Wallet → Wallet × Bool
  | 0, w => (w, true)
  | fuel + 1, w =>
    let from_ := w.syncedTo.height + 1
    if from_ > tip.length then (w, true)
    else
      let n := min (max batch 1) (tip.length + 1 - from_)
      match recoveryBatch cfg w (blocksFrom tip from_ n) with
      | .error _ => (w, false)
      | .ok w' => recoveryRun cfg batch tip fuel w'

/-- What the (fake) backend sends for `Rescan(from syncedTo)`: the wallet transactions of every best-chain block
    above the start … -/
def rescanTxNtfns (C : Content) (tip : BlockId) (from_ : Nat) : List Ntfn :=
  ((blocksFrom tip (from_ + 1) (tip.length - from_)).map (fun b =>
      (C.txs b).map (fun t => Ntfn.relevantTx t (some (stampOf C b))))).flatten

/-- … then `RescanFinished(tip)`. -/
def rescanNtfns (C : Content) (tip : BlockId) (from_ : Nat) : List Ntfn :=
  rescanTxNtfns C tip from_ ++ [.rescanFinished tip tip.length]

/-- `syncWithChain` of a freshly opened wallet (birthday block set) against a backend with best chain `tip`:
    the rollback loop, then recovery when `recW > 0`, then the rescan.  (Recovery used to run BEFORE the rollback
    loop and hid an offline reorg from it — found by this engine, repo-patches/fix-C15-startup-rollback-before-recovery.diff.)
    `during` = notifications the backend queues after the rescan request was evaluated and before its
    `RescanFinished` (blocks arriving meanwhile).
    `false` ⇒ `syncWithChain` returned an error and the wallet retries later (a failed rollback transaction leaves
    the database unchanged; completed recovery batches stay). -/
def startupDuring (cfg : Cfg) (recW batch : Nat) (w : Wallet) (tip : BlockId) (during : List Ntfn) : Wallet × Bool :=
  let w0 := { w with chainSynced := false }
  match startupRollback cfg w0 tip with
  | .error _ => (w0, false)
  | .ok w1 =>
    let (w2, ok) := if recW > 0 then recoveryRun cfg batch tip (tip.length + 1) w1 else (w1, true)
    if ok = false then (w2, false)
    else (process cfg w2 (rescanTxNtfns cfg.C tip w2.syncedTo.height ++ during ++ [.rescanFinished tip tip.length]), true)

def startup (cfg : Cfg) (recW batch : Nat) (w : Wallet) (tip : BlockId) : Wallet × Bool :=
  startupDuring cfg recW batch w tip []

/-- A wallet that has completed its first sync against a backend that only has the genesis block. -/
def genesisWallet (C : Content) : Wallet :=
  { syncedTo := stampOf C [], hashes := upd (fun _ => none) 0 (some (some [])), birthdaySet := true,
    birthday := (0, some []), mined := [], unmined := [], chainSynced := true }

/-! ### The notification server (wallet/notifications.go) with one registered `TransactionNotifications` client

`connectBlock` calls `notifyAttachedBlock` after a successful `SetSyncedTo`; `disconnectBlock` calls
`notifyDetachedBlock(&b.Hash)` on every path that returns nil while the wallet is chain-synced (also when the block
was not the wallet's: stale, repeated or above the tip); `addRelevantTx` calls `notifyMinedTransaction` /
`notifyUnminedTransaction` for a transaction that was not recorded yet.  The server coalesces everything into
`currentTxNtfn` and delivers it from `notifyAttachedBlock` — while the wallet is chain-synced only once the
notification holds more attached than detached blocks.  `currentTxNtfn` is plain memory: it is not rolled back when
the surrounding database transaction fails.

The layer is kept outside `Wallet` (it never influences the wallet state): `notify cfg w s n` is the server after
the handler processed `n` in wallet state `w`. -/

/-- `wallet.Block` of a `TransactionNotifications`: height, hash, ids of the transactions reported in it. -/
structure NBlock where
  height : Nat
  hash   : Hash
  txs    : List Nat
deriving DecidableEq, Repr

/-- `wallet.TransactionNotifications`: attached blocks (in the order mined), detached block hashes (tip first),
    newly added unmined transactions. -/
structure TxNtfn where
  attached : List NBlock := []
  detached : List Hash := []
  unmined  : List Nat := []
deriving DecidableEq, Repr

structure NSrv where
  cur  : Option TxNtfn := none    -- NotificationServer.currentTxNtfn
  sent : List TxNtfn := []        -- delivered to the client, oldest first
deriving Repr

def NSrv.curD (s : NSrv) : TxNtfn := s.cur.getD {}

/-- `if n == 0 || *AttachedBlocks[n-1].Hash != block.Hash { append }`. -/
def attachEntry (n : TxNtfn) (b : Stamp) : TxNtfn :=
  match n.attached.getLast? with
  | some l => if l.hash = b.hash then n else { n with attached := n.attached ++ [⟨b.height, b.hash, []⟩] }
  | none => { n with attached := [⟨b.height, b.hash, []⟩] }

def addTxToLast : List NBlock → Nat → List NBlock
  | [], _ => []
  | [b], t => [{ b with txs := b.txs ++ [t] }]
  | b :: c :: rest, t => b :: addTxToLast (c :: rest) t

/-- `notifyMinedTransaction`. -/
def notifyMined (s : NSrv) (t : Tx) (b : Stamp) : NSrv :=
  let n := attachEntry s.curD b
  { s with cur := some { n with attached := addTxToLast n.attached t.id } }

/-- `notifyUnminedTransaction`: its own notification, `currentTxNtfn` untouched. -/
def notifyUnmined (s : NSrv) (t : Tx) : NSrv := { s with sent := s.sent ++ [{ unmined := [t.id] }] }

/-- `notifyAttachedBlock` (`synced` = `wallet.ChainSynced()`). -/
def notifyAttached (synced : Bool) (s : NSrv) (b : Stamp) : NSrv :=
  let n := attachEntry s.curD b
  if synced && decide (n.attached.length ≤ n.detached.length) then { s with cur := some n }
  else { cur := none, sent := s.sent ++ [n] }

/-- `notifyDetachedBlock`. -/
def notifyDetached (s : NSrv) (h : Hash) : NSrv :=
  let n := s.curD
  { s with cur := some { n with detached := n.detached ++ [h] } }

/-- `InsertTxCheckIfExists` reports the transaction as already recorded (`addRelevantTx` returns early). -/
def txKnown (w : Wallet) (t : Tx) : Option Stamp → Bool
  | some b => w.mined.any (fun r => r.tx.id == t.id && r.height == b.height && r.hash == b.hash)
  | none => w.mined.any (fun r => r.tx.id == t.id) || w.unmined.any (fun x => x.id == t.id)

def txNotify (w : Wallet) (s : NSrv) (t : Tx) (blk : Option Stamp) : NSrv :=
  if txKnown w t blk then s
  else match blk with
    | some b => notifyMined s t b
    | none => notifyUnmined s t

/-- wallet and server side by side for one relevant transaction -/
def txStepN (blk : Option Stamp) (p : Wallet × NSrv) (t : Tx) : Wallet × NSrv :=
  (addRelevantTx p.1 t blk, txNotify p.1 p.2 t blk)

/-- The server after `handleChainNotifications` processed `n` in wallet state `w`. -/
def notify (cfg : Cfg) (w : Wallet) (s : NSrv) : Ntfn → NSrv
  | .connected b =>
    match connectBlock cfg.W w b with
    | .ok _ => notifyAttached w.chainSynced s b
    | .error _ => s
  | .disconnected b =>
    if w.chainSynced = false then s
    else match disconnectBlock cfg w b with
      | .ok _ => notifyDetached s b.hash
      | .error _ => s
  | .relevantTx t blk => txNotify w s t blk
  | .filtered b ts => (ts.foldl (txStepN (some b)) (w, s)).2
  | .rescanFinished _ _ => s

def handleN (cfg : Cfg) (p : Wallet × NSrv) (n : Ntfn) : Wallet × NSrv := (handle cfg p.1 n, notify cfg p.1 p.2 n)

def processN (cfg : Cfg) (p : Wallet × NSrv) (ns : List Ntfn) : Wallet × NSrv := ns.foldl (handleN cfg) p

/-- `recoveryBatch` with the server: the notifications of the recorded transactions stay in `currentTxNtfn` even
    when the batch's database transaction fails. -/
def recoveryBatchN (cfg : Cfg) (p : Wallet × NSrv) (blocks : List BlockId) : Except Err Wallet × NSrv :=
  let p1 := blocks.foldl (fun p b =>
      if p.1.birthday.1 ≤ b.length then (cfg.C.txs b).foldl (txStepN (some (stampOf cfg.C b))) p else p) p
  (blocks.foldlM (fun w b => putSyncedTo cfg.W w (stampOf cfg.C b)) p1.1, p1.2)

def recoveryRunN (cfg : Cfg) (batch : Nat) (tip : BlockId) : Nat → Wallet × NSrv → (Wallet × NSrv) × Bool
  | 0, p => (p, true)
  | fuel + 1, p =>
    let from_ := p.1.syncedTo.height + 1
    if from_ > tip.length then (p, true)
    else
      let n := min (max batch 1) (tip.length + 1 - from_)
      match recoveryBatchN cfg p (blocksFrom tip from_ n) with
      | (.error _, s') => ((p.1, s'), false)
      | (.ok w', s') => recoveryRunN cfg batch tip fuel (w', s')

/-- `startupDuring` with the server of the freshly opened wallet (`currentTxNtfn = nil`, client registered before
    `SynchronizeRPC`). -/
def startupDuringN (cfg : Cfg) (recW batch : Nat) (w : Wallet) (tip : BlockId) (during : List Ntfn) :
    (Wallet × NSrv) × Bool :=
  let w0 := { w with chainSynced := false }
  match startupRollback cfg w0 tip with
  | .error _ => ((w0, {}), false)
  | .ok w1 =>
    let (p2, ok) := if recW > 0 then recoveryRunN cfg batch tip (tip.length + 1) (w1, {}) else ((w1, {}), true)
    if ok = false then (p2, false)
    else (processN cfg p2 (rescanTxNtfns cfg.C tip p2.1.syncedTo.height ++ during ++ [.rescanFinished tip tip.length]), true)

/-- Run an evolution with the server. -/
def evolveN (cfg : Cfg) : (Wallet × NSrv) × BlockId → List Step → (Wallet × NSrv) × BlockId
  | s, [] => s
  | (p, tip), st :: rest => evolveN cfg (processN cfg p (ntfnsOf cfg.C tip st), stepTip tip st) rest

/-! ### Rescans on a RUNNING wallet: backend reconnects and key imports

`handleChainNotifications`, `case chain.ClientConnected`: every (re-)established backend connection runs
`syncWithChain` again on the running wallet — the rollback loop, `recovery` when a recovery window is set, then a
rescan from the synced-to block.  `chainClientSynced` is NOT touched on that path (only `RescanFinished` sets it, only
a restart clears it): a wallet that was in sync keeps processing `BlockDisconnected` while the rescan is in flight.
`ImportPrivateKey(…, rescan = true)` → `SubmitRescan` → `rescanBatchHandler` → `rescanRPCHandler` →
`chainClient.Rescan` does not touch the wallet's chain state at all.  In both cases the handler is back in its loop as
soon as the backend has accepted the rescan request; the `RelevantTx` notifications of the rescan, whatever block
notifications arrive meanwhile, and finally `RescanFinished` are ordinary notifications (`handle`).

(Seeded changes C02-4 / C15-5 call `SetChainSynced(false)` on these two paths; the model would then need
`chainSynced := false` below, and `disconnectBlock` drops every disconnect until `RescanFinished`.) -/

/-- `syncWithChain` on a wallet whose birthday block is set, against a backend with best chain `tip`, up to and
    including the `RelevantTx` notifications of its rescan; `chainSynced` as it is.  `false` ⇒ `syncWithChain` returned
    an error (the handler stays in `waitForSync`, retrying). -/
def resync (cfg : Cfg) (recW batch : Nat) (w : Wallet) (tip : BlockId) : Wallet × Bool :=
  match startupRollback cfg w tip with
  | .error _ => (w, false)
  | .ok w1 =>
    let (w2, ok) := if recW > 0 then recoveryRun cfg batch tip (tip.length + 1) w1 else (w1, true)
    if ok = false then (w2, false)
    else (process cfg w2 (rescanTxNtfns cfg.C tip w2.syncedTo.height), true)

/-- A rescan in flight on a running wallet: the notifications `pre` are processed before the backend reports the rescan
    finished, `post` afterwards.  `atCall` is the backend's best chain when the rescan was requested (`RescanFinished`
    reports its tip), `now` the backend's best chain when the wallet processes `RescanFinished` (`catchUpHashes` asks
    the backend for the hashes). -/
def rescanInFlight (cfg : Cfg) (w : Wallet) (atCall now : BlockId) (pre post : List Ntfn) : Wallet :=
  process cfg w (pre ++ [.rescanFinished now atCall.length] ++ post)

/-- `resync` with the notification server of the running wallet (it keeps its `currentTxNtfn`). -/
def resyncN (cfg : Cfg) (recW batch : Nat) (p : Wallet × NSrv) (tip : BlockId) : (Wallet × NSrv) × Bool :=
  match startupRollback cfg p.1 tip with
  | .error _ => (p, false)
  | .ok w1 =>
    let (p2, ok) := if recW > 0 then recoveryRunN cfg batch tip (tip.length + 1) (w1, p.2) else ((w1, p.2), true)
    if ok = false then (p2, false)
    else (processN cfg p2 (rescanTxNtfns cfg.C tip p2.1.syncedTo.height), true)

/-! ### `Wallet.GetTransactions` at the level of records (C13, wallet level)

`wallet.GetTransactions(start, end)` runs `wtxmgr.RangeTransactions(start, end)` and converts every batch the store hands
to the callback to one `Block` of `MinedTransactions` (or to `UnminedTransactions`).  The store visits the block records
(one per height holding a wallet transaction) ascending when `begin < end`, otherwise descending, a negative bound
standing for the mempool height (`math.MaxInt32`), and reports the unmined batch iff one of the bounds is negative
(`rangeBlockTransactions` / `RangeTransactions`, wtxmgr/query.go; the store itself is C13's `TxStore` model). -/

/-- insertion into an ascending list (structural, so that `decide` evaluates it) -/
def insSorted (a : Nat) : List Nat → List Nat
  | [] => [a]
  | b :: l => if a ≤ b then a :: b :: l else b :: insSorted a l

def sortNat (l : List Nat) : List Nat := l.foldr insSorted []

/-- insertion into a strictly ascending list, an element already present is not inserted again -/
def insUniq (a : Nat) : List Nat → List Nat
  | [] => [a]
  | b :: l => if a < b then a :: b :: l else if a = b then b :: l else b :: insUniq a l

def heightsOf (l : List Nat) : List Nat := l.foldr insUniq []

/-- the heights that have a block record, strictly ascending -/
def recordHeights (w : Wallet) : List Nat := heightsOf (w.mined.map (·.height))

def maxInt32 : Nat := 2147483647

def rangeBound (x : Int) : Nat := if x < 0 then maxInt32 else x.toNat

/-- transaction ids reported under the block at height `h` (ascending: the canonical form of the engine) -/
def txsAt (w : Wallet) (h : Nat) : List Nat := sortNat ((w.mined.filter (fun r => r.height == h)).map (·.tx.id))

structure TxsResult where
  mined   : List (Nat × List Nat)   -- `MinedTransactions`: (height, tx ids) in the order the blocks are reported
  unmined : List Nat                -- `UnminedTransactions`
deriving DecidableEq, Repr

def getTransactions (w : Wallet) (from_ to : Int) : TxsResult :=
  let b := rangeBound from_
  let e := rangeBound to
  let hs := recordHeights w
  let blocks := if b < e then hs.filter (fun h => decide (b ≤ h) && decide (h ≤ e))
                else (hs.filter (fun h => decide (e ≤ h) && decide (h ≤ b))).reverse
  { mined := blocks.map fun h => (h, txsAt w h)
    unmined := if from_ < 0 ∨ to < 0 then sortNat (w.unmined.map (·.id)) else [] }

/-- height `h` lies in the range of `GetTransactions(from, to)` (either direction; a negative bound = mempool height) -/
def InRange (from_ to : Int) (h : Nat) : Prop :=
  (rangeBound from_ ≤ h ∧ h ≤ rangeBound to) ∨ (rangeBound to ≤ h ∧ h ≤ rangeBound from_)

/-- the block heights reported, in order -/
def reportedHeights (w : Wallet) (from_ to : Int) : List Nat := (getTransactions w from_ to).mined.map (·.1)

end SyncTip
