import BtcwVerif.Model.AddrDeriveStep
/-!
# AddrWallet — the wallet-level entry point of the watching-only conversion (C04, last sentence)

`wallet.Wallet.InitAccounts(scope, watchOnly, num)` (wallet/wallet.go) is the only caller of
`Manager.ConvertToWatchingOnly` above the address manager.  In one database transaction it

1. walks the accounts `1 … num`; an account whose row exists (`AccountName` succeeds) is skipped, a missing one is
   created with `NewRawAccount(account)`;
2. **then**, if `watchOnly`, converts the manager (`ConvertToWatchingOnly`) — whether or not step 1 created anything.

The model composes the manager operations of `AddrDerive`: a missing account `a` is created by the `newAccount`
operation under the name `rawName a` ("act:a").  (`NewRawAccount(a)` is `newAccount(ns, a, "act:a")`; for a scope whose
accounts were only ever created in ascending order — `InitAccounts` itself, `NewAccount` — the number
`lastaccount + 1` handed out by the `newAccount` operation is exactly the first missing `a`.)  An error stops the
walk; every error of `newAccount` (locked, watching-only, duplicate name) is raised before its first write, so the
roll-back of the Go transaction has nothing to undo.
-/
namespace AddrDerive
open AddrSym

variable {K P : Type} [DecidableEq K] [DecidableEq P]

/-- the name `NewRawAccount` gives account `a` ("act:a"); kept apart from the small numbers the engine uses -/
def rawName (a : Nat) : Nat := 1000000 + a

def hasAcct (s : State K P) (sc : Scope) (a : Nat) : Bool :=
  match getSD s sc with
  | some sd => (alookup sd.accts a).isSome
  | none => false

/-- the accounts `from … num` that have no row (`AccountName` fails) -/
def missingAccts (s : State K P) (sc : Scope) : Nat → Nat → List Nat
  | 0, _ => []
  | n + 1, a => if hasAcct s sc a then missingAccts s sc n (a + 1) else a :: missingAccts s sc n (a + 1)

/-- step 1: create the missing accounts in ascending order, stop at the first error -/
def createMissing (cfg : Cfg) (hd : HD K P) (sc : Scope) : List Nat → State K P → List Row → State K P × Res K × List Row
  | [], s, rows => (s, .ok, rows)
  | a :: t, s, rows =>
    let r := step cfg hd s (.newAccount sc (rawName a))
    match r.2.1 with
    | .acct _ => createMissing cfg hd sc t r.1 (rows ++ r.2.2)
    | e => (r.1, e, rows ++ r.2.2)

/-- `Wallet.InitAccounts(scope, watchOnly, num)` -/
def opInitAccounts (cfg : Cfg) (hd : HD K P) (s : State K P) (sc : Scope) (watchOnly : Bool) (num : Nat) :
    State K P × Res K × List Row :=
  let r := createMissing cfg hd sc (missingAccts s sc num 1) s []
  match r.2.1 with
  | .ok =>
    if watchOnly then
      let c := step cfg hd r.1 .convertWO
      (c.1, c.2.1, r.2.2 ++ c.2.2)
    else r
  | _ => r

end AddrDerive
