import BtcwVerif.Model.AddrSym
/-!
# AddrDerive — address derivation / key bookkeeping of `waddrmgr` (C03) with the symbolic write stream (C04)

Mirrors `waddrmgr/scoped_manager.go` (`loadAccountInfo`, `nextAddresses`, `extendAddresses`, `loadAndCacheAddress`,
`chainAddressRowToManaged`, `DeriveFromKeyPath`, `newAccount`, `newAccountWatchingOnly`, `ImportPrivateKey`,
`ImportPublicKey`, `importScriptAddress`, `MarkUsed`), `waddrmgr/manager.go` (`Create`, `createManagerKeyScope`,
`NewScopedKeyManager`, `lock`, `Lock`, `Unlock`, `ChangePassphrase`, `ConvertToWatchingOnly`, `loadManager`),
`waddrmgr/address.go` (`managedAddress.PrivKey`, `DerivationInfo`, `scriptAddress.Script`,
`witnessScriptAddress.Script`) and the `put*`/`deletePrivateKeys` functions of `waddrmgr/db.go`.

Key material is abstract: `HD K P` gives hardened/normal private child derivation (btcsuite's legacy rule lives
inside `child`), neutering and public child derivation.  Every operation runs in its own committed database
transaction (roll-backs are C08's subject).  Managed address objects live in a heap because the Go code mutates
them in place (`Unlock` fills in keys of addresses created while locked; `ConvertToWatchingOnly` strips them).
-/
namespace AddrDerive
open AddrSym

def H : Nat := 2147483648
def importedAcct : Nat := 2147483647
def maxAddrs : Nat := 2147483647

/-- Defects the Go code used to have (DESIGN §7); every one of them is fixed in the official tree (fd5efc1, 37f56ec,
    2a11dd6, b81a3ff, b93c391).  The property theorems and the differential run use `Cfg.fixed` only; the `true`
    branches survive for the counter-example theorems, which document what reverting a fix breaks. -/
structure Cfg where
  f3 : Bool := false  -- `extendAddresses`: `watchOnly := … || acctKeyPriv != nil` (inverted test, DESIGN §7 F3)
  f2 : Bool := false  -- `Unlock` tries to decrypt the nil key of a cached watch-only account and fails (F2)
  u2 : Bool := false  -- `Unlock` dereferences a nil private key for a derive-on-unlock entry of a watch-only account
  o1 : Bool := false  -- `cryptoKeyScript` is the all-zero key (never restored by `Unlock`/`loadManager`) (O1)
  t1 : Bool := false  -- `deletePrivateKeys` leaves secret taproot script rows in place
  l1 : Bool := false  -- `NewScopedKeyManager` writes no `lastaccount` row: the first new account of the scope is 0 again
  e1 : Bool := false  -- `extendAddresses` leaves `MasterKeyFingerprint` zero in the derivation path of the objects it caches
  deriving Repr, Inhabited, DecidableEq

/-- the official tree: no defect -/
abbrev Cfg.fixed : Cfg := {}

structure HD (K P : Type) where
  child : K → Nat → Option K
  neuter : K → P
  pubChild : P → Nat → Option P

/-- the only law used: public derivation commutes with neutering for non-hardened indices -/
def HD.Lawful {K P : Type} (hd : HD K P) : Prop :=
  ∀ k i, i < H → (hd.child k i).map hd.neuter = hd.pubChild (hd.neuter k) i

inductive AddrType
  | pkh | script | rawpk | np2wkh | p2wkh | wscript | p2tr | trscript
  deriving DecidableEq, Repr, Inhabited

def AddrType.code : AddrType → Nat
  | .pkh => 0 | .script => 1 | .rawpk => 2 | .np2wkh => 3 | .p2wkh => 4 | .wscript => 5 | .p2tr => 6 | .trscript => 7

def AddrType.ofCode : Nat → Option AddrType
  | 0 => some .pkh | 3 => some .np2wkh | 4 => some .p2wkh | 6 => some .p2tr | _ => none

structure Schema where
  ext : AddrType
  int : AddrType
  deriving DecidableEq, Repr, Inhabited

abbrev Scope := Nat × Nat

inductive Priv (K : Type)
  | hd (k : K)
  | imp (id : Nat)
  deriving DecidableEq, Repr

inductive Pub (P : Type)
  | hd (p : P)
  | imp (id : Nat)
  deriving DecidableEq, Repr

def pubOf {K P : Type} (hd : HD K P) : Priv K → Pub P
  | .hd k => .hd (hd.neuter k)
  | .imp i => .imp i

/-- which bytes identify the address (`ScriptAddress()`): hash160(pubkey) for p2pkh and p2wkh alike, the nested
    script hash, or the x-only taproot output key -/
def idClass : AddrType → Nat
  | .np2wkh => 1 | .p2tr => 2 | _ => 0

inductive AddrId (P : Type)
  | key (p : Pub P) (cls : Nat) (compressed : Bool)
  | scr (id : Nat) (kind : Nat)
  deriving DecidableEq, Repr

structure KeyObj (K P : Type) where
  scope : Scope
  acct : Nat            -- DerivationPath.InternalAccount
  acctChild : Nat       -- DerivationPath.Account
  branch : Nat
  index : Nat
  fp : Nat              -- MasterKeyFingerprint
  pub : Pub P
  privEnc : Option (Priv K)   -- privKeyEncrypted (what it decrypts to); none = no private key attached
  typ : AddrType
  imported : Bool
  internal : Bool
  compressed : Bool
  acctPub : Option P    -- ghost: the account key this address was derived from (none for imported keys)
  hasPrivAcct : Bool    -- ghost: the account had an encrypted private key when the object was built

structure ScrObj where
  scope : Scope
  id : Nat
  kind : Nat            -- 0 p2sh, 1 p2wsh, 2 p2tr script
  secret : Bool
  encKey : Option KeyClass   -- scriptEncrypted: sealed under which key; none = stripped
  deriving Repr

inductive Obj (K P : Type)
  | key (o : KeyObj K P)
  | scr (o : ScrObj)

structure AcctInfo (K P : Type) where
  keyEnc : Option K     -- acctKeyEncrypted (plaintext it stands for); none = empty
  keyPub : P
  keyPriv : Option K
  nextExt : Nat
  nextInt : Nat
  schema : Option Schema
  fp : Nat
  childIdx : Nat
  name : Nat

inductive AcctRow (K P : Type)
  | dflt (pub : P) (priv : Option K) (nextExt nextInt name : Nat)
  | wo (pub : P) (fp nextExt nextInt name : Nat) (schema : Option Schema) (childIdx : Nat)

inductive AddrRow
  | chain (acct branch index : Nat)
  | imp (id : Nat) (compressed : Bool) (hasPriv : Bool)
  | scr (id kind : Nat) (secret : Bool) (encKey : Option KeyClass)
  deriving Repr, DecidableEq

structure ScopeDisk (K P : Type) where
  schema : Schema
  coinPriv : Option K
  accts : List (Nat × AcctRow K P)
  addrs : List (AddrId P × AddrRow)
  used : List (AddrId P)
  lastAcct : Option Nat     -- `lastaccount` meta row; absent in scopes made by `NewScopedKeyManager`

structure Disk (K P : Type) where
  watchOnly : Bool
  rootPriv : Option K
  privPass : Option Nat
  pubPass : Nat
  scopes : List (Scope × ScopeDisk K P)

structure ScopeMem (K P : Type) where
  schema : Schema
  acctInfo : List (Nat × AcctInfo K P)
  addrs : List (AddrId P × Nat)
  dou : List (Nat × Nat × Nat)      -- deriveOnUnlock: (heap index, branch, index)

structure Mem (K P : Type) where
  locked : Bool
  watchOnly : Bool
  privPass : Option Nat
  scopes : List (Scope × ScopeMem K P)
  heap : List (Obj K P)
  handles : List (Nat × Nat)

structure State (K P : Type) where
  created : Bool
  poisoned : Bool
  root : Option K                      -- ghost: the seed's master key given to `Create`
  disk : Disk K P
  mem : Mem K P
  imports : List (Scope × Nat × P)     -- ghost: account keys given to `NewAccountWatchingOnly`

inductive Op (K P : Type)
  | create (root : K)
  | unlock (pass : Nat)
  | lock
  | changePass (priv : Bool) (old new : Nat)
  | newScope (sc : Scope) (schema : Schema)
  | newAccount (sc : Scope) (name : Nat)
  | newAccountWO (sc : Scope) (name : Nat) (xpub : P) (childIdx fp : Nat) (schema : Option Schema)
  | next (sc : Scope) (acct n : Nat) (internal : Bool) (hbase : Nat)
  | extend (sc : Scope) (acct last : Nat) (internal : Bool)
  | lookup (sc : Scope) (id : AddrId P) (h : Nat)
  | markUsed (sc : Scope) (id : AddrId P) (desc : String)   -- desc: descriptor used when the address has no row
  | derive (sc : Scope) (acct acctChild branch index : Nat) (h : Nat)
  | importPriv (sc : Scope) (id : Nat) (compressed : Bool) (h : Nat)
  | importPub (sc : Scope) (id : Nat) (h : Nat)
  | importScript (sc : Scope) (id kind : Nat) (secret : Bool) (h : Nat)
  | privKey (h : Nat)
  | script (h : Nat)
  | info (h : Nat)
  | props (sc : Scope) (acct : Nat)
  | restart
  | convertWO
  | deriveCache (sc : Scope) (acct acctChild branch index : Nat)   -- `DeriveFromKeyPathCache` (no database access)
  | rename (sc : Scope) (acct name : Nat)                          -- `RenameAccount`

inductive Err
  | locked | watchOnly | wrongPass | crypto | notFound | acctNotFound | dupAddr | dupAcct | tooMany
  | invalidAcct | keyChain | scopeNotFound | badHandle | notKey | notScript | other | notCreated | poisoned
  | notCached
  deriving DecidableEq, Repr

def Err.str : Err → String
  | .locked => "locked" | .watchOnly => "watchonly" | .wrongPass => "wrongpass" | .crypto => "crypto"
  | .notFound => "notfound" | .acctNotFound => "acctnotfound" | .dupAddr => "dupaddr" | .dupAcct => "dupacct"
  | .tooMany => "toomany" | .invalidAcct => "invalidacct" | .keyChain => "keychain"
  | .scopeNotFound => "scopenotfound" | .badHandle => "badhandle" | .notKey => "notkey"
  | .notScript => "notscript" | .other => "other" | .notCreated => "notcreated" | .poisoned => "poisoned"
  | .notCached => "notcached"

/-- what an address object reports about itself (`DerivationInfo`, `Internal`, `Imported`, `AddrType`, …) -/
structure Info where
  scope : Scope
  acct : Nat
  acctChild : Nat
  branch : Nat
  index : Nat
  fp : Nat
  typ : Nat
  imported : Bool
  internal : Bool
  compressed : Bool
  isScript : Bool
  deriving DecidableEq, Repr

inductive Res (K : Type)
  | err (e : Err)
  | panic
  | ok
  | acct (n : Nat)
  | addrs (l : List Info)
  | addr (i : Info)
  | key (k : Priv K)
  | script (id : Nat)
  | props (nextExt nextInt name : Nat) (watchOnly : Bool)

-- ---------------------------------------------------------------------------------------------------------
-- association lists

def alookup {α β : Type} [DecidableEq α] : List (α × β) → α → Option β
  | [], _ => none
  | (k, v) :: t, a => if k = a then some v else alookup t a

/-- replace the first binding of `a` (or add one in front) -/
def aset {α β : Type} [DecidableEq α] : List (α × β) → α → β → List (α × β)
  | [], a, b => [(a, b)]
  | (k, v) :: t, a, b => if k = a then (a, b) :: t else (k, v) :: aset t a b

def aerase {α β : Type} [DecidableEq α] : List (α × β) → α → List (α × β)
  | [], _ => []
  | (k, v) :: t, a => if k = a then aerase t a else (k, v) :: aerase t a

def setAt {α : Type} : List α → Nat → α → List α
  | [], _, _ => []
  | _ :: t, 0, a => a :: t
  | h :: t, n + 1, a => h :: setAt t n a

end AddrDerive
