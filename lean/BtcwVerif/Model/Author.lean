/-
Model of /repo/wallet/txauthor/author.go `NewUnsignedTransaction` (C07), of the input sources of
/repo/wallet/createtx.go (`makeInputSource`, `constantInputSource`) and of the BIP-141 serialised size of the signed
result.

* Size / fee / dust arithmetic is NOT written here: it comes from `Gen/SizesGen.lean`, regenerated from the Go AST on
  every run (`genCfg`).  The loop is parameterised over that arithmetic (`Cfg`) so that theorems can also speak about
  historical variants (the pre-fix estimator) without touching the model.
* The Go loop is `for { … }`; an arbitrary input source may make it run forever, so the model takes fuel.  For the
  wallet's own source (`prefixSource`) `coins.length + 2` iterations always suffice (theorem `C07_terminates`).
* Amounts are unbounded `Int` (Go int64; guard: DESIGN.md section 4).
-/
import BtcwVerif.Model.SizesExt
import BtcwVerif.Gen.SizesGen

namespace Author
open SizesExt

/-- An offered coin: what an `InputSource` reports for one input (value, previous pkScript). -/
structure Coin where
  value  : Int
  script : Script
deriving Repr, DecidableEq, Inhabited

/-- The four input classes of author.go's `switch` over `scripts`. -/
inductive Kind where
  | p2pkh | p2tr | p2wpkh | nested
deriving Repr, DecidableEq, Inhabited

/-- author.go: `case IsPayToScriptHash: nested++; case IsPayToWitnessPubKeyHash: p2wpkh++; case IsPayToTaproot:
    p2tr++; default: p2pkh++`. -/
def classify (s : Script) : Kind :=
  if txscript_IsPayToScriptHash s then .nested
  else if txscript_IsPayToWitnessPubKeyHash s then .p2wpkh
  else if txscript_IsPayToTaproot s then .p2tr
  else .p2pkh

/-- number of coins of class `k` (the four counters of the Go loop). -/
def count (k : Kind) : List Coin → Int
  | [] => 0
  | c :: cs => (if classify c.script = k then 1 else 0) + count k cs

def sumCoins : List Coin → Int
  | [] => 0
  | c :: cs => c.value + sumCoins cs

def sumOuts : List TxOut → Int
  | [] => 0
  | o :: os => o.Value + sumOuts os

/-- The arithmetic the loop calls into. -/
structure Cfg where
  /-- txsizes.EstimateVirtualSize(p2pkh, p2tr, p2wpkh, nested, outputs, changeScriptSize) -/
  est       : Int → Int → Int → Int → List TxOut → Int → Int
  /-- txrules.FeeForSerializeSize(rate, size) -/
  feeFor    : Int → Int → Int
  /-- txrules.IsDustOutput(change, txrules.DefaultRelayFeePerKb) -/
  isDust    : TxOut → Bool
  /-- input counts of the first estimate, made before any input is known -/
  init      : Int × Int × Int × Int
  /-- txauthor.SumOutputValues -/
  sumValues : List TxOut → Int

/-- The arithmetic of the CURRENT working tree (regenerated). -/
def genCfg : Cfg where
  est       := SizesGen.EstimateVirtualSize
  feeFor    := SizesGen.FeeForSerializeSize
  isDust    := fun o => SizesGen.IsDustOutput o SizesGen.DefaultRelayFeePerKb
  init      := SizesGen.NewUnsignedTransaction_initialCounts
  sumValues := SizesGen.SumOutputValues

/-- txauthor.ChangeSource: declared `ScriptSize` and the script `NewScript()` returns (`none` = it fails). -/
structure ChangeSource where
  scriptSize : Int
  script     : Option Script
deriving Repr, DecidableEq

/-- What one `fetchInputs(target)` call returns when it does not fail. -/
structure Fetch where
  total : Int
  coins : List Coin
deriving Repr, DecidableEq

/-- An input source is a state machine (the Go closures keep state between calls). `none` = the source returned an
    error. -/
structure Source (σ : Type) where
  fetch : σ → Int → σ × Option Fetch

inductive Err where
  | source | insufficient | changeScript
deriving Repr, DecidableEq

/-- `AuthoredTx`. -/
structure Result where
  inputs    : List Coin          -- PrevScripts / PrevInputValues (one entry per TxIn)
  total     : Int                -- TotalInput
  outs      : List TxOut         -- Tx.TxOut
  changeIdx : Option Nat         -- ChangeIndex (`none` = -1)
deriving Repr, DecidableEq

inductive Outcome where
  | fuel
  | err (e : Err)
  | ok (r : Result)
deriving Repr, DecidableEq

/-- The body of `for { … }` in NewUnsignedTransaction, with the list of targets passed to `fetchInputs` so far
    (observable on the Go side through the source) as a trace. -/
def loop {σ : Type} (cfg : Cfg) (src : Source σ) (outs : List TxOut) (rate : Int) (cs : ChangeSource) :
    Nat → σ → Int → List Int → Outcome × List Int
  | 0, _, _, tr => (.fuel, tr)
  | fuel + 1, s, targetFee, tr =>
    let targetAmount := cfg.sumValues outs
    let tr := tr ++ [targetAmount + targetFee]
    match src.fetch s (targetAmount + targetFee) with
    | (_, none) => (.err .source, tr)
    | (s', some f) =>
      if f.total < targetAmount + targetFee then (.err .insufficient, tr)
      else
        let maxSignedSize := cfg.est (count .p2pkh f.coins) (count .p2tr f.coins) (count .p2wpkh f.coins)
          (count .nested f.coins) outs cs.scriptSize
        let maxRequiredFee := cfg.feeFor rate maxSignedSize
        let remainingAmount := f.total - targetAmount
        if remainingAmount < maxRequiredFee then
          loop cfg src outs rate cs fuel s' maxRequiredFee tr
        else
          let changeAmount := f.total - targetAmount - maxRequiredFee
          match cs.script with
          | none => (.err .changeScript, tr)
          | some script =>
            let change : TxOut := ⟨changeAmount, script⟩
            if changeAmount ≠ 0 ∧ ¬ (cfg.isDust change = true) then
              (.ok ⟨f.coins, f.total, outs ++ [change], some outs.length⟩, tr)
            else
              (.ok ⟨f.coins, f.total, outs, none⟩, tr)

/-- NewUnsignedTransaction with arithmetic `cfg`. -/
def newUnsignedWith {σ : Type} (cfg : Cfg) (src : Source σ) (s0 : σ) (outs : List TxOut) (rate : Int)
    (cs : ChangeSource) (fuel : Nat) : Outcome × List Int :=
  let estimatedSize := cfg.est cfg.init.1 cfg.init.2.1 cfg.init.2.2.1 cfg.init.2.2.2 outs cs.scriptSize
  let targetFee := cfg.feeFor rate estimatedSize
  loop cfg src outs rate cs fuel s0 targetFee []

/-- NewUnsignedTransaction of the current working tree. -/
def newUnsigned {σ : Type} (src : Source σ) (s0 : σ) (outs : List TxOut) (rate : Int) (cs : ChangeSource)
    (fuel : Nat) : Outcome :=
  (newUnsignedWith genCfg src s0 outs rate cs fuel).1

/-! ### Input sources of wallet/createtx.go -/

/-- State of `makeInputSource`'s closure: running total, inputs handed out so far, coins not yet used. -/
structure PState where
  total : Int
  taken : List Coin
  rest  : List Coin
deriving Repr, DecidableEq

/-- `for currentTotal < target && len(eligible) != 0 { take eligible[0] }` -/
def fill (target : Int) (total : Int) (taken : List Coin) : List Coin → PState
  | [] => ⟨total, taken, []⟩
  | c :: rest =>
    if total < target then fill target (total + c.value) (taken ++ [c]) rest
    else ⟨total, taken, c :: rest⟩

/-- wallet.makeInputSource -/
def prefixSource : Source PState where
  fetch s target :=
    let s' := fill target s.total s.taken s.rest
    (s', some ⟨s'.total, s'.taken⟩)

def prefixInit (coins : List Coin) : PState := ⟨0, [], coins⟩

/-- wallet.constantInputSource: always the same, user-selected, set. -/
def constSource : Source (List Coin) where
  fetch s _ := (s, some ⟨sumCoins s, s⟩)

/-- Harness-only wrapper: the `k`-th call (1-based) fails; `k = 0` never fails. -/
def failingAt {σ : Type} (src : Source σ) (k : Nat) : Source (Nat × σ) where
  fetch st target :=
    let n := st.1 + 1
    if n = k then ((n, st.2), none)
    else
      let (s', r) := src.fetch st.2 target
      ((n, s'), r)

/-- The author as the wallet runs it: `makeInputSource(coins)`. -/
def authorPrefix (coins : List Coin) (outs : List TxOut) (rate : Int) (cs : ChangeSource) : Outcome :=
  newUnsigned prefixSource (prefixInit coins) outs rate cs (coins.length + 2)

/-! ### BIP-141 size of the signed transaction (byte-accurate for the four key-spend input classes)

`sig` is the length of the bare signature of that input: DER length for the three ECDSA classes (the sighash byte
is added here), 64 or 65 for a taproot key spend (65 = explicit sighash byte).  Public keys are compressed (33). -/

/-- size of a canonical data push of `n` bytes -/
def pushSize (n : Int) : Int :=
  if n ≤ 75 then 1 + n else if n ≤ 255 then 2 + n else if n ≤ 65535 then 3 + n else 5 + n

/-- signature-script length -/
def sigScriptLen (k : Kind) (sig : Int) : Int :=
  match k with
  | .p2pkh  => pushSize (sig + 1) + pushSize 33
  | .nested => pushSize 22
  | .p2wpkh => 0
  | .p2tr   => 0

/-- non-witness serialisation of one input: outpoint 36 + var-int + sigScript + sequence 4 -/
def inputBase (k : Kind) (sig : Int) : Int :=
  36 + wire_VarIntSerializeSize (sigScriptLen k sig) + sigScriptLen k sig + 4

/-- witness serialisation of one input inside a segwit transaction (item count first) -/
def inputWitness (k : Kind) (sig : Int) : Int :=
  match k with
  | .p2pkh  => 1
  | .nested => 1 + (1 + (sig + 1)) + (1 + 33)
  | .p2wpkh => 1 + (1 + (sig + 1)) + (1 + 33)
  | .p2tr   => 1 + (1 + sig)

def sumInputBase : List (Kind × Int) → Int
  | [] => 0
  | (k, s) :: r => inputBase k s + sumInputBase r

def sumInputWitness : List (Kind × Int) → Int
  | [] => 0
  | (k, s) :: r => inputWitness k s + sumInputWitness r

def hasWitness : List (Kind × Int) → Bool
  | [] => false
  | (k, _) :: r => k != .p2pkh || hasWitness r

def sumOutSizes : List TxOut → Int
  | [] => 0
  | o :: os => o.SerializeSize + sumOutSizes os

/-- stripped size: version 4, input count, inputs, output count, outputs, locktime 4 -/
def realBaseSize (ins : List (Kind × Int)) (outs : List TxOut) : Int :=
  4 + wire_VarIntSerializeSize ins.length + sumInputBase ins + wire_VarIntSerializeSize outs.length
    + sumOutSizes outs + 4

/-- BIP-141 weight = 3 * stripped size + total size; total = stripped + marker/flag + witnesses (if any). -/
def realWeight (ins : List (Kind × Int)) (outs : List TxOut) : Int :=
  let b := realBaseSize ins outs
  let w := if hasWitness ins then 2 + sumInputWitness ins else 0
  3 * b + (b + w)

/-- mempool.GetTxVirtualSize = ceil(weight / 4) -/
def realVSize (ins : List (Kind × Int)) (outs : List TxOut) : Int :=
  (realWeight ins outs + 3) / 4

/-- pair every input of a result with the length of its signature -/
def signedInputs (r : Result) (sigs : List Int) : List (Kind × Int) :=
  (r.inputs.map (fun c => classify c.script)).zip sigs

/-- the fee the transaction really pays -/
def Result.fee (r : Result) : Int := sumCoins r.inputs - sumOuts r.outs

/-! ### wallet-level change script size (op `wchange`, round-4 seed C07-6)

`Wallet.addrMgrWithChangeSource` hands txauthor the size of the change script of the ACCOUNT's internal address type
(the account's address-schema override wins over the scope default).  One coin, one P2WPKH payment, change exists. -/

/-- imported account kinds: traditional BIP-0049 (override: nested everywhere), BIP-0049Plus, BIP-0084 -/
inductive AcctKind where
  | imp49n | imp49p | imp84
deriving Repr, DecidableEq

def AcctKind.ofString (s : String) : Option AcctKind :=
  if s == "imp49n" then some .imp49n else if s == "imp49p" then some .imp49p
  else if s == "imp84" then some .imp84 else none

/-- size of the account's REAL change script: nested P2WPKH (P2SH, 23) for the traditional BIP-0049 account -/
def AcctKind.changeSize : AcctKind → Int
  | .imp49n => 23 | .imp49p => 22 | .imp84 => 22

/-- the receive (funding) script is nested P2WPKH except for BIP-0084 -/
def AcctKind.nestedInput : AcctKind → Bool
  | .imp84 => false | _ => true

/-- the estimate txauthor prices: one input of the account's receive type, the payment, the true change size -/
def walletChangeEstimate (k : AcctKind) (outs : List TxOut) : Int :=
  SizesGen.EstimateVirtualSize 0 0 (if k.nestedInput then 0 else 1) (if k.nestedInput then 1 else 0) outs k.changeSize

def walletChangeFee (k : AcctKind) (rate : Int) (outs : List TxOut) : Int :=
  SizesGen.FeeForSerializeSize rate (walletChangeEstimate k outs)

end Author
