/-!
# Publish — model of the broadcast path (C20)

* `Store`                       — the unconfirmed part of `wtxmgr` (buckets `m`, `mc`, `mi`) as a list of unconfirmed
                                  transactions with their spend edges, plus the ids of confirmed transactions.
* `insert`                      — `insertMemPoolTx` as reached from `addRelevantTx` (`InsertTxCheckIfExists`).
* `removeWithDescendants`       — `RemoveUnminedTx` = `removeConflict`: the record and, recursively, every unconfirmed
                                  transaction spending one of its outputs.
* `classify`                    — `chain/errors.go`: raw backend text ↦ sentinel class (`MapRPCErr` of the bitcoind
                                  client, resp. of the btcd/neutrino client), as far as `publishTransaction` cares.
* `publishTransaction`          — `(*Wallet).publishTransaction`.
* `publish`                     — `(*Wallet).reliablyPublishTransaction` (tree with fix fd54ea7; `publishUnfixed` is the
                                  code before that commit, finding F10).
* `resendList`, `resend`        — `resendUnminedTxs` after every `RescanFinished`: `UnminedTxs` (dependency sorted) offered
                                  one by one through `publishTransaction`.

Core Lean only.
-/
namespace Publish

abbrev OutPoint := Nat × Nat

/-- An unconfirmed transaction record. `credits` are the outputs credited to the wallet (index, amount). -/
structure UTx where
  id : Nat
  ins : List OutPoint
  credits : List (Nat × Int)
deriving DecidableEq, Repr

structure Store where
  /-- ids of transactions recorded in a block (`TxDetails` finds them) -/
  minedIds : List Nat
  /-- bucket `m`, in insertion order -/
  unmined : List UTx
deriving DecidableEq, Repr

def UTx.spends (u : UTx) (id : Nat) : Bool := u.ins.any (·.1 == id)

def Store.has (s : Store) (id : Nat) : Bool := s.unmined.any (·.id == id)

/-- `insertMemPoolTx` via `InsertTxCheckIfExists`: a transaction that is already recorded (confirmed or not) is left
alone (`ErrDuplicateTx` → `exists`), otherwise the record and its spend marks are added. -/
def insert (s : Store) (tx : UTx) : Store :=
  if s.minedIds.contains tx.id || s.has tx.id then s else { s with unmined := s.unmined ++ [tx] }

/-! ## removeConflict -/

/-- One sweep: add every unconfirmed transaction that spends an output of a transaction already in `R`. -/
def closeStep (U : List UTx) (R : List Nat) : List Nat :=
  R ++ (U.filter fun u => !R.contains u.id && u.ins.any (fun i => R.contains i.1)).map (·.id)

def closure (U : List UTx) : Nat → List Nat → List Nat
  | 0, R => R
  | n + 1, R => closure U n (closeStep U R)

/-- ids removed by `removeConflict(rec)`: `rec` and its unconfirmed spend chain. -/
def doomed (s : Store) (id : Nat) : List Nat := closure s.unmined s.unmined.length [id]

def removeWithDescendants (s : Store) (id : Nat) : Store :=
  { s with unmined := s.unmined.filter fun u => !(doomed s id).contains u.id }

/-- `removeConflict` transcribed literally: depth-first over the unconfirmed spenders of the record's outputs
(`fetchUnminedInputSpendTxHashes`, read before recursing; a spender already removed by an earlier branch is skipped:
`existsRawUnmined == nil`), the record itself deleted last.  `fuel` bounds the recursion depth.  The theorems are
stated about `removeWithDescendants` (the descendant closure); the driver evaluates both on every store it meets and
answers `model-mismatch` if they ever differ. -/
def removeConflictDFS : Nat → Store → Nat → Store
  | 0, s, _ => s
  | fuel + 1, s, id =>
    let spenders := s.unmined.filter (·.spends id)
    let s1 := spenders.foldl (fun s sp => if s.has sp.id then removeConflictDFS fuel s sp.id else s) s
    { s1 with unmined := s1.unmined.filter (·.id != id) }

/-! ## chain/errors.go -/

inductive Class | inMempool | alreadyKnown | alreadyConfirmed | other
deriving DecidableEq, Repr

/-- `RPCErr(0) … RPCErr(errSentinel-1)` with their `Error()` strings, in `iota` order (bitcoind wording). -/
def bitcoindTable : List (String × Class) := [
  ("bad txns inputs missingorspent", .other),
  ("Unspendable output exceeds maximum configured by user (maxburnamount)", .other),
  ("max fee exceeded", .other),
  ("txn already known", .alreadyKnown),
  ("Transaction already in block chain", .alreadyConfirmed),
  ("txn mempool conflict", .other),
  ("replacement adds unconfirmed", .other),
  ("insufficient fee", .other),
  ("too many potential replacements", .other),
  ("mempool min fee not met", .other),
  ("bad txns spends conflicting tx", .other),
  ("bad txns vout empty", .other),
  ("bad txns vin empty", .other),
  ("tx size small", .other),
  ("bad txns inputs duplicate", .other),
  ("bad txns prevout null", .other),
  ("bad txns in belowout", .other),
  ("bad txns vout negative", .other),
  ("bad txns vout toolarge", .other),
  ("bad txns txouttotal toolarge", .other),
  ("mandatory script verify flag failed", .other),
  ("bad txns too many sigops", .other),
  ("disabled opcode", .other),
  ("txn already in mempool", .inMempool),
  ("missing inputs", .other),
  ("bad txns oversize", .other),
  ("coinbase", .other),
  ("version", .other),
  ("scriptpubkey", .other),
  ("bare multisig", .other),
  ("scriptsig not pushonly", .other),
  ("scriptsig size", .other),
  ("tx size", .other),
  ("dust", .other),
  ("multi op return", .other),
  ("non final", .other),
  ("non BIP68 final", .other),
  ("txn same nonwitness data in mempool", .other),
  ("non mandatory script verify flag", .other)
]

/-- `chain.Bitcoind28ErrMap` (keys in source order; Go iterates the map in random order). -/
def bitcoind28ErrMap : List (String × Class) := [
  ("transaction outputs already in utxo set", .alreadyConfirmed)
]

/-- `chain.BtcdErrMap` (keys in source order; Go iterates the map in random order). -/
def btcdErrMap : List (String × Class) := [
  ("replacement transaction has an insufficient fee rate", .other),
  ("replacement transaction has an insufficient absolute fee", .other),
  ("replacement transaction evicts more transactions than permitted", .other),
  ("replacement transaction spends new unconfirmed input", .other),
  ("replacement transaction spends parent transaction", .other),
  ("output already spent in mempool", .other),
  ("transaction has no outputs", .other),
  ("transaction has no inputs", .other),
  ("transaction contains duplicate inputs", .other),
  ("transaction input refers to previous output that is null", .other),
  ("fees which is under the required amount", .other),
  ("has insufficient priority", .other),
  ("has been rejected by the rate limiter due to low fees", .other),
  ("transaction output has negative value", .other),
  ("transaction output value is higher than max allowed value", .other),
  ("total value of all transaction outputs exceeds max allowed value", .other),
  ("sigop cost is too hight", .other),
  ("database contains entry for spent tx output", .alreadyKnown),
  ("transaction already exists in blockchain", .alreadyConfirmed),
  ("already have transaction in mempool", .inMempool),
  ("either does not exist or has already been spent", .other),
  ("orphan transaction", .other),
  ("serialized transaction is too big", .other),
  ("transaction is an invalid coinbase", .other),
  ("transaction version", .other),
  ("non-standard script form", .other),
  ("has a non-standard input", .other),
  ("milti-signature script", .other),
  ("signature script is not push only", .other),
  ("signature script size is larger than max allowed", .other),
  ("weight of transaction is larger than max allowed", .other),
  ("payment is dust", .other),
  ("more than one transaction output in a nulldata script", .other),
  ("transaction is not finalized", .other),
  ("tried to spend coinbase transaction output", .other),
  ("transaction's sequence locks on inputs not met", .other),
  ("missing-inputs", .other),
  ("max-fee-exceeded", .other)
]

/-- `chain.BtcdErrMapPre2402` (keys in source order; Go iterates the map in random order). -/
def btcdErrMapPre2402 : List (String × Class) := [
  ("is higher than max allowed value", .other),
  ("already spent by transaction", .other),
  ("evicts more transactions than permitted", .other),
  ("spends parent transaction", .other),
  ("has an insufficient fee rate", .other),
  ("has an insufficient absolute fee", .other),
  ("already have transaction", .inMempool),
  ("is an individual coinbase", .other),
  ("transaction already exists", .alreadyConfirmed),
  ("is larger than max allowed weight of", .other),
  ("bytes is larger than max allowed size of", .other),
  ("is dust", .other)
]

/-- `matchErrStr`: dashes become spaces, case is ignored, substring test. -/
def normalize (s : String) : String := (s.replace "-" " ").toLower

def matchErrStr (err pat : String) : Bool :=
  ((normalize err).splitOn (normalize pat)).length > 1

def firstMatch (err : String) (table : List (String × Class)) : Option Class :=
  (table.find? fun p => matchErrStr err p.1).map (·.2)

inductive Backend | bitcoind | btcd
deriving DecidableEq, Repr

/-- `MapRPCErr`: bitcoind client = sentinel strings in order, then the v28 map; btcd/neutrino client = `BtcdErrMap`, then
`BtcdErrMapPre2402`; no match = `ErrUndefined` wrapper (class `other`).  Where several keys of one Go map match, Go's
choice is not determined; the model takes the first in source order (all such overlaps in the tables have one class). -/
def classify (b : Backend) (err : String) : Class :=
  match b with
  | .bitcoind =>
    match firstMatch err bitcoindTable with
    | some c => c
    | none => (firstMatch err bitcoind28ErrMap).getD .other
  | .btcd =>
    match firstMatch err btcdErrMap with
    | some c => c
    | none => (firstMatch err btcdErrMapPre2402).getD .other

/-! ## publishTransaction / reliablyPublishTransaction -/

/-- What the backend side does to one hand-over attempt. -/
inductive Answer
  | accepted
  | inMempool
  | alreadyKnown
  | alreadyConfirmed
  | rejected
  /-- `NotifyReceived` fails (only possible in `reliablyPublishTransaction`) -/
  | notifyFailed
deriving DecidableEq, Repr

def Answer.ofClass : Class → Answer
  | .inMempool => .inMempool
  | .alreadyKnown => .alreadyKnown
  | .alreadyConfirmed => .alreadyConfirmed
  | .other => .rejected

/-- `publishTransaction`: `SendRawTransaction`, then the `switch` on the mapped error. Returns the store and whether the
call returned `nil` error. (`notifyFailed` cannot occur here; it is treated like a rejection.) -/
def publishTransaction (s : Store) (id : Nat) (ans : Answer) : Store × Bool :=
  match ans with
  | .accepted => (s, true)
  | .inMempool => (s, true)
  | .alreadyKnown => (removeWithDescendants s id, true)
  | .alreadyConfirmed => (removeWithDescendants s id, true)
  | .rejected => (removeWithDescendants s id, false)
  | .notifyFailed => (removeWithDescendants s id, false)

/-- `reliablyPublishTransaction` (current tree): record first, `NotifyReceived`, then `publishTransaction`. -/
def publish (s : Store) (tx : UTx) (ans : Answer) : Store × Bool :=
  let s1 := insert s tx
  match ans with
  | .notifyFailed => (removeWithDescendants s1 tx.id, false)     -- fix fd54ea7
  | a => publishTransaction s1 tx.id a

/-- The externally visible steps of one `reliablyPublishTransaction` call, in the order the Go code performs them. -/
inductive Effect
  /-- `addRelevantTx` inside the first `walletdb.Update` -/
  | record
  /-- `chainClient.NotifyReceived(ourAddrs)`; `ok = false`: it returned an error -/
  | subscribe (ok : Bool)
  /-- `chainClient.SendRawTransaction` (inside `publishTransaction`) -/
  | sendRaw
  /-- `RemoveUnminedTx` (the tx and its unconfirmed descendants) -/
  | forget
deriving DecidableEq, Repr

/-- Order of effects of `reliablyPublishTransaction` (current tree): record → `NotifyReceived` → (only if that
succeeded) `SendRawTransaction` → roll-back if the hand-over failed.  In particular nothing is handed to the backend
before the subscription succeeded, so the roll-back of a failed subscription never forgets a published transaction. -/
def publishEffects : Answer → List Effect
  | .notifyFailed => [.record, .subscribe false, .forget]
  | .accepted => [.record, .subscribe true, .sendRaw]
  | .inMempool => [.record, .subscribe true, .sendRaw]
  | .alreadyKnown => [.record, .subscribe true, .sendRaw, .forget]
  | .alreadyConfirmed => [.record, .subscribe true, .sendRaw, .forget]
  | .rejected => [.record, .subscribe true, .sendRaw, .forget]

def applyEffect (tx : UTx) (s : Store) : Effect → Store
  | .record => insert s tx
  | .forget => removeWithDescendants s tx.id
  | .subscribe _ => s
  | .sendRaw => s

def runEffects (tx : UTx) (s : Store) (es : List Effect) : Store := es.foldl (applyEffect tx) s

/-- number of `SendRawTransaction` calls the backend sees -/
def sendCount (es : List Effect) : Nat := (es.filter (· == .sendRaw)).length

/-- `reliablyPublishTransaction` before fix fd54ea7 (finding F10): the error is returned, the record stays. -/
def publishUnfixed (s : Store) (tx : UTx) (ans : Answer) : Store × Bool :=
  let s1 := insert s tx
  match ans with
  | .notifyFailed => (s1, false)
  | a => publishTransaction s1 tx.id a

/-! ## resendUnminedTxs -/

/-- every parent of `u` that is itself unconfirmed in `U` has been emitted -/
def ready (U : List UTx) (done : List Nat) (u : UTx) : Bool :=
  u.ins.all fun i => done.contains i.1 || !(U.any (·.id == i.1))

def sortStep (U : List UTx) (out : List UTx) : List UTx :=
  out ++ U.filter fun u => !((out.map (·.id)).contains u.id) && ready U (out.map (·.id)) u

def sortLoop (U : List UTx) : Nat → List UTx → List UTx
  | 0, out => out
  | n + 1, out => sortLoop U n (sortStep U out)

/-- `UnminedTxs` = `DependencySort` of the unconfirmed records (layer by layer; the order inside a layer is Go map
order in the real code and irrelevant for the property). -/
def dependencySort (U : List UTx) : List UTx := sortLoop U U.length []

def resendList (s : Store) : List UTx := dependencySort s.unmined

/-- `resendUnminedTxs`: the list is read once, then each transaction goes through `publishTransaction` (even if an
earlier rejection already removed it). Returns the final store and the ids offered, in order. -/
def resendLoop (answers : Nat → Answer) : List UTx → Store → List Nat → Store × List Nat
  | [], s, sent => (s, sent)
  | u :: us, s, sent => resendLoop answers us (publishTransaction s u.id (answers u.id)).1 (sent ++ [u.id])

def resend (s : Store) (answers : Nat → Answer) : Store × List Nat :=
  resendLoop answers (resendList s) s []

/-- Two `RescanFinished` notifications, the second arriving while the re-broadcast goroutine started by the first is
still blocked in its first `SendRawTransaction`: `rescanProgressHandler` starts `go w.resendUnminedTxs()`
unconditionally for each, so two goroutines read `UnminedTxs` from the same (still untouched) store and each offers
its whole list.  Removals are idempotent and `publishTransaction` never inserts, so the store after any interleaving
is the one after running the two loops one after the other; the ids are reported per goroutine. -/
def resendTwice (s : Store) (answers : Nat → Answer) : Store × List Nat × List Nat :=
  let l := resendList s
  let r1 := resendLoop answers l s []
  let r2 := resendLoop answers l r1.1 []
  (r2.1, r1.2, r2.2)

end Publish
